// watch.rs — a watchdog for the in-process profiles. The command runs in a worker
// thread; every event of a case is announced before it is executed. If nothing is
// announced for STALL seconds the request being executed never came back (a loop
// in the crate under test): the outputs collected so far, the trace of the case
// in progress and a HANG observation are written, and the process exits.
use std::sync::atomic::{AtomicBool, AtomicU64, Ordering};
use std::sync::Mutex;
use std::time::{Duration, Instant};

pub struct Out {
    pub trace: String,
    pub obs: String,
}

pub static DONE: Mutex<Out> = Mutex::new(Out { trace: String::new(), obs: String::new() });
static PARTIAL: Mutex<Out> = Mutex::new(Out { trace: String::new(), obs: String::new() });
static BEAT: AtomicU64 = AtomicU64::new(0);
static ARMED: AtomicBool = AtomicBool::new(false);

/// The case in progress: its trace and observations so far, and the trace line of
/// the event about to be executed.
pub fn about_to(trace: &str, obs: &str, pending: &str) {
    let mut p = PARTIAL.lock().unwrap();
    p.trace.clear();
    p.trace.push_str(trace);
    p.trace.push_str(pending);
    p.obs.clear();
    p.obs.push_str(obs);
    BEAT.fetch_add(1, Ordering::SeqCst);
    ARMED.store(true, Ordering::SeqCst);
}

/// The case is over (its output has been moved to DONE or returned to the caller).
pub fn case_done() {
    let mut p = PARTIAL.lock().unwrap();
    p.trace.clear();
    p.obs.clear();
    BEAT.fetch_add(1, Ordering::SeqCst);
    ARMED.store(false, Ordering::SeqCst);
}

/// Runs `body` in a worker thread; returns normally when it finishes. On a stall,
/// writes what there is to `trace_path` / `obs_path` and exits the process.
pub fn guard<F: FnOnce() + Send + 'static>(stall: Duration, trace_path: Option<String>, obs_path: Option<String>, body: F) {
    let h = std::thread::spawn(body);
    let mut last = BEAT.load(Ordering::SeqCst);
    let mut since = Instant::now();
    loop {
        if h.is_finished() {
            if h.join().is_err() {
                std::process::exit(101);
            }
            return;
        }
        std::thread::sleep(Duration::from_millis(20));
        let b = BEAT.load(Ordering::SeqCst);
        if b != last || !ARMED.load(Ordering::SeqCst) {
            last = b;
            since = Instant::now();
            continue;
        }
        if since.elapsed() > stall {
            let done = DONE.lock().unwrap();
            let part = PARTIAL.lock().unwrap();
            if let (Some(tp), Some(op)) = (&trace_path, &obs_path) {
                let _ = std::fs::write(tp, format!("{}{}", done.trace, part.trace));
                let _ = std::fs::write(op, format!("{}{}HANG request_did_not_return_within_{}s\n", done.obs, part.obs, stall.as_secs()));
            }
            eprintln!("harness: a request did not return within {} s; outputs written, giving up", stall.as_secs());
            std::process::exit(0);
        }
    }
}

// ---- the schedule-driven profiles (conc, pol): commands also run outside the scheduler
// (the prelude of a case, the one-at-a-time orders of the monitors). Every such command,
// every case start and every granted step is a beat; when none comes for `stall` the
// command in progress never came back: what was collected, the case in progress and a
// HANG / STUCK observation are written and the process exits.
pub struct Snap {
    pub trace: String,
    pub obs: String,
    pub monitor: String,
    pub case_id: String,
    pub case_trace: String,
}

pub static SNAP: Mutex<Snap> = Mutex::new(Snap { trace: String::new(), obs: String::new(), monitor: String::new(), case_id: String::new(), case_trace: String::new() });
static BEAT2: AtomicU64 = AtomicU64::new(0);

pub fn beat() {
    BEAT2.fetch_add(1, Ordering::SeqCst);
}

/// a case starts: everything collected so far, and the trace lines that identify the case
pub fn case_start(trace: &str, obs: &str, monitor: &str, id: &str, case_trace: &str) {
    let mut s = SNAP.lock().unwrap();
    s.trace.clear();
    s.trace.push_str(trace);
    s.obs.clear();
    s.obs.push_str(obs);
    s.monitor.clear();
    s.monitor.push_str(monitor);
    s.case_id.clear();
    s.case_id.push_str(id);
    s.case_trace.clear();
    s.case_trace.push_str(case_trace);
    beat();
}

pub fn deadman<F: FnOnce() + Send + 'static>(stall: Duration, trace_path: String, obs_path: String, monitor_path: Option<String>, body: F) {
    let h = std::thread::spawn(body);
    let mut last = BEAT2.load(Ordering::SeqCst);
    let mut since = Instant::now();
    loop {
        if h.is_finished() {
            if h.join().is_err() {
                std::process::exit(101);
            }
            return;
        }
        std::thread::sleep(Duration::from_millis(50));
        let b = BEAT2.load(Ordering::SeqCst);
        if b != last {
            last = b;
            since = Instant::now();
            continue;
        }
        if since.elapsed() > stall {
            let s = SNAP.lock().unwrap();
            let _ = std::fs::write(&trace_path, format!("{}{}", s.trace, s.case_trace));
            let _ = std::fs::write(&obs_path, format!("{}CASE {}\nHANG command_did_not_return_within_{}s\n", s.obs, s.case_id, stall.as_secs()));
            if let Some(mp) = &monitor_path {
                let _ = std::fs::write(mp, format!("{}STUCK {} command_did_not_return_within_{}s\n", s.monitor, s.case_id, stall.as_secs()));
            }
            eprintln!("harness: a command of case {} did not return within {} s; outputs written, giving up", s.case_id, stall.as_secs());
            std::process::exit(0);
        }
    }
}
