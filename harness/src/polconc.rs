// polconc.rs — the random eviction policy under controlled concurrency (C14/C15).
// Real threads run memcache commands on MemcStore -> OuterSpy -> RandomPolicy ->
// ScanSpy -> MemoryStore. The cfg(memcrs_verif) hooks make every map call and every
// access to the policy's usage counter a yield point; OuterSpy adds one before and
// one after each Cache operation, so that the scheduler's steps are, one for one,
// the steps of Model/PolConc.v. The Cache operations each client actually issued,
// the keys each scan of the map accepted and the schedule are written to the trace
// and replayed on the model. An independent monitor checks at quiescence that the
// accounted usage equals the bytes stored, and the bound of the property.
use crate::conc::{err_code, exec_memc, field, install_hook, COp, Sched, TID};
use crate::gen::{hex, op as opc, Rng};
use crate::seq::Clock;
use bytes::Bytes;
use memcrs::cache::cache::{
    impl_details::CacheImplDetails, Cache, CacheMetaData, CachePredicate, CacheReadOnlyView, KeyType, Record,
    RemoveIfResult, SetStatus,
};
use memcrs::cache::error::Result as CacheResult;
use memcrs::memcache::random_policy::RandomPolicy;
use memcrs::memcache::store::MemcStore;
use memcrs::memory_store::store::MemoryStore;
use std::fmt::Write as _;
use std::sync::atomic::{AtomicU64, Ordering};
use std::sync::{Arc, Mutex};

/// Between RandomPolicy and MemoryStore: records, per scan of the map, the keys the
/// predicate accepted (what the random generator and the iteration order decided).
pub struct ScanSpy {
    pub inner: Arc<MemoryStore>,
    pub scans: Arc<Mutex<Vec<(Option<usize>, Vec<Vec<u8>>)>>>,
}
impl CacheImplDetails for ScanSpy {
    fn get_by_key(&self, key: &KeyType) -> CacheResult<Record> {
        self.inner.get_by_key(key)
    }
    fn check_if_expired(&self, key: &KeyType, record: &Record) -> Option<usize> {
        self.inner.check_if_expired(key, record)
    }
}
impl Cache for ScanSpy {
    fn get(&self, key: &KeyType) -> CacheResult<Record> {
        self.inner.get(key)
    }
    fn set(&self, key: KeyType, record: Record) -> CacheResult<SetStatus> {
        self.inner.set(key, record)
    }
    fn delete(&self, key: KeyType, header: CacheMetaData) -> CacheResult<Record> {
        self.inner.delete(key, header)
    }
    fn flush(&self, header: CacheMetaData) {
        self.inner.flush(header)
    }
    fn len(&self) -> usize {
        self.inner.len()
    }
    fn is_empty(&self) -> bool {
        self.inner.is_empty()
    }
    fn as_read_only(&self) -> Box<dyn CacheReadOnlyView> {
        self.inner.as_read_only()
    }
    fn remove_if(&self, f: &mut CachePredicate) -> RemoveIfResult {
        // the alias makes the predicate 'static; the wrapper only lives for this call
        let f_static: &'static mut CachePredicate = unsafe { std::mem::transmute(f) };
        let accepted: Arc<Mutex<Vec<Vec<u8>>>> = Arc::new(Mutex::new(Vec::new()));
        let acc2 = accepted.clone();
        let r = self.inner.remove_if(&mut move |k: &KeyType, r: &Record| {
            let a = f_static(k, r);
            if a {
                acc2.lock().unwrap().push(k.to_vec());
            }
            a
        });
        // recorded per client; the global order of the scans is that of the scheduler's
        // "iter" steps
        let keys = accepted.lock().unwrap().clone();
        self.scans.lock().unwrap().push((TID.with(|t| t.get()), keys));
        r
    }
    fn remove(&self, key: &KeyType) -> Option<(KeyType, Record)> {
        self.inner.remove(key)
    }
}

/// Between MemcStore and RandomPolicy: a yield point before and after every Cache
/// operation of a scheduled client, and the log of what each client issued.
pub struct OuterSpy {
    pub policy: Arc<RandomPolicy>,
    pub sched: Mutex<Option<Arc<Sched>>>,
    pub log: Mutex<Vec<Vec<(String, String)>>>,
}
impl OuterSpy {
    fn around<T>(&self, op: String, f: impl FnOnce() -> T, show: impl FnOnce(&T) -> String) -> T {
        let tid = TID.with(|t| t.get());
        let sched = self.sched.lock().unwrap().clone();
        if let (Some(i), Some(s)) = (tid, &sched) {
            s.yield_here(i, "start");
            let r = f();
            s.yield_here(i, "return");
            let shown = show(&r);
            self.log.lock().unwrap()[i].push((op, shown));
            r
        } else {
            f()
        }
    }
}
fn show_rec(k: &[u8], r: &Record) -> String {
    let d = format!("{:?}", r);
    let line = crate::seq::record_line(k, &d);
    let p: Vec<&str> = line.split(' ').collect();
    format!("hit:{}:{}:{}", p[2], field(&d, "flags"), field(&d, "cas"))
}
impl CacheImplDetails for OuterSpy {
    fn get_by_key(&self, key: &KeyType) -> CacheResult<Record> {
        self.policy.get_by_key(key)
    }
    fn check_if_expired(&self, key: &KeyType, record: &Record) -> Option<usize> {
        self.policy.check_if_expired(key, record)
    }
}
impl Cache for OuterSpy {
    fn get(&self, key: &KeyType) -> CacheResult<Record> {
        let k = key.to_vec();
        self.around(format!("get:{}", hex(&k)), || self.policy.get(key), |r| match r {
            Ok(rec) => show_rec(&k, rec),
            Err(e) => format!("err:{}", err_code(e)),
        })
    }
    fn set(&self, key: KeyType, record: Record) -> CacheResult<SetStatus> {
        let d = format!("{:?}", record);
        let line = crate::seq::record_line(&key, &d);
        let p: Vec<&str> = line.split(' ').collect();
        let op = format!("set:{}:{}:{}:{}:{}", hex(&key), p[2], field(&d, "flags"), field(&d, "time_to_live"), field(&d, "cas"));
        self.around(op, || self.policy.set(key, record), |r| match r {
            Ok(s) => format!("ok:{}", s.cas),
            Err(e) => format!("err:{}", err_code(e)),
        })
    }
    fn delete(&self, key: KeyType, header: CacheMetaData) -> CacheResult<Record> {
        let d = format!("{:?}", header);
        let op = format!("del:{}:{}", hex(&key), field(&d, "cas"));
        self.around(op, || self.policy.delete(key, header), |r| match r {
            Ok(_) => "ok".to_string(),
            Err(e) => format!("err:{}", err_code(e)),
        })
    }
    fn flush(&self, header: CacheMetaData) {
        let op = format!("flush:{}", header.get_expiration());
        self.around(op, || self.policy.flush(header), |_| "ok".to_string())
    }
    fn len(&self) -> usize {
        self.policy.len()
    }
    fn is_empty(&self) -> bool {
        self.policy.is_empty()
    }
    fn as_read_only(&self) -> Box<dyn CacheReadOnlyView> {
        self.policy.as_read_only()
    }
    fn remove_if(&self, f: &mut CachePredicate) -> RemoveIfResult {
        self.policy.remove_if(f)
    }
    fn remove(&self, key: &KeyType) -> Option<(KeyType, Record)> {
        self.policy.remove(key)
    }
}

pub struct PolSys {
    pub clock: Arc<Clock>,
    pub inner: Arc<MemoryStore>,
    pub scans: Arc<Mutex<Vec<(Option<usize>, Vec<Vec<u8>>)>>>,
    pub policy: Arc<RandomPolicy>,
    pub outer: Arc<OuterSpy>,
    pub memc: Arc<MemcStore>,
    pub limit: u64,
}

impl PolSys {
    pub fn new(limit: u64, nthreads: usize) -> PolSys {
        let clock = Arc::new(Clock(AtomicU64::new(0)));
        let inner = Arc::new(MemoryStore::new(clock.clone()));
        let scans = Arc::new(Mutex::new(Vec::new()));
        let spy = Arc::new(ScanSpy { inner: inner.clone(), scans: scans.clone() });
        let policy = Arc::new(RandomPolicy::new(spy, limit));
        let outer = Arc::new(OuterSpy { policy: policy.clone(), sched: Mutex::new(None), log: Mutex::new(vec![Vec::new(); nthreads]) });
        let memc = Arc::new(MemcStore::new(outer.clone()));
        PolSys { clock, inner, scans, policy, outer, memc, limit }
    }
    /// bytes actually stored, and the sorted dump
    pub fn dump(&self) -> (u64, String) {
        let log: Arc<Mutex<Vec<(Vec<u8>, String, u64)>>> = Arc::new(Mutex::new(Vec::new()));
        let l2 = log.clone();
        self.inner.remove_if(&mut move |k: &KeyType, r: &Record| {
            l2.lock().unwrap().push((k.to_vec(), format!("{:?}", r), r.len() as u64));
            false
        });
        let g = log.lock().unwrap();
        let total: u64 = g.iter().map(|x| x.2).sum();
        let mut lines: Vec<String> = g.iter().map(|(k, d, _)| crate::seq::record_line(k, d)).collect();
        lines.sort();
        let mut out = String::new();
        for l in lines {
            out.push_str(&l);
            out.push('\n');
        }
        (total, out)
    }
    #[cfg(memcrs_verif)]
    pub fn usage(&self) -> u64 {
        self.policy.verif_memory_usage()
    }
    #[cfg(not(memcrs_verif))]
    pub fn usage(&self) -> u64 {
        0
    }
}

pub struct PolCase {
    pub id: String,
    pub limit: u64,
    pub prelude: Vec<COp>,
    pub tick: u64,
    pub threads: Vec<Vec<COp>>,
}

pub struct PolResult {
    pub sched: Vec<usize>,
    pub stuck: Option<(usize, String)>,
    pub base_ops: Vec<Vec<(String, String)>>,
    pub scans: Vec<Vec<Vec<u8>>>,
    pub usage: u64,
    pub total: u64,
    pub total0: u64,
    pub dump: String,
    /// eviction victims of each prelude command (the sequential model's oracle)
    pub prelude_victims: Vec<Vec<Vec<u8>>>,
    /// answers of the memcache-level commands, per client
    pub mresults: Vec<Vec<String>>,
}

pub fn run_case(case: &PolCase, choose: &mut dyn FnMut(&[usize]) -> usize) -> PolResult {
    let n = case.threads.len();
    let sys = Arc::new(PolSys::new(case.limit, n));
    let mut prelude_victims = Vec::new();
    for o in &case.prelude {
        // not under the scheduler: the deadman sees a command that never comes back
        crate::watch::beat();
        exec_memc(&sys.memc, o);
        let v: Vec<Vec<u8>> = std::mem::take(&mut *sys.scans.lock().unwrap()).into_iter().flat_map(|x| x.1).collect();
        prelude_victims.push(v);
    }
    sys.clock.0.fetch_add(case.tick, Ordering::SeqCst);
    sys.scans.lock().unwrap().clear();
    let (total0, _) = sys.dump();
    sys.scans.lock().unwrap().clear();
    let sched = Sched::new(n);
    *sys.outer.sched.lock().unwrap() = Some(sched.clone());
    install_hook(Some(sched.clone()));
    let mut handles = Vec::new();
    let mresults: Arc<Mutex<Vec<Vec<String>>>> = Arc::new(Mutex::new(vec![Vec::new(); n]));
    for (i, ops) in case.threads.iter().cloned().enumerate() {
        let sys = sys.clone();
        let sched = sched.clone();
        let mresults = mresults.clone();
        handles.push(std::thread::spawn(move || {
            TID.with(|t| t.set(Some(i)));
            // park before doing anything, so that the first Cache operation starts under the scheduler
            for o in ops {
                let r = exec_memc(&sys.memc, &o);
                mresults.lock().unwrap()[i].push(r);
            }
            TID.with(|t| t.set(None));
            sched.finish(i);
        }));
    }
    let crate::conc::Driven { order: _, stuck } = crate::conc::drive(&sched, n, choose);
    let order = crate::conc::model_schedule(&sched);
    install_hook(None);
    *sys.outer.sched.lock().unwrap() = None;
    if stuck.is_none() {
        for h in handles {
            let _ = h.join();
        }
    }
    // the scans in the order in which they happened: per client in its own order, across
    // clients in the order of the steps that performed them
    let mut per: Vec<std::collections::VecDeque<Vec<Vec<u8>>>> = vec![Default::default(); n];
    for (t, ks) in sys.scans.lock().unwrap().iter() {
        if let Some(i) = t {
            per[*i].push_back(ks.clone());
        }
    }
    let mut scans = Vec::new();
    for (i, what) in sched.st.lock().unwrap().steps.iter() {
        if *what == "iter" {
            if let Some(ks) = per[*i].pop_front() {
                scans.push(ks);
            }
        }
    }
    let usage = sys.usage();
    let (total, dump) = if stuck.is_none() { sys.dump() } else { (0, String::new()) };
    let base_ops = sys.outer.log.lock().unwrap().clone();
    let mres = mresults.lock().unwrap().clone();
    PolResult { sched: order, stuck, base_ops, scans, usage, total, total0, dump, prelude_victims, mresults: mres }
}

/// content without CAS and timestamps
fn content_of(dump: &str) -> Vec<String> {
    dump.lines()
        .map(|l| {
            let p: Vec<&str> = l.split(' ').collect();
            format!("{} {} {} {}", p[1], p[2], p[3], p[5])
        })
        .collect()
}

/// Every one-at-a-time order of the clients' commands on a fresh store behind the policy:
/// (answers, content) of each, or None when some order ran a scan of the map (an eviction or
/// an immediate flush: what those remove is the random generator's choice, no order is
/// comparable then).
fn sequential_outcomes(case: &PolCase) -> Option<Vec<(Vec<Vec<String>>, Vec<String>)>> {
    fn rec(case: &PolCase, pos: &mut Vec<usize>, order: &mut Vec<usize>, out: &mut Vec<Vec<usize>>) {
        let mut any = false;
        for t in 0..case.threads.len() {
            if pos[t] < case.threads[t].len() {
                any = true;
                pos[t] += 1;
                order.push(t);
                rec(case, pos, order, out);
                order.pop();
                pos[t] -= 1;
            }
        }
        if !any {
            out.push(order.clone());
        }
    }
    let mut orders = Vec::new();
    rec(case, &mut vec![0; case.threads.len()], &mut Vec::new(), &mut orders);
    let mut res = Vec::new();
    for ord in orders {
        let sys = PolSys::new(case.limit, case.threads.len());
        for o in &case.prelude {
            crate::watch::beat();
            exec_memc(&sys.memc, o);
        }
        if !sys.scans.lock().unwrap().is_empty() {
            return None; // the prelude evicted: this run starts from another content
        }
        sys.clock.0.fetch_add(case.tick, Ordering::SeqCst);
        let mut pos = vec![0; case.threads.len()];
        let mut results = vec![Vec::new(); case.threads.len()];
        for t in ord {
            crate::watch::beat();
            let r = exec_memc(&sys.memc, &case.threads[t][pos[t]]);
            results[t].push(crate::conc::strip(&r));
            pos[t] += 1;
        }
        if !sys.scans.lock().unwrap().is_empty() {
            return None;
        }
        let (_, dump) = sys.dump();
        res.push((results, content_of(&dump)));
    }
    Some(res)
}

const PKEYS: &[&[u8]] = &[b"k", b"j", b"m"];

pub fn gen_case(rng: &mut Rng, id: String) -> PolCase {
    // three kinds of window: anything; expired items being collected by several clients
    // at once; several clients overwriting and deleting the same few keys
    let kind = rng.below(3);
    let limit = *rng.pick(&[100u64, 150, 250, 1000]);
    let nkeys = if kind == 0 { 3 } else { 1 + rng.below(2) as usize };
    let mut prelude = Vec::new();
    let npre = if kind == 0 { rng.below(4) } else { 1 + rng.below(3) };
    for _ in 0..npre {
        let k = PKEYS[rng.below(nkeys as u64) as usize].to_vec();
        let n = rng.below(60) as usize;
        let v: Vec<u8> = if rng.chance(1, 4) { b"7".to_vec() } else { vec![b'p'; n] };
        let ttl = if kind == 1 { 2 } else { *rng.pick(&[0u32, 0, 2]) };
        prelude.push(COp::Set(k, v, rng.below(4) as u32, ttl, 0));
    }
    let tick = if kind == 1 { 5 } else { *rng.pick(&[0u64, 0, 1, 5]) };
    let nthreads = 2 + rng.below(2) as usize;
    let mut threads = Vec::new();
    for _ in 0..nthreads {
        let nops = 1 + rng.below(3) as usize;
        let mut ops = Vec::new();
        for _ in 0..nops {
            let key = PKEYS[rng.below(nkeys as u64) as usize].to_vec();
            let n = rng.below(120) as usize;
            let val: Vec<u8> = if rng.chance(1, 5) { b"41".to_vec() } else { vec![b'a' + rng.below(20) as u8; n] };
            let ttl = *rng.pick(&[0u32, 0, 3]);
            let cas = if rng.chance(1, 5) { 1 + rng.below(4) } else { 0 };
            let r = match kind {
                1 => *rng.pick(&[4u64, 4, 4, 5, 8, 9, 10, 11, 0, 6]),
                2 => *rng.pick(&[0u64, 0, 0, 1, 2, 6, 6, 7, 4, 8]),
                _ => rng.below(12),
            };
            ops.push(match r {
                0 | 1 | 2 | 3 => COp::Set(key, val, rng.below(4) as u32, ttl, cas),
                4 | 5 => COp::Get(key),
                6 => COp::Del(key, cas),
                7 => COp::Flush(if rng.chance(1, 2) { 0 } else { 2 }),
                8 => COp::Append(key, cas, val),
                9 => COp::Add(key, val, 2, ttl, 0),
                10 => COp::Replace(key, val, 3, ttl, cas),
                _ => COp::Delta(rng.chance(1, 2), key, 0, ttl, 1 + rng.below(3), 40),
            });
        }
        threads.push(ops);
    }
    PolCase { id, limit, prelude, tick, threads }
}

/// The schedule under which the pre-fix accounting lost 990 bytes: two clients
/// overwrite one key, each having looked up the size it replaces before either stored.
pub fn witnesses() -> Vec<(PolCase, Vec<usize>)> {
    let k = b"k".to_vec();
    let v = vec![(
        PolCase {
            id: "w-overwrite-overwrite".into(),
            limit: 100_000,
            prelude: vec![COp::Set(k.clone(), vec![b'o'; 1000], 0, 0, 0)],
            tick: 0,
            threads: vec![vec![COp::Set(k.clone(), vec![b'a'; 10], 0, 0, 0)], vec![COp::Set(k.clone(), vec![b'b'; 1000], 0, 0, 0)]],
        },
        vec![0, 0, 0, 1, 1, 1, 0, 0, 0, 0, 1, 1, 1, 1],
    ), (
        // a delete carrying the item's CAS, a store by another client inside it: with an atomic
        // compare-and-remove either the delete comes first (and the store stays) or the store does
        // (and the delete is refused)
        PolCase {
            id: "w-casdelete-store".into(),
            limit: 100_000,
            prelude: vec![COp::Set(k.clone(), b"v1".to_vec(), 0, 0, 0)],
            tick: 0,
            threads: vec![vec![COp::Del(k.clone(), 1)], vec![COp::Set(k.clone(), b"v2".to_vec(), 0, 0, 0)]],
        },
        vec![0, 0, 1, 1, 1, 1, 1, 1, 1, 1, 1, 1, 1, 1, 0, 0, 0, 0, 0, 0],
    )];
    // a read-modify-write whose final store does not fit under the limit next to the copy it
    // replaces, and a retrieval by another client at every point inside it: the key exists
    // before and after and nobody deletes it — the retrieval finds it
    let mut v = v;
    for (name, rmw) in [
        ("append", COp::Append(k.clone(), 0, b"xxxxxxxxxx".to_vec())),
        ("replace", COp::Replace(k.clone(), vec![b'r'; 62], 3, 0, 0)),
        ("incr", COp::Delta(true, b"n".to_vec(), 0, 0, 1, 40)),
    ] {
        for split in 1..10usize {
            let mut sched = vec![0; split];
            sched.extend(vec![1; 8]);
            sched.extend(vec![0; 12]);
            v.push((
                PolCase {
                    id: format!("w-{}-under-pressure-{}", name, split),
                    limit: 120,
                    prelude: vec![COp::Set(k.clone(), vec![b'p'; 60], 0, 0, 0), COp::Set(b"n".to_vec(), b"7".to_vec(), 0, 0, 0)],
                    tick: 0,
                    threads: vec![vec![rmw.clone()], vec![COp::Get(if name == "incr" { b"n".to_vec() } else { k.clone() })]],
                },
                sched,
            ));
        }
    }
    // a delete that carries no CAS, a store by another client at every point inside it: such a
    // delete is never refused — it removes what is there when it comes, before or after the store
    for split in 1..7usize {
        let mut sched = vec![0; split];
        sched.extend(vec![1; 12]);
        sched.extend(vec![0; 12]);
        v.push((
            PolCase {
                id: format!("w-delete-store-{}", split),
                limit: 100_000,
                prelude: vec![COp::Set(k.clone(), b"v1".to_vec(), 0, 0, 0)],
                tick: 0,
                threads: vec![vec![COp::Del(k.clone(), 0)], vec![COp::Set(k.clone(), b"v2".to_vec(), 0, 0, 0)]],
            },
            sched,
        ));
    }
    // an item whose time has run out, two retrievals of it overlapping at every point: one of
    // them collects it, neither finds it
    for split in 1..6usize {
        let mut sched = vec![0; split];
        sched.extend(vec![1; 8]);
        sched.extend(vec![0; 8]);
        v.push((
            PolCase {
                id: format!("w-expired-get-get-{}", split),
                limit: 100_000,
                prelude: vec![COp::Set(b"n".to_vec(), b"7".to_vec(), 0, 5, 0)],
                tick: 10,
                threads: vec![vec![COp::Get(b"n".to_vec())], vec![COp::Get(b"n".to_vec())]],
            },
            sched,
        ));
    }
    v
}

pub fn parse_trace(text: &str) -> Vec<(PolCase, Vec<usize>)> {
    // replays re-run the memcache-level commands recorded in the MOPS lines
    let mut out: Vec<(PolCase, Vec<usize>)> = Vec::new();
    for line in text.lines() {
        let p: Vec<&str> = line.split(' ').collect();
        match p[0] {
            "CASE" => out.push((PolCase { id: p[1].to_string(), limit: p[3].parse().unwrap_or(1000), prelude: vec![], tick: 0, threads: vec![] }, vec![])),
            "C" => {
                let bytes = crate::gen::unhex(p[2]);
                let keylen = u16::from_be_bytes([bytes[2], bytes[3]]) as usize;
                let flags = u32::from_be_bytes([bytes[24], bytes[25], bytes[26], bytes[27]]);
                let ttl = u32::from_be_bytes([bytes[28], bytes[29], bytes[30], bytes[31]]);
                let key = bytes[32..32 + keylen].to_vec();
                let val = bytes[32 + keylen..].to_vec();
                let cas = u64::from_be_bytes([bytes[16], bytes[17], bytes[18], bytes[19], bytes[20], bytes[21], bytes[22], bytes[23]]);
                out.last_mut().unwrap().0.prelude.push(COp::Set(key, val, flags, ttl, cas));
            }
            "T" => out.last_mut().unwrap().0.tick = p[1].parse().unwrap(),
            "MOPS" => {
                let ops = if p.len() > 2 && !p[2].is_empty() { p[2].split('|').map(crate::conc::parse_op).collect() } else { vec![] };
                out.last_mut().unwrap().0.threads.push(ops);
            }
            "PRUN" => {
                if p[1] != "-" {
                    out.last_mut().unwrap().1 = p[1].split(',').map(|x| x.parse().unwrap()).collect();
                }
            }
            _ => {}
        }
    }
    out
}

pub fn run_cases(seed: u64, cases: usize, fixed: Vec<(PolCase, Vec<usize>)>, trace: &mut String, obs: &mut String, monitor: &mut String) -> (u64, u64) {
    let mut steps = 0u64;
    let nfixed = fixed.len();
    let mut fixed = fixed.into_iter();
    for c in 0..(cases + nfixed) {
        let mut rng = Rng::new(seed.wrapping_mul(9_000_011).wrapping_add(c as u64));
        let (case, fixed_sched) = match fixed.next() {
            Some((cs, sc)) => (cs, Some(sc)),
            None => (gen_case(&mut rng, format!("p-{}-{}", seed, c)), None),
        };
        {
            // what identifies the case, should one of its commands never return
            let mut head = format!("CASE {} 1048576 {}\n", case.id, case.limit);
            for o in case.prelude.iter() {
                if let COp::Set(k, v, f, t, c) = o {
                    let req = crate::gen::set_like(opc::SETQ, k, v, *f, *t).cas(*c);
                    let _ = writeln!(head, "O\nC 0 {}", hex(&req.bytes()));
                }
            }
            if case.tick > 0 {
                let _ = writeln!(head, "T {}", case.tick);
            }
            for (i, ops) in case.threads.iter().enumerate() {
                let enc: Vec<String> = ops.iter().map(|o| o.encode()).collect();
                let _ = writeln!(head, "MOPS {} {}", i, enc.join("|"));
            }
            crate::watch::case_start(trace, obs, monitor, &case.id, &head);
        }
        let mut srng = Rng::new(seed.wrapping_mul(733).wrapping_add(c as u64));
        let mut pos = 0;
        let res = run_case(&case, &mut |runnable| match &fixed_sched {
            Some(sc) if pos < sc.len() && runnable.contains(&sc[pos]) => {
                pos += 1;
                sc[pos - 1]
            }
            _ => {
                // runs of the same client make windows of different widths
                runnable[srng.below(runnable.len() as u64) as usize]
            }
        });
        steps += res.sched.len() as u64;
        let _ = writeln!(trace, "CASE {} 1048576 {}", case.id, case.limit);
        let _ = writeln!(obs, "CASE {}", case.id);
        for (pi, o) in case.prelude.iter().enumerate() {
            if let COp::Set(k, v, f, t, c) = o {
                let vs: Vec<String> = res.prelude_victims[pi].iter().map(|k| hex(k)).collect();
                if vs.is_empty() {
                    let _ = writeln!(trace, "O");
                } else {
                    let _ = writeln!(trace, "O {}", vs.join(","));
                }
                let req = crate::gen::set_like(opc::SETQ, k, v, *f, *t).cas(*c);
                let _ = writeln!(trace, "C 0 {}", hex(&req.bytes()));
                let _ = writeln!(obs, "S 0 0 0 0");
            }
        }
        if case.tick > 0 {
            let _ = writeln!(trace, "T {}", case.tick);
        }
        for (i, ops) in case.threads.iter().enumerate() {
            let enc: Vec<String> = ops.iter().map(|o| o.encode()).collect();
            let _ = writeln!(trace, "MOPS {} {}", i, enc.join("|"));
        }
        for (i, ops) in res.base_ops.iter().enumerate() {
            let enc: Vec<String> = ops.iter().map(|o| o.0.clone()).collect();
            let _ = writeln!(trace, "PTH {} {}", i, enc.join("|"));
        }
        let sc: Vec<String> = res.scans.iter().map(|ks| if ks.is_empty() { "-".to_string() } else { ks.iter().map(|k| hex(k)).collect::<Vec<_>>().join(",") }).collect();
        let _ = writeln!(trace, "PSCANS {}", if sc.is_empty() { "none".to_string() } else { sc.join(";") });
        let s: Vec<String> = res.sched.iter().map(|i| i.to_string()).collect();
        let _ = writeln!(trace, "PRUN {}", if s.is_empty() { "-".to_string() } else { s.join(",") });
        let _ = writeln!(trace, "D");
        if let Some((who, why)) = &res.stuck {
            let _ = writeln!(obs, "STUCK {} {}", who, why.replace(' ', "_"));
            let _ = writeln!(monitor, "STUCK {} {}", case.id, why.replace(' ', "_"));
            return (1, steps);
        }
        for (i, ops) in res.base_ops.iter().enumerate() {
            let r: Vec<String> = ops.iter().map(|o| o.1.clone()).collect();
            let _ = writeln!(obs, "PR {} {}", i, r.join(";"));
        }
        obs.push_str(&res.dump);
        let _ = writeln!(obs, "U {} {} {}", res.usage, case.tick, res.total);
        // the monitor, independent of the model: at quiescence the accounting is exact
        // and the bytes stored are within the limit plus the records written in the window
        if res.usage != res.total {
            let _ = writeln!(monitor, "ACCT {} usage_{}_stored_{}", case.id, res.usage, res.total);
        }
        let window: u64 = res.base_ops.iter().flatten().filter(|o| o.0.starts_with("set:")).map(|o| {
            let p: Vec<&str> = o.0.split(':').collect();
            24 + if p[2] == "-" { 0 } else { p[2].len() as u64 / 2 }
        }).sum();
        if res.total > std::cmp::max(case.limit, res.total0) + window {
            let _ = writeln!(monitor, "BOUND {} stored_{}_limit_{}_window_{}", case.id, res.total, case.limit, window);
        }
        // and, when neither the window nor any one-at-a-time order ran a scan of the map (no
        // eviction, no immediate flush: nothing random), the outcome must be that of some order
        // of the commands — except for the read-modify-write commands (known finding C04)
        // a key that is there before the window, never expires, and that no command of the
        // window deletes or flushes, with no eviction in the window: every retrieval finds it
        // (true of the read-modify-write commands as they are, too: they store, never remove)
        let removes = case.threads.iter().flatten().any(|o| matches!(o, COp::Del(..) | COp::Flush(_)));
        if res.scans.is_empty() && !removes && !res.prelude_victims.iter().any(|v| !v.is_empty()) {
            for (t, ops) in case.threads.iter().enumerate() {
                for (j, o) in ops.iter().enumerate() {
                    if let COp::Get(key) = o {
                        let there = case.prelude.iter().rev().find_map(|p| match p {
                            COp::Set(pk, _, _, ttl, _) if pk == key => Some(*ttl == 0),
                            _ => None,
                        }) == Some(true);
                        let answer = res.mresults.get(t).and_then(|r| r.get(j)).cloned().unwrap_or_default();
                        if there && answer.starts_with("err") {
                            let _ = writeln!(monitor, "VANISH {} base", case.id);
                        }
                    }
                }
            }
        }
        // a key that was only ever stored with a time to live that has run out when the window
        // opens, and that no command of the window stores to: no retrieval finds it, whatever
        // the others do meanwhile (collecting it, evicting it, deleting it)
        if case.tick > 0 {
            for (t, ops) in case.threads.iter().enumerate() {
                for (j, o) in ops.iter().enumerate() {
                    if let COp::Get(key) = o {
                        let stores: Vec<(u32, u64)> = case.prelude.iter().filter_map(|p| match p {
                            COp::Set(pk, _, _, ttl, c) if pk == key => Some((*ttl, *c)),
                            _ => None,
                        }).collect();
                        let all_run_out = !stores.is_empty()
                            && stores.iter().all(|(ttl, c)| *ttl > 0 && *ttl <= 2_592_000 && (*ttl as u64) < case.tick && *c == 0);
                        let written = case.threads.iter().flatten().any(|w| match w {
                            COp::Set(k, ..) | COp::Add(k, ..) | COp::Replace(k, ..) | COp::Append(k, ..) | COp::Prepend(k, ..) => k == key,
                            COp::Delta(_, k, ..) => k == key,
                            _ => false,
                        });
                        let answer = res.mresults.get(t).and_then(|r| r.get(j)).cloned().unwrap_or_default();
                        if all_run_out && !written && answer.starts_with("hit") {
                            let _ = writeln!(monitor, "GHOST {} base", case.id);
                        }
                    }
                }
            }
        }
        let rmw = case.threads.iter().flatten().any(|o| o.class() != "base");
        let total_ops: usize = case.threads.iter().map(|t| t.len()).sum();
        // what the prelude evicts is the random generator's choice too: a re-run starts elsewhere
        let prelude_evicted = res.prelude_victims.iter().any(|v| !v.is_empty());
        // an unconditional store reserves its CAS before it stores (two steps: the reservation is
        // an internal event of the specification, C03_linearizable); a CAS literal that equals a
        // value the counter issues inside the window can match such a reserved value, which no
        // order of whole commands reproduces. Literals are comparable when they are 0, a token of
        // the prelude, or far above the counter.
        let npre = case.prelude.len() as u64;
        let literal_in_window = case.threads.iter().flatten().any(|o| match o {
            COp::Set(_, _, _, _, c) | COp::Del(_, c) => *c > npre && *c < 900_000,
            _ => false,
        });
        if res.scans.is_empty() && !rmw && total_ops <= 7 && !prelude_evicted && !literal_in_window {
            if let Some(seqs) = sequential_outcomes(&case) {
                let got: Vec<Vec<String>> = res.mresults.iter().map(|v| v.iter().map(|r| crate::conc::strip(r)).collect()).collect();
                let content = content_of(&res.dump);
                if !seqs.iter().any(|(r, c)| *r == got && *c == content) {
                    let _ = writeln!(monitor, "NONLIN {} base", case.id);
                }
            }
        }
    }
    (0, steps)
}
