// gen.rs — deterministic PRNG, request builder, response parser.
#![allow(dead_code)]

#[derive(Clone)]
pub struct Rng(pub u64);

impl Rng {
    pub fn new(seed: u64) -> Rng {
        Rng(seed.wrapping_mul(0x9E3779B97F4A7C15) ^ 0xD1B54A32D192ED03)
    }
    pub fn next(&mut self) -> u64 {
        // SplitMix64
        self.0 = self.0.wrapping_add(0x9E3779B97F4A7C15);
        let mut z = self.0;
        z = (z ^ (z >> 30)).wrapping_mul(0xBF58476D1CE4E5B9);
        z = (z ^ (z >> 27)).wrapping_mul(0x94D049BB133111EB);
        z ^ (z >> 31)
    }
    pub fn below(&mut self, n: u64) -> u64 {
        if n == 0 {
            0
        } else {
            self.next() % n
        }
    }
    pub fn chance(&mut self, num: u64, den: u64) -> bool {
        self.below(den) < num
    }
    pub fn pick<'a, T>(&mut self, v: &'a [T]) -> &'a T {
        &v[self.below(v.len() as u64) as usize]
    }
    pub fn bytes(&mut self, n: usize) -> Vec<u8> {
        (0..n).map(|_| self.next() as u8).collect()
    }
}

pub fn hex(b: &[u8]) -> String {
    if b.is_empty() {
        return "-".to_string();
    }
    let mut s = String::with_capacity(b.len() * 2);
    for x in b {
        s.push_str(&format!("{:02x}", x));
    }
    s
}

pub fn unhex(s: &str) -> Vec<u8> {
    if s == "-" {
        return vec![];
    }
    let b = s.as_bytes();
    let v = |c: u8| -> u8 {
        match c {
            b'0'..=b'9' => c - b'0',
            b'a'..=b'f' => c - b'a' + 10,
            b'A'..=b'F' => c - b'A' + 10,
            _ => panic!("bad hex"),
        }
    };
    (0..b.len() / 2).map(|i| v(b[2 * i]) * 16 + v(b[2 * i + 1])).collect()
}

pub mod op {
    pub const GET: u8 = 0x00;
    pub const SET: u8 = 0x01;
    pub const ADD: u8 = 0x02;
    pub const REPLACE: u8 = 0x03;
    pub const DELETE: u8 = 0x04;
    pub const INCR: u8 = 0x05;
    pub const DECR: u8 = 0x06;
    pub const QUIT: u8 = 0x07;
    pub const FLUSH: u8 = 0x08;
    pub const GETQ: u8 = 0x09;
    pub const NOOP: u8 = 0x0a;
    pub const VERSION: u8 = 0x0b;
    pub const GETK: u8 = 0x0c;
    pub const GETKQ: u8 = 0x0d;
    pub const APPEND: u8 = 0x0e;
    pub const PREPEND: u8 = 0x0f;
    pub const STAT: u8 = 0x10;
    pub const SETQ: u8 = 0x11;
    pub const ADDQ: u8 = 0x12;
    pub const REPLACEQ: u8 = 0x13;
    pub const DELETEQ: u8 = 0x14;
    pub const INCRQ: u8 = 0x15;
    pub const DECRQ: u8 = 0x16;
    pub const QUITQ: u8 = 0x17;
    pub const FLUSHQ: u8 = 0x18;
    pub const APPENDQ: u8 = 0x19;
    pub const PREPENDQ: u8 = 0x1a;
    pub const TOUCH: u8 = 0x1c;
    pub const GAT: u8 = 0x1d;
    pub const GATQ: u8 = 0x1e;
    pub const SASL_LIST: u8 = 0x20;
    pub const SASL_AUTH: u8 = 0x21;
    pub const SASL_STEP: u8 = 0x22;
    pub const GATK: u8 = 0x23;
    pub const GATKQ: u8 = 0x24;
}

/// The quiet/loud twin of an opcode, if it has one.
pub fn twin(opcode: u8) -> Option<u8> {
    use op::*;
    Some(match opcode {
        GET => GETQ,
        GETQ => GET,
        GETK => GETKQ,
        GETKQ => GETK,
        SET => SETQ,
        SETQ => SET,
        ADD => ADDQ,
        ADDQ => ADD,
        REPLACE => REPLACEQ,
        REPLACEQ => REPLACE,
        DELETE => DELETEQ,
        DELETEQ => DELETE,
        INCR => INCRQ,
        INCRQ => INCR,
        DECR => DECRQ,
        DECRQ => DECR,
        FLUSH => FLUSHQ,
        FLUSHQ => FLUSH,
        APPEND => APPENDQ,
        APPENDQ => APPEND,
        PREPEND => PREPENDQ,
        PREPENDQ => PREPEND,
        _ => return None,
    })
}

#[derive(Clone, Debug)]
pub struct Req {
    pub magic: u8,
    pub opcode: u8,
    pub key: Vec<u8>,
    pub extras: Vec<u8>,
    pub value: Vec<u8>,
    pub dtype: u8,
    pub vbucket: u16,
    pub opaque: u32,
    pub cas: u64,
    pub keylen: Option<u16>,
    pub extlen: Option<u8>,
    pub bodylen: Option<u32>,
}

impl Req {
    pub fn new(opcode: u8) -> Req {
        Req {
            magic: 0x80,
            opcode,
            key: vec![],
            extras: vec![],
            value: vec![],
            dtype: 0,
            vbucket: 0,
            opaque: 0,
            cas: 0,
            keylen: None,
            extlen: None,
            bodylen: None,
        }
    }
    pub fn key(mut self, k: &[u8]) -> Req {
        self.key = k.to_vec();
        self
    }
    pub fn value(mut self, v: &[u8]) -> Req {
        self.value = v.to_vec();
        self
    }
    pub fn extras(mut self, e: &[u8]) -> Req {
        self.extras = e.to_vec();
        self
    }
    pub fn cas(mut self, c: u64) -> Req {
        self.cas = c;
        self
    }
    pub fn opaque(mut self, o: u32) -> Req {
        self.opaque = o;
        self
    }
    pub fn bytes(&self) -> Vec<u8> {
        let mut v = Vec::with_capacity(24 + self.key.len() + self.extras.len() + self.value.len());
        v.push(self.magic);
        v.push(self.opcode);
        let kl = self.keylen.unwrap_or(self.key.len() as u16);
        v.extend_from_slice(&kl.to_be_bytes());
        v.push(self.extlen.unwrap_or(self.extras.len() as u8));
        v.push(self.dtype);
        v.extend_from_slice(&self.vbucket.to_be_bytes());
        let bl = self
            .bodylen
            .unwrap_or((self.key.len() + self.extras.len() + self.value.len()) as u32);
        v.extend_from_slice(&bl.to_be_bytes());
        v.extend_from_slice(&self.opaque.to_be_bytes());
        v.extend_from_slice(&self.cas.to_be_bytes());
        v.extend_from_slice(&self.extras);
        v.extend_from_slice(&self.key);
        v.extend_from_slice(&self.value);
        v
    }
}

pub fn set_like(opcode: u8, key: &[u8], value: &[u8], flags: u32, exp: u32) -> Req {
    let mut e = flags.to_be_bytes().to_vec();
    e.extend_from_slice(&exp.to_be_bytes());
    Req::new(opcode).key(key).value(value).extras(&e)
}

pub fn delta(opcode: u8, key: &[u8], delta: u64, initial: u64, exp: u32) -> Req {
    let mut e = delta.to_be_bytes().to_vec();
    e.extend_from_slice(&initial.to_be_bytes());
    e.extend_from_slice(&exp.to_be_bytes());
    Req::new(opcode).key(key).extras(&e)
}

pub fn flush(opcode: u8, delay: Option<u32>) -> Req {
    match delay {
        Some(d) => Req::new(opcode).extras(&d.to_be_bytes()),
        None => Req::new(opcode),
    }
}

/// A parsed response frame (independent re-parse of the bytes the server wrote).
#[derive(Clone, Debug)]
pub struct Resp {
    pub magic: u8,
    pub opcode: u8,
    pub keylen: u16,
    pub extlen: u8,
    pub dtype: u8,
    pub status: u16,
    pub bodylen: u32,
    pub opaque: u32,
    pub cas: u64,
    pub body: Vec<u8>,
}

/// Parse one response from the front of `b`; returns the frame and bytes used.
pub fn parse_resp(b: &[u8]) -> Option<(Resp, usize)> {
    if b.len() < 24 {
        return None;
    }
    let bodylen = u32::from_be_bytes([b[8], b[9], b[10], b[11]]);
    let total = 24 + bodylen as usize;
    if b.len() < total {
        return None;
    }
    Some((
        Resp {
            magic: b[0],
            opcode: b[1],
            keylen: u16::from_be_bytes([b[2], b[3]]),
            extlen: b[4],
            dtype: b[5],
            status: u16::from_be_bytes([b[6], b[7]]),
            bodylen,
            opaque: u32::from_be_bytes([b[12], b[13], b[14], b[15]]),
            cas: u64::from_be_bytes([b[16], b[17], b[18], b[19], b[20], b[21], b[22], b[23]]),
            body: b[24..total].to_vec(),
        },
        total,
    ))
}
