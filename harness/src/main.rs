// verif-harness — drives the real memcrs crate for the correspondence checks.
mod cfgp;
mod conc;
mod conn;
mod gen;
mod limit;
mod mlimit;
mod polconc;
mod seq;
mod watch;

use std::collections::HashMap;
use std::fs;

fn arg<'a>(args: &'a [String], name: &str) -> Option<&'a str> {
    args.iter().position(|a| a == name).and_then(|i| args.get(i + 1)).map(|s| s.as_str())
}

/// a command of the schedule-driven profiles that has not come back after this long never will
const DEADMAN_SECS: u64 = 30;
const DEADMAN_REPLAY_SECS: u64 = 10;

fn main() {
    // panics inside the crate under test are caught; keep them quiet
    let quiet = std::env::args().nth(1).map(|c| c.starts_with("seq")).unwrap_or(false);
    std::panic::set_hook(Box::new(move |info| {
        if !quiet {
            eprintln!("harness panic: {}", info);
        }
    }));
    let args: Vec<String> = std::env::args().collect();
    let cmd = args.get(1).map(|s| s.as_str()).unwrap_or("");
    match cmd {
        "meta" => {
            let r = memcrs::cache::cache::Record::new(bytes::Bytes::new(), 0, 0, 0);
            println!("META_LEN {}", r.len());
            println!("VERIF_CFG {}", cfg!(memcrs_verif));
            println!("OVERFLOW_CHECKS {}", cfg!(debug_assertions));
        }
        "seq-gen" => {
            let seed: u64 = arg(&args, "--seed").unwrap_or("1").parse().unwrap();
            let cases: usize = arg(&args, "--cases").unwrap_or("10").parse().unwrap();
            let steps: usize = arg(&args, "--steps").unwrap_or("40").parse().unwrap();
            let flavor = arg(&args, "--flavor").unwrap_or("mix").to_string();
            let item_limit: u32 = arg(&args, "--item-limit").unwrap_or("1024").parse().unwrap();
            let mem_limit: Option<u64> = arg(&args, "--mem-limit").map(|s| s.parse().unwrap());
            let prefix = arg(&args, "--prefix").unwrap_or("g").to_string();
            let stall: u64 = arg(&args, "--stall").unwrap_or("20").parse().unwrap();
            let tpath = arg(&args, "--trace").expect("--trace").to_string();
            let opath = arg(&args, "--obs").expect("--obs").to_string();
            let spath = arg(&args, "--stats").map(|s| s.to_string());
            let (tp, op) = (tpath.clone(), opath.clone());
            watch::guard(std::time::Duration::from_secs(stall), Some(tp), Some(op), move || {
                let mut stats: HashMap<String, u64> = HashMap::new();
                for c in 0..cases {
                    let case_seed = seed.wrapping_mul(1_000_003).wrapping_add(c as u64);
                    let mut g = seq::Gen::new(case_seed, &flavor, item_limit, steps);
                    let cfg = seq::CaseCfg {
                        id: format!("{}-{}-{}-{}", prefix, flavor, seed, c),
                        item_limit,
                        mem_limit,
                    };
                    let mut trace = String::new();
                    let mut obs = String::new();
                    seq::run_case(&cfg, &mut |last, open| g.next(last, open), &mut trace, &mut obs);
                    {
                        let mut d = watch::DONE.lock().unwrap();
                        d.trace.push_str(&trace);
                        d.obs.push_str(&obs);
                    }
                    for (k, v) in g.stats.iter() {
                        *stats.entry(k.clone()).or_insert(0) += v;
                    }
                }
                let d = watch::DONE.lock().unwrap();
                fs::write(&tpath, &d.trace).unwrap();
                fs::write(&opath, &d.obs).unwrap();
                if let Some(p) = spath {
                    let mut keys: Vec<_> = stats.iter().collect();
                    keys.sort();
                    let body: Vec<String> = keys.iter().map(|(k, v)| format!("\"{}\": {}", k, v)).collect();
                    fs::write(p, format!("{{{}}}\n", body.join(", "))).unwrap();
                }
            });
        }
        "conn-gen" => {
            let seed: u64 = arg(&args, "--seed").unwrap_or("1").parse().unwrap();
            let cases: usize = arg(&args, "--cases").unwrap_or("10").parse().unwrap();
            let steps: usize = arg(&args, "--steps").unwrap_or("30").parse().unwrap();
            let flavor = arg(&args, "--flavor").unwrap_or("mix").to_string();
            let item_limit: u32 = arg(&args, "--item-limit").unwrap_or("1024").parse().unwrap();
            let mem_limit: Option<u64> = arg(&args, "--mem-limit").map(|s| s.parse().unwrap());
            let prefix = arg(&args, "--prefix").unwrap_or("c").to_string();
            let mut trace = String::new();
            let mut obs = String::new();
            let mut stats: HashMap<String, u64> = HashMap::new();
            for c in 0..cases {
                let case_seed = seed.wrapping_mul(1_000_003).wrapping_add(c as u64);
                let mut g = seq::Gen::new(case_seed, &flavor, item_limit, steps);
                let cfg = seq::CaseCfg { id: format!("{}-{}-{}-{}", prefix, flavor, seed, c), item_limit, mem_limit };
                let stuck = conn::run_case(&cfg, &mut |last, open| g.next(last, open), &mut trace, &mut obs);
                *stats.entry("stuck".to_string()).or_insert(0) += stuck;
                if stuck > 0 {
                    // a server task that never comes back keeps a core busy: stop here
                    break;
                }
                for (k, v) in g.stats.iter() {
                    *stats.entry(k.clone()).or_insert(0) += v;
                }
            }
            fs::write(arg(&args, "--trace").expect("--trace"), trace).unwrap();
            fs::write(arg(&args, "--obs").expect("--obs"), obs).unwrap();
            if let Some(p) = arg(&args, "--stats") {
                let mut keys: Vec<_> = stats.iter().collect();
                keys.sort();
                let body: Vec<String> = keys.iter().map(|(k, v)| format!("\"{}\": {}", k, v)).collect();
                fs::write(p, format!("{{{}}}\n", body.join(", "))).unwrap();
            }
        }
        "conc-gen" => {
            let seed: u64 = arg(&args, "--seed").unwrap_or("1").parse().unwrap();
            let cases: usize = arg(&args, "--cases").unwrap_or("50").parse().unwrap();
            let flavor = arg(&args, "--flavor").unwrap_or("base").to_string();
            let tp = arg(&args, "--trace").expect("--trace").to_string();
            let op = arg(&args, "--obs").expect("--obs").to_string();
            let mp = arg(&args, "--monitor").expect("--monitor").to_string();
            let sp = arg(&args, "--stats").map(|s| s.to_string());
            let (tp2, op2, mp2) = (tp.clone(), op.clone(), mp.clone());
            watch::deadman(std::time::Duration::from_secs(DEADMAN_SECS), tp2, op2, Some(mp2), move || {
                let mut trace = String::new();
                let mut obs = String::new();
                let mut monitor = String::new();
                let (stuck, steps) = conc::run_gen(seed, cases, &flavor, &mut trace, &mut obs, &mut monitor);
                fs::write(&tp, trace).unwrap();
                fs::write(&op, obs).unwrap();
                fs::write(&mp, monitor).unwrap();
                if let Some(p) = sp {
                    fs::write(p, format!("{{\"conc_cases\": {}, \"conc_steps\": {}, \"stuck\": {}}}\n", cases, steps, stuck)).unwrap();
                }
            });
        }
        "cfg-child" => {
            cfgp::child(args[2..].to_vec());
        }
        "cfg-gen" => {
            let seed: u64 = arg(&args, "--seed").unwrap_or("1").parse().unwrap();
            let n: usize = arg(&args, "--configs").unwrap_or("6").parse().unwrap();
            let steps: usize = arg(&args, "--steps").unwrap_or("40").parse().unwrap();
            let base_port: u16 = 12000 + ((std::process::id() as u64 * 53) % 15000) as u16;
            let cfgs = cfgp::configs(seed, n, base_port);
            let mut handles = Vec::new();
            for cfg in cfgs {
                handles.push(std::thread::spawn(move || {
                    let mut t = String::new();
                    let mut o = String::new();
                    cfgp::run_config(&cfg, seed, steps, &mut t, &mut o);
                    (t, o, cfg.label())
                }));
            }
            let mut trace = String::new();
            let mut obs = String::new();
            let mut labels = Vec::new();
            for h in handles {
                let (t, o, l) = h.join().expect("config");
                trace.push_str(&t);
                obs.push_str(&o);
                labels.push(l);
            }
            fs::write(arg(&args, "--trace").expect("--trace"), trace).unwrap();
            fs::write(arg(&args, "--obs").expect("--obs"), obs).unwrap();
            if let Some(p) = arg(&args, "--stats") {
                fs::write(p, format!("{{\"configurations\": {}}}\n", labels.len())).unwrap();
            }
        }
        "limit-gen" => {
            let seed: u64 = arg(&args, "--seed").unwrap_or("1").parse().unwrap();
            let cases: usize = arg(&args, "--cases").unwrap_or("4").parse().unwrap();
            let rounds: usize = arg(&args, "--rounds").unwrap_or("0").parse().unwrap();
            let mut trace = String::new();
            let mut obs = String::new();
            let mut kinds: HashMap<String, u64> = HashMap::new();
            // independent servers: run the cases side by side
            let mut handles = Vec::new();
            for c in 0..cases {
                handles.push(std::thread::spawn(move || {
                    let mut rng = gen::Rng::new(seed.wrapping_mul(5003).wrapping_add(c as u64));
                    let limit = 1 + (c as u32 % 4);
                    let r = if rounds > 0 { rounds } else { 3 * limit as usize + 2 };
                    let mut t = String::new();
                    let mut o = String::new();
                    let mut k: HashMap<String, u64> = HashMap::new();
                    limit::run_case(&format!("l-{}-{}", seed, c), limit, r, c * r + seed as usize, &mut rng, 2, &mut t, &mut o, &mut k);
                    (t, o, k)
                }));
            }
            for h in handles {
                let (t, o, k) = h.join().expect("limit case");
                trace.push_str(&t);
                obs.push_str(&o);
                for (kk, v) in k {
                    *kinds.entry(kk).or_insert(0) += v;
                }
            }
            fs::write(arg(&args, "--trace").expect("--trace"), trace).unwrap();
            fs::write(arg(&args, "--obs").expect("--obs"), obs).unwrap();
            if let Some(p) = arg(&args, "--stats") {
                let mut keys: Vec<_> = kinds.iter().collect();
                keys.sort();
                let body: Vec<String> = keys.iter().map(|(k, v)| format!("\"end_{}\": {}", k, v)).collect();
                fs::write(p, format!("{{{}}}\n", body.join(", "))).unwrap();
            }
        }
        "conc-sweep" => {
            let seed: u64 = arg(&args, "--seed").unwrap_or("1").parse().unwrap();
            let cases: usize = arg(&args, "--cases").unwrap_or("200").parse().unwrap();
            let millis: u64 = arg(&args, "--stress-ms").unwrap_or("1500").parse().unwrap();
            let mut monitor = String::new();
            let (stuck, steps) = conc::run_sweep(seed, cases, &mut monitor);
            let ops = if stuck == 0 { conc::run_stress(seed, 16, millis, &mut monitor) } else { 0 };
            fs::write(arg(&args, "--monitor").expect("--monitor"), monitor).unwrap();
            if let Some(p) = arg(&args, "--stats") {
                fs::write(p, format!("{{\"sweep_cases\": {}, \"sweep_steps\": {}, \"stress_ops\": {}, \"stuck\": {}}}\n", cases, steps, ops, stuck)).unwrap();
            }
        }
        "mlimit-gen" => {
            // several listeners (clones of one server) over one connection limit
            let seed: u64 = arg(&args, "--seed").unwrap_or("1").parse().unwrap();
            let cases: usize = arg(&args, "--cases").unwrap_or("6").parse().unwrap();
            let nevents: usize = arg(&args, "--events").unwrap_or("14").parse().unwrap();
            let mut trace = String::new();
            let mut obs = String::new();
            let mut events = 0u64;
            let mut shapes: HashMap<String, u64> = HashMap::new();
            // independent servers: the cases run side by side
            let mut handles = Vec::new();
            for c in 0..cases {
                let mut rng = gen::Rng::new(seed.wrapping_mul(3_000_017).wrapping_add(c as u64));
                // the first cases are fixed: one slot and two listeners, then more of both
                let (limit, k) = match c {
                    0 => (1u32, 2usize),
                    1 => (2, 2),
                    2 => (1, 3),
                    _ => (1 + rng.below(3) as u32, 2 + rng.below(2) as usize),
                };
                *shapes.entry(format!("mlimit_limit{}_listeners{}", limit, k)).or_insert(0) += 1;
                let id = format!("ml-{}-{}-{}-{}", limit, k, seed, c);
                handles.push(std::thread::spawn(move || {
                    let mut t = String::new();
                    let mut o = String::new();
                    let n = mlimit::run_case(&id, limit, k, nevents, &mut rng, &mut t, &mut o);
                    (t, o, n)
                }));
            }
            for h in handles {
                let (t, o, n) = h.join().expect("mlimit case");
                trace.push_str(&t);
                obs.push_str(&o);
                events += n;
            }
            fs::write(arg(&args, "--trace").expect("--trace"), trace).unwrap();
            fs::write(arg(&args, "--obs").expect("--obs"), obs).unwrap();
            if let Some(p) = arg(&args, "--stats") {
                let mut st: Vec<String> = shapes.iter().map(|(k, v)| format!("\"{}\": {}", k, v)).collect();
                st.push(format!("\"mlimit_events\": {}", events));
                fs::write(p, format!("{{{}}}\n", st.join(", "))).unwrap();
            }
        }
        "slow-probe" => {
            let mut monitor = String::new();
            conn::slow_reader_probe(&mut monitor);
            fs::write(arg(&args, "--monitor").expect("--monitor"), monitor).unwrap();
        }
        "pol-gen" => {
            let seed: u64 = arg(&args, "--seed").unwrap_or("1").parse().unwrap();
            let cases: usize = arg(&args, "--cases").unwrap_or("100").parse().unwrap();
            let tp = arg(&args, "--trace").expect("--trace").to_string();
            let op = arg(&args, "--obs").expect("--obs").to_string();
            let mp = arg(&args, "--monitor").expect("--monitor").to_string();
            let sp = arg(&args, "--stats").map(|s| s.to_string());
            let (tp2, op2, mp2) = (tp.clone(), op.clone(), mp.clone());
            watch::deadman(std::time::Duration::from_secs(DEADMAN_SECS), tp2, op2, Some(mp2), move || {
                let mut trace = String::new();
                let mut obs = String::new();
                let mut monitor = String::new();
                let (stuck, steps) = polconc::run_cases(seed, cases, polconc::witnesses(), &mut trace, &mut obs, &mut monitor);
                fs::write(&tp, trace).unwrap();
                fs::write(&op, obs).unwrap();
                fs::write(&mp, monitor).unwrap();
                if let Some(p) = sp {
                    fs::write(p, format!("{{\"pol_cases\": {}, \"conc_steps\": {}, \"stuck\": {}}}\n", cases + polconc::witnesses().len(), steps, stuck)).unwrap();
                }
            });
        }
        "pol-replay" => {
            let text = fs::read_to_string(arg(&args, "--in").expect("--in")).unwrap();
            let tp = arg(&args, "--trace").expect("--trace").to_string();
            let op = arg(&args, "--obs").expect("--obs").to_string();
            let mp = arg(&args, "--monitor").map(|s| s.to_string());
            let (tp2, op2, mp2) = (tp.clone(), op.clone(), mp.clone());
            watch::deadman(std::time::Duration::from_secs(DEADMAN_REPLAY_SECS), tp2, op2, mp2, move || {
                let mut trace = String::new();
                let mut obs = String::new();
                let mut monitor = String::new();
                polconc::run_cases(1, 0, polconc::parse_trace(&text), &mut trace, &mut obs, &mut monitor);
                fs::write(&tp, trace).unwrap();
                fs::write(&op, obs).unwrap();
                if let Some(m) = mp {
                    fs::write(m, monitor).unwrap();
                }
            });
        }
        "conc-replay" => {
            let text = fs::read_to_string(arg(&args, "--in").expect("--in")).unwrap();
            let tp = arg(&args, "--trace").expect("--trace").to_string();
            let op = arg(&args, "--obs").expect("--obs").to_string();
            let mp = arg(&args, "--monitor").map(|s| s.to_string());
            let (tp2, op2, mp2) = (tp.clone(), op.clone(), mp.clone());
            watch::deadman(std::time::Duration::from_secs(DEADMAN_REPLAY_SECS), tp2, op2, mp2, move || {
                let mut trace = String::new();
                let mut obs = String::new();
                let mut monitor = String::new();
                conc::run_cases(1, 0, "replay", conc::parse_trace(&text), &mut trace, &mut obs, &mut monitor);
                fs::write(&tp, trace).unwrap();
                fs::write(&op, obs).unwrap();
                if let Some(m) = mp {
                    fs::write(m, monitor).unwrap();
                }
            });
        }
        "probe-listener" => {
            // connect and reset immediately, many times; does the listener survive?
            let rounds: usize = arg(&args, "--rounds").unwrap_or("200").parse().unwrap();
            let server = conn::Server::start(1024, None, 64, 60, 2);
            let mut dead_after = None;
            for i in 0..rounds {
                match std::net::TcpStream::connect_timeout(&server.addr, std::time::Duration::from_millis(500)) {
                    Ok(s) => {
                        conn::abort(&s);
                        drop(s);
                    }
                    Err(_) => {
                        dead_after = Some(i);
                        break;
                    }
                }
            }
            std::thread::sleep(std::time::Duration::from_millis(50));
            let alive = std::net::TcpStream::connect_timeout(&server.addr, std::time::Duration::from_millis(500)).is_ok();
            println!("LISTENER alive={} dead_after={:?}", alive, dead_after);
        }
        "conn-replay" => {
            let text = fs::read_to_string(arg(&args, "--in").expect("--in")).unwrap();
            let mut trace = String::new();
            let mut obs = String::new();
            for (cfg, evs) in seq::parse_trace(&text) {
                let mut it = evs.into_iter();
                conn::run_case(&cfg, &mut |_, _| it.next(), &mut trace, &mut obs);
            }
            fs::write(arg(&args, "--trace").expect("--trace"), trace).unwrap();
            fs::write(arg(&args, "--obs").expect("--obs"), obs).unwrap();
        }
        "seq-replay" => {
            let text = fs::read_to_string(arg(&args, "--in").expect("--in")).unwrap();
            let stall: u64 = arg(&args, "--stall").unwrap_or("20").parse().unwrap();
            let tpath = arg(&args, "--trace").expect("--trace").to_string();
            let opath = arg(&args, "--obs").expect("--obs").to_string();
            let (tp, op) = (tpath.clone(), opath.clone());
            watch::guard(std::time::Duration::from_secs(stall), Some(tp), Some(op), move || {
                for (cfg, evs) in seq::parse_trace(&text) {
                    let mut trace = String::new();
                    let mut obs = String::new();
                    let mut it = evs.into_iter();
                    seq::run_case(&cfg, &mut |_, _| it.next(), &mut trace, &mut obs);
                    let mut d = watch::DONE.lock().unwrap();
                    d.trace.push_str(&trace);
                    d.obs.push_str(&obs);
                }
                let d = watch::DONE.lock().unwrap();
                fs::write(&tpath, &d.trace).unwrap();
                fs::write(&opath, &d.obs).unwrap();
            });
        }
        _ => {
            eprintln!("usage: verif-harness meta | seq-gen ... | seq-replay ...");
            std::process::exit(2);
        }
    }
}
