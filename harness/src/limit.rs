// limit.rs — connection-limit profile (C17, and C20's limit clause): a real
// MemcacheTcpServer with a small connection limit; connections are opened, probed
// with a noop, and ended in each of the ways a connection can end. The trace
// (CONN / END / PROBE) is replayed on Model/Server.v; the observation is which
// connections get an answer.
use crate::conn::{abort, Server};
use crate::gen::{op, parse_resp, Req, Rng};
use std::collections::HashMap;
use std::fmt::Write as _;
use std::io::{Read, Write};
use std::net::{Shutdown, TcpStream};
use std::time::{Duration, Instant};

pub const SERVED_DEADLINE: Duration = Duration::from_secs(8);
pub const UNSERVED_WAIT: Duration = Duration::from_millis(350);

struct Cl {
    sock: TcpStream,
    opaque: u32,
}

fn probe(c: &mut Cl, wait: Duration) -> bool {
    c.opaque += 1;
    let req = Req::new(op::NOOP).opaque(c.opaque).bytes();
    if c.sock.write_all(&req).is_err() {
        return false;
    }
    c.sock.set_read_timeout(Some(Duration::from_millis(20))).unwrap();
    let t0 = Instant::now();
    let mut rx = Vec::new();
    let mut buf = [0u8; 256];
    while t0.elapsed() < wait {
        match c.sock.read(&mut buf) {
            Ok(0) => return false,
            Ok(n) => {
                rx.extend_from_slice(&buf[..n]);
                // answers to earlier probes of a then-unserved connection arrive first
                let mut off = 0;
                while let Some((f, used)) = parse_resp(&rx[off..]) {
                    off += used;
                    if f.opaque == c.opaque && f.opcode == op::NOOP {
                        return true;
                    }
                }
            }
            Err(_) => {}
        }
    }
    false
}

pub const KINDS: &[&str] = &["close", "quit", "quitq", "mid-request", "protocol-error", "oversized", "idle-timeout", "idle-inside-first-request", "idle-inside-later-request", "waiting-close", "backlog-reset", "idle-inside-oversized-body"];

/// One case: limit L, lifecycles well beyond the limit.
pub fn run_case(id: &str, limit: u32, rounds: usize, first_kind: usize, rng: &mut Rng, workers: usize, trace: &mut String, obs: &mut String, kinds_used: &mut HashMap<String, u64>) {
    let timeout_secs = 2;
    let server = Server::start(256, None, limit, timeout_secs, workers);
    let _ = writeln!(trace, "CASE {} 256 none", id);
    let _ = writeln!(trace, "LIMIT {}", limit);
    let _ = writeln!(obs, "CASE {}", id);
    let mut conns: HashMap<usize, Cl> = HashMap::new();
    let mut active: Vec<usize> = Vec::new(); // the harness' own expectation, only to choose how long to wait
    let mut waiting: Vec<usize> = Vec::new();
    let mut next = 0usize;
    let mut zombies: Vec<Cl> = Vec::new();
    let mut connect = |conns: &mut HashMap<usize, Cl>, active: &mut Vec<usize>, waiting: &mut Vec<usize>, next: &mut usize, trace: &mut String| {
        let c = *next;
        *next += 1;
        // a refused connection (no listener any more) is a connection that is never served
        if let Ok(sock) = TcpStream::connect_timeout(&server.addr, Duration::from_secs(2)) {
            sock.set_nodelay(true).unwrap();
            conns.insert(c, Cl { sock, opaque: 0 });
        }
        let _ = writeln!(trace, "CONN {}", c);
        if (active.len() as u32) < limit && waiting.is_empty() {
            active.push(c);
        } else {
            waiting.push(c);
        }
        c
    };
    // once an observation contradicts the bookkeeping the rest of the case only costs time
    let surprised = std::cell::Cell::new(false);
    let do_probe = |conns: &mut HashMap<usize, Cl>, c: usize, expect: bool, trace: &mut String, obs: &mut String| {
        if surprised.get() {
            return;
        }
        let served = match conns.get_mut(&c) {
            Some(cl) => probe(cl, if expect { SERVED_DEADLINE } else { UNSERVED_WAIT }),
            None => false,
        };
        let _ = writeln!(trace, "PROBE {}", c);
        let _ = writeln!(obs, "SERVED {} {}", c, if served { 1 } else { 0 });
        if served != expect {
            surprised.set(true);
        }
    };
    for round in 0..rounds {
        if surprised.get() {
            break;
        }
        while active.len() + waiting.len() < limit as usize + 1 {
            connect(&mut conns, &mut active, &mut waiting, &mut next, trace);
        }
        for c in active.clone() {
            do_probe(&mut conns, c, true, trace, obs);
        }
        for c in waiting.clone() {
            do_probe(&mut conns, c, false, trace, obs);
        }
        // end one served connection in a random way
        if active.iter().any(|c| !conns.contains_key(c)) {
            break; // it could not even connect: reported by its probe
        }
        // every way of ending is visited in turn (the idle timeouts cost seconds of wall time each)
        let mut kind = (first_kind + round) % KINDS.len();
        *kinds_used.entry(KINDS[kind].to_string()).or_insert(0) += 1;
        if kind == 9 || kind == 10 {
            // a connection that is not served yet goes away: the one the accept loop holds
            // while it waits for a slot closes (9), or one still in the listen backlog is
            // reset (10). It never counted; the others are served in order as slots free.
            // first let the queue drain, so that the connections that go away are ones that
            // have never sent a byte (a probe is a request waiting in their socket)
            while !waiting.is_empty() {
                let a = active[0];
                if let Some(cl) = conns.remove(&a) {
                    let _ = cl.sock.shutdown(Shutdown::Both);
                }
                let _ = writeln!(trace, "END {} 0", a);
                active.retain(|c| *c != a);
                let w = waiting.remove(0);
                active.push(w);
                for c in active.clone() {
                    do_probe(&mut conns, c, true, trace, obs);
                }
            }
            for _ in 0..3 {
                connect(&mut conns, &mut active, &mut waiting, &mut next, trace);
            }
            std::thread::sleep(Duration::from_millis(30));
            // only the middle one is probed: the head and the tail stay silent
            if waiting.len() == 3 {
                do_probe(&mut conns, waiting[1], false, trace, obs);
            }
            let w = if kind == 9 { waiting[0] } else { *waiting.last().unwrap() };
            if let Some(cl) = conns.remove(&w) {
                if kind == 10 {
                    abort(&cl.sock);
                } else {
                    let _ = cl.sock.shutdown(Shutdown::Both);
                }
                drop(cl);
            }
            std::thread::sleep(Duration::from_millis(30));
            let _ = writeln!(trace, "END {} {}", w, kind);
            waiting.retain(|c| *c != w);
            // then a served one closes, and the queue moves up
            kind = 0;
        }
        if surprised.get() || active.iter().any(|c| !conns.contains_key(c)) {
            break;
        }
        let victim = active[rng.below(active.len() as u64) as usize];
        {
            let cl = conns.get_mut(&victim).unwrap();
            match kind {
                0 => {
                    let _ = cl.sock.shutdown(Shutdown::Both);
                }
                1 => {
                    let _ = cl.sock.write_all(&Req::new(op::QUIT).bytes());
                }
                2 => {
                    let _ = cl.sock.write_all(&Req::new(op::QUITQ).bytes());
                }
                3 => {
                    let full = crate::gen::set_like(op::SET, b"k", b"0123456789", 0, 0).bytes();
                    let cut = 1 + rng.below(full.len() as u64 - 1) as usize;
                    let _ = cl.sock.write_all(&full[..cut]);
                    std::thread::sleep(Duration::from_millis(5));
                    if rng.chance(1, 2) {
                        abort(&cl.sock);
                    }
                    let _ = cl.sock.shutdown(Shutdown::Both);
                }
                4 => {
                    let mut r = Req::new(op::GET).key(b"k");
                    r.magic = 0x81;
                    let _ = cl.sock.write_all(&r.bytes());
                }
                5 => {
                    // an oversized request whose body never arrives completely
                    let mut r = crate::gen::set_like(op::SET, b"k", b"", 0, 0);
                    r.bodylen = Some(100_000);
                    let mut b = r.bytes();
                    b.extend_from_slice(&vec![0u8; 300]);
                    let _ = cl.sock.write_all(&b);
                    std::thread::sleep(Duration::from_millis(5));
                    let _ = cl.sock.shutdown(Shutdown::Both);
                }
                k => {
                    // idle until the server's receive timeout; keep the others busy meanwhile.
                    // Variants: silent from the start of a request, inside the first request of
                    // a write, inside a later request of a write that began with complete ones.
                    let noop = Req::new(op::NOOP).opaque(0x1d1e).bytes();
                    if k == 7 {
                        let _ = cl.sock.write_all(&noop[..10]);
                    } else if k == 11 {
                        // an oversized item announced, part of its body sent, then silence: the
                        // discarding of a refused body is no place to wait for ever either
                        let mut r = crate::gen::set_like(op::SET, b"k", b"", 0, 0);
                        r.bodylen = Some(100_000);
                        let mut b = r.bytes();
                        b.extend_from_slice(&vec![0u8; 300]);
                        let _ = cl.sock.write_all(&b);
                    } else if k == 8 {
                        let mut b = noop.clone();
                        b.extend_from_slice(&noop[..10]);
                        let _ = cl.sock.write_all(&b);
                    }
                    let t0 = Instant::now();
                    while t0.elapsed() < Duration::from_millis(timeout_secs as u64 * 1000 + 1200) {
                        std::thread::sleep(Duration::from_millis(400));
                        for c in active.clone() {
                            if c != victim {
                                probe(conns.get_mut(&c).unwrap(), SERVED_DEADLINE);
                            }
                        }
                    }
                }
            }
        }
        let _ = writeln!(trace, "END {} {}", victim, kind);
        if kind >= 6 || kind == 1 || kind == 2 || kind == 4 {
            // the server must have let go of it on its own (idle timeout; quit and quitq, which
            // the server ends itself; a protocol error, after which it hangs up): keep our end
            // open, so that closing it cannot be what frees the slot
            if let Some(cl) = conns.remove(&victim) {
                zombies.push(cl);
            }
        }
        conns.remove(&victim);
        active.retain(|c| *c != victim);
        if !waiting.is_empty() {
            let w = waiting.remove(0);
            active.push(w);
        }
        // the connection that waited is picked up as soon as the slot is free
        for c in active.clone() {
            do_probe(&mut conns, c, true, trace, obs);
        }
    }
    // finally: exactly `limit` fresh connections can be served, and no more
    for c in active.clone() {
        if let Some(cl) = conns.get_mut(&c) {
            let _ = cl.sock.shutdown(Shutdown::Both);
        }
        let _ = writeln!(trace, "END {} 0", c);
        conns.remove(&c);
    }
    active.clear();
    std::thread::sleep(Duration::from_millis(30));
    for _ in 0..(limit as usize + 1) {
        connect(&mut conns, &mut active, &mut waiting, &mut next, trace);
    }
    for c in active.clone() {
        do_probe(&mut conns, c, true, trace, obs);
    }
    for c in waiting.clone() {
        do_probe(&mut conns, c, false, trace, obs);
    }
    drop(conns);
    drop(zombies);
    std::thread::sleep(Duration::from_millis(20));
    drop(server);
}
