// mlimit.rs — several listeners over one connection limit (C17; C20's limit clause).
// As the current-thread runtime starts them: clones of ONE MemcacheTcpServer, each
// `run` by its own thread on its own current-thread runtime — here each on its own
// loopback port, so that it is known which listener a connection arrives at. A
// generated history of connects (to chosen listeners) and closes (of served and of
// not-yet-served connections); after every event every open connection is probed with
// a noop. The trace (MLIMIT / MCONN / MEND / MPROBE) is replayed on Model/Listeners.v;
// the observation is which connections get an answer.
use crate::gen::{op, parse_resp, Req, Rng};
use crate::seq::Clock;
use memcrs::cache::cache::Cache;
use memcrs::memcache_server::memc_tcp::{MemcacheServerConfig, MemcacheTcpServer};
use memcrs::memory_store::store::MemoryStore;
use std::collections::BTreeMap;
use std::fmt::Write as _;
use std::io::{Read, Write};
use std::net::{Shutdown, SocketAddr, TcpStream};
use std::sync::atomic::AtomicU64;
use std::sync::Arc;
use std::time::{Duration, Instant};

const SERVED_DEADLINE: Duration = Duration::from_secs(8);
const UNSERVED_WAIT: Duration = Duration::from_millis(300);

/// the harness' own expectation (the algorithm of Model/Listeners.v), used only to
/// choose how long to wait for an answer
#[derive(Default)]
struct Expect {
    permits: u32,
    active: Vec<usize>,
    pending: Vec<(usize, usize)>,
    backlog: Vec<(usize, usize)>,
    gone: Vec<usize>,
}

impl Expect {
    fn settle(&mut self) {
        loop {
            if !self.pending.is_empty() && self.permits > 0 {
                let (l, c) = self.pending.remove(0);
                if !self.gone.contains(&c) {
                    self.permits -= 1;
                    self.active.push(c);
                } else if let Some(i) = self.backlog.iter().position(|(bl, _)| *bl == l) {
                    // the listener goes on accepting before the handler of the one that is gone
                    // runs and hands the permit back
                    let x = self.backlog.remove(i);
                    self.pending.push(x);
                }
                continue;
            }
            let pos = self.backlog.iter().position(|(l, _)| !self.pending.iter().any(|(pl, _)| pl == l));
            match pos {
                Some(i) => {
                    let x = self.backlog.remove(i);
                    self.pending.push(x);
                }
                None => break,
            }
        }
    }
    fn connect(&mut self, l: usize, c: usize) {
        self.backlog.push((l, c));
        self.settle();
    }
    fn end(&mut self, c: usize) {
        if let Some(i) = self.active.iter().position(|x| *x == c) {
            self.active.remove(i);
            self.permits += 1;
            self.settle();
        } else {
            self.gone.push(c);
        }
    }
}

struct Cl {
    sock: TcpStream,
    opaque: u32,
    rx: Vec<u8>,
}

pub struct Listeners {
    pub addrs: Vec<SocketAddr>,
    stop: Arc<std::sync::atomic::AtomicBool>,
}

fn free_port(n: u64) -> u16 {
    let base = (std::process::id() as u64 * 41) % 9000;
    (31000 - ((base + n) % 9000)) as u16
}

static NEXT: AtomicU64 = AtomicU64::new(0);

/// k listeners of one server; None when one of them does not come up
pub fn start(limit: u32, k: usize) -> Option<Listeners> {
    let clock = Arc::new(Clock(AtomicU64::new(0)));
    let store: Arc<dyn Cache + Send + Sync> = Arc::new(MemoryStore::new(clock));
    let cfg = MemcacheServerConfig::new(60, limit, 1024, 128);
    let server = MemcacheTcpServer::new(cfg, store);
    let stop = Arc::new(std::sync::atomic::AtomicBool::new(false));
    let mut addrs = Vec::new();
    for _ in 0..k {
        // a port nobody listens on (the server sets SO_REUSEPORT: never share one)
        let addr = loop {
            let port = free_port(NEXT.fetch_add(1, std::sync::atomic::Ordering::SeqCst));
            let a: SocketAddr = format!("127.0.0.1:{}", port).parse().unwrap();
            if TcpStream::connect_timeout(&a, Duration::from_millis(100)).is_err() {
                break a;
            }
        };
        let mut listener = server.clone();
        std::thread::spawn(move || {
            let rt = tokio::runtime::Builder::new_current_thread().enable_all().build().unwrap();
            let _ = rt.block_on(listener.run(addr));
        });
        addrs.push(addr);
    }
    // wait until each is bound (without connecting: a connection would take the slot)
    let t0 = Instant::now();
    for a in &addrs {
        loop {
            let bound = std::fs::read_to_string("/proc/net/tcp")
                .map(|t| t.lines().any(|l| {
                    let f: Vec<&str> = l.split_whitespace().collect();
                    f.len() > 3 && f[3] == "0A" && f[1].ends_with(&format!(":{:04X}", a.port()))
                }))
                .unwrap_or(true);
            if bound {
                break;
            }
            if t0.elapsed() > Duration::from_secs(10) {
                return None;
            }
            std::thread::sleep(Duration::from_millis(2));
        }
    }
    Some(Listeners { addrs, stop })
}

impl Drop for Listeners {
    fn drop(&mut self) {
        // the listener threads block in accept for the life of the process (the server has
        // no shutdown); their ports are not used again
        self.stop.store(true, std::sync::atomic::Ordering::SeqCst);
    }
}

/// connections the kernel holds for a listening socket that the accept loop has not taken yet
fn accept_queue(port: u16) -> Option<usize> {
    let t = std::fs::read_to_string("/proc/net/tcp").ok()?;
    for l in t.lines() {
        let f: Vec<&str> = l.split_whitespace().collect();
        if f.len() > 4 && f[3] == "0A" && f[1].ends_with(&format!(":{:04X}", port)) {
            // for a listening socket rx_queue is the current length of the accept queue
            let q = f[4].split(':').nth(1)?;
            return usize::from_str_radix(q, 16).ok();
        }
    }
    None
}

/// wait until each listener has taken from its accept queue what the model says it takes
/// (a listener that waits for a slot leaves the rest there): the order in which listeners
/// begin to wait is the order of the events, not of their threads' wake-ups
fn sync_accepts(ls: &Listeners, expect: &Expect) {
    let t0 = Instant::now();
    for (l, a) in ls.addrs.iter().enumerate() {
        let want = expect.backlog.iter().filter(|(bl, _)| *bl == l).count();
        loop {
            match accept_queue(a.port()) {
                Some(q) if q > want && t0.elapsed() < SERVED_DEADLINE => std::thread::sleep(Duration::from_millis(1)),
                _ => break,
            }
        }
    }
}

/// send a noop on every open connection, then collect: a connection expected to be served
/// is waited for up to SERVED_DEADLINE, the others for UNSERVED_WAIT after the last send
fn probe_all(conns: &mut BTreeMap<usize, Cl>, expect: &Expect, trace: &mut String, obs: &mut String) -> bool {
    let ids: Vec<usize> = conns.keys().copied().collect();
    let mut want: BTreeMap<usize, u32> = BTreeMap::new();
    for c in &ids {
        let cl = conns.get_mut(c).unwrap();
        cl.opaque += 1;
        let req = Req::new(op::NOOP).opaque(cl.opaque).bytes();
        let _ = cl.sock.write_all(&req);
        want.insert(*c, cl.opaque);
    }
    let t0 = Instant::now();
    let mut served: BTreeMap<usize, bool> = ids.iter().map(|c| (*c, false)).collect();
    loop {
        let mut waiting_for_expected = false;
        for c in &ids {
            if served[c] {
                continue;
            }
            let cl = conns.get_mut(c).unwrap();
            let mut buf = [0u8; 512];
            cl.sock.set_read_timeout(Some(Duration::from_millis(5))).unwrap();
            if let Ok(n) = cl.sock.read(&mut buf) {
                cl.rx.extend_from_slice(&buf[..n]);
            }
            // answers to earlier probes of a then-unserved connection arrive first
            let mut off = 0;
            while let Some((f, used)) = parse_resp(&cl.rx[off..]) {
                off += used;
                if f.opaque == want[c] && f.opcode == op::NOOP {
                    served.insert(*c, true);
                }
            }
            cl.rx.drain(..off);
            if !served[c] && expect.active.contains(c) {
                waiting_for_expected = true;
            }
        }
        let el = t0.elapsed();
        if (!waiting_for_expected && el >= UNSERVED_WAIT) || el >= SERVED_DEADLINE {
            break;
        }
    }
    let mut as_expected = true;
    for c in &ids {
        let _ = writeln!(trace, "MPROBE {}", c);
        let _ = writeln!(obs, "SERVED {} {}", c, if served[c] { 1 } else { 0 });
        if served[c] != expect.active.contains(c) {
            as_expected = false;
        }
    }
    as_expected
}

pub fn run_case(id: &str, limit: u32, k: usize, nevents: usize, rng: &mut Rng, trace: &mut String, obs: &mut String) -> u64 {
    let _ = writeln!(trace, "CASE {} 1024 none", id);
    let _ = writeln!(trace, "MLIMIT {}", limit);
    let _ = writeln!(obs, "CASE {}", id);
    let ls = match start(limit, k) {
        Some(l) => l,
        None => {
            let _ = writeln!(obs, "NOT-STARTED");
            return 0;
        }
    };
    let mut expect = Expect { permits: limit, ..Default::default() };
    let mut conns: BTreeMap<usize, Cl> = BTreeMap::new();
    let mut next = 0usize;
    let mut events = 0u64;
    for _ in 0..nevents {
        // keep the limit under pressure: connect while few are open, otherwise connect or close
        let open = conns.len();
        let do_connect = open < limit as usize + 1 || (open < limit as usize + 4 && rng.chance(1, 2));
        if do_connect {
            let l = rng.below(k as u64) as usize;
            let c = next;
            next += 1;
            if let Ok(sock) = TcpStream::connect_timeout(&ls.addrs[l], Duration::from_secs(2)) {
                sock.set_nodelay(true).unwrap();
                conns.insert(c, Cl { sock, opaque: 0, rx: Vec::new() });
            }
            let _ = writeln!(trace, "MCONN {} {}", c, l);
            expect.connect(l, c);
        } else {
            // a served connection (mostly), or one that still waits
            let ids: Vec<usize> = conns.keys().copied().collect();
            let served: Vec<usize> = ids.iter().copied().filter(|c| expect.active.contains(c)).collect();
            let c = if !served.is_empty() && rng.chance(3, 4) { *rng.pick(&served) } else { *rng.pick(&ids) };
            if let Some(cl) = conns.remove(&c) {
                let _ = cl.sock.shutdown(Shutdown::Both);
            }
            let _ = writeln!(trace, "MEND {} 0", c);
            expect.end(c);
        }
        events += 1;
        // the connect / the close has to reach the server before the probes mean anything
        sync_accepts(&ls, &expect);
        std::thread::sleep(Duration::from_millis(15));
        if !probe_all(&mut conns, &expect, trace, obs) {
            break; // the rest of the case would only cost time
        }
    }
    drop(conns);
    std::thread::sleep(Duration::from_millis(20));
    drop(ls);
    events
}
