// conn.rs — socket-level correspondence profile: a real MemcacheTcpServer on
// loopback (real accept loop, Client task, MemcacheBinaryConnection::read_frame /
// skip_bytes / write), driven over TCP with enforced segmentation. The read sizes
// the server actually saw come from the cfg(memcrs_verif) hook, so the model is
// stepped with exactly the chunks the implementation processed.
use crate::gen::{hex, op, parse_resp, Req};
use crate::seq::{CaseCfg, Clock, Ev, Spy};
use memcrs::cache::cache::{Cache, KeyType, Record};
use memcrs::memcache::random_policy::RandomPolicy;
use memcrs::memcache_server::memc_tcp::{MemcacheServerConfig, MemcacheTcpServer};
use memcrs::memory_store::store::MemoryStore;
use memcrs::server::timer::Timer;
use std::collections::HashMap;
use std::fmt::Write as _;
use std::io::{Read, Write};
use std::net::{Shutdown, SocketAddr, TcpStream};
use std::sync::atomic::{AtomicU64, Ordering};
use std::sync::{Arc, Mutex};
use std::time::{Duration, Instant};

pub struct Server {
    pub clock: Arc<Clock>,
    pub inner: Arc<MemoryStore>,
    pub policy: Option<Arc<RandomPolicy>>,
    pub victims: Arc<Mutex<Vec<Vec<u8>>>>,
    pub rt: Option<tokio::runtime::Runtime>,
    pub addr: SocketAddr,
}

/// receive timeout of the servers of the idle flavour
pub const IDLE_TIMEOUT_SECS: u32 = 2;

static NEXT_PORT: AtomicU64 = AtomicU64::new(0);

fn free_port() -> u16 {
    // a port nobody listens on (the server sets SO_REUSEPORT: never share one)
    loop {
        let n = NEXT_PORT.fetch_add(1, Ordering::SeqCst);
        // below the kernel's ephemeral range (32768..60999): a connect to a port in
        // that range with nobody listening can connect to itself
        let base = (std::process::id() as u64 * 37) % 20000;
        let port = (base + n) % 20000 + 10000;
        let addr: SocketAddr = format!("127.0.0.1:{}", port).parse().unwrap();
        if TcpStream::connect_timeout(&addr, Duration::from_millis(200)).is_err() {
            return port as u16;
        }
    }
}

impl Server {
    pub fn start(item_limit: u32, mem_limit: Option<u64>, conn_limit: u32, timeout_secs: u32, workers: usize) -> Server {
        let clock = Arc::new(Clock(AtomicU64::new(0)));
        let inner = Arc::new(MemoryStore::new(clock.clone()));
        let victims = Arc::new(Mutex::new(Vec::new()));
        let (store, policy): (Arc<dyn Cache + Send + Sync>, Option<Arc<RandomPolicy>>) = match mem_limit {
            Some(l) => {
                let spy = Arc::new(Spy { inner: inner.clone(), victims: victims.clone() });
                let p = Arc::new(RandomPolicy::new(spy, l));
                (p.clone(), Some(p))
            }
            None => (inner.clone(), None),
        };
        let cfg = MemcacheServerConfig::new(timeout_secs, conn_limit, item_limit, 128);
        let rt = tokio::runtime::Builder::new_multi_thread().worker_threads(workers).enable_all().build().unwrap();
        let mut attempt = 0;
        let done0 = hook::done();
        let addr = loop {
            let port = free_port();
            let addr: SocketAddr = format!("127.0.0.1:{}", port).parse().unwrap();
            let mut server = MemcacheTcpServer::new(cfg, store.clone());
            let ended = Arc::new(std::sync::atomic::AtomicBool::new(false));
            let ended2 = ended.clone();
            let task = rt.spawn(async move {
                let _ = server.run(addr).await;
                ended2.store(true, Ordering::SeqCst);
            });
            // wait until it listens
            let t0 = Instant::now();
            let mut up = false;
            while t0.elapsed() < Duration::from_secs(10) && !ended.load(Ordering::SeqCst) {
                if let Ok(s) = TcpStream::connect_timeout(&addr, Duration::from_millis(500)) {
                    drop(s);
                    up = true;
                    break;
                }
                std::thread::sleep(Duration::from_millis(2));
            }
            if up && !ended.load(Ordering::SeqCst) {
                break addr;
            }
            task.abort();
            attempt += 1;
            if attempt >= 5 {
                panic!("server did not start on 5 ports");
            }
        };
        // let the probe connection be accepted, read to its end and closed
        let t0 = Instant::now();
        while hook::done() == done0 && t0.elapsed() < Duration::from_secs(10) {
            std::thread::sleep(Duration::from_millis(1));
        }
        std::thread::sleep(Duration::from_millis(2));
        Server { clock, inner, policy, victims, rt: Some(rt), addr }
    }

    pub fn stop(&mut self) {
        if let Some(rt) = self.rt.take() {
            rt.shutdown_background();
        }
    }

    pub fn dump(&self, out: &mut String) {
        let log: Arc<Mutex<Vec<(Vec<u8>, String, usize)>>> = Arc::new(Mutex::new(Vec::new()));
        let l2 = log.clone();
        self.inner.remove_if(&mut move |k: &KeyType, r: &Record| {
            l2.lock().unwrap().push((k.to_vec(), format!("{:?}", r), r.len()));
            false
        });
        let mut lines = Vec::new();
        let mut total: u64 = 0;
        for (k, dbg, len) in log.lock().unwrap().iter() {
            total += *len as u64;
            lines.push(crate::seq::record_line(k, dbg));
        }
        lines.sort();
        for l in lines {
            out.push_str(&l);
            out.push('\n');
        }
        let usage = match &self.policy {
            Some(p) => crate::seq::usage_of(p),
            None => 0,
        };
        let _ = writeln!(out, "U {} {} {}", usage, self.clock.timestamp(), total);
    }
}

impl Drop for Server {
    fn drop(&mut self) {
        self.stop();
    }
}

#[cfg(memcrs_verif)]
mod hook {
    use memcrs::verif;
    use std::sync::atomic::Ordering;
    pub fn begun() -> u64 {
        verif::READS_BEGUN.load(Ordering::SeqCst)
    }
    pub fn done() -> u64 {
        verif::READS_DONE.load(Ordering::SeqCst)
    }
    pub fn bytes() -> u64 {
        verif::BYTES_READ.load(Ordering::SeqCst)
    }
    pub fn sizes_len() -> usize {
        verif::READ_SIZES.lock().unwrap().len()
    }
    pub fn sizes_from(i: usize) -> Vec<usize> {
        verif::READ_SIZES.lock().unwrap()[i..].to_vec()
    }
    pub fn written_to(port: u16) -> u64 {
        verif::written_to(port)
    }
    pub fn reset_written(port: u16) {
        verif::reset_written(port)
    }
}
#[cfg(not(memcrs_verif))]
mod hook {
    pub fn begun() -> u64 {
        0
    }
    pub fn done() -> u64 {
        0
    }
    pub fn bytes() -> u64 {
        0
    }
    pub fn sizes_len() -> usize {
        0
    }
    pub fn sizes_from(_i: usize) -> Vec<usize> {
        vec![]
    }
    pub fn written_to(_port: u16) -> u64 {
        0
    }
    pub fn reset_written(_port: u16) {}
}

/// Make the next close of this socket abortive (RST).
pub fn abort(sock: &TcpStream) {
    unsafe {
        use std::os::unix::io::AsRawFd;
        let l = libc::linger { l_onoff: 1, l_linger: 0 };
        libc::setsockopt(
            sock.as_raw_fd(),
            libc::SOL_SOCKET,
            libc::SO_LINGER,
            &l as *const _ as *const libc::c_void,
            std::mem::size_of::<libc::linger>() as u32,
        );
    }
}

pub struct ClientConn {
    pub sock: TcpStream,
    pub received: u64, // bytes read from the socket so far
    pub closed: bool, // the server closed its side (EOF or reset seen)
    pub rx: Vec<u8>,
}

impl ClientConn {
    /// Drain what is available without blocking.
    fn drain(&mut self) {
        let mut buf = [0u8; 65536];
        loop {
            match self.sock.read(&mut buf) {
                Ok(0) => {
                    self.closed = true;
                    return;
                }
                Ok(n) => {
                    self.rx.extend_from_slice(&buf[..n]);
                    self.received += n as u64;
                }
                Err(e) if e.kind() == std::io::ErrorKind::WouldBlock => return,
                Err(e) if e.kind() == std::io::ErrorKind::Interrupted => continue,
                Err(_) => {
                    self.closed = true;
                    return;
                }
            }
        }
    }
}

impl ClientConn {
    /// Read until everything the server has handed to this connection's socket (counted by
    /// the write hook) has arrived: what it wrote before it went idle may still be in
    /// flight on the loopback.
    fn settle(&mut self) {
        let port = self.sock.local_addr().map(|a| a.port()).unwrap_or(0);
        let t0 = Instant::now();
        loop {
            self.drain();
            if self.closed || self.received >= hook::written_to(port) {
                return;
            }
            if t0.elapsed() > WAIT {
                return;
            }
            std::thread::sleep(Duration::from_micros(100));
        }
    }
}

pub struct Driver {
    pub server: Server,
    pub conns: HashMap<usize, ClientConn>,
    pub stuck: u64,
    pub why: String,
}

pub const WAIT: Duration = Duration::from_secs(15);

impl Driver {
    pub fn new(server: Server) -> Driver {
        Driver { server, conns: HashMap::new(), stuck: 0, why: String::new() }
    }

    /// Connect connection i if needed and wait until the server task waits in a read.
    pub fn ensure(&mut self, i: usize) -> bool {
        if self.conns.contains_key(&i) {
            return true;
        }
        self.why = String::new();
        let begun0 = hook::begun();
        let sock = match TcpStream::connect_timeout(&self.server.addr, Duration::from_secs(2)) {
            Ok(s) => s,
            Err(e) => {
                self.why = format!("connect:{}", e).replace(' ', "_");
                return false;
            }
        };
        sock.set_nodelay(true).unwrap();
        sock.set_nonblocking(true).unwrap();
        hook::reset_written(sock.local_addr().map(|a| a.port()).unwrap_or(0));
        self.conns.insert(i, ClientConn { sock, closed: false, rx: Vec::new(), received: 0 });
        let t0 = Instant::now();
        while hook::begun() < begun0 + 1 {
            if t0.elapsed() > WAIT {
                self.why = format!("no-read-begun:begun={}:begun0={}", hook::begun(), begun0);
                return false; // not served (connection limit) or stuck
            }
            std::thread::sleep(Duration::from_micros(200));
        }
        true
    }

    /// Write bytes on connection i, wait until the server is idle again.
    /// Returns the sizes of the reads the server performed (0 = end of stream).
    pub fn write_wait(&mut self, i: usize, bytes: &[u8]) -> Vec<usize> {
        let done0 = hook::done();
        let pending0 = hook::begun() - done0;
        let r0 = hook::bytes();
        let idx0 = hook::sizes_len();
        let c = self.conns.get_mut(&i).unwrap();
        // blocking write of everything (the server reads concurrently)
        c.sock.set_nonblocking(false).unwrap();
        c.sock.set_write_timeout(Some(WAIT)).unwrap();
        let wrote = c.sock.write_all(bytes).is_ok();
        c.sock.set_nonblocking(true).unwrap();
        let n = if wrote { bytes.len() as u64 } else { 0 };
        let t0 = Instant::now();
        loop {
            c.drain();
            // the hook publishes a finished read in three steps (size, byte count, done
            // count): only a consistent snapshot counts
            let bytes = hook::bytes();
            let sizes = hook::sizes_len();
            let done = hook::done();
            let begun = hook::begun();
            let pending = begun - done;
            let consistent = (sizes - idx0) as u64 == done - done0 && hook::sizes_len() == sizes && hook::done() == done;
            if consistent && bytes >= r0 + n && pending >= pending0 {
                break; // everything read, and the connection waits for more
            }
            if c.closed && pending + 1 >= pending0 {
                break; // the server closed this connection
            }
            if t0.elapsed() > WAIT {
                self.stuck += 1;
                break;
            }
            std::thread::sleep(Duration::from_micros(200));
        }
        // responses are written before the next read begins, but may still be in flight
        let c = self.conns.get_mut(&i).unwrap();
        c.settle();
        hook::sizes_from(idx0)
    }

    /// Half-close (orderly end of the client's stream); wait for the server's reaction.
    pub fn half_close(&mut self, i: usize) -> Vec<usize> {
        let idx0 = hook::sizes_len();
        let c = self.conns.get_mut(&i).unwrap();
        let _ = c.sock.shutdown(Shutdown::Write);
        let t0 = Instant::now();
        loop {
            c.drain();
            if c.closed {
                break;
            }
            if t0.elapsed() > WAIT {
                self.stuck += 1;
                break;
            }
            std::thread::sleep(Duration::from_micros(200));
        }
        hook::sizes_from(idx0)
    }

    /// Abortive close (RST).
    pub fn reset(&mut self, i: usize) {
        if let Some(c) = self.conns.get_mut(&i) {
            let pending0 = hook::begun() - hook::done();
            unsafe {
                use std::os::unix::io::AsRawFd;
                let l = libc::linger { l_onoff: 1, l_linger: 0 };
                libc::setsockopt(
                    c.sock.as_raw_fd(),
                    libc::SOL_SOCKET,
                    libc::SO_LINGER,
                    &l as *const _ as *const libc::c_void,
                    std::mem::size_of::<libc::linger>() as u32,
                );
            }
            c.closed = true;
            let c = self.conns.remove(&i).unwrap();
            drop(c);
            // the failed read is not reported by the hook: wait for the task to go away
            let t0 = Instant::now();
            while hook::begun() - hook::done() >= pending0 && t0.elapsed() < Duration::from_millis(300) {
                std::thread::sleep(Duration::from_micros(500));
            }
            self.conns.insert(
                i,
                ClientConn { sock: TcpStream::connect(self.server.addr).unwrap(), closed: true, rx: Vec::new(), received: 0 },
            );
        }
    }

    /// Stay silent on connection i until the server's receive timeout has passed (with a
    /// margin); returns whether the server has closed the connection by then.
    pub fn idle(&mut self, i: usize) -> bool {
        let c = self.conns.get_mut(&i).unwrap();
        let t0 = Instant::now();
        let limit = Duration::from_millis(IDLE_TIMEOUT_SECS as u64 * 1000 + 900);
        let mut buf = [0u8; 65536];
        loop {
            match c.sock.read(&mut buf) {
                Ok(0) => {
                    c.closed = true;
                    break;
                }
                Ok(n) => {
                    c.rx.extend_from_slice(&buf[..n]);
                    c.received += n as u64;
                }
                Err(e) if e.kind() == std::io::ErrorKind::WouldBlock => {}
                Err(_) => {
                    c.closed = true;
                    break;
                }
            }
            if t0.elapsed() > limit {
                break;
            }
            std::thread::sleep(Duration::from_millis(2));
        }
        c.closed
    }

    pub fn take_responses(&mut self, i: usize, obs: &mut String) -> Vec<Vec<u8>> {
        let c = self.conns.get_mut(&i).unwrap();
        let mut out = Vec::new();
        let mut off = 0;
        while let Some((_r, used)) = parse_resp(&c.rx[off..]) {
            out.push(c.rx[off..off + used].to_vec());
            off += used;
        }
        c.rx.drain(..off);
        for r in &out {
            let _ = writeln!(obs, "R {}", hex(r));
        }
        if !c.rx.is_empty() && c.closed {
            let _ = writeln!(obs, "R? {}", hex(&c.rx));
            c.rx.clear();
        }
        out
    }
}

/// Runs events over real sockets; writes the trace (actual read sizes) and observations.
pub fn run_case(
    cfg: &CaseCfg,
    events: &mut dyn FnMut(&[Vec<u8>], bool) -> Option<Ev>,
    trace: &mut String,
    obs: &mut String,
) -> u64 {
    // reads pending before this case's server exists (tasks of earlier runtimes that were cut off)
    let base_pending = hook::begun() - hook::done();
    // cases of the idle flavour (their id says so) run with a short receive timeout
    let idle_case = cfg.id.contains("-idle-");
    let server = Server::start(cfg.item_limit, cfg.mem_limit, 64, if idle_case { IDLE_TIMEOUT_SECS } else { 60 }, 2);
    let mut d = Driver::new(server);
    let ml = match cfg.mem_limit {
        Some(l) => l.to_string(),
        None => "none".to_string(),
    };
    let _ = writeln!(trace, "CASE {} {} {}", cfg.id, cfg.item_limit, ml);
    let _ = writeln!(obs, "CASE {}", cfg.id);
    let mut last: Vec<Vec<u8>> = Vec::new();
    let mut open = true;
    while let Some(ev) = events(&last, open) {
        if d.stuck > 0 {
            // the server did not react within the deadline: nothing after it is meaningful
            break;
        }
        last = Vec::new();
        open = true;
        match ev {
            Ev::Chunk(i, b) => {
                if b.is_empty() {
                    continue;
                }
                if !d.ensure(i) {
                    // the limit of this profile (64) is never reached: a connection whose handler
                    // does not start reading is a server that does not react — as with any other
                    // missed deadline nothing after it is meaningful, and waiting again for every
                    // further event only costs minutes
                    let _ = writeln!(obs, "NOT-SERVED {} {}", i, d.why);
                    d.stuck += 1;
                    continue;
                }
                if d.conns[&i].closed {
                    open = false;
                    continue;
                }
                let sizes = d.write_wait(i, &b);
                let v = d.server.victims.lock().map(|mut v| std::mem::take(&mut *v)).unwrap();
                if cfg.mem_limit.is_some() {
                    let l: Vec<String> = v.iter().map(|k| hex(k)).collect();
                    if l.is_empty() {
                        let _ = writeln!(trace, "O");
                    } else {
                        let _ = writeln!(trace, "O {}", l.join(","));
                    }
                }
                let mut off = 0;
                for n in sizes {
                    if n == 0 {
                        let _ = writeln!(trace, "E {}", i);
                    } else {
                        let end = (off + n).min(b.len());
                        let _ = writeln!(trace, "C {} {}", i, hex(&b[off..end]));
                        off = end;
                    }
                }
                let _ = writeln!(trace, "G {}", i);
                last = d.take_responses(i, obs);
                let closed = d.conns[&i].closed;
                let _ = writeln!(obs, "S {} {}", i, if closed { 1 } else { 0 });
                open = !closed;
            }
            Ev::Eof(i) => {
                if !d.conns.contains_key(&i) || d.conns[&i].closed {
                    open = false;
                    continue;
                }
                let sizes = d.half_close(i);
                for n in sizes {
                    if n == 0 {
                        let _ = writeln!(trace, "E {}", i);
                    }
                }
                let _ = writeln!(trace, "G {}", i);
                last = d.take_responses(i, obs);
                let closed = d.conns[&i].closed;
                let _ = writeln!(obs, "S {} {}", i, if closed { 1 } else { 0 });
                open = false;
            }
            Ev::Reset(i) => {
                if !d.conns.contains_key(&i) || d.conns[&i].closed {
                    open = false;
                    continue;
                }
                d.reset(i);
                let _ = writeln!(trace, "X {}", i);
                let _ = writeln!(trace, "G {}", i);
                let _ = writeln!(obs, "S {} 1", i);
                open = false;
            }
            Ev::Idle(i) => {
                if !idle_case || !d.conns.contains_key(&i) || d.conns[&i].closed {
                    open = !d.conns.contains_key(&i) || !d.conns[&i].closed;
                    continue;
                }
                // nothing is sent for longer than the receive timeout: the handler gives the
                // connection up, whatever part of a request it holds
                let closed = d.idle(i);
                let _ = writeln!(trace, "I {}", i);
                let _ = writeln!(trace, "G {}", i);
                last = d.take_responses(i, obs);
                let _ = writeln!(obs, "S {} {}", i, if closed { 1 } else { 0 });
                open = false;
            }
            Ev::Tick(t) => {
                d.server.clock.0.fetch_add(t, Ordering::SeqCst);
                let _ = writeln!(trace, "T {}", t);
            }
            Ev::Dump => {
                let _ = writeln!(trace, "D");
                d.server.dump(obs);
            }
        }
    }
    let stuck = d.stuck;
    if stuck > 0 {
        let _ = writeln!(obs, "STUCK {}", stuck);
    }
    // quiesce: close every client socket and let the server tasks see the end of
    // their streams before the runtime goes away, so that no late read of this
    // case is attributed to the next one
    d.conns.clear();
    let t0 = Instant::now();
    while hook::begun() - hook::done() > base_pending && t0.elapsed() < Duration::from_secs(5) {
        std::thread::sleep(Duration::from_micros(500));
    }
    d.server.stop();
    stuck
}

// ------------------------------------------------------------------ slow reader (C01 / C09 / C11)

/// A client that does not read while the server answers several megabytes: every
/// response must still arrive complete, in order and byte for byte once it does read.
/// (A server that writes as much as the socket takes and drops the rest shows only here.)
/// Returns one line per scenario: "SLOW <id> ok" or "SLOW <id> <what differs>".
pub fn slow_reader_probe(monitor: &mut String) {
    let sizes: [usize; 3] = [70_000, 1_500_000, 6_000_000];
    let server = Server::start(32 << 20, None, 16, 60, 2);
    for (n, size) in sizes.iter().enumerate() {
        let id = format!("slow-{}", size);
        let mut sock = match TcpStream::connect_timeout(&server.addr, Duration::from_secs(2)) {
            Ok(s) => s,
            Err(e) => {
                let _ = writeln!(monitor, "SLOW {} connect_failed_{}", id, e.to_string().replace(' ', "_"));
                continue;
            }
        };
        sock.set_nodelay(true).unwrap();
        unsafe {
            use std::os::unix::io::AsRawFd;
            let sz: libc::c_int = 65536;
            libc::setsockopt(sock.as_raw_fd(), libc::SOL_SOCKET, libc::SO_RCVBUF, &sz as *const _ as *const libc::c_void, 4);
        }
        let key = format!("big{}", n).into_bytes();
        let val: Vec<u8> = (0..*size).map(|i| (i % 251) as u8).collect();
        let set = crate::gen::set_like(op::SET, &key, &val, 0xabcd, 0).bytes();
        sock.set_write_timeout(Some(Duration::from_secs(20))).unwrap();
        if sock.write_all(&set).is_err() {
            let _ = writeln!(monitor, "SLOW {} set_not_accepted", id);
            continue;
        }
        let mut rx = Vec::new();
        let mut buf = vec![0u8; 1 << 16];
        sock.set_read_timeout(Some(Duration::from_millis(200))).unwrap();
        let read_until = |sock: &mut TcpStream, rx: &mut Vec<u8>, buf: &mut Vec<u8>, want: usize, secs: u64| {
            let t0 = Instant::now();
            while rx.len() < want && t0.elapsed() < Duration::from_secs(secs) {
                match sock.read(buf) {
                    Ok(0) => break,
                    Ok(k) => rx.extend_from_slice(&buf[..k]),
                    Err(_) => {}
                }
            }
        };
        read_until(&mut sock, &mut rx, &mut buf, 24, 20);
        let cas = match parse_resp(&rx) {
            Some((f, _)) if f.status == 0 => f.cas,
            _ => {
                let _ = writeln!(monitor, "SLOW {} set_not_acknowledged", id);
                continue;
            }
        };
        rx.clear();
        // three hits and a noop, pipelined; nothing is read for a while
        let mut req = Vec::new();
        req.extend_from_slice(&Req::new(op::GET).key(&key).opaque(1).bytes());
        req.extend_from_slice(&Req::new(op::GETK).key(&key).opaque(2).bytes());
        req.extend_from_slice(&Req::new(op::GET).key(&key).opaque(3).bytes());
        req.extend_from_slice(&Req::new(op::NOOP).opaque(4).bytes());
        let _ = sock.write_all(&req);
        std::thread::sleep(Duration::from_millis(400));
        let hit = |opcode: u8, opaque: u32, with_key: bool| -> Vec<u8> {
            let klen = if with_key { key.len() } else { 0 };
            let mut f = vec![0x81, opcode];
            f.extend_from_slice(&(klen as u16).to_be_bytes());
            f.push(4);
            f.push(0);
            f.extend_from_slice(&0u16.to_be_bytes());
            f.extend_from_slice(&((4 + klen + val.len()) as u32).to_be_bytes());
            f.extend_from_slice(&opaque.to_be_bytes());
            f.extend_from_slice(&cas.to_be_bytes());
            f.extend_from_slice(&0xabcdu32.to_be_bytes());
            if with_key {
                f.extend_from_slice(&key);
            }
            f.extend_from_slice(&val);
            f
        };
        let mut expect = Vec::new();
        expect.extend_from_slice(&hit(op::GET, 1, false));
        expect.extend_from_slice(&hit(op::GETK, 2, true));
        expect.extend_from_slice(&hit(op::GET, 3, false));
        let mut noop = vec![0x81, op::NOOP, 0, 0, 0, 0, 0, 0, 0, 0, 0, 0];
        noop.extend_from_slice(&4u32.to_be_bytes());
        noop.extend_from_slice(&0u64.to_be_bytes());
        expect.extend_from_slice(&noop);
        read_until(&mut sock, &mut rx, &mut buf, expect.len(), 30);
        if rx == expect {
            let _ = writeln!(monitor, "SLOW {} ok", id);
        } else {
            let first = rx.iter().zip(expect.iter()).position(|(a, b)| a != b).unwrap_or(rx.len().min(expect.len()));
            let _ = writeln!(monitor, "SLOW {} received_{}_of_{}_bytes_first_difference_at_{}", id, rx.len(), expect.len(), first);
        }
    }
}
