// cfgp.rs — configuration profile (C20): the server is started the way memcrsd
// starts it (cli::parser::parse + runtime_builder::create_memcrs_server, system
// timer ticking in real time) in a child process per configuration; the parent
// drives it over TCP with a generated single-connection program, a connection-limit
// probe and one real-time TTL probe, and the model must give the same answers.
use crate::gen::{hex, op, parse_resp, Req, Rng};
use crate::seq::{Ev, Gen};
use std::fmt::Write as _;
use std::io::{Read, Write};
use std::net::{SocketAddr, TcpStream};
use std::process::{Child, Command, Stdio};
use std::time::{Duration, Instant};

/// Child process: run the server until killed.
pub fn child(args: Vec<String>) {
    let cfg = memcrs::memcache::cli::parser::parse(args).expect("arguments");
    let timer = std::sync::Arc::new(memcrs::server::timer::SystemTimer::new());
    let rt = memcrs::memcache_server::runtime_builder::create_memcrs_server(cfg, timer.clone());
    rt.block_on(timer.run());
}

pub struct Config {
    pub runtime: &'static str,
    pub threads: usize,
    pub policy: &'static str,
    pub item_size: u32,
    pub conn_limit: u32,
    pub mem_limit: u64,
    pub port: u16,
    /// started with the port only: every other setting is the documented default
    pub defaults: bool,
}

impl Config {
    pub fn args(&self) -> Vec<String> {
        if self.defaults {
            return vec!["memcrsd".into(), "-p".into(), self.port.to_string()];
        }
        vec![
            "memcrsd".into(),
            "-p".into(),
            self.port.to_string(),
            "-c".into(),
            self.conn_limit.to_string(),
            "-t".into(),
            self.threads.to_string(),
            "-r".into(),
            self.runtime.into(),
            "-e".into(),
            self.policy.into(),
            "-i".into(),
            format!("{}B", self.item_size),
            "-m".into(),
            format!("{}B", self.mem_limit),
        ]
    }
    pub fn label(&self) -> String {
        if self.defaults {
            return "defaults".to_string();
        }
        format!("{}-t{}-{}-i{}-c{}-m{}", self.runtime, self.threads, self.policy, self.item_size, self.conn_limit, self.mem_limit)
    }
}

fn exchange(sock: &mut TcpStream, bytes: &[u8], sentinel: u32, wait: Duration) -> (Vec<Vec<u8>>, bool) {
    // send the bytes followed by a noop; everything up to the noop's answer belongs to them
    let mut all = bytes.to_vec();
    all.extend_from_slice(&Req::new(op::NOOP).opaque(sentinel).bytes());
    if sock.write_all(&all).is_err() {
        return (vec![], true);
    }
    sock.set_read_timeout(Some(Duration::from_millis(50))).unwrap();
    let t0 = Instant::now();
    let mut rx = Vec::new();
    let mut buf = [0u8; 65536];
    let mut out = Vec::new();
    let mut closed = false;
    'outer: while t0.elapsed() < wait {
        match sock.read(&mut buf) {
            Ok(0) => {
                closed = true;
                break;
            }
            Ok(n) => rx.extend_from_slice(&buf[..n]),
            Err(e) if e.kind() == std::io::ErrorKind::WouldBlock || e.kind() == std::io::ErrorKind::TimedOut => {}
            Err(_) => {
                closed = true;
                break;
            }
        }
        let mut off = 0;
        while let Some((f, used)) = parse_resp(&rx[off..]) {
            out.push(rx[off..off + used].to_vec());
            off += used;
            if f.opaque == sentinel && f.opcode == op::NOOP {
                break 'outer;
            }
        }
        rx.drain(..off);
    }
    (out, closed)
}

pub fn start_child(cfg: &Config) -> Option<Child> {
    // the real binary (src/bin/memcrsd.rs: its main starts the clock and the server) when the
    // check has built it; otherwise this harness' own copy of that main
    let mut cmd = match std::env::var("VERIF_MEMCRSD") {
        Ok(p) if std::path::Path::new(&p).exists() => {
            let mut c = Command::new(p);
            c.args(&cfg.args()[1..]);
            c
        }
        _ => {
            let mut c = Command::new(std::env::current_exe().unwrap());
            c.arg("cfg-child").args(cfg.args());
            c
        }
    };
    cmd.stdout(Stdio::null()).stderr(Stdio::null());
    let child = cmd.spawn().ok()?;
    let addr: SocketAddr = format!("127.0.0.1:{}", cfg.port).parse().unwrap();
    let t0 = Instant::now();
    while t0.elapsed() < Duration::from_secs(15) {
        if let Ok(mut s) = TcpStream::connect_timeout(&addr, Duration::from_millis(300)) {
            // a real exchange, not just a connect
            let (r, _) = exchange(&mut s, &[], 0xfffffff0, Duration::from_secs(2));
            if !r.is_empty() {
                return Some(child);
            }
        }
        std::thread::sleep(Duration::from_millis(20));
    }
    let mut child = child;
    let _ = child.kill();
    None
}

/// One configuration: program, limits, TTL probe. Appends to trace/obs.
pub fn run_config(cfg: &Config, seed: u64, steps: usize, trace: &mut String, obs: &mut String) -> bool {
    let id = format!("cfg-{}-{}", cfg.label(), seed);
    let mut child = match start_child(cfg) {
        Some(c) => c,
        None => {
            let _ = writeln!(obs, "CASE {}\nNOT-STARTED", id);
            let _ = writeln!(trace, "CASE {} {} none", id, cfg.item_size);
            return false;
        }
    };
    let addr: SocketAddr = format!("127.0.0.1:{}", cfg.port).parse().unwrap();
    // the model: plain store (policy 'random' with an unreached limit is transparent: C20_policy_transparent)
    let _ = writeln!(trace, "CASE {} {} none", id, cfg.item_size);
    let _ = writeln!(obs, "CASE {}", id);
    // 1. the same generated single-connection program for every configuration
    let mut g = Gen::new(seed, "cfg", cfg.item_size, steps);
    let mut conn_id = 0usize;
    let mut sock = TcpStream::connect(addr).unwrap();
    sock.set_nodelay(true).unwrap();
    let mut last: Vec<Vec<u8>> = Vec::new();
    let mut open = true;
    let mut sentinel = 0xf000_0000u32;
    while let Some(ev) = g.next(&last, open) {
        last = Vec::new();
        open = true;
        match ev {
            Ev::Chunk(_, b) => {
                sentinel += 1;
                let mut all = b.clone();
                all.extend_from_slice(&Req::new(op::NOOP).opaque(sentinel).bytes());
                let (rs, closed) = exchange(&mut sock, &b, sentinel, Duration::from_secs(10));
                let _ = writeln!(trace, "C {} {}", conn_id, hex(&all));
                let _ = writeln!(trace, "G {}", conn_id);
                for r in &rs {
                    let _ = writeln!(obs, "R {}", hex(r));
                }
                // closed = the sentinel was never answered
                let answered = rs.last().map(|r| parse_resp(r).map(|(f, _)| f.opaque == sentinel).unwrap_or(false)).unwrap_or(false);
                let is_closed = closed || !answered;
                let _ = writeln!(obs, "S {} {}", conn_id, if is_closed { 1 } else { 0 });
                last = rs;
                if is_closed {
                    open = false;
                    conn_id += 1;
                    sock = TcpStream::connect(addr).unwrap();
                    sock.set_nodelay(true).unwrap();
                }
            }
            Ev::Eof(_) | Ev::Reset(_) | Ev::Idle(_) | Ev::Tick(_) | Ev::Dump => {}
        }
    }
    // 1b. the configured item size limit is the one enforced: a body of exactly that size is
    // stored, one byte more is refused (and skipped), whatever the generated program happened
    // to send
    {
        let key = b"limitprobe";
        let at = cfg.item_size as usize - 8 - key.len();
        let mut b = crate::gen::set_like(op::SET, key, &vec![b'L'; at], 5, 0).bytes();
        b.extend_from_slice(&crate::gen::set_like(op::SET, key, &vec![b'M'; at + 1], 6, 0).bytes());
        b.extend_from_slice(&Req::new(op::GET).key(key).bytes());
        sentinel += 1;
        let mut all = b.clone();
        all.extend_from_slice(&Req::new(op::NOOP).opaque(sentinel).bytes());
        let (rs, closed) = exchange(&mut sock, &b, sentinel, Duration::from_secs(10));
        let _ = writeln!(trace, "C {} {}", conn_id, hex(&all));
        let _ = writeln!(trace, "G {}", conn_id);
        for r in &rs {
            let _ = writeln!(obs, "R {}", hex(r));
        }
        let answered = rs.last().map(|r| parse_resp(r).map(|(f, _)| f.opaque == sentinel).unwrap_or(false)).unwrap_or(false);
        let _ = writeln!(obs, "S {} {}", conn_id, if closed || !answered { 1 } else { 0 });
    }
    // 1c. a store of more than a thousand records is flushed like a small one, in every
    // configuration: the flush is answered and nothing stored before it is found afterwards
    {
        let mut b = Vec::new();
        for i in 0..1100u32 {
            b.extend_from_slice(&crate::gen::set_like(op::SETQ, format!("bulk{}", i).as_bytes(), b"v", 0, 0).bytes());
        }
        b.extend_from_slice(&crate::gen::flush(op::FLUSH, None).opaque(0xf1).bytes());
        b.extend_from_slice(&Req::new(op::GET).key(b"bulk7").opaque(0xf2).bytes());
        sentinel += 1;
        let mut all = b.clone();
        all.extend_from_slice(&Req::new(op::NOOP).opaque(sentinel).bytes());
        let (rs, closed) = exchange(&mut sock, &b, sentinel, Duration::from_secs(10));
        let _ = writeln!(trace, "C {} {}", conn_id, hex(&all));
        let _ = writeln!(trace, "G {}", conn_id);
        for r in &rs {
            let _ = writeln!(obs, "R {}", hex(r));
        }
        let answered = rs.last().map(|r| parse_resp(r).map(|(f, _)| f.opaque == sentinel).unwrap_or(false)).unwrap_or(false);
        let _ = writeln!(obs, "S {} {}", conn_id, if closed || !answered { 1 } else { 0 });
    }
    drop(sock);
    std::thread::sleep(Duration::from_millis(50));
    // 2. the configured connection limit is the one enforced
    let _ = writeln!(trace, "LIMIT {}", cfg.conn_limit);
    let mut socks = Vec::new();
    let n = cfg.conn_limit as usize + 2;
    for c in 0..n {
        let s = TcpStream::connect(addr).unwrap();
        s.set_nodelay(true).unwrap();
        socks.push(s);
        let _ = writeln!(trace, "CONN {}", c);
    }
    // a served connection answers at once; on a loaded machine it gets up to 6 s (the ones
    // beyond the limit never answer: only a run that is about to fail waits that long)
    let mut answered = vec![false; socks.len()];
    let t_probe = Instant::now();
    loop {
        for (c, s) in socks.iter_mut().enumerate() {
            if !answered[c] {
                let (r, _) = exchange(s, &[], 0xee00_0000 + c as u32, Duration::from_millis(700));
                answered[c] = !r.is_empty();
            }
        }
        let n_served = answered.iter().filter(|a| **a).count();
        if n_served >= cfg.conn_limit as usize || t_probe.elapsed() > Duration::from_secs(6) {
            break;
        }
    }
    let served = answered.iter().filter(|a| **a).count();
    // which of them are served depends on how the kernel spreads them over the
    // listeners; the property is about how many
    let _ = writeln!(trace, "COUNT");
    let _ = writeln!(obs, "SERVED-COUNT {}", served);
    drop(socks);
    std::thread::sleep(Duration::from_millis(100));
    // 2b. the configured memory limit is the one the eviction policy enforces: below it
    // nothing is lost; pushed beyond it, what stays stored is pinned to (limit - one
    // record, limit + one record]
    if cfg.policy == "random" && cfg.mem_limit <= (1 << 20) {
        let mut s = TcpStream::connect(addr).unwrap();
        s.set_nodelay(true).unwrap();
        let _ = exchange(&mut s, &Req::new(op::FLUSH).opaque(1).bytes(), 0xcc00_0000, Duration::from_secs(5));
        let vlen = 1000usize.min(cfg.item_size as usize - 64);
        let rec = 24 + vlen as u64;
        let n1 = (cfg.mem_limit * 15 / 16 / rec) as usize;
        let n2 = (cfg.mem_limit / 2 / rec) as usize + 2;
        let val = vec![b'm'; vlen];
        // pipelined in batches of 64 requests
        let put = |s: &mut TcpStream, from: usize, to: usize| {
            let mut i = from;
            while i < to {
                let mut batch = Vec::new();
                let end = (i + 64).min(to);
                for j in i..end {
                    let key = format!("mp{}", j);
                    batch.extend_from_slice(&crate::gen::set_like(op::SETQ, key.as_bytes(), &val, 0, 0).bytes());
                }
                let _ = exchange(s, &batch, 0xcc10_0000 + i as u32, Duration::from_secs(10));
                i = end;
            }
        };
        let count = |s: &mut TcpStream, n: usize| -> usize {
            let mut hits = 0;
            let mut i = 0;
            while i < n {
                let mut batch = Vec::new();
                let end = (i + 64).min(n);
                for j in i..end {
                    let key = format!("mp{}", j);
                    batch.extend_from_slice(&Req::new(op::GET).key(key.as_bytes()).opaque(9).bytes());
                }
                let (r, _) = exchange(s, &batch, 0xcc20_0000 + i as u32, Duration::from_secs(10));
                hits += r.iter().filter(|x| parse_resp(x).map(|(f, _)| f.opcode == op::GET && f.status == 0).unwrap_or(false)).count();
                i = end;
            }
            hits
        };
        put(&mut s, 0, n1);
        let all_hit = count(&mut s, n1) == n1;
        put(&mut s, n1, n1 + n2);
        let stored = count(&mut s, n1 + n2) as u64 * rec;
        let pinned = stored + rec > cfg.mem_limit && stored <= cfg.mem_limit + rec;
        let _ = exchange(&mut s, &Req::new(op::FLUSH).opaque(1).bytes(), 0xcc00_0001, Duration::from_secs(5));
        let _ = writeln!(trace, "MEMPROBE");
        let _ = writeln!(obs, "MEM below-limit-all-hit={} stored-pinned-to-limit={}", all_hit as u8, pinned as u8);
    }
    // 3. expiry follows real seconds (tick-granular clock: ttl 3 lives 2..3 wall seconds)
    let mut s = TcpStream::connect(addr).unwrap();
    s.set_nodelay(true).unwrap();
    let set = crate::gen::set_like(op::SET, b"ttlprobe", b"v", 0, 5).bytes();
    let t0 = Instant::now();
    let _ = exchange(&mut s, &set, 0xdd00_0001, Duration::from_secs(5));
    let get = Req::new(op::GET).key(b"ttlprobe").opaque(7).bytes();
    let mut early_hit = false;
    while t0.elapsed() < Duration::from_millis(800) {
        let (r, _) = exchange(&mut s, &get, 0xdd00_0002, Duration::from_secs(5));
        early_hit = r.first().map(|x| parse_resp(x).map(|(f, _)| f.status == 0).unwrap_or(false)).unwrap_or(false);
        if !early_hit {
            break;
        }
        std::thread::sleep(Duration::from_millis(300));
    }
    // the whole server is then suspended for 7 s (a stopped process, a paused VM): expiry
    // follows real elapsed seconds all the same — the clock catches up when it resumes, so
    // an item with TTL 5 is gone as soon as the server runs again (a clock that drops the
    // ticks it missed would show it for three more seconds). The first miss within 1.5 s of
    // the resumption counts; polling gives a loaded machine time to catch up.
    while t0.elapsed() < Duration::from_millis(800) {
        std::thread::sleep(Duration::from_millis(10));
    }
    unsafe {
        libc::kill(child.id() as i32, libc::SIGSTOP);
    }
    while t0.elapsed() < Duration::from_millis(7800) {
        std::thread::sleep(Duration::from_millis(50));
    }
    unsafe {
        libc::kill(child.id() as i32, libc::SIGCONT);
    }
    let mut late_miss = false;
    while !late_miss && t0.elapsed() < Duration::from_millis(9300) {
        std::thread::sleep(Duration::from_millis(150));
        let (r, _) = exchange(&mut s, &get, 0xdd00_0003, Duration::from_secs(5));
        late_miss = r.first().map(|x| parse_resp(x).map(|(f, _)| f.status == 1).unwrap_or(false)).unwrap_or(false);
    }
    let _ = writeln!(trace, "TTLPROBE");
    let _ = writeln!(obs, "TTL live-before-0.8s={} gone-once-resumed-after-a-7s-stall={}", early_hit as u8, late_miss as u8);
    let _ = child.kill();
    let _ = child.wait();
    true
}

pub fn configs(seed: u64, n: usize, base_port: u16) -> Vec<Config> {
    let mut rng = Rng::new(seed.wrapping_mul(131));
    let mut out = Vec::new();
    // the first ones are fixed so that every run covers both runtimes, several
    // listeners and both policies; the rest is drawn
    // memory limits far above what the generated program stores (so that policy 'random'
    // is transparent for it), small enough for the memory probe to fill
    let mems = [262144u64, 393216, 524288];
    let fixed: Vec<(&'static str, usize, &'static str, u32, u32)> = vec![
        ("current-thread", 1, "none", 1024, 2),
        ("current-thread", 2, "none", 2048, 1),
        ("multi-thread", 2, "random", 1024, 3),
        ("multi-thread", 8, "none", 4096, 1),
        ("current-thread", 8, "random", 1024, 2),
        ("multi-thread", 1, "none", 100000, 4),
    ];
    for i in 0..n {
        let (runtime, threads, policy, item_size, conn_limit) = if i < fixed.len() {
            fixed[i]
        } else {
            (
                *rng.pick(&["current-thread", "multi-thread"]),
                *rng.pick(&[1usize, 2, 8]),
                *rng.pick(&["none", "random"]),
                *rng.pick(&[1024u32, 1500, 4096, 65536, 1048576]),
                1 + rng.below(4) as u32,
            )
        };
        // a memory limit small enough to probe, whenever the generated program cannot come near it
        let mem_limit = if policy == "random" && item_size <= 4096 { mems[i % mems.len()] } else if policy == "random" && item_size <= 65536 { 1 << 20 } else { 64 << 20 };
        if i == 6 {
            // no setting but the port: current-thread runtime on every physical core, no eviction,
            // 1 MiB items, 1024 connections (the defaults the command line documents)
            out.push(Config { runtime: "current-thread", threads: 0, policy: "none", item_size: 1 << 20, conn_limit: 1024, mem_limit: 64 << 20,
                              port: base_port + i as u16, defaults: true });
            continue;
        }
        out.push(Config { runtime, threads, policy, item_size, conn_limit, mem_limit, port: base_port + i as u16, defaults: false });
    }
    out
}
