// conc.rs — concurrency correspondence profile: real threads call the real
// MemcStore / MemoryStore; the cfg(memcrs_verif) hook turns every map call of
// the store into a yield point, and a scheduler grants one step at a time. The
// schedule actually executed is written to the trace and replayed on the model
// (Model/Conc.v). A step that does not return while the other clients are
// parked is reported (C16). An independent monitor re-runs every sequential
// order of the same operations on a fresh store and reports outcomes that no
// order explains (C03 / C04).
use crate::gen::{hex, op as opc, parse_resp, Rng};
use crate::seq::Clock;
use bytes::{Bytes, BytesMut};
use memcrs::cache::cache::{Cache, CacheMetaData, KeyType, Record};
use memcrs::cache::error::CacheError;
use memcrs::memcache::store::MemcStore;
use memcrs::memcache_server::handler::BinaryHandler;
use memcrs::memory_store::store::MemoryStore;
use memcrs::protocol::binary_codec::MemcacheBinaryCodec;
use std::cell::Cell;
use std::fmt::Write as _;
use std::sync::atomic::{AtomicU64, Ordering};
use std::sync::{Arc, Condvar, Mutex};
use std::time::{Duration, Instant};
use tokio_util::codec::{Decoder, Encoder};

#[derive(Clone, Debug)]
pub enum COp {
    Get(Vec<u8>),
    Set(Vec<u8>, Vec<u8>, u32, u32, u64),
    Del(Vec<u8>, u64),
    Add(Vec<u8>, Vec<u8>, u32, u32, u64),
    Replace(Vec<u8>, Vec<u8>, u32, u32, u64),
    Append(Vec<u8>, u64, Vec<u8>),
    Prepend(Vec<u8>, u64, Vec<u8>),
    Delta(bool, Vec<u8>, u64, u32, u64, u64), // incr?, key, header cas, expiration, delta, initial
    Flush(u32),                               // delay (policy profile only)
}

impl COp {
    pub fn encode(&self) -> String {
        match self {
            COp::Get(k) => format!("get:{}", hex(k)),
            COp::Set(k, v, f, t, c) => format!("set:{}:{}:{}:{}:{}", hex(k), hex(v), f, t, c),
            COp::Del(k, c) => format!("del:{}:{}", hex(k), c),
            COp::Add(k, v, f, t, c) => format!("add:{}:{}:{}:{}:{}", hex(k), hex(v), f, t, c),
            COp::Replace(k, v, f, t, c) => format!("replace:{}:{}:{}:{}:{}", hex(k), hex(v), f, t, c),
            COp::Append(k, c, v) => format!("append:{}:{}:{}", hex(k), c, hex(v)),
            COp::Prepend(k, c, v) => format!("prepend:{}:{}:{}", hex(k), c, hex(v)),
            COp::Delta(i, k, hc, he, d, ini) => {
                format!("{}:{}:{}:{}:{}:{}", if *i { "incr" } else { "decr" }, hex(k), hc, he, d, ini)
            }
            COp::Flush(d) => format!("flush:{}", d),
        }
    }
    pub fn class(&self) -> &'static str {
        match self {
            COp::Get(_) | COp::Set(..) | COp::Del(..) | COp::Flush(_) => "base",
            COp::Add(..) => "add",
            COp::Replace(..) => "replace",
            COp::Append(..) | COp::Prepend(..) => "append",
            COp::Delta(..) => "delta",
        }
    }
}

pub fn err_code(e: &CacheError) -> u16 {
    match e {
        CacheError::NotFound => 1,
        CacheError::KeyExists => 2,
        CacheError::ValueTooLarge => 3,
        CacheError::InvalidArguments => 4,
        CacheError::ItemNotStored => 5,
        CacheError::ArithOnNonNumeric => 6,
        CacheError::UnkownCommand => 0x81,
        CacheError::OutOfMemory => 0x82,
        CacheError::NotSupported => 0x83,
        CacheError::InternalError => 0x84,
        CacheError::Busy => 0x85,
        CacheError::TemporaryFailure => 0x86,
    }
}

pub fn field(dbg: &str, name: &str) -> u64 {
    let pat = format!("{}: ", name);
    let i = dbg.find(&pat).expect("field") + pat.len();
    let rest = &dbg[i..];
    let end = rest.find(|c: char| !c.is_ascii_digit()).unwrap_or(rest.len());
    rest[..end].parse().unwrap()
}

pub struct Sys {
    pub clock: Arc<Clock>,
    pub inner: Arc<MemoryStore>,
    pub memc: Arc<MemcStore>,
}

impl Sys {
    pub fn new() -> Sys {
        let clock = Arc::new(Clock(AtomicU64::new(0)));
        let inner = Arc::new(MemoryStore::new(clock.clone()));
        let memc = Arc::new(MemcStore::new(inner.clone()));
        Sys { clock, inner, memc }
    }

    /// Execute one operation; the textual result is what the model prints.
    pub fn exec(&self, op: &COp) -> String {
        exec_memc(&self.memc, op)
    }
}

pub fn exec_memc(memc: &Arc<MemcStore>, op: &COp) -> String {
    crate::watch::beat();
    let this = MemcRef { memc: memc.clone() };
    this.exec(op)
}

struct MemcRef {
    memc: Arc<MemcStore>,
}

impl MemcRef {
    fn exec(&self, op: &COp) -> String {
        let set_res = |r: Result<memcrs::cache::cache::SetStatus, CacheError>| match r {
            Ok(s) => format!("ok:{}", s.cas),
            Err(e) => format!("err:{}", err_code(&e)),
        };
        match op {
            COp::Get(k) => match self.memc.get(&Bytes::from(k.clone())) {
                Ok(r) => {
                    let d = format!("{:?}", r);
                    let line = crate::seq::record_line(k, &d);
                    let p: Vec<&str> = line.split(' ').collect();
                    format!("hit:{}:{}:{}", p[2], field(&d, "flags"), field(&d, "cas"))
                }
                Err(e) => format!("err:{}", err_code(&e)),
            },
            COp::Set(k, v, f, t, c) => {
                set_res(self.memc.set(Bytes::from(k.clone()), Record::new(Bytes::from(v.clone()), *c, *f, *t)))
            }
            COp::Del(k, c) => match self.memc.delete(Bytes::from(k.clone()), CacheMetaData::new(*c, 0, 0)) {
                Ok(_) => "ok".to_string(),
                Err(e) => format!("err:{}", err_code(&e)),
            },
            COp::Add(k, v, f, t, c) => {
                set_res(self.memc.add(Bytes::from(k.clone()), Record::new(Bytes::from(v.clone()), *c, *f, *t)))
            }
            COp::Replace(k, v, f, t, c) => {
                set_res(self.memc.replace(Bytes::from(k.clone()), Record::new(Bytes::from(v.clone()), *c, *f, *t)))
            }
            COp::Append(k, c, v) => {
                set_res(self.memc.append(Bytes::from(k.clone()), Record::new(Bytes::from(v.clone()), *c, 0, 0)))
            }
            COp::Prepend(k, c, v) => {
                set_res(self.memc.prepend(Bytes::from(k.clone()), Record::new(Bytes::from(v.clone()), *c, 0, 0)))
            }
            COp::Delta(incr, k, hc, he, d, ini) => {
                // DeltaParam cannot be built outside the crate: go through codec and handler
                let req = crate::gen::delta(if *incr { opc::INCR } else { opc::DECR }, k, *d, *ini, *he).cas(*hc);
                let mut codec = MemcacheBinaryCodec::new(1 << 20);
                let mut buf = BytesMut::from(&req.bytes()[..]);
                let r = codec.decode(&mut buf).unwrap().unwrap();
                let h = BinaryHandler::new(self.memc.clone());
                let resp = h.handle_request(r).unwrap();
                let mut dst = BytesMut::new();
                codec.encode(resp, &mut dst).unwrap();
                let (f, _) = parse_resp(&dst).unwrap();
                if f.status == 0 {
                    format!("ok:{}", f.cas)
                } else {
                    format!("err:{}", f.status)
                }
            }
            COp::Flush(d) => {
                self.memc.flush(CacheMetaData::new(0, 0, *d));
                "ok".to_string()
            }
        }
    }
}

impl Sys {
    pub fn dump(&self, out: &mut String) {
        let log: Arc<Mutex<Vec<(Vec<u8>, String)>>> = Arc::new(Mutex::new(Vec::new()));
        let l2 = log.clone();
        self.inner.remove_if(&mut move |k: &KeyType, r: &Record| {
            l2.lock().unwrap().push((k.to_vec(), format!("{:?}", r)));
            false
        });
        let mut lines: Vec<String> = log.lock().unwrap().iter().map(|(k, d)| crate::seq::record_line(k, d)).collect();
        lines.sort();
        for l in lines {
            out.push_str(&l);
            out.push('\n');
        }
    }

    /// content without CAS and timestamps (for the order-insensitive monitor)
    pub fn content(&self) -> Vec<String> {
        let mut s = String::new();
        self.dump(&mut s);
        s.lines()
            .map(|l| {
                let p: Vec<&str> = l.split(' ').collect();
                format!("{} {} {} {}", p[1], p[2], p[3], p[5])
            })
            .collect()
    }
}

// ------------------------------------------------------------------ scheduler

thread_local! {
    pub static TID: Cell<Option<usize>> = Cell::new(None);
}

pub struct SchedState {
    pub grant: Option<usize>,
    pub waiting: Vec<bool>,
    pub finished: Vec<bool>,
    pub steps: Vec<(usize, &'static str)>,
    /// the yield point each client is parked at
    pub parked_at: Vec<&'static str>,
    /// OS thread ids (to tell a client blocked on a lock from one that is still running)
    pub tids: Vec<i32>,
}

pub struct Sched {
    pub st: Mutex<SchedState>,
    pub cv: Condvar,
}

impl Sched {
    pub fn new(n: usize) -> Arc<Sched> {
        Arc::new(Sched {
            st: Mutex::new(SchedState { grant: None, waiting: vec![false; n], finished: vec![false; n], steps: vec![], parked_at: vec![""; n], tids: vec![0; n] }),
            cv: Condvar::new(),
        })
    }
    /// called by worker i at a yield point: park until granted
    pub fn yield_here(&self, i: usize, what: &'static str) {
        let mut st = self.st.lock().unwrap();
        st.waiting[i] = true;
        st.parked_at[i] = what;
        if st.tids[i] == 0 {
            st.tids[i] = unsafe { libc::syscall(libc::SYS_gettid) as i32 };
        }
        self.cv.notify_all();
        while st.grant != Some(i) {
            st = self.cv.wait(st).unwrap();
        }
        st.grant = None;
        st.waiting[i] = false;
        st.steps.push((i, what));
    }
    pub fn finish(&self, i: usize) {
        let mut st = self.st.lock().unwrap();
        st.finished[i] = true;
        self.cv.notify_all();
    }
}

pub const STEP_WATCHDOG: Duration = Duration::from_secs(10);
/// no case of the generators needs more than a few hundred steps
pub const MAX_STEPS: usize = 20_000;

#[cfg(memcrs_verif)]
pub fn install_hook(s: Option<Arc<Sched>>) {
    match s {
        Some(s) => {
            let s2 = s.clone();
            *crate::seq::CLOCK_HOOK.write().unwrap() = Some(Arc::new(move || {
                if let Some(i) = TID.with(|t| t.get()) {
                    s2.yield_here(i, "clock");
                }
            }));
            memcrs::verif::set_yield(Some(Arc::new(move |what: &'static str| {
                if let Some(i) = TID.with(|t| t.get()) {
                    s.yield_here(i, what);
                }
            })))
        }
        None => {
            *crate::seq::CLOCK_HOOK.write().unwrap() = None;
            memcrs::verif::set_yield(None)
        }
    }
}
#[cfg(not(memcrs_verif))]
pub fn install_hook(_s: Option<Arc<Sched>>) {}


/// Is the OS thread sleeping (blocked), as opposed to running or runnable?
fn thread_sleeps(tid: i32) -> bool {
    match std::fs::read_to_string(format!("/proc/self/task/{}/stat", tid)) {
        Ok(s) => {
            // "pid (comm) S ..."
            match s.rfind(')') {
                Some(i) => s[i + 1..].trim_start().starts_with('S'),
                None => false,
            }
        }
        Err(_) => false,
    }
}

pub struct Driven {
    pub order: Vec<usize>,
    pub stuck: Option<(usize, String)>,
}

/// The scheduler loop: wait until every unfinished client is parked at a yield point,
/// let `choose` pick the next one, grant it one step. A client that does not come back
/// because it waits for a lock held by a client parked at a "clock" yield (the store
/// reads the clock inside the entry lock of a conditional store) is blocked, not stuck:
/// the holder is granted its next step, after which both come back. A step that does not
/// return otherwise is reported (watchdog), and so is a case that never ends (livelock).
pub fn drive(sched: &Arc<Sched>, n: usize, choose: &mut dyn FnMut(&[usize]) -> usize) -> Driven {
    let mut order = Vec::new();
    let mut stuck = None;
    loop {
        let t0 = Instant::now();
        let mut st = sched.st.lock().unwrap();
        let mut sleepy = 0;
        loop {
            let all_parked = st.grant.is_none() && (0..n).all(|i| st.finished[i] || st.waiting[i]);
            if all_parked {
                break;
            }
            let (g, to) = sched.cv.wait_timeout(st, Duration::from_millis(10)).unwrap();
            st = g;
            if !to.timed_out() {
                sleepy = 0;
                continue;
            }
            // somebody is neither parked nor finished: blocked on a lock whose holder is parked at a clock read?
            if st.grant.is_none() {
                let holder = (0..n).find(|h| st.waiting[*h] && !st.finished[*h] && st.parked_at[*h] == "clock");
                let blocked: Vec<usize> = (0..n).filter(|i| !st.finished[*i] && !st.waiting[*i]).collect();
                if let Some(h) = holder {
                    if !blocked.is_empty() && blocked.iter().all(|i| st.tids[*i] != 0 && thread_sleeps(st.tids[*i])) {
                        sleepy += 1;
                        if sleepy >= 3 {
                            sleepy = 0;
                            order.push(h);
                            st.grant = Some(h);
                            sched.cv.notify_all();
                            continue;
                        }
                    } else {
                        sleepy = 0;
                    }
                }
            }
            if t0.elapsed() > STEP_WATCHDOG {
                let who = order.last().copied().unwrap_or(0);
                stuck = Some((who, format!("step {} of thread {} did not return while the others were parked", order.len(), who)));
                break;
            }
        }
        if stuck.is_some() {
            break;
        }
        let runnable: Vec<usize> = (0..n).filter(|i| !st.finished[*i]).collect();
        if runnable.is_empty() {
            break;
        }
        if order.len() >= MAX_STEPS {
            // every step returns but the operations never end: a livelock
            let who = order.last().copied().unwrap_or(0);
            stuck = Some((who, format!("no end after {} steps: thread {} keeps taking steps", MAX_STEPS, who)));
            break;
        }
        let i = choose(&runnable);
        order.push(i);
        crate::watch::beat();
        st.grant = Some(i);
        sched.cv.notify_all();
        drop(st);
    }
    Driven { order, stuck }
}

/// The schedule as the model sees it: reading the clock is not a step of its own there.
pub fn model_schedule(sched: &Arc<Sched>) -> Vec<usize> {
    sched.st.lock().unwrap().steps.iter().filter(|(_, what)| *what != "clock").map(|(i, _)| *i).collect()
}

pub struct ConcCase {
    pub id: String,
    pub prelude: Vec<COp>, // executed sequentially at clock 0
    pub tick: u64,         // then the clock advances
    pub threads: Vec<Vec<COp>>,
}

pub struct ConcResult {
    pub results: Vec<Vec<String>>,
    pub sched: Vec<usize>,
    pub stuck: Option<(usize, String)>,
    pub dump: String,
    pub content: Vec<String>,
}

/// Run the threads under a schedule chosen step by step by `choose`.
pub fn run_controlled(case: &ConcCase, choose: &mut dyn FnMut(&[usize]) -> usize) -> ConcResult {
    let sys = Arc::new(Sys::new());
    for o in &case.prelude {
        sys.exec(o);
    }
    sys.clock.0.fetch_add(case.tick, Ordering::SeqCst);
    let n = case.threads.len();
    let sched = Sched::new(n);
    install_hook(Some(sched.clone()));
    let results: Arc<Mutex<Vec<Vec<String>>>> = Arc::new(Mutex::new(vec![Vec::new(); n]));
    let mut handles = Vec::new();
    for (i, ops) in case.threads.iter().cloned().enumerate() {
        let sys = sys.clone();
        let sched = sched.clone();
        let results = results.clone();
        handles.push(std::thread::spawn(move || {
            TID.with(|t| t.set(Some(i)));
            for o in ops {
                sched.yield_here(i, "start");
                let r = sys.exec(&o);
                sched.yield_here(i, "return");
                results.lock().unwrap()[i].push(r);
            }
            TID.with(|t| t.set(None));
            sched.finish(i);
        }));
    }
    let Driven { order: _, stuck } = drive(&sched, n, choose);
    let order = model_schedule(&sched);
    install_hook(None);
    if stuck.is_none() {
        for h in handles {
            let _ = h.join();
        }
    }
    let mut dump = String::new();
    sys.dump(&mut dump);
    let content = sys.content();
    let results = results.lock().unwrap().clone();
    ConcResult { results, sched: order, stuck, dump, content }
}

/// Outcome of one sequential order (no hook, one thread), CAS numbers stripped.
pub fn strip(r: &str) -> String {
    let p: Vec<&str> = r.split(':').collect();
    match p[0] {
        "hit" => format!("hit:{}:{}", p[1], p[2]),
        "ok" => "ok".to_string(),
        _ => r.to_string(),
    }
}

fn sequential_outcomes(case: &ConcCase) -> Vec<(Vec<Vec<String>>, Vec<String>)> {
    // all interleavings of whole operations respecting each thread's order
    fn rec(case: &ConcCase, pos: &mut Vec<usize>, order: &mut Vec<usize>, out: &mut Vec<Vec<usize>>) {
        let mut any = false;
        for t in 0..case.threads.len() {
            if pos[t] < case.threads[t].len() {
                any = true;
                pos[t] += 1;
                order.push(t);
                rec(case, pos, order, out);
                order.pop();
                pos[t] -= 1;
            }
        }
        if !any {
            out.push(order.clone());
        }
    }
    let mut orders = Vec::new();
    rec(case, &mut vec![0; case.threads.len()], &mut Vec::new(), &mut orders);
    let mut res = Vec::new();
    for ord in orders {
        let sys = Sys::new();
        for o in &case.prelude {
            sys.exec(o);
        }
        sys.clock.0.fetch_add(case.tick, Ordering::SeqCst);
        let mut pos = vec![0; case.threads.len()];
        let mut results = vec![Vec::new(); case.threads.len()];
        for t in ord {
            let r = sys.exec(&case.threads[t][pos[t]]);
            results[t].push(strip(&r));
            pos[t] += 1;
        }
        res.push((results, sys.content()));
    }
    res
}

pub fn gen_case(rng: &mut Rng, id: String, flavor: &str) -> ConcCase {
    let k = b"k".to_vec();
    let k2 = b"j".to_vec();
    // initial state of the key: absent, present, present-but-expired
    let (prelude, tick) = match if flavor == "ttl" { *rng.pick(&[2u64, 2, 2, 1]) } else { rng.below(4) } {
        0 => (vec![], 0),
        1 => (vec![COp::Set(k.clone(), b"5".to_vec(), 7, 0, 0)], rng.below(2) * 3),
        2 => (vec![COp::Set(k.clone(), b"old".to_vec(), 7, 2, 0)], 5), // expired, uncollected
        _ => (vec![COp::Set(k.clone(), b"10".to_vec(), 1, 100, 0), COp::Set(k2.clone(), b"x".to_vec(), 0, 0, 0)], 1),
    };
    let nthreads = 2 + rng.below(2) as usize;
    // at most one kind of read-modify-write command per case, so that what the
    // monitor finds can be attributed to one call site
    let rmw_kind = rng.below(4);
    let mut threads = Vec::new();
    for _ in 0..nthreads {
        let nops = 1 + rng.below(2) as usize;
        let mut ops = Vec::new();
        for _ in 0..nops {
            let key = if rng.chance(1, 8) { k2.clone() } else { k.clone() };
            // CAS literals that can never coincide with a value the counter issues inside
            // the window (the order of reservations is not an observable the property fixes):
            // 0, the prelude item's token (1), values far above the counter, u64::MAX
            let cas = match rng.below(6) {
                0 | 1 | 2 => 0,
                3 | 4 => {
                    if prelude.is_empty() {
                        900001
                    } else {
                        1
                    }
                }
                _ => {
                    if prelude.is_empty() {
                        900002
                    } else {
                        u64::MAX
                    }
                }
            };
            let val = rng.pick(&[b"A".to_vec(), b"B".to_vec(), b"7".to_vec(), b"".to_vec()]).clone();
            let ttl = *rng.pick(&[0u32, 0, 3]);
            let base = flavor == "base";
            let r = rng.below(if base { 3 } else { 7 });
            ops.push(match r {
                0 => COp::Get(key),
                1 => COp::Set(key, val, rng.below(4) as u32, ttl, cas),
                2 => COp::Del(key, cas),
                3 => COp::Get(key),
                _ => match rmw_kind {
                    0 => COp::Add(key, val, 2, ttl, cas),
                    1 => COp::Replace(key, val, 3, ttl, cas),
                    2 => {
                        if rng.chance(1, 2) {
                            COp::Append(key, cas, val)
                        } else {
                            COp::Prepend(key, cas, val)
                        }
                    }
                    _ => COp::Delta(rng.chance(1, 2), key, cas, if rng.chance(1, 5) { u32::MAX } else { ttl }, 1 + rng.below(3), 40),
                },
            });
        }
        threads.push(ops);
    }
    ConcCase { id, prelude, tick, threads }
}

pub fn parse_op(t: &str) -> COp {
    let p: Vec<&str> = t.split(':').collect();
    let b = |x: &str| crate::gen::unhex(x);
    let n = |x: &str| -> u64 { x.parse().unwrap() };
    match p[0] {
        "get" => COp::Get(b(p[1])),
        "set" => COp::Set(b(p[1]), b(p[2]), n(p[3]) as u32, n(p[4]) as u32, n(p[5])),
        "del" => COp::Del(b(p[1]), n(p[2])),
        "add" => COp::Add(b(p[1]), b(p[2]), n(p[3]) as u32, n(p[4]) as u32, n(p[5])),
        "replace" => COp::Replace(b(p[1]), b(p[2]), n(p[3]) as u32, n(p[4]) as u32, n(p[5])),
        "append" => COp::Append(b(p[1]), n(p[2]), b(p[3])),
        "prepend" => COp::Prepend(b(p[1]), n(p[2]), b(p[3])),
        "incr" => COp::Delta(true, b(p[1]), n(p[2]), n(p[3]) as u32, n(p[4]), n(p[5])),
        "decr" => COp::Delta(false, b(p[1]), n(p[2]), n(p[3]) as u32, n(p[4]), n(p[5])),
        "flush" => COp::Flush(n(p[1]) as u32),
        _ => panic!("bad op {}", t),
    }
}

/// Cases with their schedules, read back from a trace file.
pub fn parse_trace(text: &str) -> Vec<(ConcCase, Vec<usize>)> {
    let mut out: Vec<(ConcCase, Vec<usize>)> = Vec::new();
    for line in text.lines() {
        let p: Vec<&str> = line.split(' ').collect();
        match p[0] {
            "CASE" => out.push((ConcCase { id: p[1].to_string(), prelude: vec![], tick: 0, threads: vec![] }, vec![])),
            "C" => {
                // a quiet set of the prelude, as wire bytes
                let bytes = crate::gen::unhex(p[2]);
                let keylen = u16::from_be_bytes([bytes[2], bytes[3]]) as usize;
                let flags = u32::from_be_bytes([bytes[24], bytes[25], bytes[26], bytes[27]]);
                let ttl = u32::from_be_bytes([bytes[28], bytes[29], bytes[30], bytes[31]]);
                let key = bytes[32..32 + keylen].to_vec();
                let val = bytes[32 + keylen..].to_vec();
                let cas = u64::from_be_bytes([bytes[16], bytes[17], bytes[18], bytes[19], bytes[20], bytes[21], bytes[22], bytes[23]]);
                out.last_mut().unwrap().0.prelude.push(COp::Set(key, val, flags, ttl, cas));
            }
            "T" => out.last_mut().unwrap().0.tick = p[1].parse().unwrap(),
            "TH" => {
                let ops = if p.len() > 2 && !p[2].is_empty() { p[2].split('|').map(parse_op).collect() } else { vec![] };
                out.last_mut().unwrap().0.threads.push(ops);
            }
            "RUN" => {
                if p[1] != "-" {
                    out.last_mut().unwrap().1 = p[1].split(',').map(|x| x.parse().unwrap()).collect();
                }
            }
            _ => {}
        }
    }
    out
}

/// The four schedules proved non-linearizable in coq/Props/C04.v, as cases with a fixed schedule.
pub fn witnesses() -> Vec<(ConcCase, Vec<usize>)> {
    let mut v = witnesses_known();
    let k = b"x".to_vec();
    // a read-modify-write command carrying the item's CAS, an unconditional store by another
    // client inside it: the command is refused (or comes first), it never overwrites the store
    for (name, rmw, other) in [
        ("append", COp::Append(k.clone(), 1, b"+x".to_vec()), b"B".to_vec()),
        ("prepend", COp::Prepend(k.clone(), 1, b"x+".to_vec()), b"B".to_vec()),
        ("replace", COp::Replace(k.clone(), b"R".to_vec(), 3, 0, 1), b"B".to_vec()),
        ("incr", COp::Delta(true, k.clone(), 1, 0, 1, 40), b"9".to_vec()),
    ] {
        for split in 1..5usize {
            let mut sched = vec![0; split];
            sched.extend(vec![1; 6]);
            sched.extend(vec![0; 8]);
            v.push((
                ConcCase {
                    id: format!("w-guarded-{}-{}", name, split),
                    prelude: vec![COp::Set(k.clone(), b"5".to_vec(), 7, 0, 0)],
                    tick: 0,
                    threads: vec![vec![rmw.clone()], vec![COp::Set(k.clone(), other.clone(), 0, 0, 0)]],
                },
                sched,
            ));
        }
    }
    v
}

pub fn witnesses_known() -> Vec<(ConcCase, Vec<usize>)> {
    let k = b"x".to_vec();
    vec![
        (
            ConcCase {
                id: "w-add-add".into(),
                prelude: vec![],
                tick: 0,
                threads: vec![vec![COp::Add(k.clone(), b"A".to_vec(), 0, 0, 0)], vec![COp::Add(k.clone(), b"B".to_vec(), 0, 0, 0)]],
            },
            vec![0, 1, 0, 1, 0, 1, 0, 1, 0, 1],
        ),
        (
            ConcCase {
                id: "w-incr-lost".into(),
                prelude: vec![COp::Set(k.clone(), b"5".to_vec(), 0, 0, 0)],
                tick: 0,
                threads: vec![vec![COp::Delta(true, k.clone(), 0, 0, 1, 0)], vec![COp::Delta(true, k.clone(), 0, 0, 1, 0)]],
            },
            vec![0, 1, 0, 1, 0, 1, 0, 1, 0, 1, 0, 1],
        ),
        (
            ConcCase {
                id: "w-append-lost".into(),
                prelude: vec![COp::Set(k.clone(), b"x".to_vec(), 0, 0, 0)],
                tick: 0,
                threads: vec![vec![COp::Append(k.clone(), 0, b"A".to_vec())], vec![COp::Append(k.clone(), 0, b"B".to_vec())]],
            },
            vec![0, 1, 0, 1, 0, 1, 0, 1, 0, 1, 0, 1],
        ),
        (
            ConcCase {
                id: "w-resurrect".into(),
                prelude: vec![COp::Set(k.clone(), b"x".to_vec(), 0, 0, 0)],
                tick: 0,
                threads: vec![vec![COp::Replace(k.clone(), b"R".to_vec(), 0, 0, 0)], vec![COp::Del(k.clone(), 0)]],
            },
            vec![0, 0, 1, 1, 1, 0, 0, 0, 0],
        ),
    ]
}

/// Runs the witness cases (if asked) and generated cases; writes the trace for the
/// model, the observations, and the monitor's findings (one line per case that no
/// sequential order explains).
/// fixed cases of the plain get / set / delete suites
pub fn witnesses_base() -> Vec<(ConcCase, Vec<usize>)> {
    let k = b"x".to_vec();
    let f = b"f".to_vec();
    let mut v = Vec::new();
    // an expired, uncollected item whose CAS is the value the counter issues next (a
    // conditional store to an absent key takes 'client CAS + 1', not a counter value); a
    // retrieval reads the expired copy, a conditional store by another client replaces it and
    // receives that same CAS again; then the retrieval collects: the store was acknowledged
    // and nobody deleted the key
    for split in 1..5usize {
        let mut sched = vec![0; split];
        sched.extend(vec![1; 8]);
        sched.extend(vec![0; 8]);
        v.push((
            ConcCase {
                id: format!("w-collect-vs-cas-store-same-cas-{}", split),
                prelude: vec![
                    COp::Set(f.clone(), b"1".to_vec(), 0, 0, 0),
                    COp::Set(f.clone(), b"2".to_vec(), 0, 0, 0),
                    COp::Set(f.clone(), b"3".to_vec(), 0, 0, 0),
                    COp::Set(k.clone(), b"old".to_vec(), 7, 2, 3),
                ],
                tick: 5,
                threads: vec![vec![COp::Get(k.clone())], vec![COp::Set(k.clone(), b"new".to_vec(), 1, 0, 4)]],
            },
            sched,
        ));
    }
    v
}

pub fn run_gen(seed: u64, cases: usize, flavor: &str, trace: &mut String, obs: &mut String, monitor: &mut String) -> (u64, u64) {
    let fixed: Vec<(ConcCase, Vec<usize>)> = if flavor == "rmw" { witnesses() } else if flavor == "base" || flavor == "ttl" { witnesses_base() } else { vec![] };
    run_cases(seed, cases, flavor, fixed, trace, obs, monitor)
}

pub fn run_cases(seed: u64, cases: usize, flavor: &str, fixed: Vec<(ConcCase, Vec<usize>)>, trace: &mut String, obs: &mut String, monitor: &mut String) -> (u64, u64) {
    let mut stuck_n = 0;
    let mut steps = 0;
    let nfixed = fixed.len();
    let mut fixed = fixed.into_iter();
    for c in 0..(cases + nfixed) {
        let mut rng = Rng::new(seed.wrapping_mul(7_000_003).wrapping_add(c as u64));
        let (case, fixed_sched) = match fixed.next() {
            Some((cs, sc)) => (cs, Some(sc)),
            None => (gen_case(&mut rng, format!("k-{}-{}-{}", flavor, seed, c), flavor), None),
        };
        crate::watch::case_start(trace, obs, monitor, &case.id, &format!("CASE {} 1048576 none\n", case.id));
        let mut srng = Rng::new(seed.wrapping_mul(911).wrapping_add(c as u64));
        let mut pos = 0;
        let res = run_controlled(&case, &mut |runnable| match &fixed_sched {
            Some(sc) if pos < sc.len() && runnable.contains(&sc[pos]) => {
                pos += 1;
                sc[pos - 1]
            }
            _ => runnable[srng.below(runnable.len() as u64) as usize],
        });
        steps += res.sched.len() as u64;
        // trace: prelude as sequential events of the same model world, then the window
        let _ = writeln!(trace, "CASE {} 1048576 none", case.id);
        let _ = writeln!(obs, "CASE {}", case.id);
        for o in &case.prelude {
            if let COp::Set(k, v, f, t, c) = o {
                let req = crate::gen::set_like(opc::SETQ, k, v, *f, *t).cas(*c);
                let _ = writeln!(trace, "C 0 {}", hex(&req.bytes()));
                let _ = writeln!(obs, "S 0 0 0 0");
            }
        }
        if case.tick > 0 {
            let _ = writeln!(trace, "T {}", case.tick);
        }
        for (i, ops) in case.threads.iter().enumerate() {
            let enc: Vec<String> = ops.iter().map(|o| o.encode()).collect();
            let _ = writeln!(trace, "TH {} {}", i, enc.join("|"));
        }
        let s: Vec<String> = res.sched.iter().map(|i| i.to_string()).collect();
        let _ = writeln!(trace, "RUN {}", if s.is_empty() { "-".to_string() } else { s.join(",") });
        let _ = writeln!(trace, "D");
        if let Some((who, why)) = &res.stuck {
            stuck_n += 1;
            let _ = writeln!(obs, "STUCK {} {}", who, why.replace(' ', "_"));
            let _ = writeln!(monitor, "STUCK {} {}", case.id, why.replace(' ', "_"));
            // a stuck worker holds the hook: nothing more can be run in this process
            return (stuck_n, steps);
        }
        for (i, r) in res.results.iter().enumerate() {
            let _ = writeln!(obs, "TR {} {}", i, r.join(";"));
        }
        obs.push_str(&res.dump);
        let _ = writeln!(obs, "U 0 {} {}", case.tick, res.dump.lines().map(|l| {
            let p: Vec<&str> = l.split(' ').collect();
            24 + if p[2] == "-" { 0 } else { p[2].len() as u64 / 2 }
        }).sum::<u64>());
        // monitor: is the outcome that of some one-at-a-time order?
        let got: Vec<Vec<String>> = res.results.iter().map(|v| v.iter().map(|r| strip(r)).collect()).collect();
        let seqs = sequential_outcomes(&case);
        if !seqs.iter().any(|(r, c)| *r == got && *c == res.content) {
            let mut classes: Vec<&str> = case.threads.iter().flatten().map(|o| o.class()).filter(|c| *c != "base").collect();
            classes.sort();
            classes.dedup();
            let mut cl = if classes.is_empty() { "base".to_string() } else { classes.join("+") };
            // fixed cases in which the read-modify-write command carries the item's CAS and the key
            // stays present: its final store is a compare-and-store, not one of the recorded findings
            if case.id.starts_with("w-guarded") {
                cl = "guarded".to_string();
            }
            let _ = writeln!(monitor, "NONLIN {} {}", case.id, cl);
        }
    }
    (stuck_n, steps)
}

// ------------------------------------------------------------------ sweeps and stress (C16)

/// A store behind the random eviction policy (whole-map sweeps: remove_if, flush).
pub struct PolicySys {
    pub clock: Arc<Clock>,
    pub memc: Arc<MemcStore>,
}

impl PolicySys {
    pub fn new(limit: u64) -> PolicySys {
        let clock = Arc::new(Clock(AtomicU64::new(0)));
        let inner = Arc::new(MemoryStore::new(clock.clone()));
        let policy = Arc::new(memcrs::memcache::random_policy::RandomPolicy::new(inner, limit));
        PolicySys { clock, memc: Arc::new(MemcStore::new(policy)) }
    }
    fn op(&self, rng: &mut Rng) {
        let key = Bytes::from(vec![b'a' + rng.below(6) as u8]);
        match rng.below(8) {
            0 | 1 => {
                let n = rng.below(60) as usize;
                let _ = self.memc.set(key, Record::new(Bytes::from(vec![b'v'; n]), 0, 0, rng.below(3) as u32));
            }
            2 => {
                let _ = self.memc.get(&key);
            }
            3 => {
                let _ = self.memc.delete(key, CacheMetaData::new(0, 0, 0));
            }
            4 => {
                let _ = self.memc.append(key, Record::new(Bytes::from_static(b"xy"), 0, 0, 0));
            }
            5 => {
                let _ = self.memc.add(key, Record::new(Bytes::from_static(b"1"), 0, 0, 0));
            }
            6 => self.memc.flush(CacheMetaData::new(0, 0, rng.below(2) as u32 * 2)),
            _ => {
                let _ = self.memc.replace(key, Record::new(Bytes::from_static(b"r"), 0, 0, 1));
            }
        }
    }
}

/// Controlled random schedules over 2..3 clients issuing any commands, including
/// flushes and stores that trigger eviction sweeps, at map-call granularity; a step
/// that does not return while the others are parked is reported.
pub fn run_sweep(seed: u64, cases: usize, monitor: &mut String) -> (u64, u64) {
    let mut steps = 0u64;
    for c in 0..cases {
        let sys = Arc::new(PolicySys::new(150));
        let mut rng = Rng::new(seed.wrapping_mul(31337).wrapping_add(c as u64));
        // some content first
        for _ in 0..4 {
            sys.op(&mut rng);
        }
        sys.clock.0.fetch_add(rng.below(3), Ordering::SeqCst);
        let n = 2 + rng.below(2) as usize;
        let sched = Sched::new(n);
        install_hook(Some(sched.clone()));
        let mut handles = Vec::new();
        for i in 0..n {
            let sys = sys.clone();
            let sched = sched.clone();
            let tseed = rng.next();
            let nops = 1 + rng.below(3) as usize;
            handles.push(std::thread::spawn(move || {
                TID.with(|t| t.set(Some(i)));
                let mut r = Rng::new(tseed);
                for _ in 0..nops {
                    sched.yield_here(i, "start");
                    sys.op(&mut r);
                }
                TID.with(|t| t.set(None));
                sched.finish(i);
            }));
        }
        let d = drive(&sched, n, &mut |runnable| runnable[rng.below(runnable.len() as u64) as usize]);
        steps += d.order.len() as u64;
        let stuck = d.stuck.is_some();
        if let Some((who, why)) = &d.stuck {
            let st = sched.st.lock().unwrap();
            let what: Vec<String> = st.steps.iter().rev().take(6).map(|(i, w)| format!("{}:{}", i, w)).collect();
            let _ = writeln!(monitor, "STUCK sweep-{}-{} thread_{}_{}_last_steps_{}", seed, c, who, why.replace(' ', "_"), what.join(","));
        }
        install_hook(None);
        if stuck {
            return (1, steps);
        }
        for h in handles {
            let _ = h.join();
        }
    }
    (0, steps)
}

/// OS-scheduled stress: many threads hammer a few keys (stores that evict, flushes,
/// expiry collection) for a while; every thread must come back.
pub fn run_stress(seed: u64, threads: usize, millis: u64, monitor: &mut String) -> u64 {
    let sys = Arc::new(PolicySys::new(400));
    let stop = Arc::new(std::sync::atomic::AtomicBool::new(false));
    let done = Arc::new(AtomicU64::new(0));
    let ops = Arc::new(AtomicU64::new(0));
    let mut handles = Vec::new();
    for i in 0..threads {
        let sys = sys.clone();
        let stop = stop.clone();
        let done = done.clone();
        let ops = ops.clone();
        handles.push(std::thread::spawn(move || {
            let mut r = Rng::new(seed.wrapping_mul(977).wrapping_add(i as u64));
            while !stop.load(Ordering::Relaxed) {
                sys.op(&mut r);
                ops.fetch_add(1, Ordering::Relaxed);
                if r.chance(1, 64) {
                    sys.clock.0.fetch_add(1, Ordering::Relaxed);
                }
            }
            done.fetch_add(1, Ordering::SeqCst);
        }));
    }
    std::thread::sleep(Duration::from_millis(millis));
    stop.store(true, Ordering::SeqCst);
    let t0 = Instant::now();
    while done.load(Ordering::SeqCst) < threads as u64 && t0.elapsed() < Duration::from_secs(30) {
        std::thread::sleep(Duration::from_millis(5));
    }
    if done.load(Ordering::SeqCst) < threads as u64 {
        let _ = writeln!(monitor, "STUCK stress-{} {}_of_{}_threads_did_not_return_within_30s", seed, threads as u64 - done.load(Ordering::SeqCst), threads);
    } else {
        for h in handles {
            let _ = h.join();
        }
    }
    ops.load(Ordering::Relaxed)
}

