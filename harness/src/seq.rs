// seq.rs — sequential correspondence profile: bytes -> MemcacheBinaryCodec::decode
// -> BinaryHandler::handle_request -> Encoder::encode on the real crate, with an
// injected clock, a plain store or RandomPolicy over a spying inner store, and the
// full store content dumped after every step.
use crate::gen::{self, hex, op, parse_resp, Req, Rng};
use bytes::{Bytes, BytesMut};
use memcrs::cache::cache::{
    impl_details::CacheImplDetails, Cache, CacheMetaData, CachePredicate, CacheReadOnlyView,
    KeyType, Record, RemoveIfResult, SetStatus,
};
use memcrs::cache::error::Result as CacheResult;
use memcrs::memcache::random_policy::RandomPolicy;
use memcrs::memcache::store::MemcStore;
use memcrs::memcache_server::handler::BinaryHandler;
use memcrs::memory_store::store::MemoryStore;
use memcrs::protocol::binary_codec::{BinaryRequest, BinaryResponse, MemcacheBinaryCodec};
use memcrs::server::timer::Timer;
use std::collections::HashMap;
use std::fmt::Write as _;
use std::panic::{catch_unwind, AssertUnwindSafe};
use std::sync::atomic::{AtomicU64, Ordering};
use std::sync::{Arc, Mutex};
use tokio_util::codec::{Decoder, Encoder};

pub struct Clock(pub AtomicU64);
/// Set by the concurrency profiles: reading the clock is a yield point too. The store
/// reads it while it holds the entry lock of a conditional store, which is the one
/// place where a client can be observed in the middle of a map call.
pub static CLOCK_HOOK: std::sync::RwLock<Option<Arc<dyn Fn() + Send + Sync>>> = std::sync::RwLock::new(None);
impl Timer for Clock {
    fn timestamp(&self) -> u64 {
        let f = CLOCK_HOOK.read().unwrap().clone();
        if let Some(f) = f {
            f()
        }
        self.0.load(Ordering::SeqCst)
    }
}

/// Logging interposer between RandomPolicy and MemoryStore: records the keys that
/// remove_if actually removed (the eviction victims). Forwards everything.
pub struct Spy {
    pub inner: Arc<MemoryStore>,
    pub victims: Arc<Mutex<Vec<Vec<u8>>>>,
}
impl CacheImplDetails for Spy {
    fn get_by_key(&self, key: &KeyType) -> CacheResult<Record> {
        self.inner.get_by_key(key)
    }
    fn check_if_expired(&self, key: &KeyType, record: &Record) -> Option<usize> {
        self.inner.check_if_expired(key, record)
    }
}
impl Cache for Spy {
    fn get(&self, key: &KeyType) -> CacheResult<Record> {
        self.inner.get(key)
    }
    fn set(&self, key: KeyType, record: Record) -> CacheResult<SetStatus> {
        self.inner.set(key, record)
    }
    fn delete(&self, key: KeyType, header: CacheMetaData) -> CacheResult<Record> {
        self.inner.delete(key, header)
    }
    fn flush(&self, header: CacheMetaData) {
        self.inner.flush(header)
    }
    fn len(&self) -> usize {
        self.inner.len()
    }
    fn is_empty(&self) -> bool {
        self.inner.is_empty()
    }
    fn as_read_only(&self) -> Box<dyn CacheReadOnlyView> {
        self.inner.as_read_only()
    }
    fn remove_if(&self, f: &mut CachePredicate) -> RemoveIfResult {
        let r = self.inner.remove_if(f);
        let mut v = self.victims.lock().unwrap();
        for kv in r.iter().flatten() {
            v.push(kv.0.to_vec());
        }
        r
    }
    fn remove(&self, key: &KeyType) -> Option<(KeyType, Record)> {
        self.inner.remove(key)
    }
}

pub struct World {
    pub clock: Arc<Clock>,
    pub inner: Arc<MemoryStore>,
    pub policy: Option<Arc<RandomPolicy>>,
    pub victims: Arc<Mutex<Vec<Vec<u8>>>>,
    pub memc: Arc<MemcStore>,
    pub item_limit: u32,
    pub conns: HashMap<usize, SeqConn>,
}

#[derive(Clone, Copy, PartialEq, Debug)]
pub enum Status {
    Open = 0,
    Quit = 1,
    QuitQ = 2,
    ErrInvalid = 3,
    ErrOther = 4,
    Panic = 5,
    Eof = 6,
    Reset = 7,
    Timeout = 8,
}

pub struct SeqConn {
    codec: MemcacheBinaryCodec,
    handler: BinaryHandler,
    buf: BytesMut,
    skip: u64,
    pending: Option<BinaryRequest>,
    status: Status,
}

fn header_field(req: &BinaryRequest, name: &str) -> u64 {
    // RequestHeader fields are pub(crate); Debug prints them all
    let s = format!("{:?}", req.get_header());
    let pat = format!("{}: ", name);
    let i = s.find(&pat).expect("header field") + pat.len();
    let rest = &s[i..];
    let end = rest.find(|c: char| !c.is_ascii_digit()).unwrap_or(rest.len());
    rest[..end].parse().unwrap()
}

impl World {
    pub fn new(item_limit: u32, mem_limit: Option<u64>) -> World {
        let clock = Arc::new(Clock(AtomicU64::new(0)));
        let inner = Arc::new(MemoryStore::new(clock.clone()));
        let victims = Arc::new(Mutex::new(Vec::new()));
        let (store, policy): (Arc<dyn Cache + Send + Sync>, Option<Arc<RandomPolicy>>) =
            match mem_limit {
                Some(l) => {
                    let spy = Arc::new(Spy { inner: inner.clone(), victims: victims.clone() });
                    let p = Arc::new(RandomPolicy::new(spy, l));
                    (p.clone(), Some(p))
                }
                None => (inner.clone(), None),
            };
        let memc = Arc::new(MemcStore::new(store));
        World { clock, inner, policy, victims, memc, item_limit, conns: HashMap::new() }
    }

    fn conn(&mut self, i: usize) -> &mut SeqConn {
        let memc = self.memc.clone();
        let limit = self.item_limit;
        self.conns.entry(i).or_insert_with(|| SeqConn {
            codec: MemcacheBinaryCodec::new(limit),
            handler: BinaryHandler::new(memc),
            buf: BytesMut::with_capacity(4096),
            skip: 0,
            pending: None,
            status: Status::Open,
        })
    }

    pub fn tick(&self, d: u64) {
        self.clock.0.fetch_add(d, Ordering::SeqCst);
    }

    pub fn take_victims(&self) -> Vec<Vec<u8>> {
        std::mem::take(&mut *self.victims.lock().unwrap())
    }

    /// Feed one chunk (one successful read) to connection i; returns responses.
    pub fn feed(&mut self, i: usize, chunk: &[u8]) -> Vec<Vec<u8>> {
        let c = self.conn(i);
        let mut out = Vec::new();
        if c.status != Status::Open {
            return out;
        }
        let mut chunk = chunk;
        if c.skip > 0 {
            let d = std::cmp::min(c.skip, chunk.len() as u64) as usize;
            chunk = &chunk[d..];
            c.skip -= d as u64;
            if c.skip > 0 {
                return out;
            }
            let req = c.pending.take().expect("pending oversized request");
            c.serve(req, &mut out);
            if c.status != Status::Open {
                return out;
            }
        }
        c.buf.extend_from_slice(chunk);
        c.pump(&mut out);
        out
    }

    pub fn eof(&mut self, i: usize) -> Vec<Vec<u8>> {
        let c = self.conn(i);
        let mut out = Vec::new();
        if c.status != Status::Open {
            return out;
        }
        if c.skip > 0 {
            c.skip = 0;
            let req = c.pending.take().expect("pending oversized request");
            c.serve(req, &mut out);
            if c.status != Status::Open {
                return out;
            }
        }
        c.status = if c.buf.is_empty() { Status::Eof } else { Status::Reset };
        out
    }

    pub fn status_line(&mut self, i: usize) -> String {
        let c = self.conn(i);
        format!("S {} {} {} {}", i, c.status as u8, c.buf.len(), c.skip)
    }

    /// Full store content (sorted), usage, clock, total bytes.
    pub fn dump(&self, out: &mut String) {
        let log: Arc<Mutex<Vec<(Vec<u8>, String, usize)>>> = Arc::new(Mutex::new(Vec::new()));
        let l2 = log.clone();
        self.inner.remove_if(&mut move |k: &KeyType, r: &Record| {
            l2.lock().unwrap().push((k.to_vec(), format!("{:?}", r), r.len()));
            false
        });
        let mut lines = Vec::new();
        let mut total: u64 = 0;
        for (k, dbg, len) in log.lock().unwrap().iter() {
            total += *len as u64;
            lines.push(record_line(k, dbg));
        }
        lines.sort();
        for l in lines {
            out.push_str(&l);
            out.push('\n');
        }
        let usage = match &self.policy {
            Some(p) => usage_of(p),
            None => 0,
        };
        let _ = writeln!(out, "U {} {} {}", usage, self.clock.timestamp(), total);
    }
}

/// One "M" line from a key and the Debug rendering of its Record.
pub fn record_line(k: &[u8], dbg: &str) -> String {
    let f = |name: &str| -> u64 {
        let pat = format!("{}: ", name);
        let i = dbg.find(&pat).expect("record field") + pat.len();
        let rest = &dbg[i..];
        let end = rest.find(|c: char| !c.is_ascii_digit()).unwrap_or(rest.len());
        rest[..end].parse().unwrap()
    };
    let vi = dbg.find("value: b\"").expect("value field") + 9;
    let val = unescape_bytes_debug(&dbg[vi..]);
    format!("M {} {} {} {} {} {}", hex(k), hex(&val), f("flags"), f("cas"), f("time_to_live"), f("timestamp"))
}

#[cfg(memcrs_verif)]
pub fn usage_of(p: &RandomPolicy) -> u64 {
    p.verif_memory_usage()
}
#[cfg(not(memcrs_verif))]
pub fn usage_of(_p: &RandomPolicy) -> u64 {
    0
}

/// Inverse of `bytes`' Debug for Bytes: b"..." with \n \r \t \\ \" \0 \xNN escapes.
fn unescape_bytes_debug(s: &str) -> Vec<u8> {
    let b = s.as_bytes();
    let mut out = Vec::new();
    let mut i = 0;
    while i < b.len() {
        match b[i] {
            b'"' => break,
            b'\\' => {
                i += 1;
                match b[i] {
                    b'n' => out.push(b'\n'),
                    b'r' => out.push(b'\r'),
                    b't' => out.push(b'\t'),
                    b'0' => out.push(0),
                    b'x' => {
                        let h = std::str::from_utf8(&b[i + 1..i + 3]).unwrap();
                        out.push(u8::from_str_radix(h, 16).unwrap());
                        i += 2;
                    }
                    c => out.push(c),
                }
            }
            c => out.push(c),
        }
        i += 1;
    }
    out
}

impl SeqConn {
    /// Client::handle_request
    fn serve(&mut self, req: BinaryRequest, out: &mut Vec<Vec<u8>>) {
        if let BinaryRequest::QuitQuietly(_) = req {
            self.status = Status::QuitQ;
            return;
        }
        let handler = &self.handler;
        let r = catch_unwind(AssertUnwindSafe(|| handler.handle_request(req)));
        match r {
            Err(_) => self.status = Status::Panic,
            Ok(None) => {}
            Ok(Some(resp)) => {
                let quit = matches!(&resp, BinaryResponse::Quit(_));
                let mut dst = BytesMut::new();
                self.codec.encode(resp, &mut dst).unwrap();
                out.push(dst.to_vec());
                if quit {
                    self.status = Status::Quit;
                }
            }
        }
    }

    /// read_frame's decode loop over what is buffered
    fn pump(&mut self, out: &mut Vec<Vec<u8>>) {
        loop {
            let codec = &mut self.codec;
            let buf = &mut self.buf;
            let r = catch_unwind(AssertUnwindSafe(|| codec.decode(buf)));
            match r {
                Err(_) => {
                    self.status = Status::Panic;
                    return;
                }
                Ok(Err(e)) => {
                    self.status = if e.kind() == std::io::ErrorKind::InvalidData {
                        Status::ErrInvalid
                    } else {
                        Status::ErrOther
                    };
                    return;
                }
                Ok(Ok(None)) => return,
                Ok(Ok(Some(req))) => {
                    if let BinaryRequest::ItemTooLarge(_) = &req {
                        let body = header_field(&req, "body_length");
                        let buffered = std::cmp::min(body, self.buf.len() as u64);
                        let _ = self.buf.split_to(buffered as usize);
                        let skip = body - buffered;
                        if skip > 0 {
                            self.skip = skip;
                            self.pending = Some(req);
                            return;
                        }
                    }
                    self.serve(req, out);
                    if self.status != Status::Open {
                        return;
                    }
                }
            }
        }
    }
}

/// Independent structural check of one response (property C11): returns a
/// description of what is wrong with the frame, if anything.
pub fn frame_defect(r: &[u8]) -> Option<String> {
    let (f, used) = match parse_resp(r) {
        Some(x) => x,
        None => return Some("not a complete frame".into()),
    };
    if used != r.len() {
        return Some("bytes beyond the announced body".into());
    }
    if f.magic != 0x81 {
        return Some(format!("magic {:#x}", f.magic));
    }
    if f.dtype != 0 {
        return Some("data type".into());
    }
    const TABLE: &[u16] = &[0, 1, 2, 3, 4, 5, 6, 0x20, 0x21, 0x81, 0x82];
    if !TABLE.contains(&f.status) {
        return Some(format!("status {:#x} not in the protocol table", f.status));
    }
    if (f.extlen as u32) + (f.keylen as u32) > f.bodylen {
        return Some("extras + key exceed body".into());
    }
    if f.status != 0 {
        let msg: &[u8] = match f.status {
            1 => b"Not found",
            2 => b"Key exists",
            3 => b"Value too big",
            6 => b"Incr/Decr on non numeric value",
            0x81 => b"Invalid command",
            _ => return Some(format!("unexpected error status {:#x}", f.status)),
        };
        if f.extlen != 0 || f.keylen != 0 || f.body != msg {
            return Some("error frame shape".into());
        }
        return None;
    }
    match f.opcode {
        op::GET | op::GETQ | op::GETK | op::GETKQ => {
            if f.extlen != 4 {
                return Some("hit without 4 flag bytes".into());
            }
            let with_key = f.opcode == op::GETK || f.opcode == op::GETKQ;
            if !with_key && f.keylen != 0 {
                return Some("key echoed by plain get".into());
            }
            if with_key && f.keylen == 0 {
                return Some("key not echoed by getk".into());
            }
        }
        op::INCR | op::DECR | op::INCRQ | op::DECRQ => {
            if f.extlen != 0 || f.keylen != 0 || f.bodylen != 8 {
                return Some("counter frame shape".into());
            }
        }
        op::VERSION | op::STAT => {
            if f.extlen != 0 || f.keylen != 0 {
                return Some("version frame shape".into());
            }
        }
        _ => {
            if f.bodylen != 0 || f.extlen != 0 || f.keylen != 0 {
                return Some("body on an empty response".into());
            }
        }
    }
    None
}

// ---------------------------------------------------------------- generation

#[derive(Clone, Debug)]
pub enum Ev {
    Chunk(usize, Vec<u8>),
    Eof(usize),
    Reset(usize),
    /// the client stays silent until the server's receive timeout has passed
    Idle(usize),
    Tick(u64),
    Dump,
}

pub struct CaseCfg {
    pub id: String,
    pub item_limit: u32,
    pub mem_limit: Option<u64>,
}

/// Runs events on the implementation; writes the trace (with oracle lines) and
/// the observation lines.
pub fn run_case(cfg: &CaseCfg, events: &mut dyn FnMut(&[Vec<u8>], bool) -> Option<Ev>, trace: &mut String, obs: &mut String) {
    let mut w = World::new(cfg.item_limit, cfg.mem_limit);
    let ml = match cfg.mem_limit {
        Some(l) => l.to_string(),
        None => "none".to_string(),
    };
    let _ = writeln!(trace, "CASE {} {} {}", cfg.id, cfg.item_limit, ml);
    let _ = writeln!(obs, "CASE {}", cfg.id);
    let mut last: Vec<Vec<u8>> = Vec::new();
    let mut open = true;
    while let Some(ev) = events(&last, open) {
        last = Vec::new();
        open = true;
        match ev {
            Ev::Chunk(i, b) => {
                if b.is_empty() {
                    continue;
                }
                crate::watch::about_to(trace, obs, &format!("{}C {} {}\nD\n", if cfg.mem_limit.is_some() { "O\n" } else { "" }, i, hex(&b)));
                let out = w.feed(i, &b);
                let v = w.take_victims();
                if cfg.mem_limit.is_some() {
                    let l: Vec<String> = v.iter().map(|k| hex(k)).collect();
                    if l.is_empty() {
                        let _ = writeln!(trace, "O");
                    } else {
                        let _ = writeln!(trace, "O {}", l.join(","));
                    }
                }
                let _ = writeln!(trace, "C {} {}", i, hex(&b));
                for r in &out {
                    let _ = writeln!(obs, "R {}", hex(r));
                    if let Some(d) = frame_defect(r) {
                        let _ = writeln!(obs, "W malformed-response {}", d.replace(' ', "_"));
                    }
                }
                let _ = writeln!(obs, "{}", w.status_line(i));
                open = w.conn(i).status == Status::Open;
                last = out;
            }
            Ev::Eof(i) => {
                let out = w.eof(i);
                let _ = writeln!(trace, "E {}", i);
                for r in &out {
                    let _ = writeln!(obs, "R {}", hex(r));
                }
                let _ = writeln!(obs, "{}", w.status_line(i));
                open = false;
                last = out;
            }
            Ev::Reset(i) => {
                let c = w.conn(i);
                if c.status == Status::Open {
                    c.status = Status::Reset;
                }
                let _ = writeln!(trace, "X {}", i);
                let _ = writeln!(obs, "{}", w.status_line(i));
                open = false;
            }
            Ev::Idle(i) => {
                // Client::handle: the read of the next frame is abandoned, the handler returns
                let c = w.conn(i);
                if c.status == Status::Open {
                    c.status = Status::Timeout;
                }
                let _ = writeln!(trace, "I {}", i);
                let _ = writeln!(obs, "{}", w.status_line(i));
                open = false;
            }
            Ev::Tick(d) => {
                w.tick(d);
                let _ = writeln!(trace, "T {}", d);
            }
            Ev::Dump => {
                let _ = writeln!(trace, "D");
                w.dump(obs);
            }
        }
    }
    crate::watch::case_done();
}

/// Parses the events of a trace file (oracle and group lines are re-observed).
pub fn parse_trace(text: &str) -> Vec<(CaseCfg, Vec<Ev>)> {
    let mut cases: Vec<(CaseCfg, Vec<Ev>)> = Vec::new();
    for line in text.lines() {
        let p: Vec<&str> = line.split(' ').collect();
        match p[0] {
            "CASE" => {
                let ml = if p[3] == "none" { None } else { Some(p[3].parse().unwrap()) };
                cases.push((
                    CaseCfg { id: p[1].to_string(), item_limit: p[2].parse().unwrap(), mem_limit: ml },
                    Vec::new(),
                ));
            }
            "C" => cases.last_mut().unwrap().1.push(Ev::Chunk(p[1].parse().unwrap(), gen::unhex(p[2]))),
            "E" => cases.last_mut().unwrap().1.push(Ev::Eof(p[1].parse().unwrap())),
            "X" => cases.last_mut().unwrap().1.push(Ev::Reset(p[1].parse().unwrap())),
            "I" => cases.last_mut().unwrap().1.push(Ev::Idle(p[1].parse().unwrap())),
            "T" => cases.last_mut().unwrap().1.push(Ev::Tick(p[1].parse().unwrap())),
            "D" => cases.last_mut().unwrap().1.push(Ev::Dump),
            _ => {}
        }
    }
    cases
}

/// Replays the events of a trace file (oracle lines are re-observed).
pub fn replay(text: &str, trace: &mut String, obs: &mut String) {
    let mut cases: Vec<(CaseCfg, Vec<Ev>)> = Vec::new();
    for line in text.lines() {
        let p: Vec<&str> = line.split(' ').collect();
        match p[0] {
            "CASE" => {
                let ml = if p[3] == "none" { None } else { Some(p[3].parse().unwrap()) };
                cases.push((
                    CaseCfg { id: p[1].to_string(), item_limit: p[2].parse().unwrap(), mem_limit: ml },
                    Vec::new(),
                ));
            }
            "C" => cases.last_mut().unwrap().1.push(Ev::Chunk(p[1].parse().unwrap(), gen::unhex(p[2]))),
            "E" => cases.last_mut().unwrap().1.push(Ev::Eof(p[1].parse().unwrap())),
            "X" => cases.last_mut().unwrap().1.push(Ev::Reset(p[1].parse().unwrap())),
            "I" => cases.last_mut().unwrap().1.push(Ev::Idle(p[1].parse().unwrap())),
            "T" => cases.last_mut().unwrap().1.push(Ev::Tick(p[1].parse().unwrap())),
            "D" => cases.last_mut().unwrap().1.push(Ev::Dump),
            _ => {}
        }
    }
    for (cfg, evs) in cases {
        let mut it = evs.into_iter();
        run_case(&cfg, &mut |_, _| it.next(), trace, obs);
    }
}

pub const KEYS: &[&[u8]] = &[b"a", b"b", b"k1", b"key2", b"\x00", b"\xff\xfe", b"counter", b"x y"];

pub struct Gen {
    pub rng: Rng,
    pub flavor: String,
    pub item_limit: u32,
    pub opaque: u32,
    /// opaque -> key of the request
    pub sent: HashMap<u32, Vec<u8>>,
    /// opaque -> opcode of the request
    pub sent_op: HashMap<u32, u8>,
    /// CAS values seen per key (from responses), oldest first
    pub cas_seen: HashMap<Vec<u8>, Vec<u64>>,
    pub steps_left: usize,
    pub pending_dump: bool,
    pub stats: HashMap<String, u64>,
    pub long_key: Vec<u8>,
    pub conn: usize,
    pub queue: std::collections::VecDeque<Ev>,
    /// scripted histories emitted so far (each works on a key of its own)
    pub scripted: u32,
}

impl Gen {
    pub fn new(seed: u64, flavor: &str, item_limit: u32, steps: usize) -> Gen {
        let mut rng = Rng::new(seed);
        let long_key: Vec<u8> = (0..250).map(|_| rng.next() as u8).collect();
        Gen {
            rng,
            flavor: flavor.to_string(),
            item_limit,
            opaque: 1,
            sent: HashMap::new(),
            sent_op: HashMap::new(),
            cas_seen: HashMap::new(),
            steps_left: steps,
            pending_dump: false,
            scripted: 0,
            stats: HashMap::new(),
            long_key,
            conn: 0,
            queue: std::collections::VecDeque::new(),
        }
    }

    fn count(&mut self, k: &str) {
        *self.stats.entry(k.to_string()).or_insert(0) += 1;
    }

    fn key(&mut self) -> Vec<u8> {
        let r = self.rng.below(100);
        if r < 85 {
            let n = if self.flavor == "policy" || self.flavor == "wide" { KEYS.len() } else { 4 };
            KEYS[self.rng.below(n as u64) as usize].to_vec()
        } else if r < 90 {
            self.long_key.clone()
        } else {
            let n = 1 + self.rng.below(6) as usize;
            self.rng.bytes(n)
        }
    }

    fn value(&mut self) -> Vec<u8> {
        let r = self.rng.below(100);
        let counterish = self.flavor == "counter";
        if counterish && r < 70 || r < 12 {
            return self.decimal();
        }
        if self.flavor == "big" && r >= 45 && r < 85 {
            // sizes around the powers of two where buffers and fast paths change
            let n = *self.rng.pick(&[4095usize, 4096, 4097, 8192, 16383, 16384, 16385, 16386, 32768, 65535, 65536, 65537, 70000, 100000]);
            let b = b'A' + self.rng.below(26) as u8;
            return vec![b; n];
        }
        if r < 20 {
            vec![]
        } else if r < 60 {
            let n = 1 + self.rng.below(8) as usize;
            (0..n).map(|_| b'a' + self.rng.below(26) as u8).collect()
        } else if r < 85 {
            let n = self.rng.below(40) as usize;
            self.rng.bytes(n)
        } else if r < 93 {
            // around the item limit (body = extras 8 + key + value)
            let l = self.item_limit as i64;
            let n = (l - 8 - 4 + self.rng.below(5) as i64 - 2).max(0) as usize;
            let b = self.rng.next() as u8;
            vec![b; n]
        } else {
            let n = self.rng.below(300) as usize;
            self.rng.bytes(n)
        }
    }

    fn decimal(&mut self) -> Vec<u8> {
        let r = self.rng.below(20);
        let s: String = match r {
            0 => "0".into(),
            1 => "1".into(),
            2 => "9223372036854775808".into(),
            3 => "18446744073709551615".into(),
            4 => "18446744073709551616".into(),
            5 => "18446744073709551614".into(),
            6 => "00042".into(),
            7 => "+5".into(),
            8 => "-5".into(),
            9 => " 7".into(),
            10 => "7 ".into(),
            11 => "".into(),
            12 => "99999999999999999999999".into(),
            13 => "+".into(),
            14 => "12a".into(),
            15 => return vec![0xc3, 0x28],
            16 => "0000000000000000000000000000000001".into(),
            _ => (self.rng.next() >> self.rng.below(64)).to_string(),
        };
        s.into_bytes()
    }

    fn flags(&mut self) -> u32 {
        match self.rng.below(5) {
            0 => 0,
            1 => 1,
            2 => u32::MAX,
            _ => self.rng.next() as u32,
        }
    }

    fn ttl(&mut self) -> u32 {
        if self.flavor == "cfg" {
            return 0; // the clock runs in real time in this profile
        }
        let timey = self.flavor == "ttl" || self.flavor == "flush";
        let r = self.rng.below(100);
        if !timey && r < 60 {
            return 0;
        }
        match self.rng.below(8) {
            0 => 0,
            1 => 1,
            2 => 2,
            3 => 5,
            4 => 30 * 24 * 3600,
            5 => u32::MAX,
            6 => 3,
            _ => 1 + self.rng.below(10) as u32,
        }
    }

    fn cas_for(&mut self, key: &[u8]) -> u64 {
        let casy = self.flavor == "cas";
        let r = self.rng.below(100);
        if !casy && r < 70 || r < 30 {
            return 0;
        }
        let seen = self.cas_seen.get(key).cloned().unwrap_or_default();
        match self.rng.below(8) {
            0 | 1 | 2 => seen.last().copied().unwrap_or(1),
            3 => {
                if seen.is_empty() {
                    7
                } else {
                    seen[self.rng.below(seen.len() as u64) as usize]
                }
            }
            4 => seen.last().copied().unwrap_or(0).wrapping_add(1),
            5 => u64::MAX,
            6 => self.rng.next(),
            _ => 1 + self.rng.below(12),
        }
    }

    fn amount(&mut self) -> u64 {
        match self.rng.below(8) {
            0 => 0,
            1 => 1,
            2 => u64::MAX,
            3 => 1u64 << 63,
            4 => u64::MAX - 1,
            _ => self.rng.below(1000),
        }
    }

    /// One well-formed request of a random kind.
    pub fn request(&mut self) -> Req {
        let fl = self.flavor.clone();
        // 'big': two keys, stores of large values and every retrieval variant of them
        let key = if fl == "big" { KEYS[self.rng.below(2) as usize].to_vec() } else { self.key() };
        let r = self.rng.below(100);
        let r = if fl == "big" { *self.rng.pick(&[12u64, 15, 20, 25, 30, 33, 52, 60, 68, 70, 72, 75, 78, 80, 82, 85, 88, 89]) } else { r };
        let quiet = self.rng.chance(1, if fl == "quiet" { 2 } else { 6 });
        let q = |loud: u8| if quiet { gen::twin(loud).unwrap_or(loud) } else { loud };
        let mut req = if fl == "counter" && r < 55 || r < 10 {
            let o = if self.rng.chance(1, 2) { op::INCR } else { op::DECR };
            let (d, i) = (self.amount(), self.amount());
            let e = if self.rng.chance(1, 6) { u32::MAX } else { self.ttl() };
            self.count("delta");
            gen::delta(q(o), &key, d, i, e)
        } else if r < 35 {
            let (v, f, t) = (self.value(), self.flags(), self.ttl());
            self.count("set");
            gen::set_like(q(op::SET), &key, &v, f, t)
        } else if r < 43 {
            let (v, f, t) = (self.value(), self.flags(), self.ttl());
            self.count("add");
            gen::set_like(q(op::ADD), &key, &v, f, t)
        } else if r < 50 {
            let (v, f, t) = (self.value(), self.flags(), self.ttl());
            self.count("replace");
            gen::set_like(q(op::REPLACE), &key, &v, f, t)
        } else if r < 58 {
            let v = self.value();
            let o = if self.rng.chance(1, 2) { op::APPEND } else { op::PREPEND };
            self.count("append");
            Req::new(q(o)).key(&key).value(&v)
        } else if r < 66 {
            self.count("delete");
            Req::new(q(op::DELETE)).key(&key)
        } else if r < 90 {
            let o = *self.rng.pick(&[op::GET, op::GET, op::GETK, op::GETQ, op::GETKQ]);
            self.count("get");
            Req::new(o).key(&key)
        } else if r < 93 && (fl == "flush" || fl == "ttl" || self.rng.chance(1, 3)) {
            let d = match self.rng.below(4) {
                0 => None,
                1 => Some(0),
                _ => Some(self.ttl()),
            };
            self.count("flush");
            gen::flush(q(op::FLUSH), d)
        } else if r < 95 {
            self.count("noop");
            Req::new(op::NOOP)
        } else if r < 96 && fl != "cfg" && fl != "big" {
            // ends the connection: whatever follows in the same write must not be executed
            self.count("quit");
            Req::new(if self.rng.chance(1, 2) { op::QUIT } else { op::QUITQ })
        } else if r < 98 {
            self.count("version");
            Req::new(if self.rng.chance(1, 2) { op::VERSION } else { op::STAT })
        } else {
            let o = *self.rng.pick(&[
                op::TOUCH, op::GAT, op::GATQ, op::GATK, op::GATKQ, op::SASL_LIST, op::SASL_AUTH, op::SASL_STEP,
            ]);
            self.count("unsupported");
            let mut r = Req::new(o).key(&key);
            if self.rng.chance(1, 2) {
                r = r.extras(&[0, 0, 0, 5]);
            }
            r
        };
        let mutating = !matches!(req.opcode, op::GET | op::GETQ | op::GETK | op::GETKQ | op::NOOP | op::VERSION | op::STAT | op::FLUSH | op::FLUSHQ);
        if mutating && !req.key.is_empty() {
            req.cas = self.cas_for(&key);
            if req.cas != 0 {
                self.count("nonzero_cas");
            }
        }
        req.opaque = self.opaque;
        self.sent.insert(self.opaque, req.key.clone());
        self.sent_op.insert(self.opaque, req.opcode);
        self.opaque = self.opaque.wrapping_add(1);
        req
    }

    /// A malformed / unusual frame.
    pub fn malformed(&mut self) -> Vec<u8> {
        self.count("malformed");
        let mut req = self.request();
        match self.rng.below(16) {
            14 | 15 => {
                // a body beyond the item limit, on any opcode (also those that carry none)
                req.opcode = *self.rng.pick(&[
                    op::GET, op::SET, op::ADD, op::REPLACE, op::DELETE, op::INCR, op::DECR, op::QUIT, op::FLUSH, op::GETQ,
                    op::NOOP, op::VERSION, op::GETK, op::GETKQ, op::APPEND, op::PREPEND, op::STAT, op::SETQ, op::ADDQ,
                    op::REPLACEQ, op::DELETEQ, op::INCRQ, op::DECRQ, op::QUITQ, op::FLUSHQ, op::APPENDQ, op::PREPENDQ,
                ]);
                let l = self.item_limit;
                req.bodylen = Some(l + 1 + self.rng.below(200) as u32);
                // ... and sometimes with a header that is invalid on top of that: it is refused
                // as invalid, not skipped as too large
                match self.rng.below(8) {
                    0 => req.dtype = 1 + self.rng.below(255) as u8,
                    1 => req.magic = *self.rng.pick(&[0x81u8, 0x00, 0xff]),
                    2 => req.opcode = *self.rng.pick(&[0x25u8, 0x80, 0xff]),
                    _ => {}
                }
            }
            0 => req.magic = *self.rng.pick(&[0x81u8, 0x00, 0xff, 0x7f]),
            1 => req.opcode = *self.rng.pick(&[0x1bu8, 0x1f, 0x25, 0x26, 0x80, 0xff]),
            2 => req.dtype = 1 + self.rng.below(255) as u8,
            3 => req.keylen = Some(*self.rng.pick(&[0u16, 251, 300, 0xffff])),
            4 => req.extlen = Some(*self.rng.pick(&[0u8, 1, 4, 7, 8, 9, 20, 21, 255])),
            5 => {
                let base = (req.key.len() + req.extras.len()) as u32;
                req.bodylen = Some(match self.rng.below(5) {
                    0 => base.saturating_sub(1),
                    1 => base,
                    2 => 0,
                    3 => base + 1,
                    _ => (req.key.len() + req.extras.len() + req.value.len()) as u32 + 1 + self.rng.below(4) as u32,
                })
            }
            6 => req.extras = self.rng.bytes(4),
            7 => {
                // unexpected extras on a request that takes none
                let n = 1 + self.rng.below(20) as usize;
                req.extras = self.rng.bytes(n)
            }
            8 => req.value = self.rng.bytes(5),
            9 => req.key = vec![],
            10 => {
                let l = self.item_limit;
                req.bodylen = Some(*self.rng.pick(&[l + 1, l + 2, 2 * l, l + 70000, u32::MAX]));
            }
            11 => req.extlen = Some(req.extras.len() as u8 ^ 4),
            12 => req.vbucket = self.rng.next() as u16,
            _ => {
                let n = 24 + self.rng.below(8) as usize;
                return self.rng.bytes(n);
            }
        }
        self.sent_op.insert(req.opaque, req.opcode);
        req.bytes()
    }

    fn learn(&mut self, responses: &[Vec<u8>]) {
        for r in responses {
            if let Some((resp, _)) = parse_resp(r) {
                // correlation (C11): the response names a request we sent, with its opcode
                match self.sent_op.get(&resp.opaque) {
                    Some(o) if *o == resp.opcode => {}
                    Some(_) => self.count("c11_opcode_not_echoed"),
                    None => {}
                }
                if resp.status == 0 && resp.cas != 0 {
                    if let Some(k) = self.sent.get(&resp.opaque) {
                        let e = self.cas_seen.entry(k.clone()).or_default();
                        if e.last() != Some(&resp.cas) {
                            e.push(resp.cas);
                            if e.len() > 8 {
                                e.remove(0);
                            }
                        }
                    }
                }
            }
        }
    }

    /// Next event given the responses to the previous one.
    pub fn next(&mut self, last: &[Vec<u8>], open: bool) -> Option<Ev> {
        self.learn(last);
        if !open {
            self.conn += 1;
            self.count("conn_closed");
            // bytes queued for the closed connection are never read
            self.queue.retain(|e| !matches!(e, Ev::Chunk(..) | Ev::Idle(..)));
        }
        if let Some(e) = self.queue.pop_front() {
            return Some(e);
        }
        if self.pending_dump {
            self.pending_dump = false;
            return Some(Ev::Dump);
        }
        if self.steps_left == 0 {
            return None;
        }
        self.steps_left -= 1;
        let fl = self.flavor.clone();
        let timey = fl == "ttl" || fl == "flush";
        if fl != "cfg" && self.rng.chance(if timey { 30 } else { 6 }, 100) {
            self.count("tick");
            let d = *self.rng.pick(&[1u64, 1, 1, 2, 3, 4, 5, 10, 2592000, 0]);
            self.pending_dump = true;
            return Some(Ev::Tick(d));
        }
        if fl == "ttl" && self.rng.chance(1, 12) {
            // a plain store of the very bytes and flags the live item already holds is a store
            // like any other: the item's life starts again with the expiration given now
            self.count("store_of_identical_value_with_another_expiration");
            self.scripted += 1;
            let key = format!("rs{}", self.scripted).into_bytes();
            let v = self.rng.bytes(3);
            let f = self.rng.below(3) as u32;
            let (t1, wait, t2, later) = *self.rng.pick(&[(10u32, 6u64, 10u32, 5u64), (5, 1, 0, 9), (0, 1, 5, 5), (4, 2, 4, 3)]);
            self.queue.push_back(Ev::Tick(wait));
            self.queue.push_back(Ev::Chunk(self.conn, gen::set_like(op::SET, &key, &v, f, t2).bytes()));
            self.queue.push_back(Ev::Dump);
            self.queue.push_back(Ev::Tick(later));
            self.queue.push_back(Ev::Chunk(self.conn, Req::new(op::GET).key(&key).bytes()));
            self.pending_dump = true;
            return Some(Ev::Chunk(self.conn, gen::set_like(op::SET, &key, &v, f, t1).bytes()));
        }
        if fl == "flush" && self.rng.chance(1, 8) {
            // a quiet flush with requests pipelined right behind it in the same write: they are
            // executed after it, in order — what they store is not touched by the flush
            self.count("requests_pipelined_behind_a_quiet_flush");
            self.scripted += 1;
            let key = format!("qf{}", self.scripted).into_bytes();
            let mut b = gen::flush(op::FLUSHQ, None).bytes();
            b.extend_from_slice(&gen::set_like(op::SET, &key, b"after", 3, 0).bytes());
            b.extend_from_slice(&Req::new(op::GET).key(&key).bytes());
            b.extend_from_slice(&gen::set_like(op::SETQ, b"k1", b"after2", 0, 0).bytes());
            b.extend_from_slice(&Req::new(op::GETK).key(b"k1").bytes());
            self.pending_dump = true;
            return Some(Ev::Chunk(self.conn, b));
        }
        if fl == "flush" && self.rng.chance(1, 20) {
            // two delayed flushes around a store that leaves the number of bytes stored as it
            // was (an overwrite of equal size): the second flush covers it like any other
            self.count("two_delayed_flushes_around_an_equal_size_overwrite");
            self.scripted += 1;
            let key = format!("fo{}", self.scripted).into_bytes();
            let d1 = 1 + self.rng.below(4) as u32;
            let d2 = d1 + self.rng.below(3) as u32;
            self.queue.push_back(Ev::Chunk(self.conn, gen::flush(op::FLUSH, Some(d1)).bytes()));
            self.queue.push_back(Ev::Chunk(self.conn, gen::set_like(op::SET, &key, b"bbbb", 2, 0).bytes()));
            self.queue.push_back(Ev::Dump);
            self.queue.push_back(Ev::Chunk(self.conn, gen::flush(op::FLUSH, Some(d2)).bytes()));
            self.queue.push_back(Ev::Tick(d2 as u64));
            self.queue.push_back(Ev::Chunk(self.conn, Req::new(op::GET).key(&key).bytes()));
            self.pending_dump = true;
            return Some(Ev::Chunk(self.conn, gen::set_like(op::SET, &key, b"aaaa", 1, 0).bytes()));
        }
        if fl == "flush" && self.rng.chance(1, 10) {
            // a scripted history: a delayed flush, then a conditional store to a key that does
            // not exist (such a store takes no value from the CAS counter), then a second
            // delayed flush that is not shorter, then the clock reaches its deadline: the item
            // stored between the two is gone then, like everything stored before a flush
            self.count("two_delayed_flushes_around_a_cas_store");
            self.scripted += 1;
            let key = format!("fk{}", self.scripted).into_bytes();
            let d1 = 1 + self.rng.below(4) as u32;
            let d2 = d1 + self.rng.below(3) as u32;
            let c = 1 + self.rng.below(3);
            let v = self.rng.bytes(3);
            self.queue.push_back(Ev::Chunk(self.conn, gen::set_like(op::SET, &key, &v, 1, 0).cas(c).bytes()));
            self.queue.push_back(Ev::Dump);
            self.queue.push_back(Ev::Chunk(self.conn, gen::flush(op::FLUSH, Some(d2)).bytes()));
            self.queue.push_back(Ev::Tick(d2 as u64));
            self.queue.push_back(Ev::Chunk(self.conn, Req::new(op::GET).key(&key).bytes()));
            self.pending_dump = true;
            return Some(Ev::Chunk(self.conn, gen::flush(op::FLUSH, Some(d1)).bytes()));
        }
        if (fl == "cuts" || fl == "malformed") && self.rng.chance(1, 14) {
            // a command that has no body announces one, and header and body arrive in different
            // reads: the body is part of that request (skipped with it), whatever it looks like —
            // here it looks like a complete store
            self.count("header_only_command_with_a_body_in_the_next_read");
            self.scripted += 1;
            let key = format!("hb{}", self.scripted).into_bytes();
            let inner = gen::set_like(op::SET, &key, b"smuggled", 0, 0).bytes();
            let mut outer = Req::new(*self.rng.pick(&[op::NOOP, op::VERSION, op::STAT]));
            outer.bodylen = Some(inner.len() as u32);
            self.queue.push_back(Ev::Chunk(self.conn, inner));
            self.queue.push_back(Ev::Chunk(self.conn, Req::new(op::GET).key(&key).bytes()));
            self.pending_dump = true;
            return Some(Ev::Chunk(self.conn, outer.bytes()));
        }
        if fl == "crowd" {
            // many small records under a memory limit (the suites give a limit of 5/3 of the
            // item limit), and at fixed places — after enough small ones to have filled the
            // store — a large one under a key of its own: making room for what follows it
            // takes dozens of evictions in one store
            self.scripted += 1;
            let period = self.item_limit / 15 + 5;
            let r = self.rng.below(100);
            let req = if self.scripted % period == 0 {
                self.count("crowd_large_record_into_a_full_store");
                let n = (self.item_limit as usize).saturating_sub(1 + self.rng.below(40) as usize).max(16);
                gen::set_like(op::SET, format!("big{}", self.scripted).as_bytes(), &vec![b'B'; n], 1, 0)
            } else if r < 90 {
                let key = format!("c{}", self.scripted).into_bytes();
                let v = if self.rng.chance(1, 2) { vec![] } else { self.rng.bytes(2) };
                gen::set_like(op::SET, &key, &v, 0, 0)
            } else {
                let k = 1 + self.rng.below(self.scripted as u64) as u32;
                Req::new(op::GET).key(format!("c{}", k).as_bytes())
            };
            self.count("crowd_request");
            self.pending_dump = true;
            return Some(Ev::Chunk(self.conn, req.bytes()));
        }
        let nreq = 1 + if self.rng.chance(if fl == "big" { 2 } else { 1 }, 4) { self.rng.below(4) as usize } else { 0 };
        let mut bytes = Vec::new();
        let mut starts: Vec<usize> = Vec::new();
        for _ in 0..nreq {
            starts.push(bytes.len());
            // the configuration profile delimits exchanges with a sentinel request: whole frames only
            let bad = if fl == "malformed" { 40 } else if fl == "idle" { 25 } else if fl == "cfg" { 0 } else { 2 };
            if self.rng.chance(bad, 100) {
                bytes.extend_from_slice(&self.malformed());
            } else {
                bytes.extend_from_slice(&self.request().bytes());
            }
        }
        self.pending_dump = true;
        if fl != "cfg" && self.rng.chance(1, 30) {
            self.count("eof");
            self.queue.push_back(Ev::Eof(self.conn));
        }
        if fl == "big" && starts.len() >= 2 && self.rng.chance(1, 2) {
            // a read boundary inside the header of a request that follows a large one: the first
            // bytes of that header arrive together with the end of the large body
            let j = 1 + self.rng.below(starts.len() as u64 - 1) as usize;
            let cut = starts[j] + 1 + self.rng.below(23) as usize;
            if cut < bytes.len() {
                self.count("cut_inside_a_following_header");
                let rest = bytes.split_off(cut);
                self.queue.insert(0, Ev::Chunk(self.conn, rest));
                return Some(Ev::Chunk(self.conn, bytes));
            }
        }
        let cutty = fl == "cuts" || fl == "malformed" || fl == "idle";
        if fl != "cfg" && self.rng.chance(if cutty { 70 } else { 10 }, 100) && bytes.len() > 1 {
            // deliver the bytes in several reads
            self.count("cut_chunk");
            let ncuts = 1 + self.rng.below(3) as usize;
            let mut cuts: Vec<usize> = (0..ncuts).map(|_| 1 + self.rng.below(bytes.len() as u64 - 1) as usize).collect();
            cuts.sort();
            cuts.dedup();
            let mut pieces = Vec::new();
            let mut prev = 0;
            for c in cuts {
                pieces.push(bytes[prev..c].to_vec());
                prev = c;
            }
            pieces.push(bytes[prev..].to_vec());
            let first = pieces.remove(0);
            // the idle flavour: the client goes silent in the middle of what it is sending, for
            // longer than the server's receive timeout (the rest is never sent: the connection is gone)
            let stall_at = if fl == "idle" && self.rng.chance(1, 7) { Some(self.rng.below(pieces.len() as u64) as usize) } else { None };
            let mut at = 0;
            for (j, p) in pieces.into_iter().enumerate() {
                if stall_at == Some(j) {
                    self.count("idle_inside_a_write");
                    self.queue.insert(at, Ev::Idle(self.conn));
                    at += 1;
                }
                self.queue.insert(at, Ev::Chunk(self.conn, p));
                at += 1;
            }
            return Some(Ev::Chunk(self.conn, first));
        }
        if fl == "idle" && self.rng.chance(1, 20) {
            self.count("idle_between_requests");
            self.queue.push_back(Ev::Idle(self.conn));
        }
        Some(Ev::Chunk(self.conn, bytes))
    }
}

pub fn _unused(_: Bytes) {}
