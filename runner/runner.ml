(* runner.ml — trusted glue between the trace files written by the Rust harness
   and the extracted Coq model (model.ml). Reads a trace on stdin (or argv[1]),
   steps the model, prints canonical observation lines on stdout.

   Trace lines:
     CASE <id> <item_limit> <mem_limit|none>
     C <conn> <hex>      a read on connection <conn> returned these bytes
     E <conn>            a read returned 0 (peer closed its sending side)
     T <d>               clock += d
     O <hex>,<hex>,...   eviction victims the implementation picked (oracle)
     D                   dump the store
   Output lines:
     CASE <id>
     R <hex>             one per response written
     S <conn> <status> <buffered> <skip>
     M <key> <value> <flags> <cas> <ttl> <ts>     (sorted by key)
     U <usage> <now> <total>
*)
open Model

let byte_of_int (i : int) : byte = (Obj.magic i : byte)
let int_of_byte (b : byte) : int = (Obj.magic b : int)

let rec n_of_int (i : int) : n =
  if i = 0 then N0 else
  let rec pos i = if i = 1 then XH else if i land 1 = 1 then XI (pos (i lsr 1)) else XO (pos (i lsr 1)) in
  Npos (pos i)

(* decimal string -> N, arbitrary size *)
let n_of_string (s : string) : n =
  let ten = n_of_int 10 in
  let acc = ref N0 in
  String.iter (fun c ->
    if c < '0' || c > '9' then failwith ("bad number: " ^ s);
    acc := N.add (N.mul !acc ten) (n_of_int (Char.code c - 48))) s;
  !acc

let rec int_of_pos = function
  | XH -> 1 | XO p -> 2 * int_of_pos p | XI p -> 2 * int_of_pos p + 1
let int_of_n = function N0 -> 0 | Npos p -> int_of_pos p

let string_of_n (x : n) : string =
  let ten = n_of_int 10 in
  let rec go x acc =
    let (q, r) = N.div_eucl x ten in
    let acc = String.make 1 (Char.chr (48 + int_of_n r)) ^ acc in
    match q with N0 -> acc | _ -> go q acc in
  go x ""

let rec nat_of_int i = if i = 0 then O else S (nat_of_int (i - 1))

let hexval c = match c with
  | '0'..'9' -> Char.code c - 48
  | 'a'..'f' -> Char.code c - 87
  | 'A'..'F' -> Char.code c - 55
  | _ -> failwith "bad hex"

let bytes_of_hex (s : string) : byte list =
  let s = if s = "-" then "" else s in
  let n = String.length s in
  if n land 1 = 1 then failwith "odd hex";
  let rec go i acc = if i < 0 then acc else
    go (i - 2) (byte_of_int (hexval s.[i] * 16 + hexval s.[i+1]) :: acc) in
  go (n - 2) []

let hex_of_bytes (l : byte list) : string =
  let b = Buffer.create 64 in
  List.iter (fun x -> Buffer.add_string b (Printf.sprintf "%02x" (int_of_byte x))) l;
  if Buffer.length b = 0 then "-" else Buffer.contents b

let self_check () =
  for i = 0 to 255 do
    (match to_N (byte_of_int i) with
     | x when int_of_n x = i -> ()
     | _ -> failwith "byte representation self-check failed");
    (match of_N (n_of_int i) with
     | Some b when int_of_byte b = i -> ()
     | _ -> failwith "byte representation self-check failed")
  done

let split_on c s = String.split_on_char c s

let () =
  self_check ();
  let argl = List.tl (Array.to_list Sys.argv) in
  let rec find_ni = function "--ni" :: p :: _ -> Some p | _ :: t -> find_ni t | [] -> None in
  let ni_path = find_ni argl in
  let ni_out = Buffer.create 256 in
  let cur_case = ref "" in
  let rec drop_ni = function "--ni" :: _ :: t -> drop_ni t | x :: t -> x :: drop_ni t | [] -> [] in
  let args = List.filter (fun a -> a <> "--raw" && a <> "--socket") (drop_ni argl) in
  let raw = List.mem "--raw" (Array.to_list Sys.argv) in
  let socket = List.mem "--socket" (Array.to_list Sys.argv) in
  let ic = match args with f :: _ -> open_in f | [] -> stdin in
  let oc = stdout in
  let w = ref (init_world (n_of_int 1024) None) in
  let conc_threads = ref [] in
  let pol_threads = ref [] in
  let pol_scans = ref [] in
  let srv = ref (new_server N0) in
  let msrv = ref (new_mserver N0) in
  let dump () =
    let st = !w.w_store in
    let lines = List.map (fun (k, r) ->
      Printf.sprintf "M %s %s %s %s %s %s" (hex_of_bytes k) (hex_of_bytes r.r_val)
        (string_of_n r.r_flags) (string_of_n r.r_cas) (string_of_n r.r_ttl) (string_of_n r.r_ts))
      st.s_mem in
    List.iter (fun l -> output_string oc l; output_char oc '\n') (if raw then lines else List.sort Stdlib.compare lines);
    Printf.fprintf oc "U %s %s %s\n" (string_of_n st.s_usage) (string_of_n st.s_now)
      (string_of_n (total st.s_mem)) in
  let status_full conn_i =
    let cn = get_conn !w.w_limit (nat_of_int conn_i) !w.w_conns in
    Printf.fprintf oc "S %d %s %s %s\n" conn_i (string_of_n (status_code cn))
      (string_of_n (blen cn.cn_buf)) (string_of_n cn.cn_skip) in
  (* what a socket peer can tell: open (0) or closed (1) *)
  let status_socket conn_i =
    let cn = get_conn !w.w_limit (nat_of_int conn_i) !w.w_conns in
    Printf.fprintf oc "S %d %d\n" conn_i (if int_of_n (status_code cn) = 0 then 0 else 1) in
  let status conn_i = if socket then () else status_full conn_i in
  let do_event e =
    let (w1, outs) = step !w e in
    w := w1;
    List.iter (fun o -> Printf.fprintf oc "R %s\n" (hex_of_bytes o)) outs in
  (try
    while true do
      let line = input_line ic in
      match split_on ' ' line with
      | ["CASE"; id; il; ml] ->
          let ml = if ml = "none" then None else Some (n_of_string ml) in
          cur_case := id;
          w := init_world (n_of_string il) ml;
          Printf.fprintf oc "CASE %s\n" id
      | ["CASE"; id; il; ml; cas0; now0] ->
          let ml = if ml = "none" then None else Some (n_of_string ml) in
          w := init_world_at (n_of_string il) ml (n_of_string cas0) (n_of_string now0);
          Printf.fprintf oc "CASE %s\n" id
      | ["C"; c; hex] ->
          let c = int_of_string c in
          do_event (EvChunk (nat_of_int c, bytes_of_hex hex)); status c
      | ["E"; c] ->
          let c = int_of_string c in
          do_event (EvEof (nat_of_int c)); status c
      | ["X"; c] ->
          let c = int_of_string c in
          do_event (EvReset (nat_of_int c)); status c
      | ["I"; c] ->
          let c = int_of_string c in
          do_event (EvTimeout (nat_of_int c)); status c
      | ["G"; c] -> status_socket (int_of_string c)
      | ["T"; d] -> do_event (EvTick (n_of_string d))
      | ["O"] -> do_event (EvOracle [])
      | ["O"; l] ->
          do_event (EvOracle (List.map bytes_of_hex (split_on ',' l)))
      | ["D"] -> dump ()
      | ["LIMIT"; l] -> srv := new_server (n_of_string l)
      | ["CONN"; c] -> srv := sv_step !srv (SvConnect (nat_of_int (int_of_string c)))
      | ["END"; c; _] -> srv := sv_step !srv (SvEnd (nat_of_int (int_of_string c), WEof))
      | ["COUNT"] ->
          let rec len = function [] -> 0 | _ :: t -> 1 + len t in
          Printf.fprintf oc "SERVED-COUNT %d\n" (len !srv.sv_active)
      | ["TTLPROBE"] ->
          (* real elapsed seconds are observed, not modelled: an item with TTL 5 on the
             tick-granular clock is retrievable during the first 0.8 s and gone as soon as the
             server runs again after having been suspended for the following 7 s *)
          Printf.fprintf oc "TTL live-before-0.8s=1 gone-once-resumed-after-a-7s-stall=1\n"
      | ["MEMPROBE"] ->
          (* which records the policy evicts is its random choice; what is observed is how
             much stays stored, which Model/Store.v pins: C14_bound_after_store, C15_no_eviction_below_limit *)
          Printf.fprintf oc "MEM below-limit-all-hit=1 stored-pinned-to-limit=1\n"
      | ["PROBE"; c] ->
          Printf.fprintf oc "SERVED %s %d\n" c (if mem_nat (nat_of_int (int_of_string c)) !srv.sv_active then 1 else 0)
      (* several listeners over one limit (Model/Listeners.v) *)
      | ["MLIMIT"; l] -> msrv := new_mserver (n_of_string l)
      | ["MCONN"; c; l] -> msrv := ms_step !msrv (MConnect (nat_of_int (int_of_string l), nat_of_int (int_of_string c)))
      | ["MEND"; c; _] -> msrv := ms_step !msrv (MEnd (nat_of_int (int_of_string c), WEof))
      | ["MPROBE"; c] ->
          Printf.fprintf oc "SERVED %s %d\n" c (if mem_nat (nat_of_int (int_of_string c)) !msrv.ms_active then 1 else 0)
      | "TH" :: _ :: _ -> conc_threads := !conc_threads @ [line]
      | "MOPS" :: _ -> ()   (* the memcache-level commands: for replays on the implementation *)
      | "PTH" :: _ :: _ -> pol_threads := !pol_threads @ [line]
      | ["PSCANS"; l] ->
          pol_scans := if l = "none" then [] else
            List.map (fun ks -> if ks = "-" then [] else List.map bytes_of_hex (split_on ',' ks)) (split_on ';' l)
      | ["PRUN"; sched] ->
          (* concurrent window over the store behind the random eviction policy *)
          let st = !w.w_store in
          let now = st.s_now in
          let limit = match st.s_limit with Some l -> Z.of_N l | None -> failwith "PRUN without a memory limit" in
          let rcd k v f ttl cas = ignore k; { r_ts = N0; r_cas = n_of_string cas; r_flags = n_of_string f;
                                              r_ttl = n_of_string ttl; r_val = bytes_of_hex v } in
          let parse_op (t : string) : pop =
            match split_on ':' t with
            | ["get"; k] -> PoGet (bytes_of_hex k)
            | ["set"; k; v; f; ttl; cas] -> PoSet (bytes_of_hex k, rcd k v f ttl cas)
            | ["del"; k; cas] -> PoDel (bytes_of_hex k, n_of_string cas)
            | ["flush"; d] -> PoFlush (n_of_string d)
            | _ -> failwith ("bad policy op: " ^ t) in
          let threads = List.map (fun l ->
            match split_on ' ' l with
            | ["PTH"; _; ops] when ops <> "" -> new_gthread (list_client (List.map parse_op (split_on '|' ops)))
            | ["PTH"; _; _] | ["PTH"; _] -> new_gthread (list_client [])
            | _ -> failwith "bad PTH line") !pol_threads in
          pol_threads := [];
          let sched = if sched = "-" then [] else List.map (fun x -> nat_of_int (int_of_string x)) (split_on ',' sched) in
          let (ts, sh) = prun_sched now limit sched threads
              { p_mem = st.s_mem; p_cas = st.s_cas; p_usage = Z.of_N st.s_usage; p_oracle = !pol_scans } in
          pol_scans := [];
          let show (r : pores) = match r with
            | PGetR (ROk r) -> Printf.sprintf "hit:%s:%s:%s" (hex_of_bytes r.r_val) (string_of_n r.r_flags) (string_of_n r.r_cas)
            | PGetR (RErr e) -> Printf.sprintf "err:%s" (string_of_n (cerr_code e))
            | PSetR (ROk c) -> Printf.sprintf "ok:%s" (string_of_n c)
            | PSetR (RErr e) -> Printf.sprintf "err:%s" (string_of_n (cerr_code e))
            | PDelR (ROk _) -> "ok"
            | PDelR (RErr e) -> Printf.sprintf "err:%s" (string_of_n (cerr_code e))
            | PFlushR -> "ok"
            | PFuel -> "out-of-fuel" in
          List.iteri (fun i t ->
            Printf.fprintf oc "PR %d %s\n" i (String.concat ";" (List.map show t.g_done))) ts;
          (* the counter is a u64 in the implementation: a negative value shows as its wrap-around *)
          let usage = match sh.p_usage with
            | Zneg _ -> N.sub two64 (Z.to_N (Z.opp sh.p_usage))
            | u -> Z.to_N u in
          w := { !w with w_store = { st with s_mem = sh.p_mem; s_cas = sh.p_cas; s_usage = usage } }
      | ["RUN"; sched] ->
          (* concurrent window: threads' operations interleaved under the given schedule *)
          let st = !w.w_store in
          let now = st.s_now in
          let parse_op (t : string) : mop =
            match split_on ':' t with
            | ["get"; k] -> MBase (OpGet (bytes_of_hex k))
            | ["set"; k; v; f; ttl; cas] ->
                MBase (OpSet (bytes_of_hex k, { r_ts = N0; r_cas = n_of_string cas; r_flags = n_of_string f;
                                                r_ttl = n_of_string ttl; r_val = bytes_of_hex v }))
            | ["del"; k; cas] -> MBase (OpDel (bytes_of_hex k, n_of_string cas))
            | ["add"; k; v; f; ttl; cas] ->
                MAdd (bytes_of_hex k, { r_ts = N0; r_cas = n_of_string cas; r_flags = n_of_string f;
                                        r_ttl = n_of_string ttl; r_val = bytes_of_hex v })
            | ["replace"; k; v; f; ttl; cas] ->
                MReplace (bytes_of_hex k, { r_ts = N0; r_cas = n_of_string cas; r_flags = n_of_string f;
                                            r_ttl = n_of_string ttl; r_val = bytes_of_hex v })
            | ["append"; k; cas; v] -> MAppend (bytes_of_hex k, n_of_string cas, bytes_of_hex v)
            | ["prepend"; k; cas; v] -> MPrepend (bytes_of_hex k, n_of_string cas, bytes_of_hex v)
            | ["incr"; k; hc; he; d; i] ->
                MDelta (true, bytes_of_hex k, n_of_string hc, n_of_string he, n_of_string d, n_of_string i)
            | ["decr"; k; hc; he; d; i] ->
                MDelta (false, bytes_of_hex k, n_of_string hc, n_of_string he, n_of_string d, n_of_string i)
            | _ -> failwith ("bad op: " ^ t) in
          let threads = List.map (fun l ->
            match split_on ' ' l with
            | ["TH"; _; ops] -> new_thread (List.map parse_op (split_on '|' ops))
            | ["TH"; _] -> new_thread []
            | _ -> failwith "bad TH line") !conc_threads in
          conc_threads := [];
          let sched = if sched = "-" then [] else List.map (fun x -> nat_of_int (int_of_string x)) (split_on ',' sched) in
          (* does the schedule keep clear of the read-modify-write windows (Spec/AtomicM.v)? *)
          let ni = ni_sched now sched threads { sh_mem = st.s_mem; sh_cas = st.s_cas } in
          Buffer.add_string ni_out (Printf.sprintf "%s %d\n" !cur_case (if ni then 1 else 0));
          let (ts, sh) = run_sched now (mprog_of now) sched threads { sh_mem = st.s_mem; sh_cas = st.s_cas } in
          let show (r : opres) = match r with
            | OGetR (ROk r) -> Printf.sprintf "hit:%s:%s:%s" (hex_of_bytes r.r_val) (string_of_n r.r_flags) (string_of_n r.r_cas)
            | OGetR (RErr e) -> Printf.sprintf "err:%s" (string_of_n (cerr_code e))
            | OSetR (ROk c) -> Printf.sprintf "ok:%s" (string_of_n c)
            | OSetR (RErr e) -> Printf.sprintf "err:%s" (string_of_n (cerr_code e))
            | ODelR (ROk _) -> "ok"
            | ODelR (RErr e) -> Printf.sprintf "err:%s" (string_of_n (cerr_code e)) in
          List.iteri (fun i t ->
            Printf.fprintf oc "TR %d %s\n" i (String.concat ";" (List.map show t.th_done))) ts;
          w := { !w with w_store = { st with s_mem = sh.sh_mem; s_cas = sh.sh_cas } }
      | [""] | [] -> ()
      | _ -> failwith ("bad trace line: " ^ line)
    done
  with End_of_file -> ());
  (match ni_path with
   | Some p -> let o = open_out p in Buffer.output_buffer o ni_out; close_out o
   | None -> ());
  Stdlib.flush oc
