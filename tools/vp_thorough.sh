#!/bin/bash
# usage (inside a snapshot): vp run --with-repo --timeout 3h -- tools/vp_thorough.sh <ID>...   (thorough tier of the given checks on the unchanged tree)
sed -i "s#/repo/memcrs#$VP_RUN_REPO/memcrs#" harness/Cargo.toml; export VERIF_REPO=$VP_RUN_REPO
./check --setup >/dev/null 2>&1
for p in "$@"; do ./check $p --tier thorough 2>&1 | grep -E 'VIOLATION|held|FAILED' | head -3; done
echo THOROUGH DONE
