#!/bin/bash
# usage: tools/proc_seed.sh <out dir of the sub-agent> <seed name> <worktree> <PROP>...
# copies the deliverables to seeded/<name>, confirms them in the scratch worktree, then runs the checks with the patch applied to /repo
set -u
src="$1"; name="$2"; wt="$3"; shift 3
mkdir -p /verif/seeded/$name
cp "$src/patch.diff" "$src/demo.rs" "$src/meta.json" /verif/seeded/$name/
/verif/tools/confirm_seed.sh /verif/seeded/$name "$wt"
/verif/tools/seedtest.sh /verif/seeded/$name/patch.diff "$@"
