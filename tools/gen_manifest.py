#!/usr/bin/env python3
"""Writes MANIFEST.json from the property table in tools/vlib.py (claimed checks)
and tools/manifest_notes.json (level texts)."""
import json, os, sys
sys.path.insert(0, os.path.dirname(os.path.abspath(__file__)))
import vlib
ROOT = vlib.ROOT
notes = json.load(open(os.path.join(ROOT, "tools", "manifest_notes.json")))
props = [json.loads(l) for l in open(os.path.join(ROOT, "properties.jsonl"))]
checks, na = [], []
for p in props:
    pid = p["id"]
    n = notes.get(pid, {})
    if pid in vlib.PROPS and not n.get("not_applicable"):
        checks.append({
            "property_id": pid,
            "quick_cmd": "./check %s --tier quick" % pid,
            "thorough_cmd": "./check %s --tier thorough" % pid,
            "evidence_file": "evidence/%s.json" % pid,
            "replay_cmd_template": "./check %s --replay {path}" % pid,
            "engine": "coq-model+correspondence",
            "level_claimed": {"category": "proof", "text": n.get("text", ""), "design_ref": n.get("design_ref", "DESIGN.md §5 " + pid)},
            "level_note": n.get("note", ""),
            "technique": n.get("technique", "Coq theorems about a hand-written Gallina model, tied to the code by differential execution (extracted model vs implementation) and in-Coq vm_compute cross-check"),
        })
    else:
        na.append({"property_id": pid, "reason": n.get("not_applicable", "check not built yet in this development (work in progress; see DESIGN.md §9)")})
m = {
    "version": 1,
    "setup_cmd": "./check --setup",
    "hooks": {
        "guard": "memcrs_verif",
        "enable": "RUSTFLAGS=\"--cfg memcrs_verif\" (set by ./check when it builds harness/ against /repo/memcrs)",
        "baseline_off_cmd": "cd /repo && CARGO_NET_OFFLINE=true cargo test --workspace --no-fail-fast --offline",
        "source_commits": notes["_hooks"]["source_commits"],
        "add_only": True,
    },
    "engines": [{"name": "coq-model+correspondence", "path": "check", "serves_properties": [c["property_id"] for c in checks],
                 "kind_free_text": "Coq 8.16 model + theorems (coq/), Rust harness (harness/), extracted OCaml runner (runner/), Python orchestration (tools/)"}],
    "checks": checks,
    "not_applicable": na,
    "notes": notes["_notes"],
}
json.dump(m, open(os.path.join(ROOT, "MANIFEST.json"), "w"), indent=1)
print("MANIFEST.json: %d checks, %d not_applicable" % (len(checks), len(na)))
