"""A small translator for Rust integer / boolean expressions and guard chains into
Gallina terms over Model/RustInt.v (values are `option N` / `option bool`, None = the
evaluation panics with overflow checks on).

Only what the translated functions of memc-rs use is accepted; anything else raises
RsError (the caller turns that into a check failure, never a silent default).
"""
import re


class RsError(Exception):
    pass


BITS = {"u8": 8, "u16": 16, "u32": 32, "u64": 64, "usize": 64}

TOKEN = re.compile(r"""
    \s*(?:
      (?P<int>0x[0-9a-fA-F_]+|[0-9][0-9_]*)(?P<suf>u8|u16|u32|u64|usize)?
    | (?P<id>[A-Za-z_][A-Za-z0-9_]*(?:(?:::|\.)[A-Za-z_][A-Za-z0-9_]*)*)
    | (?P<op>\|\||&&|==|!=|<=|>=|<|>|\+|-|\*|!|\(|\)|,)
    )""", re.X)


def tokenize(s):
    s = s.strip()
    out, i = [], 0
    while i < len(s):
        m = TOKEN.match(s, i)
        if not m or m.end() == i:
            raise RsError("cannot tokenize %r at %r" % (s, s[i:i + 20]))
        if m.group("int") is not None:
            out.append(("int", int(m.group("int").replace("_", ""), 0), m.group("suf")))
        elif m.group("id") is not None:
            out.append(("id", m.group("id"), None))
        else:
            out.append(("op", m.group("op"), None))
        i = m.end()
        while i < len(s) and s[i].isspace():
            i += 1
    return out


# precedence (Rust): || < && < comparisons < + - < * < as < unary
BINPREC = {"||": 1, "&&": 2, "==": 3, "!=": 3, "<": 3, ">": 3, "<=": 3, ">=": 3, "+": 5, "-": 5, "*": 6}
METHODS = {"wrapping_add": 1, "wrapping_sub": 1, "saturating_sub": 1, "saturating_add": 1, "max": 1, "min": 1}


class Parser:
    def __init__(self, toks):
        self.t, self.i = toks, 0

    def peek(self):
        return self.t[self.i] if self.i < len(self.t) else ("eof", None, None)

    def take(self):
        tok = self.peek()
        self.i += 1
        return tok

    def expect_op(self, op):
        k, v, _ = self.take()
        if k != "op" or v != op:
            raise RsError("expected %r, found %r" % (op, v))

    def expr(self, minprec=0):
        left = self.unary()
        while True:
            k, v, _ = self.peek()
            if k == "id" and v == "as":
                if 7 < minprec:
                    break
                self.take()
                k2, ty, _ = self.take()
                if k2 != "id" or ty not in BITS:
                    raise RsError("unsupported cast target %r" % (ty,))
                left = ("cast", left, ty)
                continue
            if k == "op" and v in BINPREC and BINPREC[v] >= minprec:
                prec = BINPREC[v]
                self.take()
                # comparisons do not chain in Rust; everything else is left-associative
                right = self.expr(prec + 1)
                left = ("bin", v, left, right)
                continue
            break
        return left

    def unary(self):
        k, v, suf = self.peek()
        if k == "op" and v == "!":
            self.take()
            return ("not", self.unary())
        return self.postfix(self.atom())

    def atom(self):
        k, v, suf = self.take()
        if k == "int":
            return ("lit", v, suf)
        if k == "op" and v == "(":
            e = self.expr()
            self.expect_op(")")
            return ("paren", e)
        if k == "id":
            if v in ("true", "false"):
                return ("boollit", v == "true")
            # a.b.method(args): split a trailing known method off the path
            k2, v2, _ = self.peek()
            if k2 == "op" and v2 == "(":
                if "." not in v:
                    raise RsError("call of %r is not supported" % v)
                recv, meth = v.rsplit(".", 1)
                if meth not in METHODS:
                    raise RsError("method %r is not supported" % meth)
                self.take()
                args = []
                if not (self.peek()[0] == "op" and self.peek()[1] == ")"):
                    args.append(self.expr())
                    while self.peek()[0] == "op" and self.peek()[1] == ",":
                        self.take()
                        args.append(self.expr())
                self.expect_op(")")
                if len(args) != METHODS[meth]:
                    raise RsError("method %r: wrong number of arguments" % meth)
                return ("call", ("var", recv), meth, args)
            return ("var", v)
        raise RsError("unexpected token %r" % (v,))

    def postfix(self, e):
        return e


def parse(s):
    p = Parser(tokenize(s))
    e = p.expr()
    if p.peek()[0] != "eof":
        raise RsError("trailing input in %r at %r" % (s, p.peek()[1]))
    return e


class Env:
    """variables: rust path -> (type, coq term); enums: rust path prefix -> coq prefix"""

    def __init__(self, variables, enums, lets=None):
        self.vars = dict(variables)
        self.enums = dict(enums)
        self.lets = dict(lets or {})   # name -> (type, coq term of option type)
        self.used = set()
        self.bound = set()


def strip_paren(e):
    while e[0] == "paren":
        e = e[1]
    return e


def typeof(e, env, hint=None):
    """type of a numeric/boolean expression; literals take the hint"""
    e = strip_paren(e)
    k = e[0]
    if k == "lit":
        return e[2] or hint
    if k == "boollit" or k == "not":
        return "bool"
    if k == "var":
        if e[1] in env.lets:
            return env.lets[e[1]][0]
        if e[1] in env.vars:
            return env.vars[e[1]][0]
        for pre in env.enums:
            if e[1].startswith(pre):
                return "enum"
        raise RsError("unknown variable %r" % e[1])
    if k == "cast":
        return e[2]
    if k == "call":
        return typeof(e[1], env, hint)
    if k == "bin":
        if e[1] in ("||", "&&", "==", "!=", "<", ">", "<=", ">="):
            return "bool"
        return typeof(e[2], env, hint) or typeof(e[3], env, hint)
    raise RsError("cannot type %r" % (e,))


def emit(e, env, hint=None):
    """(type, coq term); numeric terms have type option N, boolean ones option bool"""
    e = strip_paren(e)
    k = e[0]
    if k == "lit":
        ty = e[2] or hint
        if ty not in BITS:
            raise RsError("cannot infer the type of literal %d" % e[1])
        if e[1] >= 2 ** BITS[ty]:
            raise RsError("literal %d out of range of %s" % (e[1], ty))
        return ty, "(Some %d)" % e[1]
    if k == "boollit":
        return "bool", "(Some %s)" % ("true" if e[1] else "false")
    if k == "var":
        name = e[1]
        if name in env.lets:
            env.used.add(name)
            return env.lets[name]
        if name in env.vars:
            if name not in env.bound:
                env.used.add(name)
            ty, term = env.vars[name]
            return ty, "(Some %s)" % term
        raise RsError("unknown variable %r (an enum constant needs `as uN`)" % name)
    if k == "cast":
        inner = strip_paren(e[1])
        ty = e[2]
        if inner[0] == "var" and inner[1] not in env.vars and inner[1] not in env.lets:
            for pre, coqpre in env.enums.items():
                if inner[1].startswith(pre):
                    return ty, "(rcast %d (Some %s%s))" % (BITS[ty], coqpre, inner[1][len(pre):])
            raise RsError("unknown variable %r" % inner[1])
        ity, term = emit(inner, env, hint=ty)
        if ity == "bool":
            raise RsError("cast of a boolean")
        if BITS[ity] <= BITS[ty]:
            return ty, term          # widening: the value is unchanged
        return ty, "(rcast %d %s)" % (BITS[ty], term)
    if k == "not":
        ty, term = emit(e[1], env)
        if ty != "bool":
            raise RsError("`!` on a number")
        return "bool", "(rnot %s)" % term
    if k == "call":
        ty = typeof(e[1], env, hint)
        rty, recv = emit(e[1], env, hint)
        aty, arg = emit(e[3][0], env, hint=rty)
        if rty != aty or rty == "bool":
            raise RsError("method %s: operand types %s, %s" % (e[2], rty, aty))
        fn = {"wrapping_add": "rwrapping_add %d" % BITS[rty], "wrapping_sub": "rwrapping_sub %d" % BITS[rty],
              "saturating_sub": "rsaturating_sub", "saturating_add": "rsaturating_add %d" % BITS[rty],
              "max": "rmax", "min": "rmin"}[e[2]]
        return rty, "(%s %s %s)" % (fn, recv, arg)
    if k == "bin":
        op = e[1]
        if op in ("||", "&&"):
            lt, l = emit(e[2], env)
            rt, r = emit(e[3], env)
            if lt != "bool" or rt != "bool":
                raise RsError("`%s` on numbers" % op)
            return "bool", "(%s %s %s)" % ("ror" if op == "||" else "rand", l, r)
        lty = typeof(e[2], env)
        rty = typeof(e[3], env)
        ty = lty or rty or hint
        if ty is None:
            raise RsError("cannot infer operand type in %r" % (e,))
        lt, l = emit(e[2], env, hint=ty)
        rt, r = emit(e[3], env, hint=ty)
        if lt != rt:
            raise RsError("operand types differ: %s %s %s" % (lt, op, rt))
        if op in ("==", "!=", "<", ">", "<=", ">="):
            if lt == "bool":
                raise RsError("comparison of booleans")
            f = {"==": "N.eqb", "!=": "nneqb", "<": "N.ltb", ">": "ngtb", "<=": "N.leb", ">=": "ngeb"}[op]
            return "bool", "(rcmp %s %s %s)" % (f, l, r)
        if lt == "bool":
            raise RsError("arithmetic on booleans")
        if op == "+":
            return lt, "(radd %d %s %s)" % (BITS[lt], l, r)
        if op == "-":
            return lt, "(rsub %s %s)" % (l, r)
        if op == "*":
            return lt, "(rmul %d %s %s)" % (BITS[lt], l, r)
    raise RsError("cannot translate %r" % (e,))


def translate(src, env, want=None, hint=None):
    ty, term = emit(parse(src), env, hint=hint)
    if want == "bool" and ty != "bool":
        raise RsError("%r is not a boolean expression" % src)
    if want == "num" and ty == "bool":
        raise RsError("%r is not a numeric expression" % src)
    return ty, term


# ---- statements -----------------------------------------------------------

def strip_comments(src):
    src = re.sub(r"//[^\n]*", "", src)
    src = re.sub(r"/\*.*?\*/", "", src, flags=re.S)
    return src


def strip_noise(body):
    """drop logging macros and cfg(memcrs_verif) instrumentation statements"""
    body = strip_comments(body)
    body = re.sub(r"#\[cfg\(memcrs_verif\)\]\s*[^;]*;", "", body)
    body = re.sub(r"\b(?:error|debug|info|warn|trace)!\s*\((?:[^()]|\([^()]*\))*\)\s*;", "", body)
    return body


def match_brace(s, i):
    """s[i] == '{' -> index just after the matching '}'"""
    assert s[i] == "{"
    depth = 0
    for j in range(i, len(s)):
        if s[j] == "{":
            depth += 1
        elif s[j] == "}":
            depth -= 1
            if depth == 0:
                return j + 1
    raise RsError("unbalanced braces")


def fn_body(src, name, sig_re=r"[^{]*"):
    """text between the braces of `fn name(...) ... { ... }`"""
    m = re.search(r"\bfn\s+%s\s*(?:<[^>]*>)?\s*\(%s\{" % (re.escape(name), sig_re), src, re.S)
    if not m:
        raise RsError("fn %s not found" % name)
    end = match_brace(src, m.end() - 1)
    return src[m.end():end - 1]


def guard_chain(body, env, ret_ty="bool"):
    """a body of the shape  (let x = e; | if c { return r; })* tail   ->  coq term (option bool);
    a let is evaluated where it stands (rbind): an overflow in it panics before the
    statements that follow; r and tail are boolean expressions"""
    s = strip_noise(body).strip()
    steps = []
    while True:
        s = s.strip()
        m = re.match(r"let\s+(?:mut\s+)?([a-z_][a-z0-9_]*)\s*(?::\s*([a-z0-9]+)\s*)?=\s*([^;]*);", s)
        if m:
            ty, term = translate(m.group(3), env, hint=m.group(2))
            if m.group(2) and m.group(2) != ty:
                raise RsError("let %s: declared %s, value %s" % (m.group(1), m.group(2), ty))
            name = m.group(1)
            if not re.fullmatch(r"[a-z_][a-z0-9_]*", name) or name in ("fun", "let", "in", "match", "end", "with", "if", "then", "else"):
                raise RsError("let %s: name not usable" % name)
            coqname = "v_" + name
            env.vars[name] = (ty, coqname)
            env.bound.add(name)
            env.lets.pop(name, None)
            steps.append(("let", coqname, term))
            s = s[m.end():]
            continue
        m = re.match(r"if\s+(.*?)\s*\{", s, re.S)
        if m:
            end = match_brace(s, m.end() - 1)
            inner = s[m.end():end - 1].strip()
            mr = re.fullmatch(r"return\s+(.*?)\s*;", inner, re.S)
            if not mr:
                raise RsError("guard body is not a single return: %r" % inner[:60])
            rest = s[end:].lstrip()
            if rest.startswith("else"):
                raise RsError("guard with an else branch")
            _, c = translate(m.group(1), env, want="bool")
            _, r = translate(mr.group(1), env, want="bool")
            steps.append(("if", c, r))
            s = rest
            continue
        break
    tail = s.strip()
    if tail.startswith("return"):
        mt = re.fullmatch(r"return\s+(.*?)\s*;?", tail, re.S)
        if not mt:
            raise RsError("cannot read the tail %r" % tail[:60])
        tail = mt.group(1)
    _, t = translate(tail, env, want="bool")
    term = t
    nguards = 0
    for st in reversed(steps):
        if st[0] == "if":
            term = "(rguard %s %s\n     %s)" % (st[1], st[2], term)
            nguards += 1
        else:
            term = "(rbind %s (fun %s =>\n     %s))" % (st[2], st[1], term)
    return term, nguards


def assign_chain(stmt, env, var):
    """`if c { var = e; } else if c2 { var = e2; } else { var -= e3; }` -> coq term (option N):
    the new value of var"""
    s = strip_noise(stmt).strip()
    vty = env.vars[var][0] if var in env.vars else env.lets[var][0]

    def branch(inner):
        inner = inner.strip()
        m = re.fullmatch(r"%s\s*(=|\+=|-=)\s*(.*?)\s*;" % re.escape(var), inner, re.S)
        if not m:
            raise RsError("branch is not a single assignment to %s: %r" % (var, inner[:60]))
        rhs = m.group(2)
        if m.group(1) == "+=":
            rhs = "%s + (%s)" % (var, rhs)
        elif m.group(1) == "-=":
            rhs = "%s - (%s)" % (var, rhs)
        ty, term = translate(rhs, env, want="num", hint=vty)
        if ty != vty:
            raise RsError("assignment of %s to %s" % (ty, vty))
        return term

    def chain(s):
        s = s.strip()
        m = re.match(r"if\s+(.*?)\s*\{", s, re.S)
        if not m:
            raise RsError("expected `if`, found %r" % s[:40])
        end = match_brace(s, m.end() - 1)
        _, c = translate(m.group(1), env, want="bool")
        then = branch(s[m.end():end - 1])
        rest = s[end:].strip()
        if not rest.startswith("else"):
            if rest:
                raise RsError("trailing statements after the if-chain: %r" % rest[:40])
            _, keep = translate(var, env)
            return "(rif %s %s %s)" % (c, then, keep)
        rest = rest[4:].strip()
        if rest.startswith("if"):
            return "(rif %s %s\n     %s)" % (c, then, chain(rest))
        if not rest.startswith("{"):
            raise RsError("malformed else")
        end2 = match_brace(rest, 0)
        if rest[end2:].strip():
            raise RsError("trailing statements after the if-chain: %r" % rest[end2:][:40])
        return "(rif %s %s\n     %s)" % (c, then, branch(rest[1:end2 - 1]))

    return chain(s)
