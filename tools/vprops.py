"""vprops — the per-property check flow (proof obligations + correspondence)."""
import json, os, re, time, shutil
import vlib
from vlib import (ROOT, BUILD, log, BuildLock, ensure_tables, check_proofs, hygiene, ensure_runner,
                  ensure_harness, run_seq_suites, run_conc_suites, minimize, coq_crosscheck, write_evidence, write_replay,
                  load_known, PROPS, KINDS, TRUSTED_BASE, replay_trace)


def classify(prop, cfg, impl_line, model_line):
    """is the first differing observation one the property talks about?"""
    rel = cfg.get("relevant", "RSMU")
    kind = (impl_line[:1] if impl_line and impl_line != "<end>" else model_line[:1])
    if (impl_line or "").startswith("R ") or (model_line or "").startswith("R "):
        kind = "R"   # a response one side has and the other has not (or has differently)
    elif (impl_line or "").startswith("M ") or (model_line or "").startswith("M "):
        kind = "M"   # a stored record one side has and the other has not (or has differently)
    if (impl_line or "").startswith("SERVED") or (model_line or "").startswith("SERVED"):
        kind = "V" if "V" in rel else "C"
    if (impl_line or "").startswith("TTL") or (model_line or "").startswith("TTL"):
        kind = "T"
    if (impl_line or "").startswith("MEM ") or (model_line or "").startswith("MEM "):
        kind = "C"
    if (impl_line or "").startswith("HANG") or (impl_line or "").startswith("STUCK"):
        return True, "a request that never returned"
    return kind in rel, KINDS.get(kind, kind)


def run_property(prop, tier, seed, replay):
    t0 = time.time()
    cfg = PROPS[prop]
    work = os.path.join(BUILD, "work", prop)
    shutil.rmtree(work, ignore_errors=True)
    os.makedirs(work, exist_ok=True)
    report = {"errors": [], "cases": 0, "events": 0, "distribution": {}, "samples": [], "suites": [],
              "trace_files": [], "distinct_nontrivial": 0}
    violations = []   # (replay_path, found_input)
    obligations = 0
    discharged = 0

    # ---- replay mode: run one stored replay on implementation and model
    if replay:
        body = json.load(open(os.path.join(ROOT, replay) if not os.path.isabs(replay) else replay))
        with BuildLock():
            ensure_tables(); ensure_runner(); ensure_harness()
        if "trace" not in body:
            print("replay names a proof obligation / correspondence, no input: %s" % body.get("what"))
            return 1
        if body.get("profile") == "slow":
            rep = {"errors": [], "cases": 0, "events": 0, "distribution": {}, "samples": [], "suites": [], "trace_files": []}
            _, mon = run_conc_suites(prop, {"slow": True}, "quick", seed, work, rep)
            if not mon and not rep["errors"]:
                print("replay: every response arrived complete under the slow reader")
                return 0
            for m in mon[:3]:
                print("replay: %s" % m["trace"][-1])
            print("VIOLATION property=%s replay=%s" % (prop, replay))
            return 1
        if body.get("profile") in ("limit", "cfg"):
            # timed lifecycles / configurations are re-generated from the recorded seed
            rep = {"errors": [], "cases": 0, "events": 0, "distribution": {}, "samples": [], "suites": [],
                   "trace_files": [], "distribution": {}}
            sub = {body["profile"]: cfg.get(body["profile"])}
            dd, _ = run_conc_suites(prop, sub, body.get("tier", "quick"), body.get("seed", seed), work, rep)
            if not dd and not rep["errors"]:
                print("replay: implementation and model agree on the re-generated %s suite" % body["profile"])
                return 0
            for x in dd[:3]:
                print("replay: case %s, first difference: implementation %r / model %r" % (x[1], x[4], x[5]))
            print("VIOLATION property=%s replay=%s" % (prop, replay))
            return 1
        d = replay_trace(body["trace"], work, "replay", body.get("profile", "seq"))
        if d is None:
            print("replay: implementation and model agree on this input")
            return 0
        print("replay: first difference at observation %s\n  implementation: %s\n  model:          %s" % d)
        print("VIOLATION property=%s replay=%s" % (prop, replay))
        return 1

    # ---- 1. tables, proofs, builds (serialised: shared build directories)
    with BuildLock():
        ok, out = ensure_tables()
        if not ok:
            report["errors"].append("table translator failed: " + out[-800:])
        tr_done = " ".join(re.findall(r"gen_tables: TRANSLATED (.*)", out)).split()
        tr_not = re.findall(r"gen_tables: NOT-TRANSLATED (.*)", out)
        for t in tr_not:
            log("%s: translator did not recognise: %s (its _is_source obligation does not apply; correspondence only)" % (prop, t))
        pr = check_proofs(prop, tier=tier)
        names = pr["theorems"] or vlib.theorem_names(prop)
        obligations += max(len(names), 1)
        bad = hygiene()
        proofs_ok = pr["ok"] and not bad
        if proofs_ok:
            discharged += len(names)
            log("%s: %d theorems re-checked, all closed under the global context" % (prop, len(names)))
        else:
            log("%s: proof obligations FAILED\n%s\n%s" % (prop, pr["log"][-2500:], "\n".join(bad)))
        ok_r, out_r = ensure_runner()
        if not ok_r:
            report["errors"].append("model extraction/runner build failed: " + out_r[-1500:])
        ok_h, out_h = ensure_harness()
        if not ok_h:
            report["errors"].append("harness build failed: " + out_h[-1500:])

    # ---- 2. correspondence
    diffs = []
    xc_ok, xc_n, xc_log = True, 0, ""
    if ok_r and ok_h:
        obligations += 1  # the seq correspondence
        diffs = run_seq_suites(prop, cfg, tier, seed, work, report)
        monitor = []
        if cfg.get("conc") or cfg.get("limit") or cfg.get("sweep") or cfg.get("cfg") or cfg.get("pol") or cfg.get("slow") or cfg.get("mlimit"):
            obligations += 1
            cd, monitor = run_conc_suites(prop, cfg, tier, seed, work, report)
            diffs += cd
            if not cd and not report["errors"]:
                discharged += 1
        if not proofs_ok and not diffs and not report["errors"]:
            # a proof obligation broke and the property's own suites agree: search wider for a
            # concrete input on which implementation and model differ
            log("%s: searching for a failing input (proof obligation broken, suites agree)" % prop)
            wide = {"seq": [(fl, 1024, None, 60, 40) for fl in ("mix", "quiet", "cas", "ttl", "counter", "flush", "malformed", "cuts", "wide")]
                           + [("policy", 1024, 200, 30, 50), ("malformed", 100, None, 40, 30)],
                    "conn": [("quiet", 1024, None, 20, 25), ("malformed", 100, None, 20, 25)]}
            diffs = run_seq_suites(prop, wide, tier, seed + 1000, work, report)
        extra = cfg.get("extra")
        if extra:
            obligations += 1
            ed = extra(prop, cfg, tier, seed, work, report)
            diffs += ed
            if not ed and not report["errors"]:
                discharged += 1
        if not diffs and not report["errors"]:
            discharged += 1
        # in-Coq evaluation of a sample (checks extraction + glue on real inputs)
        obligations += 1
        sample = 48 if tier == "quick" else 768
        if report["trace_files"]:
            allt = os.path.join(work, "all.trace")
            with open(allt, "w") as f:
                for t in report["trace_files"]:
                    f.write(open(t).read())
            xc_ok, xc_n, xc_log = coq_crosscheck(allt, work, sample, seed)
            if xc_ok and report.get("conc_trace_files"):
                # the concurrent windows too (Obs.obs_run2: Model/Conc.v and Model/PolConc.v inside Coq)
                callt = os.path.join(work, "conc_all.trace")
                with open(callt, "w") as f:
                    for t in report["conc_trace_files"]:
                        f.write(open(t).read())
                ok2, n2, log2 = coq_crosscheck(callt, os.path.join(work, "xcc"), 16 if tier == "quick" else 256, seed)
                xc_ok, xc_n, xc_log = ok2, xc_n + n2, log2
            if xc_ok:
                discharged += 1
            else:
                report["errors"].append("in-Coq evaluation disagrees with the extracted runner: " + xc_log[-1500:])

    # ---- 3. violations
    # the recorded findings a monitor outcome is compared with: the property's own, or — for a
    # property whose suite also runs the commands of a finding recorded under another property
    # (cfg["known_from"]) — that property's; those are reported by that property's check, here
    # they are only told apart from anything new
    known_prop = cfg.get("known_from", prop)
    known = [k for k in load_known() if k.get("property") == known_prop]
    known_lines = []
    seen = set()
    # what the concurrency monitor found: outcomes no one-at-a-time order explains, stuck steps
    reproduced = {}
    for m in (monitor if (ok_r and ok_h) else []):
        if m["kind"] not in cfg.get("monitor_kinds", ["NONLIN", "STUCK", "VANISH", "GHOST"]):
            continue
        cls = m["class"]
        kf = [k for k in known if k.get("class") == cls] if (m["kind"] == "NONLIN" and cfg.get("known_classes")) else []
        if kf and m.get("no_interference"):
            # the known findings are interferences (C04_atomic_without_interference): an outcome
            # that no order explains under a schedule without interference is something else
            kf = []
            m = dict(m, **{"class": cls + "+no-interference"})
            cls = m["class"]
        if kf:
            if known_prop == prop:
                reproduced.setdefault(cls, (kf[0], m))
            else:
                report["distribution"]["outcomes_of_findings_recorded_under_" + known_prop] = \
                    report["distribution"].get("outcomes_of_findings_recorded_under_" + known_prop, 0) + 1
            continue
        body = {"what": ("%s: outcome of case %s is not that of any one-at-a-time order (class %s)" % (m["suite"], m["case"], cls))
                        if m["kind"] == "NONLIN" else ("%s: %s" % (m["suite"], " ".join([m["case"], cls]))),
                "profile": "pol" if m["suite"] == "conc_pol" else ("slow" if m["suite"] == "slow_reader" else "conc"),
                "trace": m["trace"], "theorems": names}
        key = json.dumps(m["trace"])
        if key in seen or len(violations) >= 5:
            continue
        seen.add(key)
        violations.append((write_replay(prop, body), True))
    for cls, (kf, m) in sorted(reproduced.items()):
        known_lines.append("KNOWN-FINDING: property=%s class=%s site=%s %s (reproduced: case %s)" % (
            prop, cls, kf.get("site", "?"), kf["what"], m["case"]))
    for kf in (known if known_prop == prop else []):
        if kf.get("class") not in reproduced:
            known_lines.append("KNOWN-FINDING: property=%s class=%s site=%s %s (listed; not reproduced in this run)" % (
                prop, kf.get("class"), kf.get("site", "?"), kf["what"]))
    # at most five disagreements are minimised and reported: those that are failing inputs for
    # this property first (a difference of a kind the property speaks about; for a schedule,
    # one a monitor vouches for), in the order of the suites otherwise
    mon_cases = {m["case"] for m in (monitor if (ok_r and ok_h) else [])}

    def rank(d):
        tag, cid, _tl, _idx, il, ml = d
        rel, _k = classify(prop, cfg, il, ml)
        rel = rel or bool(set(vlib.SYMKINDS.get(cid, set())) & set(cfg.get("relevant", "RSMU")))
        if tag.startswith("conc_") and not (il or "").startswith(("HANG", "STUCK")) and cid not in mon_cases:
            rel = False
        return 0 if rel else 1
    diffs = sorted(diffs, key=rank)
    for d in diffs[:5]:
        tag, cid, trace_lines, idx, il, ml = d
        profile = "conn" if tag.startswith("conn_") else ("pol" if tag == "conc_pol" else "conc" if tag.startswith("conc_") else ("limit" if tag == "limit" else ("cfg" if tag == "cfg" else "seq")))
        symkinds = set(vlib.SYMKINDS.get(cid, set()))   # of the case as it ran (minimising re-runs it)
        with BuildLock():
            small = minimize(trace_lines, work, profile)
        relevant, kind = classify(prop, cfg, il, ml)
        if not relevant and (symkinds & set(cfg.get("relevant", "RSMU"))):
            # the first difference is of a kind the property does not speak about, but further on
            # the two sides differ in one it does (a response, a record, a closure that one has
            # and the other has not)
            relevant = True
        if (tag.startswith("conc_") and not (il or "").startswith(("HANG", "STUCK"))
                and cid not in {m["case"] for m in (monitor if (ok_r and ok_h) else [])}):
            # a schedule is replayed step for step on the model: a rewrite that changes the number of
            # map calls of an operation makes the two disagree without anything being wrong. Such a
            # disagreement is a failing input only when a monitor that does not depend on the model
            # (an outcome no one-at-a-time order explains, accounting or bound off at quiescence, a
            # step that never returns) fired for the same case.
            relevant = False
        body = {"what": "implementation and model disagree (%s correspondence, suite %s, case %s)" % (profile, tag, cid),
                "profile": profile, "seed": seed, "tier": tier,
                "first_difference": {"observation_index": idx, "implementation": il, "model": ml, "kind": kind},
                "trace": small, "theorems": names}
        key = json.dumps(small)
        if key in seen:
            continue
        seen.add(key)
        p = write_replay(prop, body)
        violations.append((p, relevant))
    if not proofs_ok and not violations:
        body = {"what": "proof obligation no longer checks: coq/Props/%s.v (theorems %s)" % (prop, ", ".join(names)),
                "log": pr["log"][-3000:], "hygiene": bad}
        violations.append((write_replay(prop, body), False))
    if report["errors"] and not violations:
        body = {"what": "correspondence could not be run: " + "; ".join(e[:300] for e in report["errors"])}
        violations.append((write_replay(prop, body), False))

    # the work directory can hold gigabytes of traces in the thorough tier: nothing in it is
    # needed any more (replays are self-contained files under replays/)
    for root, _dirs, files in os.walk(work):
        for fn in files:
            fp = os.path.join(root, fn)
            try:
                if os.path.getsize(fp) > (1 << 20) or not violations:
                    os.remove(fp)
            except OSError:
                pass
    wall = time.time() - t0
    coverage = {
        "obligations": obligations, "discharged": discharged if not violations else min(discharged, obligations - 1),
        "checker_cmd": "make -C coq Props/%s.vo && coqc -Q coq MC coq/Props/%s.v (Print Assumptions); ./check %s" % (prop, prop, prop),
        "trusted_base": TRUSTED_BASE,
        "theorems": names,
        "coqchk": ("Axioms: <none>; no type-in-type, no unsafe fixpoints, no assumed positivity" if pr.get("coqchk") else
                   ("not run in the quick tier" if tier == "quick" else "FAILED")),
        "evaluations": report["cases"], "distinct_nontrivial": report["distinct_nontrivial"],
        "rule": "cases = generated command streams (one PRNG per case from VERIF_SEED) run on the implementation and on the extracted model; "
                "distinct = different full observation transcripts; non-trivial = at least one success response and a non-empty store dump",
        "events": report["events"], "input_distribution": report["distribution"],
        "suites": report["suites"], "in_coq_cases": xc_n,
        "samples": report["samples"] or [{"theorems": names}],
        "known_findings": known_lines,
        "translated_from_source": ["constants and tables", "decode_dispatch", "parser_variants", "handler_routes"] + tr_done,
        "not_translated": tr_not,
    }
    write_evidence(prop, tier, seed, coverage, wall, len(violations))
    for kl in known_lines:
        print(kl)
    if violations:
        for p, found in violations:
            rel = os.path.relpath(p, ROOT)
            if found:
                print("VIOLATION property=%s replay=%s" % (prop, rel))
            else:
                print("VIOLATION property=%s replay=%s no-failing-input-found" % (prop, rel))
        return 1
    log("%s: held — %d/%d obligations, %d cases, %d events, %d in-Coq cases, %.0fs" % (
        prop, discharged, obligations, report["cases"], report["events"], xc_n, wall))
    return 0
