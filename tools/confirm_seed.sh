#!/bin/bash
# usage: tools/confirm_seed.sh <seed dir> <scratch worktree>
# confirms: with the patch the demo fails and the 92 library tests pass; without it the demo passes
set -u
seed="$(readlink -f "$1")"; wt="$2"
cd "$wt" || exit 2
git checkout -q -- . ; rm -rf memcrs/tests
export CARGO_NET_OFFLINE=true
mkdir -p memcrs/tests && cp "$seed/demo.rs" memcrs/tests/demo_seed.rs
# without the patch
cargo test --offline --target-dir "$wt/target" -p memcrs --test demo_seed >"$wt/out_clean.txt" 2>&1; rc_clean=$?
git apply "$seed/patch.diff" || { echo "$seed: PATCH DOES NOT APPLY"; exit 2; }
cargo test --offline --target-dir "$wt/target" -p memcrs --test demo_seed >"$wt/out_patched.txt" 2>&1; rc_patched=$?
cargo test --offline --target-dir "$wt/target" -p memcrs --lib >"$wt/out_lib.txt" 2>&1; rc_lib=$?
libres=$(grep -E "^test result" "$wt/out_lib.txt" | head -1)
git checkout -q -- . ; rm -rf memcrs/tests
echo "$(basename $seed): demo clean rc=$rc_clean (want 0), demo patched rc=$rc_patched (want !=0), lib: $libres"
