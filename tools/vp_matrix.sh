#!/bin/bash
# usage (inside a snapshot): vp run --with-repo --timeout 3h -- tools/vp_matrix.sh <shard 0..2> <generator seed>
# every stored seeded change with index mod 3 == shard is applied to the snapshot's repository ($VP_RUN_REPO) and run against
# the check of its own property; one line per change (a VIOLATION with an input is preferred over one without)
sed -i "s#/repo/memcrs#$VP_RUN_REPO/memcrs#" harness/Cargo.toml; export VERIF_REPO=$VP_RUN_REPO
export VERIF_SEED=$2
./check --setup >/dev/null 2>&1
i=0
for d in seeded/*/; do n=$(basename $d); p=${n%%-*}; i=$((i+1))
  [ $((i % 3)) -eq $1 ] || continue
  if ! git -C $VP_RUN_REPO apply --check $PWD/$d/patch.diff 2>/dev/null; then echo "$n NOAPPLY"; continue; fi
  git -C $VP_RUN_REPO apply $PWD/$d/patch.diff
  out=$(./check $p 2>&1 | grep -E 'VIOLATION|held|FAILED')
  best=$(echo "$out" | grep VIOLATION | grep -v no-failing | head -1)
  [ -z "$best" ] && best=$(echo "$out" | head -1)
  echo "$n :: $(echo $best | cut -c1-140)"
  git -C $VP_RUN_REPO checkout -- .
done
echo MATRIX DONE
