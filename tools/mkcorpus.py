#!/usr/bin/env python3
"""mkcorpus — build /verif/corpus from replays the checks wrote while seeded changes were applied.

  tools/mkcorpus.py <replays-dir> [<replays-dir> ...]

Every replay of the trace-driven profiles (seq, conn) is the minimized input on which a
seeded change made implementation and model disagree. On the unchanged tree both sides
agree on it — that is verified here, case by case, before a trace is kept — so it costs
nothing to run it first on every check, and the change that produced it stays caught
however the generators' random streams move afterwards.

Output: corpus/<PROP>.<profile>.trace (concatenated cases, ids k<n>-<replay hash>) and
corpus/INDEX.json (where each case came from). Run by hand after a seeding round, on a
clean /repo; never by a check.
"""
import sys, os, json, glob, hashlib, shutil, tempfile
sys.path.insert(0, os.path.dirname(os.path.abspath(__file__)))
import vlib

MAX_LINES = 120          # events per case
MAX_LINE_LEN = 20000     # no megabyte values in the corpus
CAP = {"seq": 80, "conn": 18}
MAX_IDLE = 1             # an idle event costs the receive timeout in wall time


def existing(seen, out):
    """the cases already in the corpus stay (they come first)"""
    cdir = os.path.join(vlib.ROOT, "corpus")
    try:
        index = json.load(open(os.path.join(cdir, "INDEX.json")))
    except (OSError, ValueError):
        index = {}
    for f in sorted(glob.glob(os.path.join(cdir, "*.trace"))):
        prop, prof = os.path.basename(f).split(".")[:2]
        for cid, lines in vlib.split_cases(open(f).read()):
            meta = index.get(cid + "@" + prop, {})
            h = hashlib.sha1("\n".join(lines[1:]).encode()).hexdigest()[:10]
            if (prop, prof, h) in seen:
                continue
            seen.add((prop, prof, h))
            out.setdefault((prop, prof), []).append((0, h, lines, meta.get("from", "corpus"), meta.get("replay", "")))


def candidates(dirs):
    seen = set()
    out = {}
    existing(seen, out)
    for d in dirs:
        for f in sorted(glob.glob(os.path.join(d, "*.json"))):
            try:
                b = json.load(open(f))
            except Exception:
                continue
            prof = b.get("profile")
            tr = b.get("trace")
            if prof not in ("seq", "conn") or not tr or not tr[0].startswith("CASE "):
                continue
            if len(tr) > MAX_LINES or any(len(l) > MAX_LINE_LEN for l in tr):
                continue
            if sum(1 for l in tr if l.startswith("I ")) > MAX_IDLE:
                continue
            h = hashlib.sha1("\n".join(tr[1:]).encode()).hexdigest()[:10]
            key = (b["property"], prof, h)
            if key in seen:
                continue
            seen.add(key)
            out.setdefault((b["property"], prof), []).append((len(tr), h, tr, b.get("what", ""), os.path.basename(f)))
    return out


def agree(prop, prof, cases, work):
    """ids of the cases on which implementation and model agree (unchanged tree)"""
    lines = []
    for cid, tr in cases:
        hdr = tr[0].split()
        hdr[1] = cid
        lines += [" ".join(hdr)] + tr[1:]
    tin, tout, iobs, mobs = [os.path.join(work, "c" + e) for e in (".in", ".trace", ".impl", ".model")]
    open(tin, "w").write("\n".join(lines) + "\n")
    cmd = [vlib.HBIN, prof + "-replay", "--in", tin, "--trace", tout, "--obs", iobs]
    rc, out = vlib.sh(cmd, timeout=1200)
    if rc != 0:
        print("harness failed for %s %s: %s" % (prop, prof, out[-300:]))
        return set()
    ok, out = vlib.run_model(tout, mobs, socket=(prof == "conn"))
    if not ok:
        print("runner failed for %s %s: %s" % (prop, prof, out[-300:]))
        return set()
    diffs, _ = vlib.compare(tout, iobs, mobs)
    bad = set(d[0] for d in diffs)
    return set(cid for cid, _ in cases) - bad


def main(dirs):
    with vlib.BuildLock():
        vlib.ensure_tables(); vlib.ensure_runner(); vlib.ensure_harness()
    cdir = os.path.join(vlib.ROOT, "corpus")
    os.makedirs(cdir, exist_ok=True)
    index = {}
    work = tempfile.mkdtemp(prefix="mkcorpus")
    try:
        for (prop, prof), cs in sorted(candidates(dirs).items()):
            # the cases of every suite (what) in turn, shortest first
            by = {}
            for c in sorted(cs):
                by.setdefault(c[3].split(", case")[0], []).append(c)
            picked = []
            while len(picked) < CAP[prof] * 2 and any(by.values()):
                for k in sorted(by):
                    if by[k]:
                        picked.append(by[k].pop(0))
            cases = [("k%d-%s" % (i, c[1]), c[2]) for i, c in enumerate(picked)]
            good = agree(prop, prof, cases, work)
            if prof == "conn":
                good &= agree(prop, prof, cases, work)   # timing: twice
            kept = [(cid, tr, c) for (cid, tr), c in zip(cases, picked) if cid in good][:CAP[prof]]
            print("%s %s: %d candidates, %d tried, %d agree on the unchanged tree, %d kept" % (prop, prof, len(cs), len(cases), len(good), len(kept)))
            if not kept:
                continue
            with open(os.path.join(cdir, "%s.%s.trace" % (prop, prof)), "w") as f:
                for cid, tr, c in kept:
                    hdr = tr[0].split(); hdr[1] = cid
                    f.write("\n".join([" ".join(hdr)] + tr[1:]) + "\n")
                    index[cid + "@" + prop] = {"profile": prof, "from": c[3], "replay": c[4], "events": len(tr) - 1}
        json.dump(index, open(os.path.join(cdir, "INDEX.json"), "w"), indent=1, sort_keys=True)
    finally:
        shutil.rmtree(work, ignore_errors=True)


if __name__ == "__main__":
    main(sys.argv[1:])
