#!/usr/bin/env python3
"""Translator for the table-like parts of memc-rs: regenerates coq/Model/Generated.v
from the Rust sources under $REPO (default /repo) on every run.

Anything that cannot be parsed is an error (exit 2), never a silent default.
The file is only rewritten when its content changes, so `make` re-checks the
dependent proofs exactly when the source tables changed.
"""
import os, re, sys

REPO = os.environ.get("VERIF_REPO", "/repo")
OUT = os.path.join(os.path.dirname(os.path.abspath(__file__)), "..", "coq", "Model", "Generated.v")


def die(msg):
    print("gen_tables: " + msg, file=sys.stderr)
    sys.exit(2)


def read(rel):
    p = os.path.join(REPO, rel)
    try:
        return open(p).read()
    except OSError as e:
        die("cannot read %s: %s" % (p, e))


def enum_variants(src, name):
    m = re.search(r"pub enum %s\s*\{(.*?)\n\}" % re.escape(name), src, re.S)
    if not m:
        die("enum %s not found" % name)
    out = []
    for line in m.group(1).splitlines():
        line = line.split("//")[0].strip().rstrip(",")
        if not line:
            continue
        mm = re.fullmatch(r"([A-Za-z_][A-Za-z0-9_]*)\s*=\s*(0x[0-9a-fA-F]+|[0-9]+)", line)
        if not mm:
            die("enum %s: cannot parse variant line %r" % (name, line))
        out.append((mm.group(1), int(mm.group(2), 0)))
    if not out:
        die("enum %s has no variants" % name)
    return out


def coq_bytes(b):
    return "[" + "; ".join("x%02x" % c for c in b) + "]"


def main():
    binary = read("memcrs/src/protocol/binary.rs")
    error = read("memcrs/src/cache/error.rs")
    handler = read("memcrs/src/memcache_server/handler.rs")
    codec = read("memcrs/src/protocol/binary_codec.rs")
    cache = read("memcrs/src/cache/cache.rs")
    cargo = read("memcrs/Cargo.toml")
    conn = read("memcrs/src/protocol/binary_connection.rs")

    magic = enum_variants(binary, "Magic")
    status = enum_variants(binary, "ResponseStatus")
    dtypes = enum_variants(binary, "DataTypes")
    cmds = enum_variants(binary, "Command")
    errs = enum_variants(error, "CacheError")

    # error messages: `CacheError::X => "..."` or `=> NAME` with `static NAME: &str = "..."`
    statics = dict(re.findall(r'static\s+([A-Z_]+)\s*:\s*&str\s*=\s*"([^"]*)"\s*;', error))
    msgs = {}
    for name, _ in errs:
        m = re.search(r"CacheError::%s\s*=>\s*(\"([^\"]*)\"|([A-Z_]+))\s*," % name, error)
        if not m:
            die("no message for CacheError::%s" % name)
        if m.group(2) is not None:
            msgs[name] = m.group(2)
        else:
            if m.group(3) not in statics:
                die("static %s not found" % m.group(3))
            msgs[name] = statics[m.group(3)]

    m = re.search(r"const EXTRAS_LENGTH\s*:\s*u8\s*=\s*(\d+)\s*;", handler)
    if not m:
        die("EXTRAS_LENGTH not found")
    extras_length = int(m.group(1))
    m = re.search(r"const HEADER_LEN\s*:\s*usize\s*=\s*(\d+)\s*;", codec)
    if not m:
        die("HEADER_LEN not found")
    header_len = int(m.group(1))
    m = re.search(r"const RESPONSE_HEADER_LEN\s*:\s*usize\s*=\s*(\d+)\s*;", codec)
    if not m:
        die("RESPONSE_HEADER_LEN not found")
    resp_header_len = int(m.group(1))
    m = re.search(r'^version\s*=\s*"([^"]+)"', cargo, re.M)
    if not m:
        die("package version not found")
    version = m.group(1)
    m = re.search(r"let buffer_size\s*=\s*(\d+)\s*\*\s*(\d+)\s*;", conn)
    if not m:
        die("skip buffer size not found")
    skip_buf = int(m.group(1)) * int(m.group(2))

    # size_of::<CacheMetaData>() : fields are plain integers, repr(Rust) reorders to no padding
    m = re.search(r"pub struct CacheMetaData\s*\{(.*?)\}", cache, re.S)
    if not m:
        die("CacheMetaData not found")
    sizes = {"u8": 1, "u16": 2, "u32": 4, "u64": 8, "usize": 8, "i64": 8, "i32": 4}
    total, align = 0, 1
    for line in m.group(1).splitlines():
        line = line.split("//")[0].strip().rstrip(",")
        if not line:
            continue
        mm = re.fullmatch(r"(?:pub(?:\([a-z]+\))?\s+)?([a-z_]+)\s*:\s*([a-z0-9]+)", line)
        if not mm or mm.group(2) not in sizes:
            die("CacheMetaData: cannot parse field %r" % line)
        total += sizes[mm.group(2)]
        align = max(align, sizes[mm.group(2)])
    meta_len = (total + align - 1) // align * align

    # key/extras limits in request_valid
    m1 = re.search(r"self\.header\.extras_length\s*>\s*(\d+)", codec)
    m2 = re.search(r"self\.header\.key_length\s*>\s*(\d+)", codec)
    if not (m1 and m2):
        die("request_valid limits not found")
    max_extras, max_key = int(m1.group(1)), int(m2.group(1))

    # the dispatch of parse_request on the opcode: `Some(binary::Command::X) | ... => self.parse_y(src)`
    m = re.search(r"let result = match FromPrimitive::from_u8\(self\.header\.opcode\)\s*\{(.*?)\n        \};", codec, re.S)
    if not m:
        die("parse_request: opcode dispatch not found")
    body = m.group(1)
    parser_ids = {"parse_get_request": 1, "parse_append_prepend_request": 2, "parse_set_request": 3,
                  "parse_delete_request": 4, "parse_inc_dec_request": 5, "parse_header_only_request": 6,
                  "parse_flush_request": 7, "NotSupported": 8, "invalid": 0}
    cmd_names = dict(cmds)
    dispatch = []   # (list of command names, parser id)
    seen_cmds = set()
    # split into arms: a pattern (alternatives of Some(binary::Command::X) or None) followed by =>
    arms = re.findall(r"((?:\s*\|?\s*(?:Some\(binary::Command::[A-Za-z]+\)|None))+)\s*=>\s*(\{.*?\n            \}|[^\n]*?,)\s*(?=\n\s*(?:Some|None|$)|\Z)", body, re.S)
    if not arms:
        die("parse_request: no dispatch arms parsed")
    for pat, rhs in arms:
        names = re.findall(r"binary::Command::([A-Za-z]+)", pat)
        if "None" in pat and not names:
            continue
        mm = re.search(r"self\.(parse_[a-z_]+)\(src\)", rhs)
        if mm:
            if mm.group(1) not in parser_ids:
                die("parse_request: unknown parser %s" % mm.group(1))
            pid = parser_ids[mm.group(1)]
        elif "BinaryRequest::NotSupported" in rhs:
            pid = parser_ids["NotSupported"]
        elif "Err(" in rhs:
            pid = parser_ids["invalid"]
        else:
            die("parse_request: cannot classify arm for %s: %r" % (names, rhs[:80]))
        for n in names:
            if n not in cmd_names:
                die("parse_request: unknown command %s" % n)
            if n in seen_cmds:
                die("parse_request: command %s matched twice" % n)
            seen_cmds.add(n)
        dispatch.append((names, pid))
    missing = [n for n, _ in cmds if n not in seen_cmds]
    if missing:
        die("parse_request: commands without an arm: %s" % missing)

    # inside each body parser: which request variant an opcode becomes
    #   `if self.header.opcode == binary::Command::C as u8 { .. BinaryRequest::V( .. } else { .. BinaryRequest::Vd( .. }`
    #   or `Some(binary::Command::C) => .. BinaryRequest::V(`
    variant_tables = {}   # parser id -> ([(cmd name, variant name)], default variant name or None)
    for pname, pid in parser_ids.items():
        if not pname.startswith("parse_"):
            continue
        mf = re.search(r"\n    fn %s\(.*?\n    \}\n" % re.escape(pname), codec, re.S)
        if not mf:
            die("body parser %s not found" % pname)
        fbody = mf.group(0)
        toks = list(re.finditer(r"self\.header\.opcode == binary::Command::([A-Za-z]+) as u8|Some\(binary::Command::([A-Za-z]+)\)\s*=>|BinaryRequest::([A-Za-z]+)\(", fbody))
        pairs, default, pending = [], None, None
        for t in toks:
            c = t.group(1) or t.group(2)
            if c:
                if pending is not None:
                    die("%s: condition on %s not followed by a request variant" % (pname, pending))
                pending = c
            else:
                v = t.group(3)
                if pending is not None:
                    pairs.append((pending, v))
                    pending = None
                else:
                    if default is not None:
                        die("%s: two unconditional request variants (%s, %s)" % (pname, default, v))
                    default = v
        if pending is not None:
            die("%s: condition on %s not followed by a request variant" % (pname, pending))
        if not pairs and default is None:
            die("%s: no request variant found" % pname)
        variant_tables[pid] = (pairs, default)

    # the routing of BinaryHandler::handle_request: request variant -> (handler function, filter)
    m = re.search(r"pub fn handle_request\(.*?match req \{(.*?)\n        \}\n    \}", handler, re.S)
    if not m:
        die("handle_request: match not found")
    hbody = m.group(1)
    variant_ids = {n: i + 1 for i, n in enumerate([
        "Delete", "DeleteQuiet", "Flush", "FlushQuietly", "Get", "GetKey", "GetQuietly", "GetKeyQuietly",
        "Increment", "IncrementQuiet", "Decrement", "DecrementQuiet", "Noop", "Stats", "Quit", "QuitQuietly",
        "Set", "SetQuietly", "Add", "Replace", "AddQuietly", "ReplaceQuietly", "Append", "Prepend",
        "AppendQuietly", "PrependQuietly", "Version", "ItemTooLarge", "NotSupported"])}
    handler_ids = {"delete": 1, "flush": 2, "get": 3, "increment": 4, "decrement": 5, "noop": 6, "stats": 7, "quit": 8,
                   "set": 9, "add_replace": 10, "append_prepend": 11, "version": 12, "too_large": 13, "not_supported": 14}
    arms = re.split(r"\n            (?=binary_codec::BinaryRequest::)", "\n" + hbody)
    routes = []
    seen_v = set()
    for arm in arms:
        arm = arm.strip()
        if not arm:
            continue
        if "=>" not in arm:
            die("handle_request: cannot split arm %r" % arm[:60])
        pat, rhs = arm.split("=>", 1)
        names = re.findall(r"BinaryRequest::([A-Za-z]+)", pat)
        if not names:
            die("handle_request: no variant in %r" % pat[:60])
        mm = re.search(r"self\.([a-z_]+)\(", rhs)
        if mm:
            if mm.group(1) not in handler_ids:
                die("handle_request: unknown handler %s" % mm.group(1))
            hid = handler_ids[mm.group(1)]
        elif "BinaryResponse::Noop(" in rhs:
            hid = handler_ids["noop"]
        elif "BinaryResponse::Stats(" in rhs:
            hid = handler_ids["stats"]
        elif "BinaryResponse::Quit(" in rhs:
            hid = handler_ids["quit"]
        elif "BinaryResponse::Version(" in rhs:
            hid = handler_ids["version"]
        elif "CacheError::ValueTooLarge" in rhs:
            hid = handler_ids["too_large"]
        elif "CacheError::UnkownCommand" in rhs:
            hid = handler_ids["not_supported"]
        else:
            die("handle_request: cannot classify arm of %s" % names)
        nq = len(re.findall(r"into_quiet_mutation\(", rhs))
        ng = len(re.findall(r"into_quiet_get\(", rhs))
        ns = len(re.findall(r"\bSome\(", rhs))
        if nq == 1 and ng == 0 and ns == 0:
            fid = 2
        elif ng == 1 and nq == 0 and ns == 0:
            fid = 3
        elif ns == 1 and nq == 0 and ng == 0:
            fid = 1
        else:
            die("handle_request: cannot classify the filter of %s (Some=%d quiet_mutation=%d quiet_get=%d)" % (names, ns, nq, ng))
        for n in names:
            if n not in variant_ids:
                die("handle_request: unknown request variant %s" % n)
            if n in seen_v:
                die("handle_request: variant %s matched twice" % n)
            seen_v.add(n)
            routes.append((n, variant_ids[n], hid, fid))
    missing = [n for n in variant_ids if n not in seen_v]
    if missing:
        die("handle_request: variants without an arm: %s" % missing)
    # BinaryRequest::Stats is never built by the decoder (stat is parsed as a version request)
    if re.search(r"Some\(\s*BinaryRequest::Stats\(", codec):
        die("the decoder now builds BinaryRequest::Stats: the model has no such request")

    L = []
    A = L.append
    A("(* GENERATED by tools/gen_tables.py from the Rust sources — do not edit. *)")
    A("From Coq Require Import List NArith.")
    A("From Coq Require Import Init.Byte.")
    A("Import ListNotations.")
    A("Open Scope N_scope.")
    A("")
    for n, v in magic:
        A("Definition magic_%s : N := %d." % (n, v))
    for n, v in dtypes:
        A("Definition dtype_%s : N := %d." % (n, v))
    A("")
    for n, v in cmds:
        A("Definition cmd_%s : N := %d." % (n, v))
    A("(* discriminants of enum Command: FromPrimitive::from_u8 is Some exactly on these *)")
    A("Definition command_codes : list N := [%s]." % "; ".join(str(v) for _, v in cmds))
    A("")
    for n, v in status:
        A("Definition status_%s : N := %d." % (n, v))
    A("Definition status_codes : list N := [%s]." % "; ".join(str(v) for _, v in status))
    A("")
    for n, v in errs:
        A("Definition err_%s_code : N := %d." % (n, v))
        A("Definition err_%s_msg : list byte := %s. (* %s *)" % (n, coq_bytes(msgs[n].encode()), msgs[n]))
    A("")
    A("Definition EXTRAS_LENGTH : N := %d." % extras_length)
    A("Definition HEADER_LEN : N := %d." % header_len)
    A("Definition RESPONSE_HEADER_LEN : N := %d." % resp_header_len)
    A("Definition META_LEN : N := %d." % meta_len)
    A("Definition MAX_EXTRAS : N := %d." % max_extras)
    A("Definition MAX_KEY : N := %d." % max_key)
    A("Definition SKIP_BUFFER : N := %d." % skip_buf)
    A("Definition version_bytes : list byte := %s. (* %s *)" % (coq_bytes(version.encode()), version))
    A("")
    A("(* MemcacheBinaryCodec::parse_request: which body parser each command is handed to")
    A("   (1 get, 2 append/prepend, 3 set/add/replace, 4 delete, 5 incr/decr, 6 header only, 7 flush,")
    A("   8 'not supported' frame, 0 error); opcodes outside enum Command are errors *)")
    A("(* BinaryHandler::handle_request: (request variant, handler, filter) per match arm;")
    A("   variants: " + ", ".join("%d %s" % (v, k) for k, v in variant_ids.items()))
    A("   handlers: " + ", ".join("%d %s" % (v, k) for k, v in handler_ids.items()))
    A("   filters: 1 Some(..) (always answered), 2 into_quiet_mutation, 3 into_quiet_get *)")
    A("Definition handler_routes : list (N * N * N) :=")
    A("  [" + ";\n   ".join("(%d, %d, %d) (* %s *)" % (vid, hid, fid, n) for n, vid, hid, fid in routes) + "].")
    A("")
    A("(* inside each body parser (ids as in decode_dispatch): opcode -> request variant (ids as in")
    A("   handler_routes), and the variant of the final else-branch (0: none, the parser rejects) *)")
    A("Definition parser_variants : list (N * list (N * N) * N) :=")
    rows = []
    for pid in sorted(variant_tables):
        pairs, default = variant_tables[pid]
        for c, v in pairs:
            if c not in cmd_names:
                die("parser %d: unknown command %s" % (pid, c))
            if v not in variant_ids:
                die("parser %d: unknown request variant %s" % (pid, v))
        if default is not None and default not in variant_ids:
            die("parser %d: unknown request variant %s" % (pid, default))
        rows.append("(%d, [%s], %d)" % (pid, "; ".join("(cmd_%s, %d)" % (c, variant_ids[v]) for c, v in pairs),
                                        variant_ids[default] if default else 0))
    A("  [" + ";\n   ".join(rows) + "].")
    A("")
    A("Definition decode_dispatch : list (list N * N) :=")
    A("  [" + ";\n   ".join("([%s], %d)" % ("; ".join("cmd_" + n for n in names), pid) for names, pid in dispatch) + "].")
    A("")
    text = "\n".join(L)
    out = os.path.normpath(OUT)
    old = None
    if os.path.exists(out):
        old = open(out).read()
    if old != text:
        with open(out, "w") as f:
            f.write(text)
        print("gen_tables: wrote %s" % out)
    else:
        print("gen_tables: %s up to date" % out)


if __name__ == "__main__":
    main()
