#!/usr/bin/env python3
"""Translator for the table-like parts of memc-rs: regenerates coq/Model/Generated.v
from the Rust sources under $REPO (default /repo) on every run.

Anything that cannot be parsed is an error (exit 2), never a silent default.
The file is only rewritten when its content changes, so `make` re-checks the
dependent proofs exactly when the source tables changed.
"""
import os, re, sys
sys.path.insert(0, os.path.dirname(os.path.abspath(__file__)))
import rsexpr
from rsexpr import RsError

REPO = os.environ.get("VERIF_REPO", "/repo")
OUT = os.path.join(os.path.dirname(os.path.abspath(__file__)), "..", "coq", "Model", "Generated.v")


def die(msg):
    print("gen_tables: " + msg, file=sys.stderr)
    sys.exit(2)


def read(rel):
    p = os.path.join(REPO, rel)
    try:
        return open(p).read()
    except OSError as e:
        die("cannot read %s: %s" % (p, e))


def enum_variants(src, name):
    m = re.search(r"pub enum %s\s*\{(.*?)\n\}" % re.escape(name), src, re.S)
    if not m:
        die("enum %s not found" % name)
    out = []
    for line in m.group(1).splitlines():
        line = line.split("//")[0].strip().rstrip(",")
        if not line:
            continue
        mm = re.fullmatch(r"([A-Za-z_][A-Za-z0-9_]*)\s*=\s*(0x[0-9a-fA-F]+|[0-9]+)", line)
        if not mm:
            die("enum %s: cannot parse variant line %r" % (name, line))
        out.append((mm.group(1), int(mm.group(2), 0)))
    if not out:
        die("enum %s has no variants" % name)
    return out


def coq_bytes(b):
    return "[" + "; ".join("x%02x" % c for c in b) + "]"


def main():
    binary = read("memcrs/src/protocol/binary.rs")
    error = read("memcrs/src/cache/error.rs")
    handler = read("memcrs/src/memcache_server/handler.rs")
    codec = read("memcrs/src/protocol/binary_codec.rs")
    cache = read("memcrs/src/cache/cache.rs")
    cargo = read("memcrs/Cargo.toml")
    conn = read("memcrs/src/protocol/binary_connection.rs")

    magic = enum_variants(binary, "Magic")
    status = enum_variants(binary, "ResponseStatus")
    dtypes = enum_variants(binary, "DataTypes")
    cmds = enum_variants(binary, "Command")
    errs = enum_variants(error, "CacheError")

    # error messages: `CacheError::X => "..."` or `=> NAME` with `static NAME: &str = "..."`
    statics = dict(re.findall(r'static\s+([A-Z_]+)\s*:\s*&str\s*=\s*"([^"]*)"\s*;', error))
    msgs = {}
    for name, _ in errs:
        m = re.search(r"CacheError::%s\s*=>\s*(\"([^\"]*)\"|([A-Z_]+))\s*," % name, error)
        if not m:
            die("no message for CacheError::%s" % name)
        if m.group(2) is not None:
            msgs[name] = m.group(2)
        else:
            if m.group(3) not in statics:
                die("static %s not found" % m.group(3))
            msgs[name] = statics[m.group(3)]

    m = re.search(r"const EXTRAS_LENGTH\s*:\s*u8\s*=\s*(\d+)\s*;", handler)
    if not m:
        die("EXTRAS_LENGTH not found")
    extras_length = int(m.group(1))
    m = re.search(r"const HEADER_LEN\s*:\s*usize\s*=\s*(\d+)\s*;", codec)
    if not m:
        die("HEADER_LEN not found")
    header_len = int(m.group(1))
    m = re.search(r"const RESPONSE_HEADER_LEN\s*:\s*usize\s*=\s*(\d+)\s*;", codec)
    if not m:
        die("RESPONSE_HEADER_LEN not found")
    resp_header_len = int(m.group(1))
    m = re.search(r'^version\s*=\s*"([^"]+)"', cargo, re.M)
    if not m:
        die("package version not found")
    version = m.group(1)
    m = re.search(r"let buffer_size\s*=\s*(\d+)\s*\*\s*(\d+)\s*;", conn)
    if not m:
        die("skip buffer size not found")
    skip_buf = int(m.group(1)) * int(m.group(2))

    # size_of::<CacheMetaData>() : fields are plain integers, repr(Rust) reorders to no padding
    m = re.search(r"pub struct CacheMetaData\s*\{(.*?)\}", cache, re.S)
    if not m:
        die("CacheMetaData not found")
    sizes = {"u8": 1, "u16": 2, "u32": 4, "u64": 8, "usize": 8, "i64": 8, "i32": 4}
    total, align = 0, 1
    for line in m.group(1).splitlines():
        line = line.split("//")[0].strip().rstrip(",")
        if not line:
            continue
        mm = re.fullmatch(r"(?:pub(?:\([a-z]+\))?\s+)?([a-z_]+)\s*:\s*([a-z0-9]+)", line)
        if not mm or mm.group(2) not in sizes:
            die("CacheMetaData: cannot parse field %r" % line)
        total += sizes[mm.group(2)]
        align = max(align, sizes[mm.group(2)])
    meta_len = (total + align - 1) // align * align

    # key/extras limits in request_valid
    m1 = re.search(r"self\.header\.extras_length\s*>\s*(\d+)", codec)
    m2 = re.search(r"self\.header\.key_length\s*>\s*(\d+)", codec)
    limits_note = None
    if m1 and m2:
        max_extras, max_key = int(m1.group(1)), int(m2.group(1))
    else:
        # the comparisons are not spelt with literals: the model keeps the protocol's limits (the
        # ones the property names); request_valid_is_source / the correspondence check tie them
        max_extras, max_key = 20, 250
        limits_note = "request_valid: limits not spelt as `> <literal>`; the model uses the protocol's 20 / 250"

    # the dispatch of parse_request on the opcode: `Some(binary::Command::X) | ... => self.parse_y(src)`
    m = re.search(r"let result = match FromPrimitive::from_u8\(self\.header\.opcode\)\s*\{(.*?)\n        \};", codec, re.S)
    if not m:
        die("parse_request: opcode dispatch not found")
    body = m.group(1)
    parser_ids = {"parse_get_request": 1, "parse_append_prepend_request": 2, "parse_set_request": 3,
                  "parse_delete_request": 4, "parse_inc_dec_request": 5, "parse_header_only_request": 6,
                  "parse_flush_request": 7, "NotSupported": 8, "invalid": 0}
    cmd_names = dict(cmds)
    dispatch = []   # (list of command names, parser id)
    seen_cmds = set()
    # split into arms: a pattern (alternatives of Some(binary::Command::X) or None) followed by =>
    arms = re.findall(r"((?:\s*\|?\s*(?:Some\(binary::Command::[A-Za-z]+\)|None))+)\s*=>\s*(\{.*?\n            \}|[^\n]*?,)\s*(?=\n\s*(?:Some|None|$)|\Z)", body, re.S)
    if not arms:
        die("parse_request: no dispatch arms parsed")
    for pat, rhs in arms:
        names = re.findall(r"binary::Command::([A-Za-z]+)", pat)
        if "None" in pat and not names:
            continue
        mm = re.search(r"self\.(parse_[a-z_]+)\(src\)", rhs)
        if mm:
            if mm.group(1) not in parser_ids:
                die("parse_request: unknown parser %s" % mm.group(1))
            pid = parser_ids[mm.group(1)]
        elif "BinaryRequest::NotSupported" in rhs:
            pid = parser_ids["NotSupported"]
        elif "Err(" in rhs:
            pid = parser_ids["invalid"]
        else:
            die("parse_request: cannot classify arm for %s: %r" % (names, rhs[:80]))
        for n in names:
            if n not in cmd_names:
                die("parse_request: unknown command %s" % n)
            if n in seen_cmds:
                die("parse_request: command %s matched twice" % n)
            seen_cmds.add(n)
        dispatch.append((names, pid))
    missing = [n for n, _ in cmds if n not in seen_cmds]
    if missing:
        die("parse_request: commands without an arm: %s" % missing)

    # inside each body parser: which request variant an opcode becomes
    #   `if self.header.opcode == binary::Command::C as u8 { .. BinaryRequest::V( .. } else { .. BinaryRequest::Vd( .. }`
    #   or `Some(binary::Command::C) => .. BinaryRequest::V(`
    variant_tables = {}   # parser id -> ([(cmd name, variant name)], default variant name or None)
    for pname, pid in parser_ids.items():
        if not pname.startswith("parse_"):
            continue
        mf = re.search(r"\n    fn %s\(.*?\n    \}\n" % re.escape(pname), codec, re.S)
        if not mf:
            die("body parser %s not found" % pname)
        fbody = mf.group(0)
        toks = list(re.finditer(r"self\.header\.opcode == binary::Command::([A-Za-z]+) as u8|Some\(binary::Command::([A-Za-z]+)\)\s*=>|BinaryRequest::([A-Za-z]+)\(", fbody))
        pairs, default, pending = [], None, None
        for t in toks:
            c = t.group(1) or t.group(2)
            if c:
                if pending is not None:
                    die("%s: condition on %s not followed by a request variant" % (pname, pending))
                pending = c
            else:
                v = t.group(3)
                if pending is not None:
                    pairs.append((pending, v))
                    pending = None
                else:
                    if default is not None:
                        die("%s: two unconditional request variants (%s, %s)" % (pname, default, v))
                    default = v
        if pending is not None:
            die("%s: condition on %s not followed by a request variant" % (pname, pending))
        if not pairs and default is None:
            die("%s: no request variant found" % pname)
        variant_tables[pid] = (pairs, default)

    # the routing of BinaryHandler::handle_request: request variant -> (handler function, filter)
    m = re.search(r"pub fn handle_request\(.*?match req \{(.*?)\n        \}\n    \}", handler, re.S)
    if not m:
        die("handle_request: match not found")
    hbody = re.sub(r"//[^\n]*", "", m.group(1))
    variant_ids = {n: i + 1 for i, n in enumerate([
        "Delete", "DeleteQuiet", "Flush", "FlushQuietly", "Get", "GetKey", "GetQuietly", "GetKeyQuietly",
        "Increment", "IncrementQuiet", "Decrement", "DecrementQuiet", "Noop", "Stats", "Quit", "QuitQuietly",
        "Set", "SetQuietly", "Add", "Replace", "AddQuietly", "ReplaceQuietly", "Append", "Prepend",
        "AppendQuietly", "PrependQuietly", "Version", "ItemTooLarge", "NotSupported"])}
    handler_ids = {"delete": 1, "flush": 2, "get": 3, "increment": 4, "decrement": 5, "noop": 6, "stats": 7, "quit": 8,
                   "set": 9, "add_replace": 10, "append_prepend": 11, "version": 12, "too_large": 13, "not_supported": 14}
    arms = re.split(r"\n            (?=binary_codec::BinaryRequest::)", "\n" + hbody)
    routes = []
    seen_v = set()
    for arm in arms:
        arm = arm.strip()
        if not arm:
            continue
        if "=>" not in arm:
            die("handle_request: cannot split arm %r" % arm[:60])
        pat, rhs = arm.split("=>", 1)
        names = re.findall(r"BinaryRequest::([A-Za-z]+)", pat)
        if not names:
            die("handle_request: no variant in %r" % pat[:60])
        mm = re.search(r"self\.([a-z_]+)\(", rhs)
        if mm:
            if mm.group(1) not in handler_ids:
                die("handle_request: unknown handler %s" % mm.group(1))
            hid = handler_ids[mm.group(1)]
        elif "BinaryResponse::Noop(" in rhs:
            hid = handler_ids["noop"]
        elif "BinaryResponse::Stats(" in rhs:
            hid = handler_ids["stats"]
        elif "BinaryResponse::Quit(" in rhs:
            hid = handler_ids["quit"]
        elif "BinaryResponse::Version(" in rhs:
            hid = handler_ids["version"]
        elif "CacheError::ValueTooLarge" in rhs:
            hid = handler_ids["too_large"]
        elif "CacheError::UnkownCommand" in rhs:
            hid = handler_ids["not_supported"]
        else:
            die("handle_request: cannot classify arm of %s" % names)
        nq = len(re.findall(r"into_quiet_mutation\(", rhs))
        ng = len(re.findall(r"into_quiet_get\(", rhs))
        ns = len(re.findall(r"\bSome\(", rhs))
        if nq == 1 and ng == 0 and ns == 0:
            fid = 2
        elif ng == 1 and nq == 0 and ns == 0:
            fid = 3
        elif ns == 1 and nq == 0 and ng == 0:
            fid = 1
        else:
            die("handle_request: cannot classify the filter of %s (Some=%d quiet_mutation=%d quiet_get=%d)" % (names, ns, nq, ng))
        for n in names:
            if n not in variant_ids:
                die("handle_request: unknown request variant %s" % n)
            if n in seen_v:
                die("handle_request: variant %s matched twice" % n)
            seen_v.add(n)
            routes.append((n, variant_ids[n], hid, fid))
    missing = [n for n in variant_ids if n not in seen_v]
    if missing:
        die("handle_request: variants without an arm: %s" % missing)
    # BinaryRequest::Stats is never built by the decoder (stat is parsed as a version request)
    if re.search(r"Some\(\s*BinaryRequest::Stats\(", codec):
        die("the decoder now builds BinaryRequest::Stats: the model has no such request")


    # ---- translated expressions and guard chains (tools/rsexpr.py) -----------------
    memstore = read("memcrs/src/memory_store/store.rs")
    memc = read("memcrs/src/memcache/store.rs")

    def struct_fields(src, name, fail=die):
        m = re.search(r"pub struct %s\s*\{(.*?)\}" % re.escape(name), src, re.S)
        if not m:
            fail("struct %s not found" % name)
        out = []
        for line in m.group(1).splitlines():
            line = line.split("//")[0].strip().rstrip(",")
            if not line:
                continue
            mm = re.fullmatch(r"(?:pub(?:\([a-z]+\))?\s+)?([a-z_]+)\s*:\s*([a-z0-9]+)", line)
            if not mm or mm.group(2) not in rsexpr.BITS:
                fail("struct %s: cannot parse field %r" % (name, line))
            out.append((mm.group(1), mm.group(2)))
        return out

    req_fields = struct_fields(binary, "RequestHeader")
    resp_fields = struct_fields(binary, "ResponseHeader")
    meta_fields = dict(struct_fields(cache, "CacheMetaData"))
    enums = {"binary::Magic::": "magic_", "binary::Command::": "cmd_", "binary::DataTypes::": "dtype_"}
    m = re.search(r"pub struct MemcacheBinaryCodec\s*\{(.*?)\}", codec, re.S)
    mm = m and re.search(r"item_size_limit\s*:\s*([a-z0-9]+)", m.group(1))
    if not mm or mm.group(1) not in rsexpr.BITS:
        die("MemcacheBinaryCodec::item_size_limit not found")
    limit_ty = mm.group(1)

    def header_env(extra=()):
        v = {"self.header." + n: (t, "h_" + n) for n, t in req_fields}
        v["self.item_size_limit"] = (limit_ty, "item_size_limit")
        v.update(dict(extra))
        return rsexpr.Env(v, enums)

    def rs_fail(msg):
        raise RsError(msg)

    gen = {}        # item -> coq term
    untranslated = {}   # item -> why the translator did not recognise the source

    def attempt(items, fn):
        """run one translation; a shape the translator does not recognise is recorded, not fatal:
        the obligation `<item>_is_source` then does not apply and the correspondence check alone
        ties that function to the model"""
        try:
            out = fn()
        except RsError as e:
            for it in items:
                untranslated[it] = str(e)
            return
        gen.update(out)

    def t_header_valid():
        env = header_env()
        term, _ = rsexpr.guard_chain(rsexpr.fn_body(codec, "header_valid"), env)
        if not env.used <= {"self.header.magic", "self.header.opcode", "self.header.data_type"}:
            raise RsError("header_valid reads %s" % sorted(env.used))
        return {"header_valid": term}
    attempt(["header_valid"], t_header_valid)

    def t_request_valid():
        env = header_env([("key_required", ("bool", "key_required"))])
        term, _ = rsexpr.guard_chain(rsexpr.fn_body(codec, "request_valid"), env)
        if not env.used <= {"self.header.extras_length", "self.header.key_length", "self.header.body_length", "key_required"}:
            raise RsError("request_valid reads %s" % sorted(env.used))
        return {"request_valid": term}
    attempt(["request_valid"], t_request_valid)

    # every comparison of the announced body length with the item size limit
    def t_size_guards():
        guards, sites = [], []
        for site, fname in ((1, "parse_header"), (2, "parse_request"), (3, "decode")):
            body = rsexpr.strip_comments(rsexpr.fn_body(codec, fname))
            for mg in re.finditer(r"\bif\s+([^{};]*item_size_limit[^{};]*?)\s*\{", body):
                env = header_env()
                _, t = rsexpr.translate(mg.group(1), env, want="bool")
                if env.used != {"self.header.body_length", "self.item_size_limit"}:
                    raise RsError("size guard %r reads %s" % (mg.group(1), sorted(env.used)))
                guards.append(t)
                sites.append(site)
        n_all = len(re.findall(r"item_size_limit\s*[<>=!]|[<>=!]=?\s*self\.item_size_limit", rsexpr.strip_comments(codec)))
        if n_all != len(guards):
            raise RsError("%d comparisons with item_size_limit in the codec, %d inside parse_header / parse_request / decode" % (n_all, len(guards)))
        if not guards:
            raise RsError("no comparison with item_size_limit found in the codec")
        return {"size_guards": guards, "size_guard_sites": sites}
    attempt(["size_guards"], t_size_guards)

    # get_value_len, and the lengths the incr/decr and set parsers require of the body
    SIZEOF = {"u8": 1, "u16": 2, "u32": 4, "u64": 8}
    def no_sizeof(text):
        return re.sub(r"std::mem::size_of::<(u8|u16|u32|u64)>\(\)", lambda mm: "%dusize" % SIZEOF[mm.group(1)], text)

    def t_value_len():
        body = rsexpr.strip_noise(rsexpr.fn_body(codec, "get_value_len")).strip()
        env = header_env()
        ty, term = rsexpr.translate(no_sizeof(body), env, want="num")
        if not env.used <= {"self.header.body_length", "self.header.key_length", "self.header.extras_length"}:
            raise RsError("get_value_len reads %s" % sorted(env.used))
        return {"value_len": term}
    attempt(["value_len"], t_value_len)

    def required_len_of(fname, extra_vars):
        body = no_sizeof(rsexpr.strip_noise(rsexpr.fn_body(codec, fname)))
        m = re.search(r"let\s+required_len\s*=\s*([^;]*);\s*if\s+src\.len\(\)\s*<\s*required_len\s*\{", body, re.S)
        if not m:
            raise RsError("%s: `let required_len = ..; if src.len() < required_len` not found" % fname)
        env = header_env(extra_vars)
        ty, term = rsexpr.translate(m.group(1), env, want="num", hint="usize")
        return term

    def t_incdec_required():
        return {"incdec_required": required_len_of("parse_inc_dec_request", [])}
    attempt(["incdec_required"], t_incdec_required)

    def t_set_required():
        body = rsexpr.strip_noise(rsexpr.fn_body(codec, "parse_set_request"))
        if not re.search(r"let\s+value_len\s*=\s*self\.get_value_len\(\)\s*;", body):
            raise RsError("parse_set_request: `let value_len = self.get_value_len();` not found")
        return {"set_required": required_len_of("parse_set_request", [("value_len", ("usize", "value_len"))])}
    attempt(["set_required"], t_set_required)

    def meta_env(prefix):
        return rsexpr.Env({prefix + ".header.time_to_live": (meta_fields["time_to_live"], "ttl"),
                           prefix + ".header.timestamp": (meta_fields["timestamp"], "ts"),
                           "now__": ("u64", "now")}, {})

    # MemoryStore::check_if_expired: the test on the record read, and the one on the record stored
    def t_expired():
        impl = re.search(r"impl impl_details::CacheImplDetails for MemoryStore\s*\{", memstore)
        if not impl:
            raise RsError("impl CacheImplDetails for MemoryStore not found")
        body = rsexpr.strip_noise(rsexpr.fn_body(memstore[impl.end():], "check_if_expired")).replace("self.timer.timestamp()", "now__")
        cut = body.find("self.memory.remove_if(")
        if cut < 0:
            raise RsError("check_if_expired: remove_if not found")
        head = body[:body.rfind("let", 0, cut)]
        if len(re.findall(r"return\s+None\s*;", head)) == 0:
            raise RsError("check_if_expired: no early return")
        env = meta_env("record")
        # "not expired" returns None: as a boolean function, expired = no guard fires
        read, _ = rsexpr.guard_chain(re.sub(r"return\s+None\s*;", "return false;", head) + "\ntrue", env)
        mc = re.search(r"self\.memory\.remove_if\(\s*key\s*,\s*\|_key,\s*stored\|\s*\{(.*?)\}\s*\)\s*;", body, re.S)
        if not mc:
            raise RsError("check_if_expired: the predicate of remove_if not found")
        env2 = meta_env("stored")
        lets = re.sub(r"\bif\b.*", "", head, flags=re.S)     # the lets before the first guard
        stored, _ = rsexpr.guard_chain(lets + "\n" + mc.group(1), env2)
        return {"expired_read": read, "expired_stored": stored}
    attempt(["expired_read", "expired_stored"], t_expired)

    # MemoryStore::flush: when it is delayed, and which records it re-dates
    def t_flush():
        impl = re.search(r"impl Cache for MemoryStore\s*\{", memstore)
        if not impl:
            raise RsError("impl Cache for MemoryStore not found")
        body = rsexpr.strip_noise(rsexpr.fn_body(memstore[impl.end():], "flush")).replace("self.timer.timestamp()", "now__")
        mo = re.match(r"\s*if\s+(.*?)\s*\{", body, re.S)
        if not mo:
            raise RsError("flush: outer condition not found")
        def fenv():
            return rsexpr.Env({"header.time_to_live": (meta_fields["time_to_live"], "delay"),
                               "value.header.time_to_live": (meta_fields["time_to_live"], "ttl"),
                               "value.header.timestamp": (meta_fields["timestamp"], "ts"),
                               "now__": ("u64", "now")}, {})
        _, delayed = rsexpr.translate(mo.group(1), fenv(), want="bool")
        end = rsexpr.match_brace(body, mo.end() - 1)
        then = body[mo.end():end - 1]
        rest = body[end:].strip()
        if not re.fullmatch(r"else\s*\{\s*self\.memory\.clear\(\)\s*;\s*\}", rest):
            raise RsError("flush: the immediate branch is not `self.memory.clear()`")
        mi = re.search(r"\bif\s+([^{}]*?)\s*\{\s*value\.header\.timestamp\s*=\s*now\s*;\s*value\.header\.time_to_live\s*=\s*header\.time_to_live\s*;\s*\}\s*value\s*\}", then, re.S)
        if not mi:
            raise RsError("flush: the re-dating of a record not found")
        lets = "\n".join(ml.group(0) for ml in re.finditer(r"let\s+(?:mut\s+)?[a-z_]+\s*=\s*[^;]*;", then))
        if not re.search(r"let\s+now\s*=\s*now__\s*;", lets):
            raise RsError("flush: `now` is not the clock")
        redate, _ = rsexpr.guard_chain(lets + "\n" + mi.group(1), fenv())
        return {"flush_delayed": delayed, "flush_redate": redate}
    attempt(["flush_delayed", "flush_redate"], t_flush)

    # MemcStore::add_delta: the arithmetic, and when an absent counter is created
    def t_delta():
        body = rsexpr.strip_noise(rsexpr.fn_body(memc, "add_delta")).replace("header.get_expiration()", "expiration__")
        ma = re.search(r"\.map\(\|mut value: (u64)\|\s*\{(.*?)record\.value\s*=\s*Bytes::from\(value\.to_string\(\)\)\s*;", body, re.S)
        if not ma:
            raise RsError("add_delta: the arithmetic not found")
        dp = dict(struct_fields(memc, "DeltaParam", fail=rs_fail))
        env = rsexpr.Env({"value": (ma.group(1), "value"), "delta.delta": (dp["delta"], "delta"),
                          "increment": ("bool", "increment")}, {})
        delta = rsexpr.assign_chain(ma.group(2), env, "value")
        mcg = re.search(r"Err\(_err\)\s*=>\s*\{\s*if\s+(.*?)\s*\{\s*let record = Record::new\(\s*Bytes::from\(delta\.value\.to_string\(\)\)", body, re.S)
        if not mcg:
            raise RsError("add_delta: the creation of an absent counter not found")
        env = rsexpr.Env({"expiration__": ("u32", "exp")}, {})
        _, creates = rsexpr.translate(mcg.group(1), env, want="bool")
        return {"delta": delta, "delta_creates": creates}
    attempt(["delta", "delta_creates"], t_delta)

    # the wire layout of the two headers: field, width in bytes, in the order read / written
    field_ids = {"magic": 1, "opcode": 2, "key_length": 3, "extras_length": 4, "data_type": 5,
                 "vbucket_id": 6, "status": 6, "body_length": 7, "opaque": 8, "cas": 9}

    def t_req_layout():
        m = re.search(r"self\.header\s*=\s*binary::RequestHeader\s*\{(.*?)\}\s*;", codec, re.S)
        if not m:
            raise RsError("parse_header: construction of the RequestHeader not found")
        lay = []
        rf = dict(req_fields)
        for line in rsexpr.strip_comments(m.group(1)).splitlines():
            line = line.strip().rstrip(",")
            if not line:
                continue
            mm = re.fullmatch(r"([a-z_]+)\s*:\s*src\.get_(u8|u16|u32|u64)\(\)", line)
            if not mm or mm.group(1) not in field_ids:
                raise RsError("parse_header: cannot parse field %r" % line)
            if rf.get(mm.group(1)) != mm.group(2):
                raise RsError("parse_header: field %s of type %s read with get_%s" % (mm.group(1), rf.get(mm.group(1)), mm.group(2)))
            lay.append((mm.group(1), rsexpr.BITS[mm.group(2)] // 8))
        if sorted(n for n, _ in lay) != sorted(rf):
            raise RsError("parse_header: fields read %s, struct has %s" % ([n for n, _ in lay], sorted(rf)))
        return {"request_layout": lay}
    attempt(["request_layout"], t_req_layout)

    def t_resp_layout():
        wbody = rsexpr.strip_noise(rsexpr.fn_body(codec, "write_header_impl"))
        lay = []
        pf = dict(resp_fields)
        for line in wbody.split(";"):
            line = line.strip()
            if not line:
                continue
            mm = re.fullmatch(r"dst\.put_(u8|u16|u32|u64)\(header\.([a-z_]+)\)", line)
            if not mm or mm.group(2) not in field_ids:
                raise RsError("write_header_impl: cannot parse %r" % line)
            if pf.get(mm.group(2)) != mm.group(1):
                raise RsError("write_header_impl: field %s of type %s written with put_%s" % (mm.group(2), pf.get(mm.group(2)), mm.group(1)))
            lay.append((mm.group(2), rsexpr.BITS[mm.group(1)] // 8))
        if sorted(n for n, _ in lay) != sorted(pf):
            raise RsError("write_header_impl: fields written %s, struct has %s" % ([n for n, _ in lay], sorted(pf)))
        return {"response_layout": lay}
    attempt(["response_layout"], t_resp_layout)

    # the reads of each body parser, in the order executed: (field, what is read). Struct
    # literal fields are evaluated in the order written; a read under a condition or in a
    # loop is a shape this does not follow
    body_field_ids = {"flags": 1, "expiration": 2, "key": 3, "value": 4, "delta": 5, "initial": 6}
    body_parsers = [("set", "parse_set_request"), ("incdec", "parse_inc_dec_request"),
                    ("append", "parse_append_prepend_request"), ("get", "parse_get_request"),
                    ("delete", "parse_delete_request")]

    def t_body_reads(fname):
        body = rsexpr.strip_comments(rsexpr.fn_body(codec, fname))
        lets = dict((m.group(1), m.group(2).strip()) for m in re.finditer(r"\blet\s+(?:mut\s+)?([a-z_]+)\s*(?::[^=;]+)?=\s*([^;]+);", body))

        def classify(arg):
            a = re.sub(r"\s+", "", arg)
            seen = 0
            while a in lets and seen < 5:
                a = re.sub(r"\s+", "", lets[a]); seen += 1
            if a == "self.header.key_lengthasusize":
                return "RdKey"
            if a == "self.get_value_len()":
                return "RdValue"
            raise RsError("%s: split_to(%s) is neither the key length nor get_value_len()" % (fname, arg.strip()))
        reads = []
        for m in re.finditer(r"src\s*\.\s*(get_u8|get_u16|get_u32|get_u64|split_to)\s*\(([^()]*(?:\([^()]*\))?[^()]*)\)", body):
            # every brace open at the read must belong to a struct literal
            depth_openers = []
            for i, ch in enumerate(body[:m.start()]):
                if ch == "{":
                    depth_openers.append(i)
                elif ch == "}":
                    depth_openers.pop()
            for o in depth_openers:
                before = body[:o].rstrip()
                if not re.search(r"[A-Za-z_][A-Za-z_0-9]*(::[A-Za-z_][A-Za-z_0-9]*)+$", before) or re.search(r"\b(if|else|match|while|for|loop)\b[^;{}]*$", before):
                    raise RsError("%s: a read of the body under a condition or in a block" % fname)
            kind = ("RdU %d" % (rsexpr.BITS[m.group(1)[4:]] // 8)) if m.group(1) != "split_to" else classify(m.group(2))
            # the name it is bound to: a struct field, or a let (followed through `.freeze()` aliases)
            pre = body[:m.start()].rstrip()
            mf = re.search(r"([a-z_]+)\s*:$", pre)
            ml = re.search(r"\blet\s+(?:mut\s+)?([a-z_]+)\s*(?::[^=;]+)?=$", pre)
            if mf:
                name = mf.group(1)
            elif ml:
                name = ml.group(1)
                for _ in range(3):
                    if name in body_field_ids:
                        break
                    al = re.search(r"\blet\s+([a-z_]+)\s*=\s*%s\s*\.\s*freeze\s*\(\s*\)\s*;" % re.escape(name), body)
                    if not al:
                        break
                    name = al.group(1)
            else:
                raise RsError("%s: a read of the body whose result is not a field or a let" % fname)
            if name not in body_field_ids:
                raise RsError("%s: read bound to unknown name %s" % (fname, name))
            reads.append((name, kind))
        if not reads:
            raise RsError("%s: no reads of the body found" % fname)
        return reads

    for short, fname in body_parsers:
        attempt(["body_reads_" + short], (lambda f=fname, sh=short: {"body_reads_" + sh: t_body_reads(f)}))

    # the flush parser reads its one field under a condition on the extras length; the
    # header-only parser reads nothing
    def t_flush_read():
        body = rsexpr.strip_comments(rsexpr.fn_body(codec, "parse_flush_request"))
        reads = re.findall(r"src\s*\.\s*(?:get_[a-z0-9_]+|split_to|advance)\s*\(", body)
        m = re.search(r"let\s+mut\s+expiration\s*:\s*u32\s*=\s*0\s*;\s*if\s+self\.header\.extras_length\s*==\s*(\d+)\s*\{\s*expiration\s*=\s*src\.get_(u8|u16|u32|u64)\(\)\s*;\s*\}", body)
        if not m or len(reads) != 1:
            raise RsError("parse_flush_request: expected one read of the expiration under a test of the extras length")
        return {"flush_read": (int(m.group(1)), rsexpr.BITS[m.group(2)] // 8)}
    attempt(["flush_read"], t_flush_read)

    def t_header_only_reads():
        body = rsexpr.strip_comments(rsexpr.fn_body(codec, "parse_header_only_request"))
        if re.search(r"src\s*\.\s*(?:get_[a-z0-9_]+|split_to|advance|clear|truncate)\s*\(", body):
            raise RsError("parse_header_only_request touches the buffer")
        return {"header_only_reads": 0}
    attempt(["header_only_reads"], t_header_only_reads)

    # what the encoder writes behind the header, per kind of response: the put calls of each arm
    # of `encode_data` (what the connection sends) and of `write_data` (the Encoder impl), in
    # the order executed. `if !x.is_empty() { put_slice(&x[..]) }` writes x: nothing when empty.
    # The model has six kinds of response; which variant of BinaryResponse is which kind is
    # fixed here, every variant of the enum has to be covered by an arm, and the variants of
    # one kind have to write the same.
    resp_kind = {"Error": 1, "Get": 2, "GetQuietly": 2, "GetKey": 2, "GetKeyQuietly": 2,
                 "Set": 3, "Add": 3, "Replace": 3, "Append": 3, "Prepend": 3, "Noop": 3, "Delete": 3,
                 "Flush": 3, "Stats": 3, "Quit": 4, "Version": 5, "Increment": 6, "Decrement": 6}
    wfield_ids = {"error": 1, "flags": 2, "key": 3, "value": 4, "version": 5, "counter": 6}

    def t_writes(fname):
        body = rsexpr.strip_comments(rsexpr.fn_body(codec, fname))
        mm = re.search(r"\bmatch\s+msg\s*\{", body)
        if not mm:
            raise RsError("%s: `match msg` not found" % fname)
        end = rsexpr.match_brace(body, mm.end() - 1)
        arms_txt = body[mm.end():end - 1]
        m_enum = re.search(r"pub enum BinaryResponse\s*\{(.*?)\n\}", codec, re.S)
        enum_variants = re.findall(r"^\s*([A-Z][A-Za-z]*)\s*\(", m_enum.group(1), re.M) if m_enum else []
        if sorted(enum_variants) != sorted(resp_kind):
            raise RsError("BinaryResponse has variants %s, the model knows %s" % (sorted(enum_variants), sorted(resp_kind)))
        per_variant = {}
        i = 0
        while True:
            ma = re.compile(r"\s*((?:\|?\s*BinaryResponse::[A-Za-z]+\(\s*_?[a-z]+\s*\)\s*)+)=>\s*\{").match(arms_txt, i)
            if not ma:
                if arms_txt[i:].strip(" \n,"):
                    raise RsError("%s: cannot parse the arm at %r" % (fname, arms_txt[i:i + 40]))
                break
            close = rsexpr.match_brace(arms_txt, ma.end() - 1)
            stmts = arms_txt[ma.end():close - 1]
            variants = re.findall(r"BinaryResponse::([A-Za-z]+)\(\s*(_?[a-z]+)\s*\)", ma.group(1))
            writes = []
            rest = stmts.strip()
            while rest:
                m1 = re.match(r"dst\.put_(u8|u16|u32|u64)\(\s*[a-z_]+\.([a-z_]+)\s*\)\s*;", rest)
                m2 = re.match(r"dst\.put(?:_slice)?\(\s*&?\s*[a-z_]+\.([a-z_]+)\s*(?:\.as_bytes\(\)|\.clone\(\)|\[\.\.\])?\s*\)\s*;", rest)
                m3 = re.match(r"if\s*!\s*[a-z_]+\.([a-z_]+)\.is_empty\(\)\s*\{\s*dst\.put(?:_slice)?\(\s*&?\s*[a-z_]+\.([a-z_]+)\s*(?:\[\.\.\]|\.clone\(\))?\s*\)\s*;\s*\}", rest)
                if m1:
                    w = rsexpr.BITS[m1.group(1)] // 8
                    f = m1.group(2)
                    if f == "value" and w == 8:
                        f = "counter"
                    writes.append((f, "WrU %d" % w)); rest = rest[m1.end():].strip()
                elif m2:
                    writes.append((m2.group(1), "WrBytes")); rest = rest[m2.end():].strip()
                elif m3 and m3.group(1) == m3.group(2):
                    writes.append((m3.group(1), "WrBytes")); rest = rest[m3.end():].strip()
                else:
                    raise RsError("%s: cannot parse the write %r" % (fname, rest[:50]))
            for f, _ in writes:
                if f not in wfield_ids:
                    raise RsError("%s: write of unknown field %s" % (fname, f))
            for v, _ in variants:
                if v in per_variant:
                    raise RsError("%s: variant %s in two arms" % (fname, v))
                per_variant[v] = writes
            i = close
        if sorted(per_variant) != sorted(resp_kind):
            raise RsError("%s: arms cover %s" % (fname, sorted(per_variant)))
        per_kind = {}
        for v, k in resp_kind.items():
            if k in per_kind and per_kind[k] != per_variant[v]:
                raise RsError("%s: responses of kind %d do not all write the same" % (fname, k))
            per_kind[k] = per_variant[v]
        return per_kind

    for fname in ("encode_data", "write_data"):
        attempt([fname], (lambda f=fname: {f: t_writes(f)}))

    # the skeleton of Decoder::decode: which tests it makes and in which order
    def t_decode_steps():
        # (keywords keep one blank behind them, everything else is compared without blanks)
        body = re.sub(r"\s+", "", re.sub(r"\b(if|let|return|as)\s+", r"\1~", rsexpr.strip_noise(rsexpr.fn_body(codec, "decode"))))
        shapes = [
            ("StHeader", r"if~self\.state==RequestParserState::None\{if~src\.len\(\)<(?:MemcacheBinaryCodec|Self)::HEADER_LEN\{return~Ok\(None\);?\}(?:let~result=self\.parse_header\(src\);result\?;?|self\.parse_header\(src\)\?;)\}"),
            ("StTooLarge", r"if~self\.header\.body_length>self\.item_size_limit\{let~result=self\.parse_item_too_large\(src\);self\.init_parser\(\);return~result;?\}"),
            ("StNeedMore", r"if~\(?self\.header\.body_length~?as~usize\)?>src\.len\(\)\{return~Ok\(None\);?\}"),
            ("StParse", r"(?:return~)?self\.parse_request\(src\);?"),
        ]
        steps = []
        rest = body
        while rest:
            for name, rx in shapes:
                m = re.match(rx, rest)
                if m:
                    steps.append(name)
                    rest = rest[m.end():]
                    break
            else:
                raise RsError("decode: cannot parse the statement at %r" % rest[:60])
            if steps[-1] == "StParse" and rest:
                raise RsError("decode: statements after parse_request")
        if not steps or steps[-1] != "StParse":
            raise RsError("decode: does not end in parse_request")
        return {"decode_steps": steps}
    attempt(["decode_steps"], t_decode_steps)

    L = []
    A = L.append
    A("(* GENERATED by tools/gen_tables.py from the Rust sources — do not edit. *)")
    A("From Coq Require Import List NArith.")
    A("From Coq Require Import Init.Byte.")
    A("Import ListNotations.")
    A("From MC Require Import Model.RustInt.")
    A("Open Scope N_scope.")
    A("")
    for n, v in magic:
        A("Definition magic_%s : N := %d." % (n, v))
    for n, v in dtypes:
        A("Definition dtype_%s : N := %d." % (n, v))
    A("")
    for n, v in cmds:
        A("Definition cmd_%s : N := %d." % (n, v))
    A("(* discriminants of enum Command: FromPrimitive::from_u8 is Some exactly on these *)")
    A("Definition command_codes : list N := [%s]." % "; ".join(str(v) for _, v in cmds))
    A("")
    for n, v in status:
        A("Definition status_%s : N := %d." % (n, v))
    A("Definition status_codes : list N := [%s]." % "; ".join(str(v) for _, v in status))
    A("")
    for n, v in errs:
        A("Definition err_%s_code : N := %d." % (n, v))
        A("Definition err_%s_msg : list byte := %s. (* %s *)" % (n, coq_bytes(msgs[n].encode()), msgs[n]))
    A("")
    A("Definition EXTRAS_LENGTH : N := %d." % extras_length)
    A("Definition HEADER_LEN : N := %d." % header_len)
    A("Definition RESPONSE_HEADER_LEN : N := %d." % resp_header_len)
    A("Definition META_LEN : N := %d." % meta_len)
    A("Definition MAX_EXTRAS : N := %d." % max_extras)
    A("Definition MAX_KEY : N := %d." % max_key)
    A("Definition SKIP_BUFFER : N := %d." % skip_buf)
    A("Definition version_bytes : list byte := %s. (* %s *)" % (coq_bytes(version.encode()), version))
    A("")
    A("(* MemcacheBinaryCodec::parse_request: which body parser each command is handed to")
    A("   (1 get, 2 append/prepend, 3 set/add/replace, 4 delete, 5 incr/decr, 6 header only, 7 flush,")
    A("   8 'not supported' frame, 0 error); opcodes outside enum Command are errors *)")
    A("(* BinaryHandler::handle_request: (request variant, handler, filter) per match arm;")
    A("   variants: " + ", ".join("%d %s" % (v, k) for k, v in variant_ids.items()))
    A("   handlers: " + ", ".join("%d %s" % (v, k) for k, v in handler_ids.items()))
    A("   filters: 1 Some(..) (always answered), 2 into_quiet_mutation, 3 into_quiet_get *)")
    A("Definition handler_routes : list (N * N * N) :=")
    A("  [" + ";\n   ".join("(%d, %d, %d) (* %s *)" % (vid, hid, fid, n) for n, vid, hid, fid in routes) + "].")
    A("")
    A("(* inside each body parser (ids as in decode_dispatch): opcode -> request variant (ids as in")
    A("   handler_routes), and the variant of the final else-branch (0: none, the parser rejects) *)")
    A("Definition parser_variants : list (N * list (N * N) * N) :=")
    rows = []
    for pid in sorted(variant_tables):
        pairs, default = variant_tables[pid]
        for c, v in pairs:
            if c not in cmd_names:
                die("parser %d: unknown command %s" % (pid, c))
            if v not in variant_ids:
                die("parser %d: unknown request variant %s" % (pid, v))
        if default is not None and default not in variant_ids:
            die("parser %d: unknown request variant %s" % (pid, default))
        rows.append("(%d, [%s], %d)" % (pid, "; ".join("(cmd_%s, %d)" % (c, variant_ids[v]) for c, v in pairs),
                                        variant_ids[default] if default else 0))
    A("  [" + ";\n   ".join(rows) + "].")
    A("")
    A("Definition decode_dispatch : list (list N * N) :=")
    A("  [" + ";\n   ".join("([%s], %d)" % ("; ".join("cmd_" + n for n in names), pid) for names, pid in dispatch) + "].")
    A("")

    A("(* ---- translated from the source by tools/rsexpr.py: values are option N / option bool,")
    A("   None = the evaluation panics (Model/RustInt.v). [src_X_ok = false]: the translator did not")
    A("   recognise the shape of X in the source (reason in the comment); the obligation")
    A("   X_is_source then does not apply and only the correspondence check ties X to the model ---- *)")

    def emit_fn(item, what, params, ty):
        A("(* %s *)" % what)
        if item in gen:
            A("Definition src_%s_ok : bool := true." % item)
            A("Definition src_%s %s : option %s :=" % (item, params, ty))
            A("  " + gen[item] + ".")
        else:
            A("(* not translated: %s *)" % untranslated[item].replace("*)", "* )").replace("(*", "( *"))
            A("Definition src_%s_ok : bool := false." % item)
            A("Definition src_%s %s : option %s := None." % (item, params, ty))

    emit_fn("header_valid", "MemcacheBinaryCodec::header_valid", "(h_magic h_opcode h_data_type : N)", "bool")
    emit_fn("request_valid", "MemcacheBinaryCodec::request_valid",
            "(h_extras_length h_key_length h_body_length : N) (key_required : bool)", "bool")
    emit_fn("value_len", "MemcacheBinaryCodec::get_value_len", "(h_body_length h_key_length h_extras_length : N)", "N")
    emit_fn("incdec_required", "parse_inc_dec_request: the body length it requires", "(h_key_length : N)", "N")
    emit_fn("set_required", "parse_set_request: the body length it requires", "(h_key_length value_len : N)", "N")
    A("(* every `if` of the codec that compares the announced body length with the item size limit *)")
    if "size_guards" in gen:
        A("Definition src_size_guards_ok : bool := true.")
        A("Definition src_size_guards : list (N -> N -> option bool) :=")
        A("  [" + ";\n   ".join("(fun h_body_length item_size_limit => %s)" % t for t in gen["size_guards"]) + "].")
        A("(* the function each stands in: 1 parse_header, 2 parse_request, 3 decode *)")
        A("Definition src_size_guard_sites : list N := [%s]." % "; ".join(str(x) for x in gen["size_guard_sites"]))
    else:
        A("(* not translated: %s *)" % untranslated["size_guards"].replace("*)", "* )").replace("(*", "( *"))
        A("Definition src_size_guards_ok : bool := false.")
        A("Definition src_size_guards : list (N -> N -> option bool) := [].")
        A("Definition src_size_guard_sites : list N := [].")
    emit_fn("expired_read", "MemoryStore::check_if_expired on the record that was read", "(ts ttl now : N)", "bool")
    emit_fn("expired_stored", "MemoryStore::check_if_expired on the record stored when it removes", "(ts ttl now : N)", "bool")
    emit_fn("flush_delayed", "MemoryStore::flush takes the delayed branch", "(delay : N)", "bool")
    emit_fn("flush_redate", "MemoryStore::flush re-dates a record", "(ts ttl now delay : N)", "bool")
    emit_fn("delta", "MemcStore::add_delta: the new counter value", "(increment : bool) (value delta : N)", "N")
    emit_fn("delta_creates", "MemcStore::add_delta creates an absent counter", "(exp : N)", "bool")
    A("(* header layouts: (field, bytes) in wire order; fields: " + ", ".join("%d %s" % (v, k) for k, v in field_ids.items()) + " *)")
    for item in ("request_layout", "response_layout"):
        if item in gen:
            A("Definition src_%s_ok : bool := true." % item)
            A("Definition src_%s : layout := [%s]." % (item, "; ".join("(%d, %d)" % (field_ids[n], w) for n, w in gen[item])))
        else:
            A("(* not translated: %s *)" % untranslated[item].replace("*)", "* )").replace("(*", "( *"))
            A("Definition src_%s_ok : bool := false." % item)
            A("Definition src_%s : layout := []." % item)
    A("(* the reads of the body parsers, in the order executed: (field, read); fields: " + ", ".join("%d %s" % (v, k) for k, v in body_field_ids.items()) + " *)")
    for short, fname in body_parsers:
        item = "body_reads_" + short
        if item in gen:
            A("Definition src_%s_ok : bool := true." % item)
            A("Definition src_%s : list (N * bread) := [%s]." % (item, "; ".join("(%d, %s)" % (body_field_ids[n], k) for n, k in gen[item])))
        else:
            A("(* not translated: %s *)" % untranslated[item].replace("*)", "* )").replace("(*", "( *"))
            A("Definition src_%s_ok : bool := false." % item)
            A("Definition src_%s : list (N * bread) := []." % item)
    if "flush_read" in gen:
        A("Definition src_flush_read_ok : bool := true.")
        A("Definition src_flush_read : N * nat := (%d, %d%%nat)." % gen["flush_read"])
    else:
        A("(* not translated: %s *)" % untranslated["flush_read"].replace("*)", "* )").replace("(*", "( *"))
        A("Definition src_flush_read_ok : bool := false.")
        A("Definition src_flush_read : N * nat := (0, O).")
    A("(* parse_header_only_request does not touch the buffer *)")
    A("Definition src_header_only_reads_nothing : bool := %s." % ("true" if "header_only_reads" in gen else "false"))
    A("(* the skeleton of Decoder::decode: its tests in the order made *)")
    if "decode_steps" in gen:
        A("Definition src_decode_steps_ok : bool := true.")
        A("Definition src_decode_steps : list dstep := [%s]." % "; ".join(gen["decode_steps"]))
    else:
        A("(* not translated: %s *)" % untranslated["decode_steps"].replace("*)", "* )").replace("(*", "( *"))
        A("Definition src_decode_steps_ok : bool := false.")
        A("Definition src_decode_steps : list dstep := [].")
    A("(* what the encoder writes behind the header, per kind of response (1 error, 2 get, 3 plain, 4 quit, 5 version, 6 counter): (field, write); fields: " + ", ".join("%d %s" % (v, k) for k, v in wfield_ids.items()) + " *)")
    for item in ("encode_data", "write_data"):
        if item in gen:
            A("Definition src_%s_ok : bool := true." % item)
            A("Definition src_%s : list (N * list (N * bwrite)) := [%s]." % (item, "; ".join(
                "(%d, [%s])" % (k, "; ".join("(%d, %s)" % (wfield_ids[f], w) for f, w in gen[item][k])) for k in sorted(gen[item]))))
        else:
            A("(* not translated: %s *)" % untranslated[item].replace("*)", "* )").replace("(*", "( *"))
            A("Definition src_%s_ok : bool := false." % item)
            A("Definition src_%s : list (N * list (N * bwrite)) := []." % item)
    A("")
    text = "\n".join(L)
    out = os.path.normpath(OUT)
    old = None
    if os.path.exists(out):
        old = open(out).read()
    if old != text:
        with open(out, "w") as f:
            f.write(text)
        print("gen_tables: wrote %s" % out)
    else:
        print("gen_tables: %s up to date" % out)
    for it in sorted(untranslated):
        print("gen_tables: NOT-TRANSLATED %s: %s" % (it, untranslated[it]))
    if limits_note:
        print("gen_tables: NOT-TRANSLATED limits: " + limits_note)
    print("gen_tables: TRANSLATED " + " ".join(sorted(k for k in gen if k != "size_guard_sites")))


if __name__ == "__main__":
    main()
