#!/bin/bash
# runs every claimed check (quick tier) on the current tree; prints one line per check
cd /verif
for p in $(python3 -c "import json;print(' '.join(c['property_id'] for c in json.load(open('MANIFEST.json'))['checks']))"); do
  ./check $p 2>&1 | grep -E "VIOLATION|held|KNOWN" | head -3
done
