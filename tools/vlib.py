"""vlib — orchestration for ./check (see DESIGN.md §4)."""
import fcntl, hashlib, json, os, re, subprocess, sys, time, random

ROOT = os.path.normpath(os.path.join(os.path.dirname(os.path.abspath(__file__)), ".."))
COQ = os.path.join(ROOT, "coq")
BUILD = os.path.join(ROOT, "build")
ML = os.path.join(BUILD, "ml")
TARGET = os.path.join(BUILD, "target")
HARNESS = os.path.join(ROOT, "harness")
REPO = os.environ.get("VERIF_REPO", "/repo")
HBIN = os.path.join(TARGET, "debug", "verif-harness")
RUNNER = os.path.join(ML, "runner")

TRUSTED_BASE = [
    "Coq 8.16.1 kernel incl. its bytecode VM (vm_compute in the in-Coq case evaluation, refutation witnesses and finite sweeps); no native_compute",
    "axioms: none (every Print Assumptions reports 'Closed under the global context'; standard library only: List, NArith, ZArith, Lia, Bool, Byte, PeanoNat, Zify*)",
    "tools/gen_tables.py + tools/rsexpr.py: translator of the Rust sources into Model/Generated.v — enum/constant tables; the decoder's opcode dispatch, the request variant each body parser builds, the handler's routing (request variant -> handler -> filter); and, as Rust integer expressions with overflow = None (Model/RustInt.v), header_valid, request_valid, every comparison with the item size limit, the expiry tests of check_if_expired, the re-dating test of a delayed flush, the counter arithmetic of add_delta, get_value_len and the body lengths the incr/decr and set parsers require, the field order/widths of both headers, and the sequence of buffer reads (get_uN / split_to, with the field each goes into) of the set, incr/decr, append/prepend, get and delete parsers, the sequence of writes of every arm of encode_data / write_data, the flush parser's conditional read, and the order of the tests of Decoder::decode. Regex/recursive-descent over the source text, not a Rust front end: a function whose shape it does not recognise is reported (coverage.not_translated) and left to the correspondence check alone",
    "extraction: Require Extraction + ExtrOcamlBasic (Extract Inductive for bool, option, unit, list, prod, sumbool; no Extract Constant), OCaml 4.13.1, runner/runner.ml glue (hex/decimal parsing, Obj.magic int<->byte self-checked at start-up); the glue is cross-checked by evaluating a sample of every kind of case inside Coq",
    "correspondence: Rust harness (generators, canonicalisation, seq connection emulation, schedulers, logging Cache interposers Spy/ScanSpy/OuterSpy, timed probes) — differential testing, bounds the assurance",
    "the memcrsd binary run by the configuration profile is built by the check from /repo (same flags as the harness); /proc/net/tcp (accept-queue lengths, mlimit profile) and /proc/self/task/*/stat (blocked-client detection) are read as the kernel reports them",
    "Model/Listeners.v assumes of tokio what the mlimit profile observes: the semaphore hands a freed permit to the longest waiter; on a current-thread runtime a spawned handler runs only when the accept loop next waits",
    "hooks in /repo under cfg(memcrs_verif) (usage accessor, read begin/end + sizes, TracedMap yields, counter yields, per-connection write count): assumed to observe without changing behaviour",
    "modelled, not verified: DashMap (per-call atomicity; len and scans as atomic snapshots in the concurrent policy model), bytes::BytesMut, tokio, kernel TCP, clap/byte-unit parsing, SmallRng and map iteration order (arbitrary oracle), str::parse::<u64> (restated as parse_u64)",
    "model assumptions: clock < 2^63 and constant inside a concurrent window; value lengths < 2^32-300; stored bytes far below 2^64 (the policy's usage counter is a mathematical integer in the concurrent model: proved never negative, assumed < 2^64); fewer than 2^64 stores; the eviction loop is fuel-bounded in the concurrent model",
]


def log(msg):
    print("[check] " + msg, flush=True)


def sh(cmd, timeout=600, cwd=None, env=None, stdin=None):
    e = dict(os.environ)
    e.update({"CARGO_NET_OFFLINE": "true"})
    if env:
        e.update(env)
    try:
        p = subprocess.run(cmd, shell=isinstance(cmd, str), cwd=cwd, env=e, timeout=timeout,
                           stdout=subprocess.PIPE, stderr=subprocess.STDOUT, input=stdin)
        return p.returncode, p.stdout.decode("utf-8", "replace")
    except subprocess.TimeoutExpired as ex:
        out = ex.stdout.decode("utf-8", "replace") if ex.stdout else ""
        return 124, out + "\n[timeout after %ss]" % timeout


class BuildLock:
    def __enter__(self):
        os.makedirs(BUILD, exist_ok=True)
        self.f = open(os.path.join(BUILD, ".lock"), "w")
        fcntl.flock(self.f, fcntl.LOCK_EX)
        return self

    def __exit__(self, *a):
        fcntl.flock(self.f, fcntl.LOCK_UN)
        self.f.close()


# ------------------------------------------------------------------ builds

def ensure_tables():
    rc, out = sh([sys.executable, os.path.join(ROOT, "tools", "gen_tables.py")], env={"VERIF_REPO": REPO})
    return rc == 0, out


def ensure_makefile():
    mk = os.path.join(COQ, "Makefile")
    cp = os.path.join(COQ, "_CoqProject")
    if not os.path.exists(mk) or os.path.getmtime(mk) < os.path.getmtime(cp):
        rc, out = sh("coq_makefile -f _CoqProject -o Makefile", cwd=COQ)
        if rc != 0:
            return False, out
    return True, ""


FORBIDDEN = re.compile(r"\b(Admitted|admit|Axiom|Axioms|Parameter|Parameters|Conjecture|Admit Obligations|bypass_check|Unset Guard Checking|Unset Positivity Checking|Unset Universe Checking|type-in-type|impredicative-set|native_compute)\b")


def strip_comments(text):
    out, depth, i = [], 0, 0
    while i < len(text):
        if text.startswith("(*", i):
            depth += 1
            i += 2
        elif text.startswith("*)", i) and depth > 0:
            depth -= 1
            i += 2
        else:
            if depth == 0:
                out.append(text[i])
            i += 1
    return "".join(out)


def hygiene():
    bad = []
    for d, _, files in os.walk(COQ):
        for f in files:
            if f.endswith(".v") or f == "_CoqProject":
                p = os.path.join(d, f)
                txt = strip_comments(open(p).read())
                for m in FORBIDDEN.finditer(txt):
                    bad.append("%s: %s" % (os.path.relpath(p, ROOT), m.group(0)))
                # Variable/Hypothesis outside a section declare axioms
                depth = 0
                for line in txt.splitlines():
                    s = line.strip()
                    if re.match(r"Section\s", s):
                        depth += 1
                    elif re.match(r"End\s", s) and depth > 0:
                        depth -= 1
                    elif depth == 0 and re.match(r"(Variable|Variables|Hypothesis|Hypotheses|Context)\b", s):
                        bad.append("%s: %s outside a section" % (os.path.relpath(p, ROOT), s.split()[0]))
    return bad


def theorem_names(prop):
    p = os.path.join(COQ, "Props", prop + ".v")
    txt = strip_comments(open(p).read())
    return re.findall(r"^\s*Theorem\s+([A-Za-z0-9_']+)", txt, re.M)


def check_proofs(prop, timeout=900, tier="quick"):
    """make the property's theorem file; returns dict with ok/log/theorems/assumptions"""
    res = {"ok": False, "log": "", "theorems": [], "closed": 0, "axioms": []}
    ok, out = ensure_makefile()
    if not ok:
        res["log"] = out
        return res
    rc, out = sh("make -j16 Props/%s.vo" % prop, cwd=COQ, timeout=timeout)
    res["log"] = out
    if rc != 0:
        return res
    # re-run coqc on the theorem file to capture Print Assumptions
    rc, out = sh("coqc -q -Q . MC Props/%s.v" % prop, cwd=COQ, timeout=timeout)
    res["log"] += out
    if rc != 0:
        return res
    names = theorem_names(prop)
    res["theorems"] = names
    res["closed"] = out.count("Closed under the global context")
    axioms = re.findall(r"^Axioms:\s*\n((?:.+\n)+)", out, re.M)
    res["axioms"] = axioms
    src = strip_comments(open(os.path.join(COQ, "Props", prop + ".v")).read())
    n_print = len(re.findall(r"Print Assumptions", src))
    res["ok"] = (len(names) > 0 and n_print >= len(names) and res["closed"] == n_print and not axioms)
    if res["ok"] and tier == "thorough":
        # the independent checker over the compiled property file and everything it depends on
        rc, out2 = sh("coqchk -o -silent -Q . MC MC.Props.%s" % prop, cwd=COQ, timeout=timeout)
        res["log"] += out2[-1500:]
        chk_ok = (rc == 0 and re.search(r"Axioms:\s*<none>", out2) is not None
                  and "type-in-type: <none>" in out2 and "unsafe (co)fixpoints: <none>" in out2
                  and "positivity is assumed: <none>" in out2)
        res["coqchk"] = chk_ok
        res["ok"] = chk_ok
    if not res["ok"]:
        res["log"] += "\n[theorems=%d print_assumptions=%d closed=%d axioms=%r]" % (len(names), n_print, res["closed"], axioms)
    return res


def newest(paths):
    return max(os.path.getmtime(p) for p in paths if os.path.exists(p))


def ensure_runner(timeout=900):
    os.makedirs(ML, exist_ok=True)
    ok, out = ensure_makefile()
    if not ok:
        return False, out
    rc, out = sh("make -j16 Model/Obs.vo Model/Conc.vo Model/Server.vo Model/Config.vo Model/PolConc.vo Model/Listeners.vo Spec/Atomic.vo Spec/AtomicM.vo", cwd=COQ, timeout=timeout)
    if rc != 0:
        return False, out
    model_vos = [os.path.join(COQ, "Model", f) for f in os.listdir(os.path.join(COQ, "Model")) if f.endswith(".vo")]
    srcs = model_vos + [os.path.join(COQ, "Extract", "Extract.v")]
    model_ml = os.path.join(ML, "model.ml")
    if not os.path.exists(model_ml) or os.path.getmtime(model_ml) < newest(srcs):
        rc, out2 = sh("coqc -q -Q %s MC %s -o %s" % (COQ, os.path.join(COQ, "Extract", "Extract.v"), os.path.join(ML, "Extract.vo")),
                      cwd=ML, timeout=timeout)
        out += out2
        if rc != 0:
            return False, out
    rsrc = os.path.join(ROOT, "runner", "runner.ml")
    if not os.path.exists(RUNNER) or os.path.getmtime(RUNNER) < newest([model_ml, rsrc]):
        sh("cp %s %s" % (rsrc, os.path.join(ML, "runner.ml")))
        rc, out2 = sh("ocamlfind ocamlopt -w -a -O3 model.mli model.ml runner.ml -o runner", cwd=ML, timeout=timeout)
        out += out2
        if rc != 0:
            return False, out
    return True, out


def ensure_harness(timeout=1800):
    lock_src = os.path.join(REPO, "Cargo.lock")
    lock_dst = os.path.join(HARNESS, "Cargo.lock")
    if not os.path.exists(lock_dst):
        sh("cp %s %s" % (lock_src, lock_dst))
    rc, out = sh("cargo build --offline", cwd=HARNESS, timeout=timeout, env={"RUSTFLAGS": "--cfg memcrs_verif"})
    if rc != 0:
        return False, out
    # the server binary itself (src/bin/memcrsd.rs), which the configuration profile runs
    rc, out2 = sh("cargo build --offline --manifest-path %s --bin memcrsd --target-dir %s" % (
        os.path.join(REPO, "memcrs", "Cargo.toml"), os.path.join(BUILD, "target")),
        cwd=HARNESS, timeout=timeout, env={"RUSTFLAGS": "--cfg memcrs_verif"})
    if rc != 0:
        return False, out + out2
    os.environ["VERIF_MEMCRSD"] = os.path.join(BUILD, "target", "debug", "memcrsd")
    rc, meta = sh([HBIN, "meta"])
    if rc != 0:
        return False, out + meta
    m = re.search(r"META_LEN (\d+)", meta)
    gen = open(os.path.join(COQ, "Model", "Generated.v")).read()
    g = re.search(r"Definition META_LEN : N := (\d+)\.", gen)
    if not (m and g and m.group(1) == g.group(1)):
        return False, out + "\nMETA_LEN mismatch: harness %r vs Generated.v %r" % (m and m.group(1), g and g.group(1))
    if "VERIF_CFG true" not in meta:
        return False, out + "\nharness not built with --cfg memcrs_verif"
    return True, out


# ------------------------------------------------------------------ traces

def split_cases(text):
    """'CASE id ...' separated blocks -> ordered list of (id, [lines])"""
    cases, cur = [], None
    for line in text.splitlines():
        if line.startswith("CASE "):
            cur = (line.split(" ")[1], [line])
            cases.append(cur)
        elif cur is not None and line:
            cur[1].append(line)
    return cases


def run_model(trace_path, out_path, raw=False, socket=False, ni=None):
    # the extracted list functions are not tail-recursive: megabyte values need a deep stack
    rc, out = sh("ulimit -s unlimited 2>/dev/null || ulimit -s 1000000 2>/dev/null; %s %s %s %s %s > %s" % (
        RUNNER, "--raw" if raw else "", "--socket" if socket else "", ("--ni " + ni) if ni else "", trace_path, out_path), timeout=1200)
    return rc == 0, out


def load_stats(path):
    """the generator's statistics; a run that a watchdog ended (a request that never came back)
    leaves traces and observations but no statistics"""
    try:
        return json.load(open(path))
    except (OSError, ValueError):
        return {}


def first_diff(a, b):
    for i in range(max(len(a), len(b))):
        x = a[i] if i < len(a) else "<end>"
        y = b[i] if i < len(b) else "<end>"
        if x != y:
            return i, x, y
    return None


# per differing case: the kinds (first characters) of the observation lines that one side has
# and the other has not — what the classification looks at when the first difference is of a
# kind the property does not speak about
SYMKINDS = {}


def compare(trace_path, impl_path, model_path):
    """returns list of differing cases: (id, trace_lines, idx, impl_line, model_line)"""
    tr = dict(split_cases(open(trace_path).read()))
    im = split_cases(open(impl_path).read())
    mo = dict(split_cases(open(model_path).read()))
    diffs = []
    for cid, lines in im:
        ml = mo.get(cid, [])
        d = first_diff(lines[1:], ml[1:])
        if d is not None:
            diffs.append((cid, tr.get(cid, []), d[0], d[1], d[2]))
            from collections import Counter
            a, b = Counter(lines[1:]), Counter(ml[1:])
            SYMKINDS[cid] = {l[:1] for l in list((a - b).elements()) + list((b - a).elements()) if l}
    return diffs, len(im)


def replay_trace(trace_lines, work, tag, profile="seq"):
    """run impl and model on the given trace lines; returns first differing (idx, impl, model) or None"""
    tin = os.path.join(work, tag + ".in")
    tout = os.path.join(work, tag + ".trace")
    iobs = os.path.join(work, tag + ".impl")
    mobs = os.path.join(work, tag + ".model")
    open(tin, "w").write("\n".join(trace_lines) + "\n")
    cmd = [HBIN, profile + "-replay", "--in", tin, "--trace", tout, "--obs", iobs]
    if profile == "seq":
        cmd += ["--stall", "5"]   # a request that does not come back within 5 s is a hang
    rc, out = sh(cmd, timeout=300)
    if rc != 0:
        return ("harness-failed", out, "")
    ok, out = run_model(tout, mobs, socket=(profile == "conn"))
    if not ok:
        return ("runner-failed", out, "")
    diffs, _ = compare(tout, iobs, mobs)
    if diffs:
        return diffs[0][2:]
    return None


def minimize(trace_lines, work, profile="seq"):
    """delta-debug the event lines of one case (header kept), re-running both sides"""
    if profile in ("conc", "pol", "limit", "cfg"):
        return trace_lines  # threads + schedule / timed lifecycles: kept whole
    header, events = trace_lines[0], [l for l in trace_lines[1:] if l[:1] not in "OG"]
    def rt(lines, work, tag):
        return replay_trace(lines, work, tag, profile)
    if rt([header] + events, work, "min") is None:
        return trace_lines  # not reproducible without oracle lines (random evictions): keep as is
    n = 2
    budget = 200
    t_end = time.time() + 150
    while len(events) >= 2 and budget > 0 and time.time() < t_end:
        chunk = max(1, len(events) // n)
        reduced = False
        for i in range(0, len(events), chunk):
            cand = events[:i] + events[i + chunk:]
            budget -= 1
            if cand and rt([header] + cand, work, "min") is not None:
                events = cand
                n = max(n - 1, 2)
                reduced = True
                break
            if budget <= 0:
                break
        if not reduced:
            if chunk == 1:
                break
            n = min(n * 2, len(events))
    return [header] + events


# ------------------------------------------------------------------ in-Coq cross-check

def coq_bytes(hexs):
    if hexs == "-":
        return "[]"
    return "[" + ";".join("x" + hexs[i:i + 2] for i in range(0, len(hexs), 2)) + "]"


def coq_rec(v, f, ttl, cas):
    return "(mkRec 0 %s %s %s %s)" % (cas, f, ttl, coq_bytes(v))


def coq_mop(t):
    p = t.split(":")
    k = coq_bytes(p[1]) if len(p) > 1 else ""
    if p[0] == "get":
        return "MBase (OpGet %s)" % k
    if p[0] == "set":
        return "MBase (OpSet %s %s)" % (k, coq_rec(p[2], p[3], p[4], p[5]))
    if p[0] == "del":
        return "MBase (OpDel %s %s)" % (k, p[2])
    if p[0] == "add":
        return "MAdd %s %s" % (k, coq_rec(p[2], p[3], p[4], p[5]))
    if p[0] == "replace":
        return "MReplace %s %s" % (k, coq_rec(p[2], p[3], p[4], p[5]))
    if p[0] == "append":
        return "MAppend %s %s %s" % (k, p[2], coq_bytes(p[3]))
    if p[0] == "prepend":
        return "MPrepend %s %s %s" % (k, p[2], coq_bytes(p[3]))
    if p[0] in ("incr", "decr"):
        return "MDelta %s %s %s %s %s %s" % ("true" if p[0] == "incr" else "false", k, p[2], p[3], p[4], p[5])
    raise ValueError("op " + t)


def coq_pop(t):
    p = t.split(":")
    if p[0] == "get":
        return "PoGet %s" % coq_bytes(p[1])
    if p[0] == "set":
        return "PoSet %s %s" % (coq_bytes(p[1]), coq_rec(p[2], p[3], p[4], p[5]))
    if p[0] == "del":
        return "PoDel %s %s" % (coq_bytes(p[1]), p[2])
    if p[0] == "flush":
        return "PoFlush %s" % p[1]
    raise ValueError("op " + t)


def coq_ores(t):
    p = t.split(":")
    if p[0] == "hit":
        return "AHit %s %s %s" % (coq_bytes(p[1]), p[2], p[3])
    if p[0] == "err":
        return "AErr %s" % p[1]
    if p[0] == "ok":
        return "AOk %s" % p[1] if len(p) > 1 else "ADone"
    if p[0] == "out-of-fuel":
        return "AFuel"
    raise ValueError("result " + t)


def coq_conc_case(ci, il, mlc, lines, expected_lines):
    """a case with a concurrent window (RUN on the plain store, PRUN behind the policy) as an
    Example about Obs.obs_run2"""
    evs, ths, pths, scans = [], [], [], "[]"
    for l in lines[1:]:
        p = l.split(" ")
        if p[0] == "C":
            evs.append("YEv (EvChunk %s%%nat %s)" % (p[1], coq_bytes(p[2])))
        elif p[0] == "T":
            evs.append("YEv (EvTick %s)" % p[1])
        elif p[0] == "O":
            vs = [] if len(p) == 1 else p[1].split(",")
            evs.append("YEv (EvOracle [%s])" % ";".join(coq_bytes(v) for v in vs))
        elif p[0] == "D":
            evs.append("YDump")
        elif p[0] == "TH":
            ops = p[2].split("|") if len(p) > 2 and p[2] else []
            ths.append("[%s]" % "; ".join(coq_mop(o) for o in ops))
        elif p[0] == "PTH":
            ops = p[2].split("|") if len(p) > 2 and p[2] else []
            pths.append("[%s]" % "; ".join(coq_pop(o) for o in ops))
        elif p[0] == "PSCANS":
            scans = "[]" if p[1] == "none" else "[%s]" % "; ".join(
                "[]" if ks == "-" else "[%s]" % "; ".join(coq_bytes(k) for k in ks.split(",")) for ks in p[1].split(";"))
        elif p[0] in ("RUN", "PRUN"):
            sched = "[]" if p[1] == "-" else "[%s]%%nat" % ";".join(p[1].split(","))
            if p[0] == "RUN":
                evs.append("YRun [%s] %s" % ("; ".join(ths), sched))
                ths = []
            else:
                evs.append("YPRun [%s] %s %s" % ("; ".join(pths), scans, sched))
                pths, scans = [], "[]"
    exp = []
    for l in expected_lines[1:]:
        p = l.split(" ")
        if p[0] == "R":
            exp.append("YL (OR %s)" % coq_bytes(p[1]))
        elif p[0] == "S":
            exp.append("YL (OS %s%%nat %s %s %s)" % (p[1], p[2], p[3], p[4]))
        elif p[0] == "M":
            exp.append("YL (OM %s %s %s %s %s %s)" % (coq_bytes(p[1]), coq_bytes(p[2]), p[3], p[4], p[5], p[6]))
        elif p[0] == "U":
            exp.append("YL (OU %s %s %s)" % (p[1], p[2], p[3]))
        elif p[0] in ("TR", "PR"):
            rs = p[2].split(";") if len(p) > 2 and p[2] else []
            exp.append("YT %s%%nat [%s]" % (p[1], "; ".join(coq_ores(r) for r in rs)))
    return ("Example case_%d : obs_run2 (init_world %s %s) [%s] = [%s].\nProof. vm_compute. reflexivity. Qed.\n" % (
        ci, il, mlc, "; ".join(evs), "; ".join(exp)))


def coq_crosscheck(trace_path, work, sample, seed):
    """Evaluate a sample of cases inside Coq (vm_compute) and require the result to
    equal what the extracted runner printed (raw order)."""
    cases = split_cases(open(trace_path).read())
    if not cases:
        return True, 0, ""
    os.makedirs(work, exist_ok=True)
    rnd = random.Random(seed)
    chosen = cases if len(cases) <= sample else rnd.sample(cases, sample)
    sub = os.path.join(work, "xc.trace")
    with open(sub, "w") as f:
        for _, lines in chosen:
            f.write("\n".join(lines) + "\n")
    raw = os.path.join(work, "xc.model")
    ok, out = run_model(sub, raw, raw=True)
    if not ok:
        return False, 0, out
    expected = dict(split_cases(open(raw).read()))
    # shard over up to 16 coqc processes
    shards = [chosen[i::16] for i in range(16)]
    procs = []
    for si, shard in enumerate(shards):
        if not shard:
            continue
        vf = os.path.join(work, "xc_%d.v" % si)
        with open(vf, "w") as f:
            f.write("From MC Require Import Model.Base Model.Generated Model.Store Model.Memc Model.Codec Model.Conn Model.Run Model.Conc Model.PolConc Model.Obs.\n")
            f.write("From Coq Require Import Init.Byte.\nOpen Scope N_scope.\n")
            for ci, (cid, lines) in enumerate(shard):
                hdr = lines[0].split(" ")
                il, ml = hdr[2], hdr[3]
                mlc = "None" if ml == "none" else "(Some %s)" % ml
                if any(l.startswith(("RUN ", "PRUN ")) for l in lines):
                    f.write(coq_conc_case(ci, il, mlc, lines, expected.get(cid, [])))
                    continue
                evs = []
                for l in lines[1:]:
                    p = l.split(" ")
                    if p[0] == "C":
                        evs.append("XEv (EvChunk %s%%nat %s)" % (p[1], coq_bytes(p[2])))
                    elif p[0] == "E":
                        evs.append("XEv (EvEof %s%%nat)" % p[1])
                    elif p[0] == "T":
                        evs.append("XEv (EvTick %s)" % p[1])
                    elif p[0] == "O":
                        vs = [] if len(p) == 1 else p[1].split(",")
                        evs.append("XEv (EvOracle [%s])" % ";".join(coq_bytes(v) for v in vs))
                    elif p[0] == "D":
                        evs.append("XDump")
                exp = []
                for l in expected.get(cid, [])[1:]:
                    p = l.split(" ")
                    if p[0] == "R":
                        exp.append("OR %s" % coq_bytes(p[1]))
                    elif p[0] == "S":
                        exp.append("OS %s%%nat %s %s %s" % (p[1], p[2], p[3], p[4]))
                    elif p[0] == "M":
                        exp.append("OM %s %s %s %s %s %s" % (coq_bytes(p[1]), coq_bytes(p[2]), p[3], p[4], p[5], p[6]))
                    elif p[0] == "U":
                        exp.append("OU %s %s %s" % (p[1], p[2], p[3]))
                f.write("Example case_%d : obs_run (init_world %s %s) [%s] = [%s].\n" % (
                    ci, il, mlc, "; ".join(evs), "; ".join(exp)))
                f.write("Proof. vm_compute. reflexivity. Qed.\n")
        procs.append((vf, subprocess.Popen("timeout 600 coqc -q -noglob -Q %s MC %s" % (COQ, vf), shell=True, cwd=work,
                                           stdout=subprocess.PIPE, stderr=subprocess.STDOUT)))
    allok, logs = True, ""
    for vf, p in procs:
        out, _ = p.communicate()
        if p.returncode != 0:
            allok = False
            logs += "%s:\n%s\n" % (vf, out.decode("utf-8", "replace")[-2000:])
    return allok, len(chosen), logs


# ------------------------------------------------------------------ properties

# seq suites: (flavor, item_limit, mem_limit, cases_quick, steps)
SEQ_DEFAULT = [("mix", 1024, None, 40, 40), ("cas", 1024, None, 30, 40), ("cuts", 1024, None, 20, 30)]

PROPS = {
    "C01": {"seq": [("mix", 1024, None, 60, 40), ("wide", 1024, None, 40, 50), ("ttl", 1024, None, 30, 40),
                    ("mix", 1024, 1000000, 30, 40), ("cuts", 256, None, 20, 30), ("big", 1048576, None, 5, 16)],
            "conn": [("big", 1048576, None, 4, 14)], "conc": [("base", 200)], "slow": True,
            "monitor_kinds": ["STUCK", "SLOW"], "relevant": "RMWT"},
    "C02": {"seq": [("cas", 1024, 1000000, 15, 40), ("cas", 1024, 150, 15, 40), ("cas", 1024, None, 80, 50), ("mix", 1024, None, 30, 40), ("ttl", 1024, None, 30, 40),
                    ("counter", 1024, None, 30, 40)], "conc": [("base", 200), ("rmw", 100)], "pol": 100,
            "monitor_kinds": ["STUCK", "NONLIN", "VANISH", "GHOST"], "known_classes": True, "known_from": "C04", "relevant": "RMWTP"},
    "C03": {"seq": [("cas", 1024, None, 20, 30)], "conc": [("base", 500)], "pol": 150, "relevant": "RMTP"},
    "C04": {"seq": [("counter", 1024, None, 20, 30)], "conc": [("rmw", 500)], "pol": 40, "relevant": "RMTP",
            "known_classes": True},
    "C16": {"seq": [("policy", 1024, 200, 10, 30), ("cas", 1024, None, 40, 50)], "conn": [("idle", 1024, None, 3, 14)],
            "conc": [("base", 250), ("rmw", 250)], "sweep": 300, "pol": 100, "relevant": "TS",
            "monitor_kinds": ["STUCK"]},
    "C05": {"seq": [("ttl", 1024, 1000000, 15, 40), ("ttl", 1024, None, 80, 50), ("flush", 1024, None, 60, 50), ("mix", 1024, None, 30, 40)],
            "conc": [("ttl", 300)], "monitor_kinds": ["STUCK", "NONLIN"], "known_classes": True, "known_from": "C04",
            "relevant": "RMWT"},
    "C06": {"seq": [("mix", 1024, 1000000, 15, 40), ("mix", 1024, None, 60, 40), ("cas", 1024, None, 40, 40), ("ttl", 1024, None, 40, 40),
                    ("flush", 1024, None, 20, 40), ("mix", 64, None, 20, 40), ("cas", 1024, 150, 20, 40)],
            "conc": [("ttl", 300)], "monitor_kinds": ["STUCK", "NONLIN"], "known_classes": True, "known_from": "C04",
            "relevant": "RMWT"},
    "C07": {"seq": [("counter", 1024, 1000000, 15, 40), ("counter", 1024, None, 100, 50), ("cas", 1024, None, 20, 40), ("ttl", 1024, None, 20, 40)],
            "conc": [("ttl", 200)], "pol": 60, "monitor_kinds": ["STUCK", "NONLIN", "VANISH", "GHOST"], "known_classes": True, "known_from": "C04",
            "relevant": "RMWTP"},
    "C08": {"seq": [("flush", 1024, 1000000, 15, 40), ("flush", 1024, None, 80, 50), ("ttl", 1024, None, 40, 50), ("cas", 1024, None, 30, 40),
                    ("wide", 1024, None, 30, 40)],
            "conn": [("flush", 1024, None, 30, 30), ("quiet", 1024, None, 15, 25)],
            "conc": [("ttl", 300)], "pol": 60, "monitor_kinds": ["STUCK", "NONLIN", "VANISH", "GHOST"], "known_classes": True, "known_from": "C04",
            "relevant": "RMWTP"},
    "C09": {"seq": [("cuts", 1024, None, 60, 30), ("malformed", 1024, None, 60, 30), ("malformed", 100, None, 40, 30),
                    ("cuts", 64, None, 30, 30)],
            "conn": [("cuts", 1024, None, 30, 25), ("malformed", 100, None, 30, 25), ("malformed", 1024, None, 20, 25),
                     ("big", 1048576, None, 4, 14), ("idle", 1024, None, 3, 14)],
            "slow": True, "monitor_kinds": ["SLOW"], "relevant": "RSM"},
    "C10": {"seq": [("malformed", 1024, None, 80, 30), ("malformed", 64, None, 40, 30), ("counter", 1024, None, 30, 40),
                    ("cas", 1024, None, 30, 40), ("policy", 1024, 200, 10, 30)],
            "conn": [("malformed", 100, None, 30, 25)], "relevant": "RSM"},
    "C11": {"seq": [("mix", 1024, None, 80, 40), ("quiet", 1024, None, 40, 40), ("counter", 1024, None, 40, 40),
                    ("malformed", 100, None, 40, 30), ("wide", 1024, None, 30, 40)],
            "conn": [("mix", 1024, None, 20, 25), ("big", 1048576, None, 6, 16)], "slow": True, "monitor_kinds": ["SLOW"],
            "relevant": "RW", "monitor_prefix": "c11_"},
    "C12": {"seq": [("quiet", 1024, None, 60, 40), ("mix", 1024, None, 40, 40), ("malformed", 1024, None, 30, 30)],
            "conn": [("quiet", 1024, None, 30, 25), ("mix", 1024, None, 30, 25), ("flush", 1024, None, 20, 25),
                     ("big", 1048576, None, 6, 14)], "relevant": "RSWM"},
    "C13": {"seq": [("malformed", 100, None, 60, 30), ("malformed", 64, None, 40, 30), ("cuts", 100, None, 30, 30)],
            "conn": [("malformed", 100, None, 40, 25), ("malformed", 1024, None, 20, 25), ("cuts", 64, None, 20, 25),
                     ("idle", 100, None, 3, 14)],
            "cfg": 6, "relevant": "RSMW"},
    "C14": {"seq": [("policy", 1024, 100, 40, 60), ("policy", 1024, 300, 40, 60), ("policy", 1024, 30, 20, 60),
                    ("policy", 1024, 1000, 30, 60), ("counter", 1024, 120, 20, 50), ("flush", 1024, 200, 20, 50),
                    ("crowd", 600, 1000, 8, 120), ("crowd", 1500, 2500, 4, 240)],
            "conn": [("policy", 1024, 300, 15, 30)], "pol": 150, "relevant": "UMRP",
            "monitor_kinds": ["ACCT", "BOUND", "STUCK", "NONLIN", "VANISH", "GHOST"]},
    "C15": {"seq": [("policy", 1024, 100000, 40, 80), ("policy", 1024, 400, 40, 60), ("ttl", 1024, 500, 30, 60),
                    ("flush", 1024, 500, 30, 60), ("cas", 1024, 500, 30, 50), ("counter", 1024, 500, 20, 50),
                    ("crowd", 600, 1000, 8, 120), ("crowd", 1500, 2500, 4, 240)],
            "pol": 150, "relevant": "UMRP", "monitor_kinds": ["ACCT", "BOUND", "STUCK", "NONLIN", "VANISH", "GHOST"]},
    "C17": {"seq": [("mix", 1024, None, 10, 20)], "limit": 8, "mlimit": 6, "cfg": 6, "relevant": "VS", "no_minimize": True},
    "C20": {"seq": [("mix", 1024, 1000000, 30, 40), ("mix", 1024, None, 10, 30)], "cfg": 8, "mlimit": 4, "pol": 60,
            "monitor_kinds": ["ACCT", "BOUND", "STUCK", "NONLIN", "VANISH", "GHOST"], "relevant": "RSCTPUM"},
    "C18": {"seq": [("cuts", 1024, None, 60, 30), ("malformed", 1024, None, 40, 30)],
            "conn": [("cuts", 1024, None, 30, 25), ("malformed", 1024, None, 30, 25), ("mix", 1024, None, 20, 25),
                     ("idle", 1024, None, 3, 14)],
            "limit": 4, "relevant": "RSMV"},
    "C19": {"seq": [("quiet", 1024, 1000000, 15, 40), ("quiet", 1024, None, 80, 50), ("mix", 1024, None, 30, 40), ("counter", 1024, None, 30, 40),
                    ("malformed", 100, None, 30, 30)],
            "conn": [("quiet", 100, None, 20, 25), ("malformed", 100, None, 20, 25)], "relevant": "RMWS"},
}

KINDS = {"R": "responses", "S": "connection status", "M": "store content", "U": "accounting", "T": "operation results under a schedule", "P": "operation results under a schedule (policy store)", "W": "frame monitor", "V": "which connections are served", "N": "connection not served"}


def load_known():
    """known findings: list of dicts with property, class, what"""
    known = []
    p = os.path.join(ROOT, "known_findings.txt")
    if os.path.exists(p):
        for line in open(p):
            line = line.strip()
            if line.startswith("finding:"):
                d = {"line": line}
                for m in re.finditer(r"(property|class|site)=(\S+)", line):
                    d[m.group(1)] = m.group(2)
                m = re.search(r"what=(.*)$", line)
                d["what"] = m.group(1) if m else line
                known.append(d)
    return known


def coq_mlimit(trace_text, model_text, work):
    """every mlimit case as an Example over Listeners.served_trace, closed by vm_compute"""
    want = dict(split_cases(model_text))
    lines = ["From MC Require Import Model.Base Model.Conn Model.Server Model.Listeners.", "Open Scope nat_scope.", ""]
    n = 0
    for cid, tl in split_cases(trace_text):
        limit, evs = None, []
        for l in tl[1:]:
            p = l.split(" ")
            if p[0] == "MLIMIT":
                limit = int(p[1])
            elif p[0] == "MCONN":
                evs.append("LEv (MConnect %d %d)" % (int(p[2]), int(p[1])))
            elif p[0] == "MEND":
                evs.append("LEv (MEnd %d WEof)" % int(p[1]))
            elif p[0] == "MPROBE":
                evs.append("LProbe %d" % int(p[1]))
        if limit is None:
            continue
        served = [l.split(" ")[2] == "1" for l in want.get(cid, [])[1:] if l.startswith("SERVED ")]
        lines.append("Example ml_%d : served_trace (new_mserver %d%%N) [%s] = [%s]." % (
            n, limit, "; ".join(evs), "; ".join("true" if b else "false" for b in served)))
        lines.append("Proof. vm_compute. reflexivity. Qed.")
        n += 1
    if n == 0:
        return True, ""
    f = os.path.join(work, "mlimit_cases.v")
    with open(f, "w") as fh:
        fh.write("\n".join(lines) + "\n")
    rc, out = sh("coqc -q -noglob -Q %s MC %s" % (COQ, f), cwd=work, timeout=600)
    return rc == 0, out


def run_conc_suites(prop, cfg, tier, seed, work, report):
    """controlled-schedule concurrency profile: implementation vs Model/Conc.v under the same
    schedules, plus the monitor's findings. Returns (diffs, monitor_lines)."""
    diffs, monitor = [], []
    mult = 1 if tier == "quick" else 40
    for si, (flavor, ncases) in enumerate(cfg.get("conc", [])):
        tag = "conc_%d_%s" % (si, flavor)
        tout, iobs, mobs, mon, st = [os.path.join(work, tag + e) for e in (".trace", ".impl", ".model", ".monitor", ".stats")]
        cmd = [HBIN, "conc-gen", "--seed", str(seed + si), "--cases", str(ncases * mult), "--flavor", flavor,
               "--trace", tout, "--obs", iobs, "--monitor", mon, "--stats", st]
        rc, out = sh(cmd, timeout=3000)
        if rc != 0:
            report["errors"].append("harness failed on suite %s: %s" % (tag, out[-500:]))
            continue
        nif = os.path.join(work, tag + ".ni")
        ok, out = run_model(tout, mobs, ni=nif)
        if not ok:
            report["errors"].append("runner failed on %s: %s" % (tag, out[-500:]))
            continue
        # per case: does the executed schedule keep clear of the read-modify-write windows
        # (Spec/AtomicM.v ni_sched, evaluated by the extracted model)?
        ni = dict(l.split(" ") for l in open(nif).read().splitlines() if l)
        report["distribution"]["conc_schedules_without_interference"] = report["distribution"].get(
            "conc_schedules_without_interference", 0) + sum(1 for v in ni.values() if v == "1")
        d, ncs = compare(tout, iobs, mobs)
        report["cases"] += ncs
        report["conc_cases"] = report.get("conc_cases", 0) + ncs
        try:
            stj = load_stats(st)
            report["events"] += stj.get("conc_steps", 0)
            report["distribution"]["conc_steps"] = report["distribution"].get("conc_steps", 0) + stj.get("conc_steps", 0)
        except Exception:
            pass
        traces = dict(split_cases(open(tout).read()))
        report.setdefault("conc_trace_files", []).append(tout)
        for x in d:
            diffs.append((tag,) + x)
        for line in open(mon).read().splitlines():
            p = line.split(" ")
            monitor.append({"kind": p[0], "case": p[1], "class": p[2] if len(p) > 2 else "", "trace": traces.get(p[1], []), "suite": tag,
                            "no_interference": ni.get(p[1]) == "1"})
        if not report["samples"]:
            cs = split_cases(open(tout).read())
            if cs:
                report["samples"].append({"suite": tag, "trace": cs[0][1][:12]})
        report["suites"].append(tag)
    if cfg.get("cfg"):
        tag = "cfg"
        tout, iobs, mobs, st = [os.path.join(work, tag + e) for e in (".trace", ".impl", ".model", ".stats")]
        ncfg = cfg["cfg"] if tier == "quick" else cfg["cfg"] * 12
        cmd = [HBIN, "cfg-gen", "--seed", str(seed), "--configs", str(ncfg), "--steps", "40" if tier == "quick" else "120",
               "--trace", tout, "--obs", iobs, "--stats", st]
        rc, out = sh(cmd, timeout=3000)
        if rc != 0:
            rc, out2 = sh(cmd, timeout=3000)
            out += out2
        if rc != 0:
            report["errors"].append("harness failed on suite cfg: %s" % out[-500:])
        else:
            ok, out = run_model(tout, mobs, socket=True)
            if not ok:
                report["errors"].append("runner failed on cfg: %s" % out[-500:])
            else:
                d, ncs = compare(tout, iobs, mobs)
                report["cases"] += ncs
                txt = open(tout).read()
                report["events"] += sum(1 for l in txt.splitlines() if l[:2] == "C ")
                report["distribution"]["configurations"] = report["distribution"].get("configurations", 0) + ncs
                for x in d:
                    diffs.append((tag,) + x)
                if not report["samples"]:
                    cs = split_cases(txt)
                    if cs:
                        report["samples"].append({"suite": tag, "configuration": cs[0][0], "trace": [l[:120] for l in cs[0][1][:6]]})
                report["suites"].append(tag)
    if cfg.get("limit"):
        tag = "limit"
        tout, iobs, mobs, st = [os.path.join(work, tag + e) for e in (".trace", ".impl", ".model", ".stats")]
        ncases = cfg["limit"] if tier == "quick" else cfg["limit"] * 6
        cmd = [HBIN, "limit-gen", "--seed", str(seed), "--cases", str(ncases), "--trace", tout, "--obs", iobs, "--stats", st]
        if tier == "quick":
            cmd += ["--rounds", "4"]
        rc, out = sh(cmd, timeout=3000)
        if rc != 0:
            report["errors"].append("harness failed on suite limit: %s" % out[-500:])
        else:
            ok, out = run_model(tout, mobs)
            if not ok:
                report["errors"].append("runner failed on limit: %s" % out[-500:])
            else:
                d, ncs = compare(tout, iobs, mobs)
                report["cases"] += ncs
                txt = open(tout).read()
                report["events"] += sum(1 for l in txt.splitlines() if l.split(" ")[0] in ("CONN", "END", "PROBE"))
                for k, v in load_stats(st).items():
                    report["distribution"][k] = report["distribution"].get(k, 0) + v
                for x in d:
                    diffs.append((tag,) + x)
                if not report["samples"]:
                    cs = split_cases(txt)
                    if cs:
                        report["samples"].append({"suite": tag, "trace": cs[0][1][:14]})
                report["suites"].append(tag)
    if cfg.get("mlimit"):
        # several listeners (clones of one server, one thread and runtime each) over one limit:
        # implementation vs Model/Listeners.v, and the same histories evaluated inside Coq
        tag = "mlimit"
        tout, iobs, mobs, st = [os.path.join(work, tag + e) for e in (".trace", ".impl", ".model", ".stats")]
        ncases = cfg["mlimit"] if tier == "quick" else cfg["mlimit"] * 8
        cmd = [HBIN, "mlimit-gen", "--seed", str(seed), "--cases", str(ncases), "--events", "14" if tier == "quick" else "24",
               "--trace", tout, "--obs", iobs, "--stats", st]
        rc, out = sh(cmd, timeout=3000)
        if rc != 0:
            report["errors"].append("harness failed on suite mlimit: %s" % out[-500:])
        else:
            ok, out = run_model(tout, mobs)
            if not ok:
                report["errors"].append("runner failed on mlimit: %s" % out[-500:])
            else:
                d, ncs = compare(tout, iobs, mobs)
                report["cases"] += ncs
                txt = open(tout).read()
                report["events"] += sum(1 for l in txt.splitlines() if l.split(" ")[0] in ("MCONN", "MEND", "MPROBE"))
                for k, v in load_stats(st).items():
                    report["distribution"][k] = report["distribution"].get(k, 0) + v
                for x in d:
                    diffs.append((tag,) + x)
                okc, outc = coq_mlimit(txt, open(mobs).read(), work)
                if not okc:
                    report["errors"].append("in-Coq evaluation of the listener histories disagrees with the extracted runner: " + outc[-800:])
                if not report["samples"]:
                    cs = split_cases(txt)
                    if cs:
                        report["samples"].append({"suite": tag, "trace": cs[0][1][:14]})
                report["suites"].append(tag)
    if cfg.get("slow"):
        # a client that does not read while the server answers megabytes: every response must
        # still arrive complete, in order, byte for byte (expected bytes computed by the harness)
        tag = "slow_reader"
        mon = os.path.join(work, "slow.monitor")
        rc, out = sh([HBIN, "slow-probe", "--monitor", mon], timeout=600)
        if rc != 0:
            report["errors"].append("harness failed on suite %s: %s" % (tag, out[-500:]))
        else:
            lines = open(mon).read().splitlines()
            report["cases"] += len(lines)
            report["distribution"]["slow_reader_scenarios"] = len(lines)
            for line in lines:
                p = line.split(" ")
                if len(p) >= 3 and p[2] != "ok":
                    monitor.append({"kind": "SLOW", "case": p[1], "class": p[2], "suite": tag,
                                    "trace": ["slow reader: set %s; then get, getk, get, noop pipelined and not read for 400 ms" % p[1], line]})
            report["suites"].append(tag)
    if cfg.get("pol"):
        # the random eviction policy under controlled schedules: implementation vs Model/PolConc.v
        tag = "conc_pol"
        tout, iobs, mobs, mon, st = [os.path.join(work, tag + e) for e in (".trace", ".impl", ".model", ".monitor", ".stats")]
        cmd = [HBIN, "pol-gen", "--seed", str(seed), "--cases", str(cfg["pol"] * mult),
               "--trace", tout, "--obs", iobs, "--monitor", mon, "--stats", st]
        rc, out = sh(cmd, timeout=3000)
        if rc != 0:
            report["errors"].append("harness failed on suite %s: %s" % (tag, out[-500:]))
        else:
            ok, out = run_model(tout, mobs)
            if not ok:
                report["errors"].append("runner failed on %s: %s" % (tag, out[-500:]))
            else:
                d, ncs = compare(tout, iobs, mobs)
                report["cases"] += ncs
                report["conc_cases"] = report.get("conc_cases", 0) + ncs
                stj = load_stats(st)
                report["events"] += stj.get("conc_steps", 0)
                report["distribution"]["policy_conc_steps"] = report["distribution"].get("policy_conc_steps", 0) + stj.get("conc_steps", 0)
                txt = open(tout).read()
                for kind in ("set", "get", "del", "flush"):
                    report["distribution"]["policy_conc_" + kind] = sum(l.count(kind + ":") for l in txt.splitlines() if l.startswith("PTH "))
                report["distribution"]["policy_conc_scans"] = sum(len(l.split(";")) for l in txt.splitlines() if l.startswith("PSCANS ") and l != "PSCANS none")
                traces = dict(split_cases(txt))
                report.setdefault("conc_trace_files", []).append(tout)
                for x in d:
                    diffs.append((tag,) + x)
                for line in open(mon).read().splitlines():
                    p = line.split(" ")
                    monitor.append({"kind": p[0], "case": p[1], "class": p[2] if len(p) > 2 else "", "trace": traces.get(p[1], []), "suite": tag})
                if not report["samples"]:
                    cs = split_cases(txt)
                    if cs:
                        report["samples"].append({"suite": tag, "trace": [l[:160] for l in cs[0][1][:12]]})
                report["suites"].append(tag)
    if cfg.get("sweep"):
        tag = "sweep"
        mon, st = os.path.join(work, "sweep.monitor"), os.path.join(work, "sweep.stats")
        cmd = [HBIN, "conc-sweep", "--seed", str(seed), "--cases", str(cfg["sweep"] * mult),
               "--stress-ms", "1500" if tier == "quick" else "60000", "--monitor", mon, "--stats", st]
        rc, out = sh(cmd, timeout=3000)
        if rc != 0:
            report["errors"].append("harness failed on suite sweep: %s" % out[-500:])
        else:
            stj = load_stats(st)
            report["cases"] += stj.get("sweep_cases", 0)
            report["events"] += stj.get("sweep_steps", 0)
            for k, v in stj.items():
                report["distribution"][k] = report["distribution"].get(k, 0) + v
            for line in open(mon).read().splitlines():
                p = line.split(" ")
                monitor.append({"kind": p[0], "case": p[1], "class": p[2] if len(p) > 2 else "", "trace": [line], "suite": tag})
            report["suites"].append(tag)
    return diffs, monitor


def write_evidence(prop, tier, seed, coverage, wall, violations, assumptions=None):
    os.makedirs(os.path.join(ROOT, "evidence"), exist_ok=True)
    ev = {
        "property_id": prop, "tier": tier, "seed": seed, "level": "proof",
        "coverage": coverage, "wall_s": round(wall, 2), "violations": violations,
        "assumptions": assumptions or TRUSTED_BASE,
    }
    with open(os.path.join(ROOT, "evidence", prop + ".json"), "w") as f:
        json.dump(ev, f, indent=1)


def write_replay(prop, body):
    os.makedirs(os.path.join(ROOT, "replays"), exist_ok=True)
    h = hashlib.sha1(json.dumps(body, sort_keys=True).encode()).hexdigest()[:10]
    p = os.path.join(ROOT, "replays", "%s-%s.json" % (prop, h))
    body = dict(body)
    body["property"] = prop
    body["replay_cmd"] = "./check %s --replay %s" % (prop, os.path.relpath(p, ROOT))
    with open(p, "w") as f:
        json.dump(body, f, indent=1)
    return p


def run_seq_suites(prop, cfg, tier, seed, work, report):
    """corpus + generated suites through harness and runner. Returns list of diffs."""
    all_diffs = []
    mult = 1 if tier == "quick" else 30
    suites = []
    # corpus first: the minimized inputs on which seeded changes of this property made the two
    # sides disagree (tools/mkcorpus.py; on the unchanged tree they agree)
    cdir = os.path.join(ROOT, "corpus")
    for profile in ("seq", "conn"):
        cf = os.path.join(cdir, "%s.%s.trace" % (prop, profile))
        if not os.path.exists(cf):
            continue
        tag = ("conn_" if profile == "conn" else "") + "corpus_" + profile
        tout, iobs, mobs = [os.path.join(work, tag + e) for e in (".trace", ".impl", ".model")]
        cmd = [HBIN, profile + "-replay", "--in", cf, "--trace", tout, "--obs", iobs]
        rc, out = sh(cmd, timeout=900)
        if rc != 0 and profile == "conn":
            rc, out = sh(cmd, timeout=900)
        if rc != 0:
            report["errors"].append("harness failed on corpus %s: %s" % (cf, out[-500:]))
            continue
        suites.append((tag, tout, iobs, mobs, None))
        report["distribution"]["corpus_cases_" + profile] = sum(1 for l in open(cf) if l.startswith("CASE "))
    allsuites = [("seq",) + t for t in cfg.get("seq", SEQ_DEFAULT)] + [("conn",) + t for t in cfg.get("conn", [])]
    for si, (profile, flavor, il, ml, ncases, steps) in enumerate(allsuites):
        tag = "%s_%d_%s" % (profile, si, flavor)
        tout, iobs, mobs, st = [os.path.join(work, tag + e) for e in (".trace", ".impl", ".model", ".stats")]
        # every silence of the idle flavour costs the receive timeout in wall time
        m2 = min(mult, 5) if flavor == "idle" else mult
        cmd = [HBIN, profile + "-gen", "--seed", str(seed + si), "--cases", str(ncases * m2), "--steps", str(steps),
               "--flavor", flavor, "--item-limit", str(il), "--prefix", "%s%d" % (profile[0], si),
               "--trace", tout, "--obs", iobs, "--stats", st]
        if ml is not None:
            cmd += ["--mem-limit", str(ml)]
        rc, out = sh(cmd, timeout=1800)
        if rc != 0:
            # a loaded machine can make the socket profile miss a deadline: one retry before it counts
            rc, out2 = sh(cmd, timeout=1800)
            out += out2
        if rc != 0:
            report["errors"].append("harness failed on suite %s: %s" % (tag, out[-500:]))
            continue
        suites.append((tag, tout, iobs, mobs, st))
    distinct = set()
    for tag, tout, iobs, mobs, st in suites:
        ok, out = run_model(tout, mobs, socket=tag.startswith("conn_"))
        if not ok:
            report["errors"].append("runner failed on %s: %s" % (tag, out[-500:]))
            continue
        diffs, ncases = compare(tout, iobs, mobs)
        report["cases"] += ncases
        txt = open(tout).read()
        report["events"] += sum(1 for l in txt.splitlines() if l[:1] in "CET")
        for cid, lines in split_cases(open(iobs).read()):
            # non-trivial: at least one successful (status 0) response and a non-empty store dump
            if any(l.startswith("R ") and l[14:18] == "0000" for l in lines) and any(l.startswith("M ") for l in lines):
                distinct.add(hashlib.sha1("\n".join(lines[1:]).encode()).hexdigest())
        if st and os.path.exists(st):
            for k, v in load_stats(st).items():
                report["distribution"][k] = report["distribution"].get(k, 0) + v
                mp = cfg.get("monitor_prefix")
                if mp and k.startswith(mp) and v > 0:
                    report["errors"].append("monitor %s fired %d times in suite %s (trace %s)" % (k, v, tag, tout))
        if not report["samples"]:
            cs = split_cases(txt)
            if cs:
                report["samples"].append({"suite": tag, "trace": cs[0][1][:12]})
        for d in diffs:
            all_diffs.append((tag,) + d)
        report["suites"].append(tag)
        if not tag.startswith("conn_") and not tag.endswith("_big"):
            report["trace_files"].append(tout)   # (100 KB values are not re-evaluated inside Coq)
    report["distinct_nontrivial"] = len(distinct)
    return all_diffs


def main(argv):
    if not argv or argv[0] in ("-h", "--help"):
        print(__doc__)
        return 2
    if argv[0] == "--setup":
        return setup()
    prop = argv[0]
    tier = os.environ.get("VERIF_TIER", "quick")
    replay = None
    i = 1
    while i < len(argv):
        if argv[i] == "--tier":
            tier = argv[i + 1]; i += 2
        elif argv[i] == "--replay":
            replay = argv[i + 1]; i += 2
        else:
            i += 1
    seed = int(os.environ.get("VERIF_SEED", "1"))
    if prop not in PROPS:
        print("unknown property %s" % prop)
        return 2
    import vprops
    return vprops.run_property(prop, tier, seed, replay)


def setup():
    t0 = time.time()
    with BuildLock():
        ok, out = ensure_tables()
        print(out)
        if not ok:
            return 1
        ok, out = ensure_makefile()
        if not ok:
            print(out); return 1
        rc, out = sh("make -j16", cwd=COQ, timeout=3000)
        print(out[-3000:])
        if rc != 0:
            return 1
        ok, out = ensure_runner()
        if not ok:
            print(out[-3000:]); return 1
        ok, out = ensure_harness()
        if not ok:
            print(out[-3000:]); return 1
    print("setup done in %.0fs" % (time.time() - t0))
    return 0
