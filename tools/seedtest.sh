#!/bin/bash
# usage: tools/seedtest.sh <patch.diff> <PROP> [<PROP>...]
# applies a seeded change to /repo, runs the given checks, and undoes it straight afterwards;
# the evidence files (which describe the unchanged tree) are put back as they were
set -u
patch="$(readlink -f "$1")"; shift
bak=$(mktemp -d)
cp -a /verif/evidence "$bak/evidence"
git -C /repo apply "$patch" || { echo "patch does not apply"; rm -rf "$bak"; exit 2; }
trap 'git -C /repo checkout -- . ; git -C /repo clean -fdq memcrs/tests 2>/dev/null; rm -rf /verif/evidence; mv "$bak/evidence" /verif/evidence; rm -rf "$bak"' EXIT
for p in "$@"; do
  out=$(cd /verif && ./check "$p" 2>&1 | grep -E "VIOLATION|held|FAILED" | head -4)
  echo "== $p: $out"
done
