(* C04 — Read-modify-write commands (add/replace/append/prepend/incr/decr).
   The full statement — every concurrent history containing them is equivalent
   to a sequential one — is FALSE of the faithful model: in memc-rs each of them
   is a retrieval followed by a separate store (memcache/store.rs). The four
   refutation witnesses below are concrete schedules that no sequential order
   explains; they are replayed on the real code by the conc profile and listed
   in known_findings.txt (the repair needs an atomic read-modify-write primitive
   on the Cache trait: an API change, not a small fix). What holds is proved:
   run alone each command is the sequential function (C06/C07 then apply), and a
   client CAS turns an interleaved change into 'key exists'. *)
From MC Require Import Model.Base Model.Generated Model.Store Model.Memc Model.Conc Spec.Atomic
  Proofs.StoreLemmas Proofs.SetLemmas Proofs.PC03 Proofs.PC04.

Theorem C04_add_add_refuted :
  let ops := [[MAdd kx (rec_of [x41])]; [MAdd kx (rec_of [x42])]] in
  let conc := outcome 0 ops [0;1;0;1;0;1;0;1;0;1]%nat empty0 in
  fst conc = [[OSetR (ROk 1)]; [OSetR (ROk 2)]] /\
  fst (outcome 0 ops seq01 empty0) = [[OSetR (ROk 1)]; [OSetR (RErr KeyExists)]] /\
  fst (outcome 0 ops seq10 empty0) = [[OSetR (RErr KeyExists)]; [OSetR (ROk 1)]].
Proof. exact add_add_refuted. Qed.
Print Assumptions C04_add_add_refuted.

Theorem C04_incr_lost_refuted :
  let ops := [[MDelta true kx 0 0 1 0]; [MDelta true kx 0 0 1 0]] in
  let conc := outcome 0 ops [0;1;0;1;0;1;0;1;0;1;0;1]%nat five in
  option_map r_val (lookup kx (snd conc)) = Some [x36] /\
  option_map r_val (lookup kx (snd (outcome 0 ops seq01 five))) = Some [x37] /\
  option_map r_val (lookup kx (snd (outcome 0 ops seq10 five))) = Some [x37].
Proof. exact incr_lost_refuted. Qed.
Print Assumptions C04_incr_lost_refuted.

Theorem C04_append_lost_refuted :
  let ops := [[MAppend kx 0 [x41]]; [MAppend kx 0 [x42]]] in
  let conc := outcome 0 ops [0;1;0;1;0;1;0;1;0;1;0;1]%nat onex in
  fst conc = [[OSetR (ROk 2)]; [OSetR (ROk 3)]] /\
  option_map r_val (lookup kx (snd conc)) = Some [x78; x42] /\
  option_map r_val (lookup kx (snd (outcome 0 ops seq01 onex))) = Some [x78; x41; x42] /\
  option_map r_val (lookup kx (snd (outcome 0 ops seq10 onex))) = Some [x78; x42; x41].
Proof. exact append_lost_refuted. Qed.
Print Assumptions C04_append_lost_refuted.

Theorem C04_resurrect_refuted :
  let ops := [[MReplace kx (rec_of [x52])]; [MBase (OpDel kx 0)]] in
  let conc := outcome 0 ops [0;0;1;1;1;0;0;0;0]%nat onex in
  (exists c r, fst conc = [[OSetR (ROk c)]; [ODelR (ROk r)]]) /\
  option_map r_val (lookup kx (snd conc)) = Some [x52] /\
  lookup kx (snd (outcome 0 ops seq01 onex)) = None /\
  lookup kx (snd (outcome 0 ops seq10 onex)) = None.
Proof. exact resurrect_refuted. Qed.
Print Assumptions C04_resurrect_refuted.

(* run alone, the command's program is the sequential MemcStore function *)
Theorem C04_atomic_when_alone_add : forall now k r s,
  s_limit s = None -> s_now s = now ->
  run_atomic now (mprog_of now (MAdd k r)) (shared_of s) =
  (shared_of (fst (memc_add k r s)), OSetR (snd (memc_add k r s))).
Proof. exact add_prog_seq. Qed.
Print Assumptions C04_atomic_when_alone_add.

(* with a client CAS the store half cannot overwrite an interleaved change *)
Theorem C04_cas_protected : forall now k r s cur,
  0 < r_cas r -> lookup k (sh_mem s) = Some cur -> r_cas cur <> r_cas r ->
  run_atomic now (set_prog now k r) s = (s, OSetR (RErr KeyExists)).
Proof. exact cas_protected. Qed.
Print Assumptions C04_cas_protected.
