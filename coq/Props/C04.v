(* C04 — Read-modify-write commands (add/replace/append/prepend/incr/decr).
   The full statement — every concurrent history containing them is equivalent
   to a sequential one — is FALSE of the faithful model: in memc-rs each of them
   is a retrieval followed by a separate store (memcache/store.rs). The four
   refutation witnesses below are concrete schedules that no sequential order
   explains; they are replayed on the real code by the conc profile and listed
   in known_findings.txt (the repair needs an atomic read-modify-write primitive
   on the Cache trait: an API change, not a small fix). What holds is proved:
   every history is equivalent to a one-at-a-time one PROVIDED no client changes
   what a retrieval answers for a key while another client stands between the
   read and the write of a read-modify-write on that key
   (C04_atomic_without_interference: this delimits the finding exactly — each of
   the four witnesses is such an interference); run alone each command is the
   sequential function (C06/C07 then apply); a client CAS turns an interleaved
   change into 'key exists'. *)
From MC Require Import Model.Base Model.Generated Model.Store Model.Memc Model.Conc Spec.Atomic Spec.AtomicM
  Proofs.StoreLemmas Proofs.SetLemmas Proofs.PC03 Proofs.PC04 Proofs.PC04b.

Theorem C04_add_add_refuted :
  let ops := [[MAdd kx (rec_of [x41])]; [MAdd kx (rec_of [x42])]] in
  let conc := outcome 0 ops [0;1;0;1;0;1;0;1;0;1]%nat empty0 in
  fst conc = [[OSetR (ROk 1)]; [OSetR (ROk 2)]] /\
  fst (outcome 0 ops seq01 empty0) = [[OSetR (ROk 1)]; [OSetR (RErr KeyExists)]] /\
  fst (outcome 0 ops seq10 empty0) = [[OSetR (RErr KeyExists)]; [OSetR (ROk 1)]].
Proof. exact add_add_refuted. Qed.
Print Assumptions C04_add_add_refuted.

Theorem C04_incr_lost_refuted :
  let ops := [[MDelta true kx 0 0 1 0]; [MDelta true kx 0 0 1 0]] in
  let conc := outcome 0 ops [0;1;0;1;0;1;0;1;0;1;0;1]%nat five in
  option_map r_val (lookup kx (snd conc)) = Some [x36] /\
  option_map r_val (lookup kx (snd (outcome 0 ops seq01 five))) = Some [x37] /\
  option_map r_val (lookup kx (snd (outcome 0 ops seq10 five))) = Some [x37].
Proof. exact incr_lost_refuted. Qed.
Print Assumptions C04_incr_lost_refuted.

Theorem C04_append_lost_refuted :
  let ops := [[MAppend kx 0 [x41]]; [MAppend kx 0 [x42]]] in
  let conc := outcome 0 ops [0;1;0;1;0;1;0;1;0;1;0;1]%nat onex in
  fst conc = [[OSetR (ROk 2)]; [OSetR (ROk 3)]] /\
  option_map r_val (lookup kx (snd conc)) = Some [x78; x42] /\
  option_map r_val (lookup kx (snd (outcome 0 ops seq01 onex))) = Some [x78; x41; x42] /\
  option_map r_val (lookup kx (snd (outcome 0 ops seq10 onex))) = Some [x78; x42; x41].
Proof. exact append_lost_refuted. Qed.
Print Assumptions C04_append_lost_refuted.

Theorem C04_resurrect_refuted :
  let ops := [[MReplace kx (rec_of [x52])]; [MBase (OpDel kx 0)]] in
  let conc := outcome 0 ops [0;0;1;1;1;0;0;0;0]%nat onex in
  (exists c r, fst conc = [[OSetR (ROk c)]; [ODelR (ROk r)]]) /\
  option_map r_val (lookup kx (snd conc)) = Some [x52] /\
  lookup kx (snd (outcome 0 ops seq01 onex)) = None /\
  lookup kx (snd (outcome 0 ops seq10 onex)) = None.
Proof. exact resurrect_refuted. Qed.
Print Assumptions C04_resurrect_refuted.

(* the positive half. Any number of clients, each with any list of commands
   (get / set / delete and all six read-modify-write commands) on any keys, any
   initial store, any schedule that passes [ni_sched] — at no step does a client's
   map call change what a retrieval answers for a key that another client has read
   for a read-modify-write it has not written yet. Then a valid one-at-a-time
   trace of Spec/AtomicM.v (each command atomic: look at the key, decide, store)
   reproduces the final shared state and every client's answers in its own order. *)
Theorem C04_atomic_without_interference :
  forall now (opss : list (list mop)) (sched : list nat) (s0 : shared),
  ni_sched now sched (map new_thread opss) s0 = true ->
  let '(ts, s) := run_sched now (mprog_of now) sched (map new_thread opss) s0 in
  exists evs, mvalid now evs s0 /\ mreplay now evs s0 = s /\
    forall i t, nth_thread i ts = Some t ->
      exists pending, mlins i evs = th_done t ++ pending /\ (length pending <= 1)%nat /\
                      (th_cur t = None -> pending = []).
Proof. exact atomic_without_interference. Qed.
Print Assumptions C04_atomic_without_interference.

(* the four refuted schedules are interferences; a schedule that overlaps an
   increment with retrievals of its key and with an append on another key is not,
   and gives the atomic answers *)
Example C04_witnesses_interfere :
  ni_sched 0 [0;1;0;1;0;1;0;1;0;1]%nat (map new_thread [[MAdd kx (rec_of [x41])]; [MAdd kx (rec_of [x42])]]) empty0 = false /\
  ni_sched 0 [0;1;0;1;0;1;0;1;0;1;0;1]%nat (map new_thread [[MDelta true kx 0 0 1 0]; [MDelta true kx 0 0 1 0]]) five = false /\
  ni_sched 0 [0;1;0;1;0;1;0;1;0;1;0;1]%nat (map new_thread [[MAppend kx 0 [x41]]; [MAppend kx 0 [x42]]]) onex = false /\
  ni_sched 0 [0;0;1;1;1;0;0;0;0]%nat (map new_thread [[MReplace kx (rec_of [x52])]; [MBase (OpDel kx 0)]]) onex = false.
Proof. vm_compute. repeat split; reflexivity. Qed.

Example C04_nonvacuous :
  let ops := [[MDelta true kx 0 0 1 0]; [MBase (OpGet kx); MBase (OpGet kx)]; [MAppend [x79] 0 [x21]]] in
  let s0 := mkShared [(kx, mkRec 0 1 0 0 [x35]); ([x79], mkRec 0 2 0 0 [x68])] 3 in
  let sched := [0;1;2;0;1;2;0;1;2;0;1;2;0;1;2;1;1;0;2;2]%nat in
  ni_sched 0 sched (map new_thread ops) s0 = true /\
  option_map r_val (lookup kx (snd (outcome 0 ops sched s0))) = Some [x36] /\
  option_map r_val (lookup [x79] (snd (outcome 0 ops sched s0))) = Some [x68; x21].
Proof. vm_compute. repeat split; reflexivity. Qed.

(* run alone, the command's program is the sequential MemcStore function *)
Theorem C04_atomic_when_alone_add : forall now k r s,
  s_limit s = None -> s_now s = now ->
  run_atomic now (mprog_of now (MAdd k r)) (shared_of s) =
  (shared_of (fst (memc_add k r s)), OSetR (snd (memc_add k r s))).
Proof. exact add_prog_seq. Qed.
Print Assumptions C04_atomic_when_alone_add.

(* with a client CAS the store half cannot overwrite an interleaved change *)
Theorem C04_cas_protected : forall now k r s cur,
  0 < r_cas r -> lookup k (sh_mem s) = Some cur -> r_cas cur <> r_cas r ->
  run_atomic now (set_prog now k r) s = (s, OSetR (RErr KeyExists)).
Proof. exact cas_protected. Qed.
Print Assumptions C04_cas_protected.
