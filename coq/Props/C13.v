(* C13 — Item size limit: oversized requests are refused and skipped cleanly.
   Statements only; proofs in Proofs/PConn.v. With C09_any_two_segmentations the
   statements hold however the stream is cut into reads (in particular however
   much of the oversized body had arrived with its header). *)
From MC Require Import Model.Base Model.Generated Model.Store Model.Codec Model.Handler Model.Conn Model.Run
  Spec.Quiet Proofs.CodecLemmas Proofs.Framing Proofs.Chunking Proofs.PC10 Proofs.PConn Proofs.PGuards Model.RustInt.

(* 'too large' (0x03), nothing stored or changed, opcode and opaque echoed *)
Theorem C13_too_large_response : forall h s,
  handle_request (ReqTooLarge h) s =
  (s, Some (error_response ValueTooLarge (new_rheader (h_opcode h) (h_opaque h)))).
Proof. exact too_large_response. Qed.
Print Assumptions C13_too_large_response.

Theorem C13_too_large_status : cerr_code ValueTooLarge = 3.
Proof. exact too_large_status. Qed.
Print Assumptions C13_too_large_status.

(* for every limit, every valid header of any opcode announcing more than the
   limit, every body of that length and everything that follows: one 'too large'
   answer, then the rest of the pipeline is served exactly as if it had been
   sent alone, on the unchanged store *)
Theorem C13_oversized_skipped : forall limit hb h body post s out,
  header_of_bytes hb = Some (h, []) -> header_valid h = true ->
  limit < h_bodylen h -> blen body = h_bodylen h ->
  pumpF (new_codec limit) (hb ++ body ++ post) s out =
  pumpF (new_codec limit) post s
        (out ++ [encode (error_response ValueTooLarge (new_rheader (h_opcode h) (h_opaque h)))]).
Proof. exact oversized_skipped. Qed.
Print Assumptions C13_oversized_skipped.

(* a request whose body is within the limit is never rejected for size *)
Theorem C13_within_limit_not_refused : forall c b c1 b1 h,
  decode c b = (c1, b1, DFrame (ReqTooLarge h)) -> c_limit c < h_bodylen h.
Proof. exact within_limit_not_refused. Qed.
Print Assumptions C13_within_limit_not_refused.

(* non-vacuity: limit 8, a set announcing 12 bytes split as header+5 | 7+noop *)
Example C13_nonvacuous :
  let hdr := [x80;x01;x00;x01;x08;x00;x00;x00;x00;x00;x00;x0c;x00;x00;x00;x07;x00;x00;x00;x00;x00;x00;x00;x00] in
  let body := [x00;x00;x00;x00;x00;x00;x00;x00;x61;x31;x32;x33] in
  let noop := [x80;x0a;x00;x00;x00;x00;x00;x00;x00;x00;x00;x00;x00;x00;x00;x02;x00;x00;x00;x00;x00;x00;x00;x00] in
  let '(cn, s, out) := feed_all [hdr ++ firstn 5 body; skipn 5 body ++ noop] (new_conn 8) (init_store None) [] in
  length out = 2%nat /\ cn_status cn = COpen /\ s_mem s = [] /\ cn_buf cn = [].
Proof. vm_compute. repeat split. Qed.

(* every comparison of the announced body length with the item size limit in the
   codec's source (translated on every run, tools/rsexpr.py) is the model's
   [limit <? body_length], and the request path has one (decode, site 3, or
   parse_request, site 2) *)
Theorem C13_size_guards_are_source : src_size_guards_ok = true ->
  (In 2 src_size_guard_sites \/ In 3 src_size_guard_sites) /\
  Forall (fun g => forall body limit, g body limit = Some (limit <? body)) src_size_guards.
Proof. exact size_guards_are_source. Qed.
Print Assumptions C13_size_guards_are_source.
