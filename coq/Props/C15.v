(* C15 — No eviction without memory pressure (accounting tracks content).
   Statements only; proofs in Proofs/PPolicy.v. [headroom]: the stored bytes stay
   far below 2^64 (16 EiB). *)
From Coq Require Import ZArith.
From MC Require Import Model.Base Model.Generated Model.Store Model.Memc Model.Codec Model.Handler
  Model.PolConc Spec.Exec Proofs.StoreLemmas Proofs.SetLemmas Proofs.Effects Proofs.PPolicy Proofs.PPolConc
  Proofs.PPolSeq.

(* every request keeps: keys unique, counter = bytes actually stored *)
Theorem C15_request_keeps_accounting : forall req s,
  acct s -> headroom s req ->
  acct (fst (handle_request req s)) /\ s_limit (fst (handle_request req s)) = s_limit s.
Proof. exact handle_acct. Qed.
Print Assumptions C15_request_keeps_accounting.

(* over every history from the initial store — overwrites, deletes, failed
   conditional stores, expirations, counter updates, appends, flushes, evictions —
   the counter equals the stored bytes, and is 0 whenever the store is empty *)
Theorem C15_accounting_exact : forall lim L cs,
  lim = Some L -> hist_headroom (init_store lim) cs ->
  s_usage (run (init_store lim) cs) = total (s_mem (run (init_store lim) cs)) /\
  (s_mem (run (init_store lim) cs) = [] -> s_usage (run (init_store lim) cs) = 0).
Proof. exact accounting_exact. Qed.
Print Assumptions C15_accounting_exact.

(* hence: while the stored bytes are within the limit a store evicts nothing —
   every other key is exactly as before *)
Theorem C15_no_eviction_below_limit : forall k r s L,
  acct s -> s_limit s = Some L -> total (s_mem s) <= L ->
  forall k', k' <> k -> lookup k' (s_mem (fst (set k r s))) = lookup k' (s_mem s).
Proof. exact no_eviction_below_limit. Qed.
Print Assumptions C15_no_eviction_below_limit.

(* lazy expiry and delete return what they remove to the counter *)
Theorem C15_get_keeps_accounting : forall k s, acct s -> acct (fst (get k s)).
Proof. exact get_acct. Qed.
Print Assumptions C15_get_keeps_accounting.

Theorem C15_flush_keeps_accounting : forall d s, acct s -> acct (flush d s).
Proof. exact flush_acct. Qed.
Print Assumptions C15_flush_keeps_accounting.

(* under concurrency (Model/PolConc.v: any clients, any schedule of the atomic
   map and counter calls, any outcome of the scans): the accounted usage never runs
   below the bytes stored — so the counter never wraps and nothing is evicted on
   account of bytes that are not there once the operations in progress have
   finished — and equals them exactly whenever no operation is in progress *)
Theorem C15_accounting_exact_concurrent :
  forall (now : N) (limit : Z), (0 <= limit)%Z ->
  forall (clients : list (list pores -> option pop)) (s0 : pshared) (sched : list nat),
  NoDup (keys (p_mem s0)) -> p_usage s0 = totz s0 ->
  let '(ts, s) := prun_sched now limit sched (map (fun c => new_gthread c) clients) s0 in
  (totz s <= p_usage s)%Z /\ (Forall idle ts -> p_usage s = totz s).
Proof. exact accounting_exact_conc. Qed.
Print Assumptions C15_accounting_exact_concurrent.

(* the two models of random_policy.rs describe the same code: run without
   interleaving, the concurrent programs are the sequential functions of
   Model/Store.v (for [set]: while the usage is within the limit, where neither
   model's oracle has anything to say) *)
Theorem C15_pget_prog_is_get : forall L k s o,
  acct s -> s_limit s = Some L ->
  grun (pact (s_now s)) (pget_prog (s_now s) k) (pshared_of s o) =
  (pshared_of (fst (get k s)) o, PGetR (snd (get k s))).
Proof. exact pget_seq. Qed.
Print Assumptions C15_pget_prog_is_get.

Theorem C15_pdel_prog_is_delete : forall L now k c s o,
  acct s -> s_limit s = Some L ->
  grun (pact now) (pdel_prog k c) (pshared_of s o) =
  (pshared_of (fst (delete k c s)) o, PDelR (snd (delete k c s))).
Proof. exact pdel_seq. Qed.
Print Assumptions C15_pdel_prog_is_delete.

Theorem C15_pset_prog_is_set : forall L limit k r s o,
  acct s -> s_limit s = Some L -> limit = Z.of_N L -> s_usage s <= L ->
  total (s_mem s) + rec_len r < two64 ->
  grun (pact (s_now s)) (pset_prog (s_now s) limit k r) (pshared_of s o) =
  (pshared_of (fst (set k r s)) o, PSetR (snd (set k r s))).
Proof. exact pset_seq. Qed.
Print Assumptions C15_pset_prog_is_set.

(* non-vacuity: a client collecting an expired record while another overwrites it
   and a third flushes; everything returns to 'usage = stored bytes' *)
Example C15_concurrent_nonvacuous :
  let k := [x6b] in
  let s0 := mkP [(k, mkRec 0 1 0 2 [x6f; x6c; x64]); ([x6a], mkRec 0 2 0 0 [x78])] 3 52%Z [] in
  let ops := [[PoGet k]; [PoSet k (mkRec 0 0 7 0 [x6e; x65; x77; x21])]; [PoDel [x6a] 0]] in
  let ts0 := map (fun o => new_gthread (list_client o)) ops in
  let '(ts, s) := prun_sched 5 1000%Z [0;0;1;1;1;0;1;2;2;0;1;1;2;0;0;1;2;2]%nat ts0 s0 in
  Forall idle ts /\ p_usage s = totz s /\ totz s = 28%Z /\
    map (@g_done _ _ _ _) ts = [[PGetR (RErr NotFound)]; [PSetR (ROk 3)]; [PDelR (ROk (mkRec 0 2 0 0 [x78]))]].
Proof. vm_compute. repeat split; repeat constructor. Qed.

Example C15_nonvacuous :
  let s0 := init_store (Some 1000) in
  let put k n s := fst (set [k] (mkRec 0 0 0 0 (repeat x61 n)) s) in
  let s30 := Nat.iter 30 (put x61 10%nat) (put x62 10%nat s0) in
  s_usage s30 = 68 /\ lookup [x62] (s_mem s30) <> None /\ s_usage (flush 0 s30) = 0.
Proof. vm_compute. repeat split; discriminate. Qed.
