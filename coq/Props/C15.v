(* C15 — No eviction without memory pressure (accounting tracks content).
   Statements only; proofs in Proofs/PPolicy.v. [headroom]: the stored bytes stay
   far below 2^64 (16 EiB). *)
From MC Require Import Model.Base Model.Generated Model.Store Model.Memc Model.Codec Model.Handler
  Spec.Exec Proofs.StoreLemmas Proofs.SetLemmas Proofs.Effects Proofs.PPolicy.

(* every request keeps: keys unique, counter = bytes actually stored *)
Theorem C15_request_keeps_accounting : forall req s,
  acct s -> headroom s req ->
  acct (fst (handle_request req s)) /\ s_limit (fst (handle_request req s)) = s_limit s.
Proof. exact handle_acct. Qed.
Print Assumptions C15_request_keeps_accounting.

(* over every history from the initial store — overwrites, deletes, failed
   conditional stores, expirations, counter updates, appends, flushes, evictions —
   the counter equals the stored bytes, and is 0 whenever the store is empty *)
Theorem C15_accounting_exact : forall lim L cs,
  lim = Some L -> hist_headroom (init_store lim) cs ->
  s_usage (run (init_store lim) cs) = total (s_mem (run (init_store lim) cs)) /\
  (s_mem (run (init_store lim) cs) = [] -> s_usage (run (init_store lim) cs) = 0).
Proof. exact accounting_exact. Qed.
Print Assumptions C15_accounting_exact.

(* hence: while the stored bytes are within the limit a store evicts nothing —
   every other key is exactly as before *)
Theorem C15_no_eviction_below_limit : forall k r s L,
  acct s -> s_limit s = Some L -> total (s_mem s) <= L ->
  forall k', k' <> k -> lookup k' (s_mem (fst (set k r s))) = lookup k' (s_mem s).
Proof. exact no_eviction_below_limit. Qed.
Print Assumptions C15_no_eviction_below_limit.

(* lazy expiry and delete return what they remove to the counter *)
Theorem C15_get_keeps_accounting : forall k s, acct s -> acct (fst (get k s)).
Proof. exact get_acct. Qed.
Print Assumptions C15_get_keeps_accounting.

Theorem C15_flush_keeps_accounting : forall d s, acct s -> acct (flush d s).
Proof. exact flush_acct. Qed.
Print Assumptions C15_flush_keeps_accounting.

Example C15_nonvacuous :
  let s0 := init_store (Some 1000) in
  let put k n s := fst (set [k] (mkRec 0 0 0 0 (repeat x61 n)) s) in
  let s30 := Nat.iter 30 (put x61 10%nat) (put x62 10%nat s0) in
  s_usage s30 = 68 /\ lookup [x62] (s_mem s30) <> None /\ s_usage (flush 0 s30) = 0.
Proof. vm_compute. repeat split; discriminate. Qed.
