(* C05 — Expiry: items live for their TTL and never longer. Statements only;
   proofs in Proofs/PC05.v. Reading decision (DESIGN §5): set with a non-zero CAS
   and delete compare against an expired-but-uncollected record; the property
   lists neither among the commands that must treat it as absent. *)
From MC Require Import Model.Base Model.Generated Model.Store Model.Memc Model.Codec Model.Handler
  Model.Conc Model.PolConc Spec.Exec Proofs.StoreLemmas Proofs.SetLemmas Proofs.MemcLemmas Proofs.Effects Proofs.PC06
  Proofs.PC01 Proofs.PC05 Proofs.PC05c Proofs.PGuards Model.RustInt.

(* stored at time t with TTL e: retrievable at every clock < t + e (e = 0: for
   ever), whatever happens to other keys *)
Theorem C05_live_until : forall s h f e k v s' c cs,
  plain s -> 0 < s_cas s ->
  handle_request (ReqSet VSet h f e k v) s = (s', Some (ok_resp h c)) ->
  Forall (leaves_alone k) cs ->
  (e = 0 \/ s_now (run s' cs) < s_now s + e) ->
  view (run s' cs) k = Some (mkRec (s_now s) c f e v).
Proof. exact live_until. Qed.
Print Assumptions C05_live_until.

(* ... and never returned at any clock >= t + e *)
Theorem C05_dead_after_ttl : forall s h f e k v s' c cs,
  plain s -> 0 < s_cas s -> e <> 0 ->
  handle_request (ReqSet VSet h f e k v) s = (s', Some (ok_resp h c)) ->
  Forall (leaves_alone k) cs ->
  s_now s + e <= s_now (run s' cs) ->
  view (run s' cs) k = None.
Proof. exact dead_after_ttl. Qed.
Print Assumptions C05_dead_after_ttl.

(* in every state: a record past its deadline is not returned *)
Theorem C05_dead_from : forall s k r,
  lookup k (s_mem s) = Some r -> r_ttl r <> 0 -> r_ts r + r_ttl r <= s_now s -> view s k = None.
Proof. exact dead_from. Qed.
Print Assumptions C05_dead_from.

(* no command prolongs an item's life: the deadline of k's record moves later
   only when a command addressed to k writes the record afresh (a successful
   mutation, stamped with the current time); in particular not by a flush *)
Theorem C05_deadline_never_prolonged : forall s k cm r r',
  plain s -> lookup k (s_mem s) = Some r -> lookup k (s_mem (exec s cm)) = Some r' ->
  dl_le (deadline r') (deadline r) \/
  (exists req, cm = CReq req /\ key_of req = Some k /\ r_ts r' = s_now s).
Proof. exact deadline_step. Qed.
Print Assumptions C05_deadline_never_prolonged.

(* get, add, replace, append, prepend, incr, decr treat an expired item exactly
   as an absent one: same reply, same resulting store *)
Theorem C05_expired_is_absent : forall req s k,
  plain s -> view s k = None -> key_of req = Some k -> starts_with_get req ->
  handle_request req s = handle_request req (collected s k).
Proof. exact expired_is_absent. Qed.
Print Assumptions C05_expired_is_absent.

(* so does an unconditional set (same reply, same content) *)
Theorem C05_set_on_expired : forall s k h f e v q,
  plain s -> view s k = None -> h_cas h = 0 ->
  let req := ReqSet (if q : bool then VSetQ else VSet) h f e k v in
  snd (handle_request req s) = snd (handle_request req (collected s k)) /\
  store_equiv (fst (handle_request req s)) (fst (handle_request req (collected s k))).
Proof. exact set_on_expired. Qed.
Print Assumptions C05_set_on_expired.

(* once invisible, a key becomes visible again only by a command addressed to it
   that writes a fresh record — never by a flush, a tick or another key's command *)
Theorem C05_no_resurrection : forall s k cm r',
  plain s -> view s k = None -> view (exec s cm) k = Some r' ->
  exists req, cm = CReq req /\ key_of req = Some k /\ r_ts r' = s_now s.
Proof. exact no_resurrection. Qed.
Print Assumptions C05_no_resurrection.

(* non-vacuity: an expired, uncollected record next to a live one *)
Example C05_nonvacuous :
  let s := mkStore [([x61], mkRec 3 1 0 5 [x31]); ([x62], mkRec 3 2 0 6 [x32])] 3 8 None 0 [] in
  plain s /\ view s [x61] = None /\ view s [x62] = Some (mkRec 3 2 0 6 [x32]) /\
  lookup [x61] (s_mem s) = Some (mkRec 3 1 0 5 [x31]).
Proof. repeat split. Qed.

(* under concurrency (clock constant in the window): whatever the interleaving
   of any clients' gets, sets, CAS-sets and deletes — on the plain store and
   behind the eviction policy, with evictions, flushes and the collection of
   expired records going on — no retrieval ever answers with a record that is past
   its deadline (corollaries of C03_linearizable and C03_linearizable_policy) *)
Theorem C05_no_expired_answer_concurrent : forall now (opss : list (list op)) (sched : list nat) (s0 : shared),
  let '(ts, _) := run_sched now (prog_of now) sched (map new_thread opss) s0 in
  forall i t r, nth_thread i ts = Some t -> In (OGetR (ROk r)) (th_done t) -> expired now r = false.
Proof. exact no_expired_answer_conc. Qed.
Print Assumptions C05_no_expired_answer_concurrent.

Theorem C05_no_expired_answer_policy :
  forall now limit (clients : list (list pores -> option pop)) (sched : list nat) (s0 : pshared),
  let '(ts, _) := prun_sched now limit sched (map (fun c => new_gthread c) clients) s0 in
  forall i t r, gnth i ts = Some t -> In (PGetR (ROk r)) (g_done t) -> expired now r = false.
Proof. exact no_expired_answer_policy. Qed.
Print Assumptions C05_no_expired_answer_policy.

(* the expiry tests of the source (MemoryStore::check_if_expired: the early returns on
   the record that was read, the predicate on the record stored when it removes),
   translated on every run, evaluate to the model's [expired] wherever timestamp + ttl
   fits a u64; and a delayed flush re-dates exactly the records the model re-dates *)
Theorem C05_expired_read_is_source : src_expired_read_ok = true ->
  forall r now, r_ts r + r_ttl r < two64 ->
  src_expired_read (r_ts r) (r_ttl r) now = Some (expired now r).
Proof. exact expired_read_is_source. Qed.
Print Assumptions C05_expired_read_is_source.

Theorem C05_expired_stored_is_source : src_expired_stored_ok = true ->
  forall r now, r_ts r + r_ttl r < two64 ->
  src_expired_stored (r_ts r) (r_ttl r) now = Some (expired now r).
Proof. exact expired_stored_is_source. Qed.
Print Assumptions C05_expired_stored_is_source.

Theorem C05_flush_redate_is_source : src_flush_redate_ok = true ->
  forall r now delay, r_ts r + r_ttl r < two64 -> now + delay < two64 ->
  exists b, src_flush_redate (r_ts r) (r_ttl r) now delay = Some b /\
            flush_record now delay r =
              if b then mkRec now (r_cas r) (r_flags r) delay (r_val r) else r.
Proof. exact flush_redate_is_source. Qed.
Print Assumptions C05_flush_redate_is_source.
