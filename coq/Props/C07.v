(* C07 — Counters: incr/decr arithmetic, creation and error rules. Statements
   only; proofs in Proofs/PC07.v, Proofs/Decimal.v. "Decimal u64" is every byte
   string Rust's u64 parser accepts (parse_u64: optional '+', ASCII digits,
   value < 2^64); the error is stated for every string it rejects. A non-zero,
   non-matching CAS: C02_delta_cas_mismatch. *)
From MC Require Import Model.Base Model.Generated Model.Store Model.Memc Model.Codec Model.Handler
  Spec.Exec Proofs.Decimal Proofs.StoreLemmas Proofs.SetLemmas Proofs.MemcLemmas Proofs.Effects
  Proofs.PC06 Proofs.PC01 Proofs.PC02 Proofs.PC07 Proofs.PGuards Model.RustInt.

Theorem C07_delta_result_spec : forall incr n d,
  delta_result incr n d = if incr then (n + d) mod two64 else N.max (n - d) 0.
Proof. exact delta_result_spec. Qed.
Print Assumptions C07_delta_result_spec.

(* what is stored is what is returned: the decimal text parses back to the number *)
Theorem C07_render_parse : forall v, v < two64 -> parse_u64 (to_dec v) = Some v.
Proof. exact to_dec_parse. Qed.
Print Assumptions C07_render_parse.

(* incr/decr on a visible numeric item: the reply carries the new number, the
   item holds its decimal text, keeps its flags, gets the request's expiration
   and a new CAS; every other key is untouched *)
Theorem C07_delta_on_numeric : forall (incr : bool) s k old n h d i e,
  plain s -> view s k = Some old -> parse_u64 (r_val old) = Some n ->
  (h_cas h = 0 \/ h_cas h = r_cas old) ->
  exists s' c,
    handle_request (ReqIncr (if incr then VIncr else VDecr) h d i e k) s =
      (s', Some (counter_response h c (delta_result incr n d))) /\
    stores s s' k (mkRec (s_now s) c (r_flags old) e (to_dec (delta_result incr n d))) /\
    parse_u64 (to_dec (delta_result incr n d)) = Some (delta_result incr n d).
Proof. exact delta_on_numeric. Qed.
Print Assumptions C07_delta_on_numeric.

Theorem C07_delta_creates : forall (incr : bool) s k h d i e,
  plain s -> view s k = None -> e <> u32_max ->
  exists s' c,
    handle_request (ReqIncr (if incr then VIncr else VDecr) h d i e k) s =
      (s', Some (counter_response h c i)) /\
    stores s s' k (mkRec (s_now s) c 0 e (to_dec i)).
Proof. exact delta_creates. Qed.
Print Assumptions C07_delta_creates.

Theorem C07_delta_no_create : forall (incr : bool) s k h d i,
  plain s -> view s k = None ->
  handle_request (ReqIncr (if incr then VIncr else VDecr) h d i u32_max k) s =
    (collected s k, Some (err_resp h NotFound)).
Proof. exact delta_no_create. Qed.
Print Assumptions C07_delta_no_create.

Theorem C07_delta_non_numeric : forall (incr : bool) s k old h d i e,
  view s k = Some old -> parse_u64 (r_val old) = None ->
  handle_request (ReqIncr (if incr then VIncr else VDecr) h d i e k) s =
    (s, Some (err_resp h ArithOnNonNumeric)).
Proof. exact delta_non_numeric. Qed.
Print Assumptions C07_delta_non_numeric.

Theorem C07_status_codes :
  cerr_code ArithOnNonNumeric = 6 /\ cerr_code NotFound = 1 /\ u32_max = 4294967295.
Proof. repeat split. Qed.
Print Assumptions C07_status_codes.

Example C07_nonvacuous :
  parse_u64 [x31; x38; x34; x34; x36; x37; x34; x34; x30; x37; x33; x37; x30; x39; x35; x35; x31; x36; x31; x35]
    = Some 18446744073709551615 /\
  delta_result true 18446744073709551615 1 = 0 /\ delta_result false 3 5 = 0 /\
  parse_u64 [x2b; x35] = Some 5 /\ parse_u64 [x2d; x35] = None /\ parse_u64 [] = None /\
  parse_u64 [x20; x37] = None /\ to_dec 0 = [x30].
Proof. repeat split. Qed.

(* the counter arithmetic of the source (the if-chain in MemcStore::add_delta, translated
   on every run with u64 semantics: wrapping_add wraps, `-` panics below zero) never
   panics and is the model's; so is the test that decides whether an absent counter is
   created *)
Theorem C07_delta_is_source : src_delta_ok = true ->
  forall incr v d, src_delta incr v d = Some (delta_result incr v d).
Proof. exact delta_is_source. Qed.
Print Assumptions C07_delta_is_source.

Theorem C07_delta_creates_is_source : src_delta_creates_ok = true ->
  forall e, src_delta_creates e = Some (negb (e =? u32_max)).
Proof. exact delta_creates_is_source. Qed.
Print Assumptions C07_delta_creates_is_source.
