(* C02 — CAS guards against lost updates. Statements only; proofs in Proofs/PC02.v
   (add/replace/append/prepend with a CAS: C06_replace_on_present, C06_append_on_present,
   C06_prepend_on_present; add never succeeds on a visible item: C06_add_on_present). *)
From MC Require Import Model.Base Model.Generated Model.Store Model.Memc Model.Codec Model.Handler
  Spec.Exec Proofs.StoreLemmas Proofs.SetLemmas Proofs.MemcLemmas Proofs.Effects Proofs.PC06
  Proofs.PC01 Proofs.PC02.

(* the protocol's number and text for 'key exists' *)
Theorem C02_key_exists_status : cerr_code KeyExists = 2 /\ err_resp_status_is_2.
Proof. split; [reflexivity|exact err_resp_status_2]. Qed.
Print Assumptions C02_key_exists_status.

(* set with a non-zero CAS on a visible item: success iff the CAS is current;
   failure is 'key exists' and the store is identical; success installs exactly
   the request's data under the acknowledged CAS *)
Theorem C02_set_cas_iff : forall s k old h f e v,
  plain s -> view s k = Some old -> h_cas h <> 0 ->
  (h_cas h = r_cas old ->
   exists s' c, handle_request (ReqSet VSet h f e k v) s = (s', Some (ok_resp h c)) /\
                stores s s' k (mkRec (s_now s) c f e v)) /\
  (h_cas h <> r_cas old ->
   handle_request (ReqSet VSet h f e k v) s = (s, Some (err_resp h KeyExists))).
Proof. exact set_cas_iff. Qed.
Print Assumptions C02_set_cas_iff.

Theorem C02_delete_cas_iff : forall s k old h,
  plain s -> view s k = Some old -> h_cas h <> 0 ->
  (h_cas h = r_cas old ->
   handle_request (ReqDelete false h k) s = (collected s k, Some (RespPlain (rh_of h)))) /\
  (h_cas h <> r_cas old ->
   handle_request (ReqDelete false h k) s = (s, Some (err_resp h KeyExists))).
Proof. exact delete_cas_iff. Qed.
Print Assumptions C02_delete_cas_iff.

Theorem C02_delta_cas_mismatch : forall incr s k old n hc he d i,
  plain s -> view s k = Some old -> parse_u64 (r_val old) = Some n ->
  hc <> 0 -> hc <> r_cas old ->
  memc_delta incr k hc he d i s = (s, RErr KeyExists).
Proof. exact delta_cas_mismatch. Qed.
Print Assumptions C02_delta_cas_mismatch.

Theorem C02_delta_cas_match : forall incr s k old n hc he d i,
  plain s -> view s k = Some old -> parse_u64 (r_val old) = Some n ->
  (hc = 0 \/ hc = r_cas old) ->
  exists s' c v, memc_delta incr k hc he d i s = (s', ROk (c, v)) /\
    v = (if incr then wrapping_add64 n d else if n <? d then 0 else n - d) /\
    stores s s' k (mkRec (s_now s) c (r_flags old) he (to_dec v)).
Proof. exact delta_cas_match. Qed.
Print Assumptions C02_delta_cas_match.

(* freshness: a successful mutation of a visible item installs the counter's
   value — larger than every CAS the key has carried since its lifetime began
   with a counter-issued CAS ([below]) — and [below] keeps holding *)
Theorem C02_new_cas_fresh : forall s k old req r',
  plain s -> no_wrap s -> below s k -> view s k = Some old ->
  key_of req = Some k ->
  lookup k (s_mem (exec s (CReq req))) = Some r' -> r_cas r' <> r_cas old ->
  r_cas r' = s_cas s /\ r_cas old < r_cas r' /\ below (exec s (CReq req)) k.
Proof. exact new_cas_fresh. Qed.
Print Assumptions C02_new_cas_fresh.

Theorem C02_below_invariant : forall s k cm,
  plain s -> safe_cmd k s cm -> below s k -> below (exec s cm) k.
Proof. exact below_step. Qed.
Print Assumptions C02_below_invariant.

(* no lost update, over any history (any commands on any keys, ticks, flushes,
   deletions and re-creations) that avoids the property's carve-out on k and the
   2^64 wrap of the counter: if the item still answers to the CAS the client
   read, it still holds the value and flags the client read *)
Theorem C02_no_lost_update : forall s k r0 cs cur,
  plain s -> view s k = Some r0 -> below s k -> safe_hist k s cs ->
  view (run s cs) k = Some cur -> r_cas cur = r_cas r0 ->
  r_val cur = r_val r0 /\ r_flags cur = r_flags r0.
Proof. exact no_lost_update. Qed.
Print Assumptions C02_no_lost_update.

(* non-vacuity: the initial store satisfies the invariants for every key, and a
   visible item with a counter-issued CAS exists after one set *)
Example C02_nonvacuous :
  (forall k, below (init_store None) k) /\ no_wrap (init_store None) /\
  let s1 := fst (handle_request (ReqSet VSet (mkHdr 128 1 1 8 0 0 10 0 0) 0 0 [x61] [x31]) (init_store None)) in
  view s1 [x61] = Some (mkRec 0 1 0 0 [x31]) /\ below s1 [x61] /\ no_wrap s1.
Proof.
  split; [intros k r H; discriminate|]. split; [reflexivity|].
  cbv zeta. split; [reflexivity|]. split; [|reflexivity].
  intros r H. vm_compute in H. injection H as <-. reflexivity.
Qed.
