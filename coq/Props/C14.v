(* C14 — Random eviction keeps stored bytes within the memory limit.
   Statements only; proofs in Proofs/PPolicy.v. The victims are an arbitrary
   oracle ([s_oracle]); every theorem holds for all oracles. [acct s]: keys
   unique, counter = stored bytes, stored bytes < 2^64 (C15). The sequential clause
   is about Model/Store.v; the concurrent clause (C14_bound_concurrent) is about
   Model/PolConc.v, where every Cache operation of the policy is a program over
   its atomic map and counter calls, interleaved by an arbitrary schedule. *)
From Coq Require Import ZArith.
From MC Require Import Model.Base Model.Generated Model.Store Model.Memc Model.Codec Model.Handler
  Model.PolConc Spec.Exec Spec.PolOld Proofs.StoreLemmas Proofs.SetLemmas Proofs.Effects Proofs.PPolicy
  Proofs.PPolConc.

(* the eviction loop terminates within its fuel (one iteration per stored record
   plus one): when it returns, the counter is within the limit or nothing is left;
   it only ever removes, and keeps the accounting exact *)
Theorem C14_evict_terminates : forall fuel L s,
  acct s -> s_limit s = Some L -> (length (s_mem s) < fuel)%nat ->
  let s' := evict fuel L s in
  acct s' /\ s_limit s' = Some L /\ s_now s' = s_now s /\ s_cas s' = s_cas s /\
  total (s_mem s') <= total (s_mem s) /\
  (s_usage s' <= L \/ s_mem s' = []) /\
  (forall k, lookup k (s_mem s') = None \/ lookup k (s_mem s') = lookup k (s_mem s)).
Proof. exact evict_spec. Qed.
Print Assumptions C14_evict_terminates.

(* for every limit (also one smaller than a single record), every oracle: after
   a store the total is at most limit + the record just written, which is there
   (eviction precedes the store: it is never the victim) *)
Theorem C14_bound_after_store : forall k r s L,
  acct s -> s_limit s = Some L -> total (s_mem s) + rec_len r < two64 ->
  let s' := fst (set k r s) in
  acct s' /\ s_limit s' = Some L /\
  match snd (set k r s) with
  | ROk _ => total (s_mem s') <= L + rec_len r /\
             exists new, lookup k (s_mem s') = Some new /\ rec_len new = rec_len r
  | RErr _ => total (s_mem s') <= total (s_mem s)
  end.
Proof. exact set_policy_spec. Qed.
Print Assumptions C14_bound_after_store.

(* every request: the stored bytes do not grow, or end within limit + the record
   that request wrote (set/add/replace: its value; append/prepend: old + new;
   incr/decr: at most 40 digits) *)
Theorem C14_bound_every_request : forall req s L,
  acct s -> s_limit s = Some L -> headroom s req ->
  total (s_mem (fst (handle_request req s))) <= N.max (total (s_mem s)) (L + wsize req s).
Proof. exact handle_total. Qed.
Print Assumptions C14_bound_every_request.

(* the concurrent clause. Any number of clients, each choosing its next Cache
   operation (get / set / delete / flush, with or without delay) from the answers
   it has had; any schedule of their atomic steps; any outcome of the scans of the
   map (the oracle). At every moment — in particular whenever no store is in
   progress — the bytes stored are at most the limit (or what was stored at the
   start, if that was more) plus the records of the stores that were in progress
   together at one earlier instant of the same execution ([in_flight_sum] of the
   clients after a prefix of the schedule): "L plus one record per store that was
   finishing concurrently". *)
Theorem C14_bound_concurrent :
  forall (now : N) (limit : Z), (0 <= limit)%Z ->
  forall (clients : list (list pores -> option pop)) (s0 : pshared) (sched : list nat),
  NoDup (keys (p_mem s0)) -> p_usage s0 = totz s0 ->
  let ts0 := map (fun c => new_gthread c) clients in
  exists pre, prefix pre sched /\
    (totz (snd (prun_sched now limit sched ts0 s0))
     <= Z.max limit (totz s0) + in_flight_sum (fst (prun_sched now limit pre ts0 s0)))%Z.
Proof. exact bound_conc. Qed.
Print Assumptions C14_bound_concurrent.

(* what the theorem above is about did not hold before the repair (DESIGN §6):
   with the replaced size looked up in a separate step, two clients overwriting
   one 1000-byte item with 10 and 1000 bytes leave 1024 bytes stored and 34
   accounted — 990 bytes the eviction loop will never see *)
Theorem C14_prefix_accounting_refuted :
  let k := [x6b] in
  let s0 := mkP [(k, mkRec 0 1 0 0 (repeat x6f 1000))] 2 1024%Z [] in
  let ops := [[PoSet k (mkRec 0 0 0 0 (repeat x61 10))]; [PoSet k (mkRec 0 0 0 0 (repeat x62 1000))]] in
  let ts0 := map (fun o => new_gthread (list_client o)) ops in
  let sched := [0;0;0;1;1;1;0;0;0;0;0;1;1;1;1;1]%nat in
  let old := snd (prun_sched_old 0 100000%Z sched ts0 s0) in
  let new := snd (prun_sched 0 100000%Z sched ts0 s0) in
  (p_usage old = 34%Z /\ totz old = 1024%Z) /\ (p_usage new = 1024%Z /\ totz new = 1024%Z).
Proof. vm_compute. repeat split; reflexivity. Qed.
Print Assumptions C14_prefix_accounting_refuted.

(* non-vacuity of the concurrent clause: limit 100, two clients store 90-byte
   records over an empty store at the same time; both were admitted before either
   stored, 180 bytes end up stored: within 100 + (90 + 90), above 100 + 90 *)
Example C14_concurrent_nonvacuous :
  let s0 := mkP [] 1 0%Z [] in
  let ops := [[PoSet [x61] (mkRec 0 0 0 0 (repeat x61 66))]; [PoSet [x62] (mkRec 0 0 0 0 (repeat x62 66))]] in
  let ts0 := map (fun o => new_gthread (list_client o)) ops in
  let sched := [0;0;1;1;0;0;0;0;0;1;1;1;1;1]%nat in
  let '(ts, s) := prun_sched 0 100%Z sched ts0 s0 in
  totz s = 180%Z /\ p_usage s = 180%Z /\ Forall idle ts /\
    in_flight_sum (fst (prun_sched 0 100%Z [0;0;1;1]%nat ts0 s0)) = 180%Z.
Proof. vm_compute. repeat split; repeat constructor. Qed.

Example C14_nonvacuous :
  let s0 := init_store (Some 100) in
  let put k n s := fst (set [k] (mkRec 0 0 0 0 (repeat x61 n)) s) in
  let s6 := put x63 16%nat (put x62 16%nat (put x61 66%nat (put x61 16%nat (put x61 16%nat (put x61 66%nat s0))))) in
  acct s0 /\ total (s_mem s6) <= 140 /\ s_usage s6 = total (s_mem s6).
Proof. cbv zeta. split; [apply acct_init|]. vm_compute. split; [discriminate|reflexivity]. Qed.
