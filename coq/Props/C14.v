(* C14 — Random eviction keeps stored bytes within the memory limit.
   Statements only; proofs in Proofs/PPolicy.v. The victims are an arbitrary
   oracle ([s_oracle]); every theorem holds for all oracles. [acct s]: keys
   unique, counter = stored bytes, stored bytes < 2^64 (C15). Sequential clause;
   the concurrent clause (stores finishing concurrently) is not a theorem here:
   replaced sizes are read in a separate step from the store itself, see DESIGN §5 C14. *)
From MC Require Import Model.Base Model.Generated Model.Store Model.Memc Model.Codec Model.Handler
  Spec.Exec Proofs.StoreLemmas Proofs.SetLemmas Proofs.Effects Proofs.PPolicy.

(* the eviction loop terminates within its fuel (one iteration per stored record
   plus one): when it returns, the counter is within the limit or nothing is left;
   it only ever removes, and keeps the accounting exact *)
Theorem C14_evict_terminates : forall fuel L s,
  acct s -> s_limit s = Some L -> (length (s_mem s) < fuel)%nat ->
  let s' := evict fuel L s in
  acct s' /\ s_limit s' = Some L /\ s_now s' = s_now s /\ s_cas s' = s_cas s /\
  total (s_mem s') <= total (s_mem s) /\
  (s_usage s' <= L \/ s_mem s' = []) /\
  (forall k, lookup k (s_mem s') = None \/ lookup k (s_mem s') = lookup k (s_mem s)).
Proof. exact evict_spec. Qed.
Print Assumptions C14_evict_terminates.

(* for every limit (also one smaller than a single record), every oracle: after
   a store the total is at most limit + the record just written, which is there
   (eviction precedes the store: it is never the victim) *)
Theorem C14_bound_after_store : forall k r s L,
  acct s -> s_limit s = Some L -> total (s_mem s) + rec_len r < two64 ->
  let s' := fst (set k r s) in
  acct s' /\ s_limit s' = Some L /\
  match snd (set k r s) with
  | ROk _ => total (s_mem s') <= L + rec_len r /\
             exists new, lookup k (s_mem s') = Some new /\ rec_len new = rec_len r
  | RErr _ => total (s_mem s') <= total (s_mem s)
  end.
Proof. exact set_policy_spec. Qed.
Print Assumptions C14_bound_after_store.

(* every request: the stored bytes do not grow, or end within limit + the record
   that request wrote (set/add/replace: its value; append/prepend: old + new;
   incr/decr: at most 40 digits) *)
Theorem C14_bound_every_request : forall req s L,
  acct s -> s_limit s = Some L -> headroom s req ->
  total (s_mem (fst (handle_request req s))) <= N.max (total (s_mem s)) (L + wsize req s).
Proof. exact handle_total. Qed.
Print Assumptions C14_bound_every_request.

Example C14_nonvacuous :
  let s0 := init_store (Some 100) in
  let put k n s := fst (set [k] (mkRec 0 0 0 0 (repeat x61 n)) s) in
  let s6 := put x63 16%nat (put x62 16%nat (put x61 66%nat (put x61 16%nat (put x61 16%nat (put x61 66%nat s0))))) in
  acct s0 /\ total (s_mem s6) <= 140 /\ s_usage s6 = total (s_mem s6).
Proof. cbv zeta. split; [apply acct_init|]. vm_compute. split; [discriminate|reflexivity]. Qed.
