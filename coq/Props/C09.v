(* C09 — Request framing is independent of TCP segmentation. Statements only;
   proofs in Proofs/Framing.v, Proofs/Chunking.v.
   [feed chunk cn s] is what the connection does with the bytes one read returns
   (Model/Conn.v: read_frame's decode loop, oversized-body skipping, handle_request,
   responses, quit rules); [feedF] is the same function accumulating its output;
   [feed_all] feeds a list of chunks; [norm] is everything that can be told about
   the result: status, store, all responses, and, while open, the parser state. *)
From MC Require Import Model.Base Model.Generated Model.Store Model.Codec Model.Handler Model.Conn
  Spec.Quiet Proofs.CodecLemmas Proofs.Framing Proofs.Chunking.

Theorem C09_feed_is_feedF : forall y cn s, feed y cn s = feedF y cn s [].
Proof. exact feed_feedF. Qed.
Print Assumptions C09_feed_is_feedF.

(* one read returning a ++ b = a read returning a followed by a read returning b *)
Theorem C09_cut_anywhere : forall a b cn s out,
  norm (feedF (a ++ b) cn s out) =
  norm (let '(cn1, s1, out1) := feedF a cn s out in feedF b cn1 s1 out1).
Proof. exact feedF_append. Qed.
Print Assumptions C09_cut_anywhere.

(* any segmentation of a stream = the stream delivered by one read *)
Theorem C09_chunking_irrelevant : forall (c : bytes) (cs : list bytes) cn s out,
  norm (feed_all (c :: cs) cn s out) = norm (feedF (concat (c :: cs)) cn s out).
Proof. exact chunking_irrelevant. Qed.
Print Assumptions C09_chunking_irrelevant.

(* any two segmentations of the same bytes: same requests executed (same store),
   same response bytes, same connection state *)
Theorem C09_any_two_segmentations : forall (c1 : bytes) (cs1 : list bytes) (c2 : bytes) (cs2 : list bytes) cn s out,
  concat (c1 :: cs1) = concat (c2 :: cs2) ->
  norm (feed_all (c1 :: cs1) cn s out) = norm (feed_all (c2 :: cs2) cn s out).
Proof. exact any_two_segmentations. Qed.
Print Assumptions C09_any_two_segmentations.

(* each request is taken from exactly 24 + body-length bytes: the 24 header
   bytes, then [body] of the announced length from which alone the request is
   built; everything after it is left in the buffer untouched *)
Theorem C09_exact_extent : forall b c1 b1 r limit,
  decode (new_codec limit) b = (c1, b1, DFrame r) ->
  exists hb body h,
    b = hb ++ body ++ b1 /\ length hb = 24%nat /\ header_of_bytes hb = Some (h, []) /\
    req_header r = h /\ c1 = new_codec limit /\
    ((r = ReqTooLarge h /\ body = [] /\ limit < h_bodylen h) \/
     (blen body = h_bodylen h /\ h_bodylen h <= limit /\ parse_body h body = DFrame r)).
Proof. exact decode_extent. Qed.
Print Assumptions C09_exact_extent.

(* ... and never from bytes belonging to the following request: the result does
   not depend on what follows *)
Theorem C09_frame_ignores_following : forall c b c1 b1 d y,
  decode c b = (c1, b1, d) -> d <> DNeedMore -> decode c (b ++ y) = (c1, b1 ++ y, d).
Proof. exact decode_final. Qed.
Print Assumptions C09_frame_ignores_following.

(* ... never fewer: while the announced bytes have not arrived the decoder only waits *)
Theorem C09_need_more_is_progress : forall c b c1 b1 y,
  decode c b = (c1, b1, DNeedMore) -> decode c (b ++ y) = decode c1 (b1 ++ y).
Proof. exact decode_need. Qed.
Print Assumptions C09_need_more_is_progress.

(* non-vacuity: a get with 4 unexpected extras bytes followed by a noop, cut in
   the middle of the first header: both requests are executed either way *)
Example C09_nonvacuous :
  let a := [x80; x00; x00; x01; x04; x00; x00; x00; x00; x00] in
  let b := [x00; x05; x00; x00; x00; x01; x00;x00;x00;x00;x00;x00;x00;x00; x01;x02;x03;x04; x61;
            x80; x0a; x00;x00; x00; x00; x00;x00; x00;x00;x00;x00; x00;x00;x00;x02; x00;x00;x00;x00;x00;x00;x00;x00] in
  length (snd (feed (a ++ b) (new_conn 1024) (init_store None))) = 2%nat /\
  norm (feed_all [a; b] (new_conn 1024) (init_store None) []) =
  norm (feedF (a ++ b) (new_conn 1024) (init_store None) []).
Proof. cbv zeta. split; vm_compute; reflexivity. Qed.
