(* C06 — Conditional stores: add / replace / append / prepend semantics.
   Statements only; proofs are in Proofs/PC06.v. [view s k] is what a retrieval
   of k answers in s (None for absent or expired); [plain s]: no eviction policy
   (the policy with a limit that is not reached is tied in by C20_policy_transparent). *)
From MC Require Import Model.Base Model.Generated Model.Store Model.Memc Model.Codec Model.Handler
  Proofs.StoreLemmas Proofs.SetLemmas Proofs.MemcLemmas Proofs.PC06.

(* add on a visible item: 'key exists', the store is identical *)
Theorem C06_add_on_present : forall s k old h f e v,
  view s k = Some old -> h_opcode h = cmd_Add ->
  handle_request (ReqSet VAdd h f e k v) s = (s, Some (err_resp h KeyExists)).
Proof. exact add_on_present. Qed.
Print Assumptions C06_add_on_present.

(* add on an absent or expired key stores exactly the request's value, flags, ttl *)
Theorem C06_add_on_absent : forall s k h f e v,
  plain s -> view s k = None -> h_opcode h = cmd_Add ->
  exists s' c,
    handle_request (ReqSet VAdd h f e k v) s = (s', Some (ok_resp h c)) /\
    stores s s' k (mkRec (s_now s) c f e v).
Proof. exact add_on_absent. Qed.
Print Assumptions C06_add_on_absent.

Theorem C06_replace_on_absent : forall s k h f e v,
  plain s -> view s k = None -> h_opcode h = cmd_Replace ->
  handle_request (ReqSet VReplace h f e k v) s = (collected s k, Some (err_resp h NotFound)).
Proof. exact replace_on_absent. Qed.
Print Assumptions C06_replace_on_absent.

Theorem C06_replace_on_present : forall s k old h f e v,
  plain s -> view s k = Some old -> h_opcode h = cmd_Replace ->
  (h_cas h = 0 \/ h_cas h = r_cas old ->
   exists s' c,
     handle_request (ReqSet VReplace h f e k v) s = (s', Some (ok_resp h c)) /\
     stores s s' k (mkRec (s_now s) c f e v)) /\
  (h_cas h <> 0 -> h_cas h <> r_cas old ->
   handle_request (ReqSet VReplace h f e k v) s = (s, Some (err_resp h KeyExists))).
Proof. exact replace_on_present. Qed.
Print Assumptions C06_replace_on_present.

Theorem C06_append_on_absent : forall s k h v,
  plain s -> view s k = None -> h_opcode h = cmd_Append ->
  handle_request (ReqAppend VAppend h k v) s = (collected s k, Some (err_resp h NotFound)).
Proof. exact append_on_absent. Qed.
Print Assumptions C06_append_on_absent.

Theorem C06_prepend_on_absent : forall s k h v,
  plain s -> view s k = None -> h_opcode h = cmd_Prepend ->
  handle_request (ReqAppend VPrepend h k v) s = (collected s k, Some (err_resp h NotFound)).
Proof. exact prepend_on_absent. Qed.
Print Assumptions C06_prepend_on_absent.

(* append: old ++ suffix, the item's flags and ttl kept, a new CAS *)
Theorem C06_append_on_present : forall s k old h v,
  plain s -> view s k = Some old -> h_opcode h = cmd_Append ->
  (h_cas h = 0 \/ h_cas h = r_cas old ->
   exists s' c,
     handle_request (ReqAppend VAppend h k v) s = (s', Some (ok_resp h c)) /\
     stores s s' k (mkRec (s_now s) c (r_flags old) (r_ttl old) (r_val old ++ v))) /\
  (h_cas h <> 0 -> h_cas h <> r_cas old ->
   handle_request (ReqAppend VAppend h k v) s = (s, Some (err_resp h KeyExists))).
Proof. exact append_on_present. Qed.
Print Assumptions C06_append_on_present.

Theorem C06_prepend_on_present : forall s k old h v,
  plain s -> view s k = Some old -> h_opcode h = cmd_Prepend ->
  (h_cas h = 0 \/ h_cas h = r_cas old ->
   exists s' c,
     handle_request (ReqAppend VPrepend h k v) s = (s', Some (ok_resp h c)) /\
     stores s s' k (mkRec (s_now s) c (r_flags old) (r_ttl old) (v ++ r_val old))) /\
  (h_cas h <> 0 -> h_cas h <> r_cas old ->
   handle_request (ReqAppend VPrepend h k v) s = (s, Some (err_resp h KeyExists))).
Proof. exact prepend_on_present. Qed.
Print Assumptions C06_prepend_on_present.

(* a rejected command: every retrieval answers as before, every visible item is
   physically identical (value, flags, CAS, ttl, timestamp) *)
Theorem C06_rejected_unchanged : forall req s s' rh msg,
  plain s -> cond_store req ->
  handle_request req s = (s', Some (RespError rh msg)) -> unchanged s s'.
Proof. exact rejected_unchanged. Qed.
Print Assumptions C06_rejected_unchanged.

(* non-vacuity: a reachable state with a visible and an expired item *)
Definition ex_store : store :=
  mkStore [([x61], mkRec 0 1 7 0 [x31]); ([x62], mkRec 0 2 0 5 [x32])] 3 9 None 0 [].
Example C06_nonvacuous :
  plain ex_store /\ view ex_store [x61] = Some (mkRec 0 1 7 0 [x31]) /\ view ex_store [x62] = None.
Proof. repeat split. Qed.
