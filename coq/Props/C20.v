(* C20 — Behaviour is the same under every runtime configuration.
   Statements only; proofs in Proofs/PC20.v. The model of the server
   (Model/Config.v) does not mention the runtime flavour, the number of worker
   threads or the port except for the number of accept loops, all of which share
   one store and one semaphore: the content of this property is therefore the
   correspondence — every configuration's real server (started through
   cli::parser::parse + create_memcrs_server in a child process) must match the
   one model on the same generated program, enforce the configured limits and
   expire items in real seconds. Real-time ticking, SO_REUSEPORT distribution
   and the runtime flavours are observed, not modelled (partial). *)
From MC Require Import Model.Base Model.Generated Model.Store Model.Memc Model.Codec Model.Handler
  Model.Conn Model.Run Model.Server Model.Config Spec.Exec
  Proofs.StoreLemmas Proofs.SetLemmas Proofs.Effects Proofs.PPolicy Proofs.PC20 Model.Listeners Proofs.PC17m.

(* the configured item size limit (below 4 GiB) and connection limit are the ones enforced *)
Theorem C20_limits_enforced : forall a,
  a_item_size_limit a < two32 ->
  e_item_limit (effective_of a) = a_item_size_limit a /\
  e_connection_limit (effective_of a) = a_connection_limit a.
Proof. exact limits_enforced. Qed.
Print Assumptions C20_limits_enforced.

(* runtime type, thread count and port do not enter the behaviour *)
Theorem C20_runtime_irrelevant : forall a rt th port,
  world_of (mkArgs port (a_connection_limit a) (a_backlog_limit a) (a_memory_limit a) (a_item_size_limit a)
                   th rt (a_eviction_policy a)) = world_of a /\
  slots_of (mkArgs port (a_connection_limit a) (a_backlog_limit a) (a_memory_limit a) (a_item_size_limit a)
                   th rt (a_eviction_policy a)) = slots_of a.
Proof. exact runtime_irrelevant. Qed.
Print Assumptions C20_runtime_irrelevant.

(* eviction policy 'random' with a limit that is not reached: for every request
   the reply and the resulting store are those of the plain store *)
Theorem C20_policy_transparent : forall L req s,
  calm L s -> same (handle_request req s) (handle_request req (strip s)).
Proof. exact policy_transparent. Qed.
Print Assumptions C20_policy_transparent.

(* the configured connection limit is the one enforced whatever the number of accept
   loops the runtime configuration starts (current-thread: one per thread, clones of one
   server; multi-thread: one): for any history of connections over any listeners *)
Theorem C20_limit_holds_for_any_listeners : forall a es,
  N.of_nat (length (ms_active (ms_run (new_mserver (e_connection_limit (effective_of a))) es))) <= a_connection_limit a.
Proof. intros a es. exact (m_at_most_limit (a_connection_limit a) es). Qed.
Print Assumptions C20_limit_holds_for_any_listeners.

Example C20_nonvacuous :
  let a := mkArgs 11211 1 1024 67108864 1048576 8 CurrentThread PolicyRandom in
  effective_of a = mkEffective 1048576 1 (Some 67108864) 8 60 /\
  calm 67108864 (w_store (world_of a)).
Proof. split; [reflexivity|]. split; [apply acct_init|]. split; [reflexivity|cbn; lia]. Qed.
