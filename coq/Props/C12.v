(* C12 — Pipelining: in-order execution, one response per loud request, quit rules.
   Statements only; proofs in Proofs/PConn.v. [pumpF c b s out] is the
   connection's loop over its buffered bytes (read_frame + handle_request). *)
From MC Require Import Model.Base Model.Generated Model.Store Model.Codec Model.Handler Model.Conn Model.Run
  Spec.Quiet Proofs.CodecLemmas Proofs.Framing Proofs.Chunking Proofs.PC10 Proofs.PConn.

(* strictly in arrival order: the first frame is executed on the current store,
   the remaining bytes on the store it leaves; responses in that same order *)
Theorem C12_first_then_rest : forall c b s out c1 b1 req,
  decode c b = (c1, b1, DFrame req) -> (forall h, req <> ReqTooLarge h) ->
  pumpF c b s out =
  let '(cn2, s2, out2) := serve req (mkc c1 b1) s out in
  if is_open cn2 then pumpF c1 b1 s2 out2 else (cn2, s2, out2).
Proof. exact first_then_rest. Qed.
Print Assumptions C12_first_then_rest.

Theorem C12_responses_appended : forall c b s out, exists more, snd (pumpF c b s out) = out ++ more.
Proof. exact responses_appended. Qed.
Print Assumptions C12_responses_appended.

(* every non-quiet request the decoder can deliver — including touch, GAT and
   SASL, answered 'unknown command' — produces exactly one response *)
Theorem C12_one_per_loud : forall req s, quiet_req req = false -> snd (handle_request req s) <> None.
Proof. exact loud_answers. Qed.
Print Assumptions C12_one_per_loud.

Theorem C12_serve_writes_it : forall req cn s out,
  (forall h, req <> ReqQuitQ h) ->
  snd (serve req cn s out) =
  match snd (handle_request req s) with Some r => out ++ [encode r] | None => out end.
Proof. exact serve_response. Qed.
Print Assumptions C12_serve_writes_it.

Theorem C12_quiet_mutation_only_errors : forall r r',
  into_quiet_mutation r = Some r' -> exists h m, r' = RespError h m.
Proof. exact quiet_mutation_only_errors. Qed.
Print Assumptions C12_quiet_mutation_only_errors.

Theorem C12_quiet_get_no_miss : forall r r',
  into_quiet_get r = Some r' -> r' = r /\ (forall h m, r = RespError h m -> rh_status h <> err_NotFound_code).
Proof. exact quiet_get_no_miss. Qed.
Print Assumptions C12_quiet_get_no_miss.

(* quit: one response, the connection is closed, nothing buffered behind it is executed *)
Theorem C12_nothing_after_quit : forall c b s out c1 b1 h,
  decode c b = (c1, b1, DFrame (ReqQuit h)) ->
  pumpF c b s out =
  (close (mkc c1 b1) WQuit, s, out ++ [encode (RespQuit (new_rheader (h_opcode h) (h_opaque h)))]).
Proof. exact nothing_after_quit. Qed.
Print Assumptions C12_nothing_after_quit.

(* quitq: closed without an answer *)
Theorem C12_nothing_after_quitq : forall c b s out c1 b1 h,
  decode c b = (c1, b1, DFrame (ReqQuitQ h)) ->
  pumpF c b s out = (close (mkc c1 b1) WQuitQ, s, out).
Proof. exact nothing_after_quitq. Qed.
Print Assumptions C12_nothing_after_quitq.

(* and nothing received later is executed either *)
Theorem C12_closed_ignores : forall y cn s out, is_open cn = false -> feedF y cn s out = (cn, s, out).
Proof. exact closed_ignores. Qed.
Print Assumptions C12_closed_ignores.

(* non-vacuity: touch; noop; quit; set on one connection in one read: three
   responses (unknown command, noop, quit), closed, the set is not executed *)
Example C12_nonvacuous :
  let stream :=
    [x80;x1c;x00;x01;x04;x00;x00;x00;x00;x00;x00;x05;x00;x00;x00;x01;x00;x00;x00;x00;x00;x00;x00;x00;x00;x00;x00;x05;x61] ++
    [x80;x0a;x00;x00;x00;x00;x00;x00;x00;x00;x00;x00;x00;x00;x00;x02;x00;x00;x00;x00;x00;x00;x00;x00] ++
    [x80;x07;x00;x00;x00;x00;x00;x00;x00;x00;x00;x00;x00;x00;x00;x03;x00;x00;x00;x00;x00;x00;x00;x00] ++
    [x80;x01;x00;x01;x08;x00;x00;x00;x00;x00;x00;x0a;x00;x00;x00;x04;x00;x00;x00;x00;x00;x00;x00;x00;
     x00;x00;x00;x00;x00;x00;x00;x00;x61;x31] in
  let '(cn, s, out) := feed stream (new_conn 1024) (init_store None) in
  length out = 3%nat /\ cn_status cn = CClosed WQuit /\ s_mem s = [].
Proof. vm_compute. repeat split. Qed.
