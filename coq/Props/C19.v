(* C19 — Quiet variants differ from loud ones only in what is sent back.
   Statements only; proofs in Proofs/PC19.v. [twin req] is req with the loud
   opcode replaced by the quiet one or back; [wf_req]: the variant agrees with
   the header's opcode (what the decoder delivers: C10_decode_wf). *)
From MC Require Import Model.Base Model.Generated Model.Store Model.Memc Model.Codec Model.Handler
  Spec.Exec Spec.Quiet Proofs.StoreLemmas Proofs.SetLemmas Proofs.MemcLemmas Proofs.Effects Proofs.PC19 Proofs.PRoutes.

(* the resulting store is identical: content, CAS counter, clock, accounting *)
Theorem C19_same_effect : forall req s,
  wf_req req -> fst (handle_request (twin req) s) = fst (handle_request req s).
Proof. exact same_effect. Qed.
Print Assumptions C19_same_effect.

(* any two command sequences that differ only in loud/quiet at any subset of
   positions end in the same store *)
Theorem C19_histories : forall mask reqs s,
  Forall wf_req reqs ->
  run s (map CReq (toggle_some mask reqs)) = run s (map CReq reqs).
Proof. exact toggle_histories. Qed.
Print Assumptions C19_histories.

(* a quiet mutation answers exactly when the loud one answers with an error, and
   then with the same frame apart from the opcode *)
Theorem C19_quiet_set_response : forall h f e k v s,
  h_opcode h = cmd_Set ->
  snd (handle_request (twin (ReqSet VSet h f e k v)) s) =
  match snd (handle_request (ReqSet VSet h f e k v) s) with
  | Some r => into_quiet_mutation (retag cmd_SetQuiet r)
  | None => None
  end.
Proof. exact quiet_set_response. Qed.
Print Assumptions C19_quiet_set_response.

Theorem C19_quiet_delete_response : forall h k s,
  h_opcode h = cmd_Delete ->
  snd (handle_request (twin (ReqDelete false h k)) s) =
  match snd (handle_request (ReqDelete false h k) s) with
  | Some r => into_quiet_mutation (retag cmd_DeleteQuiet r)
  | None => None
  end.
Proof. exact quiet_delete_response. Qed.
Print Assumptions C19_quiet_delete_response.

Theorem C19_quiet_incr_response : forall h d i e k s,
  h_opcode h = cmd_Increment ->
  snd (handle_request (twin (ReqIncr VIncr h d i e k)) s) =
  match snd (handle_request (ReqIncr VIncr h d i e k) s) with
  | Some r => into_quiet_mutation (retag cmd_IncrementQuiet r)
  | None => None
  end.
Proof. exact quiet_incr_response. Qed.
Print Assumptions C19_quiet_incr_response.

Theorem C19_quiet_mutation_filter : forall r,
  into_quiet_mutation r = match r with RespError _ _ => Some r | _ => None end.
Proof. exact quiet_mutation_filter. Qed.
Print Assumptions C19_quiet_mutation_filter.

(* a quiet get hit is the loud hit apart from the opcode; a quiet miss is silent *)
Theorem C19_quiet_get_response : forall h k s,
  h_opcode h = cmd_Get ->
  snd (handle_request (twin (ReqGet VGet h k)) s) =
  match snd (handle_request (ReqGet VGet h k) s) with
  | Some r => into_quiet_get (retag cmd_GetQuiet r)
  | None => None
  end.
Proof. exact quiet_get_response. Qed.
Print Assumptions C19_quiet_get_response.

Theorem C19_quiet_get_filter : forall r,
  into_quiet_get r =
  match r with
  | RespError h _ => if rh_status h =? err_NotFound_code then None else Some r
  | _ => Some r
  end.
Proof. exact quiet_get_filter. Qed.
Print Assumptions C19_quiet_get_filter.

Example C19_nonvacuous :
  wf_req (ReqSet VAdd (mkHdr 128 2 1 8 0 0 10 0 0) 0 0 [x61] [x31]) /\
  twin (ReqSet VAdd (mkHdr 128 2 1 8 0 0 10 0 0) 0 0 [x61] [x31]) =
    ReqSet VAddQ (mkHdr 128 18 1 8 0 0 10 0 0) 0 0 [x61] [x31].
Proof. split; reflexivity. Qed.

(* the handler's routing is the source's. Generated.handler_routes is translated on
   every run from the match in BinaryHandler::handle_request: one row per arm
   (request variant, handler function, filter: always answered / into_quiet_mutation
   / into_quiet_get). For every row and all headers, keys, values, numeric fields and
   stores, the model's handle_request sends that request to that handler and applies
   that filter; and every request of the model is a variant of the table. In
   particular each quiet variant runs the same handler as its loud twin: a quiet arm
   routed elsewhere in the source breaks this obligation. *)
Theorem C19_routes_are_source : Forall route_ok handler_routes.
Proof. exact routes_are_source. Qed.
Print Assumptions C19_routes_are_source.

Theorem C19_every_request_routed : forall req,
  exists vid a, mk_req vid a = Some req /\ In vid (map (fun r => fst (fst r)) handler_routes).
Proof. exact every_request_routed. Qed.
Print Assumptions C19_every_request_routed.

(* and the chain before it: whatever frame the model's decoder builds from a header
   and a body is the request variant that the source's own tables name for that
   opcode — Generated.decode_dispatch (the match in parse_request: which body parser)
   followed by Generated.parser_variants (the if-chain or match inside that parser:
   which BinaryRequest variant), both translated from binary_codec.rs on every run.
   With C19_routes_are_source: opcode -> parser -> variant -> handler -> filter is
   the source's at every link. *)
Theorem C19_decoded_request_is_source_variant : forall h body req,
  parse_body h body = DFrame req ->
  exists a, a_h a = h /\ mk_req (source_variant (h_opcode h)) a = Some req.
Proof. exact decoded_request_is_source_variant. Qed.
Print Assumptions C19_decoded_request_is_source_variant.
