(* C10 — No client input can crash, hang or bloat request processing.
   Statements only; proofs in Proofs/CodecLemmas.v, Proofs/PC10.v. In the model
   every Rust panic site is an explicit outcome: reading past the end of a
   buffer (Buf::get_*, split_to) is DPanic; the arithmetic sites of the store
   layer are total after the repairs (saturating CAS, wrapping incr) under the
   stated assumptions (clock < 2^63, values < 4 GiB). Termination: the model's
   functions are total, and [at_rest] shows the decode loop stops only where no
   further frame is decodable (its fuel is never what stops it). *)
From MC Require Import Model.Base Model.Generated Model.Store Model.Codec Model.Handler Model.Conn
  Spec.Quiet Proofs.CodecLemmas Proofs.Framing Proofs.Chunking Proofs.PC10 Proofs.PDispatch Proofs.PGuards Proofs.PBody Model.RustInt.

(* for every codec state, buffer and limit *)
Theorem C10_decode_never_panics : forall c src, snd (decode c src) <> DPanic.
Proof. exact decode_no_panic. Qed.
Print Assumptions C10_decode_never_panics.

(* a request that is executed passed every header check *)
Theorem C10_validated : forall limit b c1 b1 r,
  decode (new_codec limit) b = (c1, b1, DFrame r) -> executed r = true ->
  let h := req_header r in
  h_magic h = 128 /\ h_opcode h < 37 /\ from_u8_is_some (h_opcode h) = true /\ h_dtype h = 0 /\
  h_keylen h <= 250 /\ h_extlen h <= 20 /\ (needs_key r = true -> h_keylen h <> 0) /\
  h_keylen h + h_extlen h <= h_bodylen h /\ h_bodylen h <= limit.
Proof. exact decode_validated. Qed.
Print Assumptions C10_validated.

(* the variant handed to the handler agrees with the opcode byte *)
Theorem C10_decode_wf : forall h body r,
  parse_body h body = DFrame r -> wf_req r /\ req_header r = h.
Proof. exact parse_body_wf. Qed.
Print Assumptions C10_decode_wf.

(* whatever bytes arrive in whatever reads: the connection never panics, its
   decode loop stops only where it must wait, and while open it holds less than
   a header, or less than one body that is within the item limit *)
Theorem C10_conn_never_panics : forall limit ys cn s,
  at_rest limit cn ->
  at_rest limit (fst (fst (fold_left (fun st y => let '(cn, s, _) := st in feed y cn s) ys (cn, s, [])))).
Proof. exact feeds_at_rest. Qed.
Print Assumptions C10_conn_never_panics.

Theorem C10_new_conn_at_rest : forall limit, at_rest limit (new_conn limit).
Proof. exact new_conn_at_rest. Qed.
Print Assumptions C10_new_conn_at_rest.

Theorem C10_buffer_bound : forall limit cn,
  at_rest limit cn -> is_open cn = true -> blen (cn_buf cn) < N.max 24 limit.
Proof. exact at_rest_bound. Qed.
Print Assumptions C10_buffer_bound.

(* the opcode table is swept exhaustively: for all 256 opcode bytes the dispatch
   accepts exactly the protocol's opcodes *)
Theorem C10_opcode_sweep :
  forallb (fun op => Bool.eqb (from_u8_is_some op && (op <? cmd_OpCodeMax))
                              (existsb (N.eqb op)
                                 [0;1;2;3;4;5;6;7;8;9;10;11;12;13;14;15;16;17;18;19;20;21;22;23;24;25;26;
                                  28;29;30;32;33;34;35;36]))
          (map N.of_nat (seq 0 256)) = true.
Proof. vm_compute. reflexivity. Qed.
Print Assumptions C10_opcode_sweep.

Example C10_nonvacuous :
  snd (decode (new_codec 1024) [x80; x05; xff; xff; xff; x00; x00; x00; xff; xff; xff; xff;
                                x00;x00;x00;x00; xff;xff;xff;xff;xff;xff;xff;xff]) = DFrame
    (ReqTooLarge (mkHdr 128 5 65535 255 0 0 4294967295 0 18446744073709551615)).
Proof. vm_compute. reflexivity. Qed.

(* the decoder's dispatch is the source's: every opcode goes to the body parser that
   the table regenerated on every run from the match in
   MemcacheBinaryCodec::parse_request names (a changed arm there changes
   Generated.decode_dispatch and this obligation no longer checks) *)
Theorem C10_decode_dispatch_is_source : forall h body,
  parse_body h body = run_parser (source_parser_id (h_opcode h)) h body.
Proof. exact parse_body_is_source_dispatch. Qed.
Print Assumptions C10_decode_dispatch_is_source.

(* ---- the tests of the source itself. tools/rsexpr.py translates the bodies of
   header_valid and request_valid (guards in order, Rust integer types, overflow =
   None) into Generated.src_header_valid / src_request_valid on every run; for every
   header that 24 bytes can encode they evaluate, without overflow, to what the
   model's tests say ([src_X_ok = false]: the translator did not recognise the
   function's shape, the obligation does not apply and the correspondence check
   alone ties it to the model — the check reports which) *)
Theorem C10_header_fields_in_range : forall b h rest,
  header_of_bytes b = Some (h, rest) -> header_in_range h.
Proof. exact header_of_bytes_in_range. Qed.
Print Assumptions C10_header_fields_in_range.

Theorem C10_header_valid_is_source : src_header_valid_ok = true ->
  forall h, header_in_range h ->
  src_header_valid (h_magic h) (h_opcode h) (h_dtype h) = Some (header_valid h).
Proof. exact header_valid_is_source. Qed.
Print Assumptions C10_header_valid_is_source.

Theorem C10_request_valid_is_source : src_request_valid_ok = true ->
  forall h kr, header_in_range h ->
  src_request_valid (h_extlen h) (h_keylen h) (h_bodylen h) kr = Some (request_valid h kr).
Proof. exact request_valid_is_source. Qed.
Print Assumptions C10_request_valid_is_source.

(* the 24 header bytes are read field by field in the order and widths of the source *)
Theorem C10_request_layout_is_source : src_request_layout_ok = true ->
  forall b, header_of_bytes b =
            match read_layout src_request_layout b with
            | Some (vs, rest) => Some (header_of_fields vs, rest)
            | None => None
            end.
Proof. exact request_layout_is_source. Qed.
Print Assumptions C10_request_layout_is_source.

(* what each body parser reads from the buffer, in which order and into which field, is
   what the source says (the get_uN / split_to calls of the parser, translated on every
   run): behind its guards the model parser is the generic reader on the source's list.
   Field numbers: 1 flags, 2 expiration, 3 key, 4 value, 5 delta, 6 initial. *)
Theorem C10_set_body_is_source : src_body_reads_set_ok = true -> forall h body,
  parse_set h body =
  if negb (request_valid h true) then DError EInvalidData else
  if blen body <? 8 + h_keylen h + value_len h then DError EInvalidData else
  match read_body h src_body_reads_set body with
  | None => DPanic
  | Some vs => set_frame h (bnum 1 vs) (bnum 2 vs) (bbytes 3 vs) (bbytes 4 vs)
  end.
Proof. exact set_body_is_source. Qed.
Print Assumptions C10_set_body_is_source.

Theorem C10_incdec_body_is_source : src_body_reads_incdec_ok = true -> forall h body,
  parse_inc_dec h body =
  if negb (request_valid h true) then DError EInvalidData else
  if blen body <? 20 + h_keylen h then DError EInvalidData else
  match read_body h src_body_reads_incdec body with
  | None => DPanic
  | Some vs => incdec_frame h (bnum 5 vs) (bnum 6 vs) (bnum 2 vs) (bbytes 3 vs)
  end.
Proof. exact incdec_body_is_source. Qed.
Print Assumptions C10_incdec_body_is_source.

Theorem C10_append_body_is_source : src_body_reads_append_ok = true -> forall h body,
  parse_append_prepend h body =
  if negb (request_valid h true) then DError EInvalidData else
  match read_body h src_body_reads_append body with
  | None => DPanic
  | Some vs => append_frame h (bbytes 3 vs) (bbytes 4 vs)
  end.
Proof. exact append_body_is_source. Qed.
Print Assumptions C10_append_body_is_source.

Theorem C10_get_body_is_source : src_body_reads_get_ok = true -> forall h body,
  parse_get h body =
  if negb (request_valid h true) then DError EInvalidData else
  match read_body h src_body_reads_get body with
  | None => DPanic
  | Some vs => get_frame h (bbytes 3 vs)
  end.
Proof. exact get_body_is_source. Qed.
Print Assumptions C10_get_body_is_source.

Theorem C10_delete_body_is_source : src_body_reads_delete_ok = true -> forall h body,
  parse_delete h body =
  if negb (request_valid h true) then DError EInvalidData else
  match read_body h src_body_reads_delete body with
  | None => DPanic
  | Some vs => delete_frame h (bbytes 3 vs)
  end.
Proof. exact delete_body_is_source. Qed.
Print Assumptions C10_delete_body_is_source.

(* the flush parser reads its expiration only when the extras are as long as the source
   says, with the width the source says; the header-only parser never touches the buffer
   (the body such a command announces is skipped by the framing, C09) *)
Theorem C10_flush_body_is_source : src_flush_read_ok = true -> forall h body,
  parse_flush h body =
  if negb (request_valid h false) then DError EInvalidData else
  if h_extlen h =? fst src_flush_read then
    match get_n (snd src_flush_read) body with
    | None => DPanic
    | Some (exp, _) => DFrame (ReqFlush (negb (h_opcode h =? cmd_Flush)) h exp)
    end
  else DFrame (ReqFlush (negb (h_opcode h =? cmd_Flush)) h 0).
Proof. exact flush_body_is_source. Qed.
Print Assumptions C10_flush_body_is_source.

Theorem C10_header_only_reads_nothing : src_header_only_reads_nothing = true ->
  forall h b1 b2, parse_header_only h b1 = parse_header_only h b2.
Proof. exact header_only_reads_nothing. Qed.
Print Assumptions C10_header_only_reads_nothing.

(* Decoder::decode makes its tests in the order of the source (translated on every run):
   a header when none is pending, waiting for its 24 bytes; an announced body above the
   item size limit answered at once, before any of it is waited for; the whole body
   awaited; then parse_request *)
Theorem C10_decode_steps_are_source : src_decode_steps_ok = true ->
  forall c src, decode c src = run_steps src_decode_steps c src.
Proof. exact decode_steps_are_source. Qed.
Print Assumptions C10_decode_steps_are_source.

(* the generic reader on a concrete set body (8 + 1 + 2 bytes) *)
Example C10_read_body_nonvacuous :
  read_body (mkHdr 128 1 1 8 0 0 11 0 0) src_body_reads_set
            (map n2b [0;0;0;7; 0;0;0;9; 107; 118;119]) =
  (if src_body_reads_set_ok
   then Some [(1, BN 7); (2, BN 9); (3, BB [n2b 107]); (4, BB (map n2b [118;119]))]
   else Some []).
Proof. exact read_body_example. Qed.

(* the buffer is reserved only behind a comparison with the item size limit: the
   codec's parse_header (site 1) has one, and it is the model's comparison *)
Theorem C10_reserve_is_guarded : src_size_guards_ok = true ->
  In 1 src_size_guard_sites /\
  Forall (fun g => forall body limit, g body limit = Some (limit <? body)) src_size_guards.
Proof. exact reserve_is_guarded. Qed.
Print Assumptions C10_reserve_is_guarded.

(* the lengths the body parsers compute (get_value_len; what the incr/decr and the set
   parser require of the body before they read their fixed fields), translated on every
   run: for every header a frame can carry — and, for the value length, every header
   request_valid accepts — they evaluate without underflow or overflow to the model's *)
Theorem C10_value_len_is_source : src_value_len_ok = true ->
  forall h kr, header_in_range h -> request_valid h kr = true ->
  src_value_len (h_bodylen h) (h_keylen h) (h_extlen h) = Some (value_len h).
Proof. exact value_len_is_source. Qed.
Print Assumptions C10_value_len_is_source.

Theorem C10_incdec_required_is_source : src_incdec_required_ok = true ->
  forall h, header_in_range h -> src_incdec_required (h_keylen h) = Some (20 + h_keylen h).
Proof. exact incdec_required_is_source. Qed.
Print Assumptions C10_incdec_required_is_source.

Theorem C10_set_required_is_source : src_set_required_ok = true ->
  forall h, header_in_range h ->
  src_set_required (h_keylen h) (value_len h) = Some (8 + h_keylen h + value_len h).
Proof. exact set_required_is_source. Qed.
Print Assumptions C10_set_required_is_source.
