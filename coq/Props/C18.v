(* C18 — Faults on one connection are contained. Statements only; proofs in
   Proofs/Chunking.v, Proofs/PConn.v. *)
From MC Require Import Model.Base Model.Generated Model.Store Model.Codec Model.Handler Model.Conn Model.Run
  Spec.Quiet Proofs.CodecLemmas Proofs.Framing Proofs.Chunking Proofs.PC10 Proofs.PConn.

(* a stream cut at any offset: what has been executed and answered after the
   first part is a prefix of what the whole stream executes and answers, and the
   second part continues from exactly that state — no request is executed twice,
   none is skipped, none is executed from an incomplete frame *)
Theorem C18_cut_is_prefix : forall a b cn s,
  let '(cn1, s1, out1) := feedF a cn s [] in
  exists out2, snd (feedF (a ++ b) cn s []) = out1 ++ out2 /\
               norm (feedF (a ++ b) cn s []) = norm (let '(cn2, s2, o2) := feedF b cn1 s1 [] in (cn2, s2, out1 ++ o2)).
Proof. exact cut_is_prefix. Qed.
Print Assumptions C18_cut_is_prefix.

(* the end of the client's stream executes nothing and closes the connection *)
Theorem C18_eof_store : forall cn s, pending_too_large cn -> snd (fst (eof cn s)) = s.
Proof. exact eof_store. Qed.
Print Assumptions C18_eof_store.

Theorem C18_eof_closes : forall cn s, is_open cn = true -> is_open (fst (fst (eof cn s))) = false.
Proof. exact eof_closes. Qed.
Print Assumptions C18_eof_closes.

(* invalid bytes: the connection is closed at that point, the store is what the
   requests before them left, and nothing sent afterwards is executed *)
Theorem C18_invalid_stops : forall c b s out c1 b1 e,
  decode c b = (c1, b1, DError e) ->
  pumpF c b s out = (mkConn c1 b1 0 None (CClosed (WError e)), s, out).
Proof. exact invalid_stops. Qed.
Print Assumptions C18_invalid_stops.

Theorem C18_closed_ignores : forall y cn s out, is_open cn = false -> feedF y cn s out = (cn, s, out).
Proof. exact closed_ignores. Qed.
Print Assumptions C18_closed_ignores.

(* an abortive reset or an idle timeout executes nothing *)
Theorem C18_reset_store : forall w c, w_store (fst (step w (EvReset c))) = w_store w.
Proof. exact reset_store. Qed.
Print Assumptions C18_reset_store.

(* whatever happens on connection i, connection j's state is untouched *)
Theorem C18_other_conns_untouched : forall w e j,
  conn_of_event e <> Some j ->
  get_conn (w_limit (fst (step w e))) j (w_conns (fst (step w e))) = get_conn (w_limit w) j (w_conns w).
Proof. exact other_conns_untouched. Qed.
Print Assumptions C18_other_conns_untouched.

Example C18_nonvacuous :
  let set1 := [x80;x01;x00;x01;x08;x00;x00;x00;x00;x00;x00;x0a;x00;x00;x00;x04;x00;x00;x00;x00;x00;x00;x00;x00;
               x00;x00;x00;x00;x00;x00;x00;x00;x61;x31] in
  let '(cn, s, out) := feed (set1 ++ firstn 30 set1) (new_conn 1024) (init_store None) in
  let '(cn', s', out') := eof cn s in
  length out = 1%nat /\ cn_status cn' = CClosed WReset /\ s' = s /\ out' = [].
Proof. vm_compute. repeat split. Qed.
