(* C16 — Every command completes: no deadlock or livelock between connections.
   Statements only; proofs in Proofs/PC16.v. The theorems are about the program
   structure of Model/Conc.v; that the real code has that structure (every map
   call returns while other clients are parked at any of their yield points, i.e.
   no guard is held across a call) is what the conc profile's watchdog checks on
   every granted step, and the stress profile under the OS scheduler. Lock
   fairness, parking_lot and tokio scheduling are runtime behaviours no
   executable model exhibits (partial). *)
From MC Require Import Model.Base Model.Generated Model.Store Model.Memc Model.Conc Proofs.PC16.

(* no atomic call ever waits for another thread *)
Theorem C16_action_never_blocks : forall now a s, exists s' x, act now a s = (s', x).
Proof. exact action_never_blocks. Qed.
Print Assumptions C16_action_never_blocks.

(* every command's program performs at most 4 atomic calls, whatever they return *)
Theorem C16_bounded_programs : forall now m, depth_le (mprog_of now m) 4.
Proof. exact mprog_of_depth. Qed.
Print Assumptions C16_bounded_programs.

(* a thread's own step always makes progress on its operation ... *)
Theorem C16_step_progress : forall now Op (pof : Op -> prog) (t : @thread Op) s o p n,
  th_cur t = Some (o, p) -> depth_le p n ->
  let t' := fst (thread_step now pof t s) in
  (exists v, th_cur t' = None /\ th_done t' = th_done t ++ [v]) \/
  (exists p' m, n = S m /\ th_cur t' = Some (o, p') /\ depth_le p' m /\ th_done t' = th_done t).
Proof. intros now Op. exact (@step_progress now Op). Qed.
Print Assumptions C16_step_progress.

(* ... so the operation has returned after depth + 1 own steps, in whatever
   shared states the thread meets (whatever the others do, wherever they are parked) *)
Theorem C16_completes_within : forall now Op (pof : Op -> prog) n (t : @thread Op) o p ss,
  th_cur t = Some (o, p) -> depth_le p n -> length ss = S n ->
  exists v rest, th_done (own_steps now pof ss t) = th_done t ++ v :: rest.
Proof. intros now Op. exact (@completes_within now Op). Qed.
Print Assumptions C16_completes_within.
