(* C16 — Every command completes: no deadlock or livelock between connections.
   Statements only; proofs in Proofs/PC16.v. The theorems are about the program
   structure of Model/Conc.v; that the real code has that structure (every map
   call returns while other clients are parked at any of their yield points, i.e.
   no guard is held across a call) is what the conc profile's watchdog checks on
   every granted step, and the stress profile under the OS scheduler. Lock
   fairness, parking_lot and tokio scheduling are runtime behaviours no
   executable model exhibits (partial). *)
From MC Require Import Model.Base Model.Generated Model.Store Model.Memc Model.Conc Proofs.PC16 Model.PolConc Proofs.PC16p.
From Coq Require Import ZArith.

(* no atomic call ever waits for another thread *)
Theorem C16_action_never_blocks : forall now a s, exists s' x, act now a s = (s', x).
Proof. exact action_never_blocks. Qed.
Print Assumptions C16_action_never_blocks.

(* every command's program performs at most 4 atomic calls, whatever they return *)
Theorem C16_bounded_programs : forall now m, depth_le (mprog_of now m) 4.
Proof. exact mprog_of_depth. Qed.
Print Assumptions C16_bounded_programs.

(* a thread's own step always makes progress on its operation ... *)
Theorem C16_step_progress : forall now Op (pof : Op -> prog) (t : @thread Op) s o p n,
  th_cur t = Some (o, p) -> depth_le p n ->
  let t' := fst (thread_step now pof t s) in
  (exists v, th_cur t' = None /\ th_done t' = th_done t ++ [v]) \/
  (exists p' m, n = S m /\ th_cur t' = Some (o, p') /\ depth_le p' m /\ th_done t' = th_done t).
Proof. intros now Op. exact (@step_progress now Op). Qed.
Print Assumptions C16_step_progress.

(* ... so the operation has returned after depth + 1 own steps, in whatever
   shared states the thread meets (whatever the others do, wherever they are parked) *)
Theorem C16_completes_within : forall now Op (pof : Op -> prog) n (t : @thread Op) o p ss,
  th_cur t = Some (o, p) -> depth_le p n -> length ss = S n ->
  exists v rest, th_done (PC16.own_steps now pof ss t) = th_done t ++ v :: rest.
Proof. intros now Op. exact (@completes_within now Op). Qed.
Print Assumptions C16_completes_within.

(* ---- behind the eviction policy (Model/PolConc.v): retrievals that collect expired
   records, deletes, delayed flushes (one whole-map call), immediate flushes and eviction
   sweeps (a scan, then one removal and one counter access per key the scan accepted).
   Whatever its calls return — scans accepting at most M keys — an operation performs at
   most [pbound M o] atomic calls (for a store: the model's bound on the rounds of its
   eviction loop times the cost of a sweep; that the real loop ends is what the watchdogs
   observe, and C14_evict_terminates proves of the sequential store) ... *)
Theorem C16_policy_programs_bounded : forall now limit M o,
  pdepth M (pprog_of now limit o) (pbound M o).
Proof. exact policy_programs_bounded. Qed.
Print Assumptions C16_policy_programs_bounded.

(* ... so it has returned after that many own steps plus one, in whatever shared states
   it meets (whatever the other clients have done in between, wherever they are parked) *)
Theorem C16_policy_operation_completes_within : forall now limit M n
    (t : gthread paction presult pores pop) o p ss,
  g_cur t = Some (o, p) -> pdepth M p n -> length ss = S n -> Forall (oracle_ok M) ss ->
  exists v rest, g_done (PC16p.own_steps now limit ss t) = g_done t ++ v :: rest.
Proof. exact policy_operation_completes_within. Qed.
Print Assumptions C16_policy_operation_completes_within.

Example C16_policy_nonvacuous :
  pbound 3 (PoGet [x6b]) = 3%nat /\ pbound 3 (PoFlush 0) = 7%nat /\
  oracle_ok 3 (mkP [] 1 0%Z [[[x6b]; [x6a]]]).
Proof. split; [reflexivity|]. split; [reflexivity|]. repeat constructor. Qed.
