(* C11 — Every response is a well-formed, correctly correlated frame.
   Statements only; proofs in Proofs/PC11.v. [parse_response] (Spec/Wire.v) is an
   independent client-side reading of the byte stream; [resp_ok h r] is the
   property's list of requirements on the response to a request with header h. *)
From MC Require Import Model.Base Model.Generated Model.Store Model.Memc Model.Codec Model.Handler
  Spec.Quiet Spec.Wire Proofs.Decimal Proofs.CodecLemmas Proofs.PC11 Proofs.PGuards Proofs.PBody Model.RustInt.

(* for every request the decoder can produce and every store state: magic 0x81,
   opcode and opaque echoed, data type 0, status from the protocol's table, body
   length = the bytes that follow; 4 flag bytes on hits, the key only where the
   handler echoes it, 8 bytes for counters, the message text on errors *)
Theorem C11_handler_resp_ok : forall req s s' r,
  handle_request req s = (s', Some r) -> resp_ok (req_header req) r.
Proof. exact handler_resp_ok. Qed.
Print Assumptions C11_handler_resp_ok.

(* the wire image: the client finds exactly that frame, and the next response
   right behind it (field ranges: opcode a byte, opaque u32, CAS u64, body < 4 GiB,
   key < 64 KiB — all guaranteed for decoded requests and stored values) *)
Theorem C11_response_parses : forall req s s' r tail,
  handle_request req s = (s', Some r) -> hdr_in_range (req_header req) ->
  rh_cas (resp_header r) < 18446744073709551616 -> rh_bodylen (resp_header r) < 4294967296 ->
  rh_keylen (resp_header r) < 65536 ->
  exists f, parse_response (encode r ++ tail) = Some (f, tail) /\
    f_magic f = 129 /\ f_opcode f = h_opcode (req_header req) /\ f_opaque f = h_opaque (req_header req) /\
    f_dtype f = 0 /\ status_in_table (f_status f) /\ f_body f = data_of r /\
    f_bodylen f = blen (f_body f) /\ f_cas f = rh_cas (resp_header r).
Proof. exact response_parses. Qed.
Print Assumptions C11_response_parses.

Theorem C11_be_roundtrip : forall k n, n < 256 ^ N.of_nat k -> be_dec (be_enc k n) = n.
Proof. exact be_dec_enc_small. Qed.
Print Assumptions C11_be_roundtrip.

(* the key is echoed exactly by the get-key variants *)
Theorem C11_key_echo : forall h k rh s,
  match snd (h_get h k rh s) with
  | RespGet _ _ key _ => key = if (h_opcode h =? cmd_GetKey) || (h_opcode h =? cmd_GetKeyQuiet) then k else []
  | _ => True
  end.
Proof.
  intros h k rh s. unfold h_get. destruct (get k s) as [s1 [r|e]]; cbn [snd]; [reflexivity|exact I].
Qed.
Print Assumptions C11_key_echo.

(* the protocol's status table, pinned *)
Theorem C11_status_table : status_codes = [0; 1; 2; 3; 4; 5; 6; 32; 33; 129; 130] /\
  cerr_code NotFound = 1 /\ cerr_code KeyExists = 2 /\ cerr_code ValueTooLarge = 3 /\
  cerr_code ArithOnNonNumeric = 6 /\ cerr_code UnknownCommand = 129 /\ magic_Response = 129.
Proof. repeat split. Qed.
Print Assumptions C11_status_table.

Example C11_nonvacuous :
  let h := mkHdr 128 12 1 0 0 0 1 77 0 in
  let s := mkStore [([x61], mkRec 0 5 258 0 [x00; xff])] 6 0 None 0 [] in
  match handle_request (ReqGet VGetK h [x61]) s with
  | (_, Some r) => parse_response (encode r ++ [x81]) =
      Some (mkFrame 129 12 1 4 0 0 7 77 5 [x00;x00;x01;x02;x61;x00;xff], [x81])
  | _ => False
  end.
Proof. vm_compute. reflexivity. Qed.

(* the response header is written field by field in the order and widths of the
   source's write_header_impl (translated on every run) *)
Theorem C11_response_layout_is_source : src_response_layout_ok = true ->
  forall h, encode_rheader h = write_layout src_response_layout (rheader_field h).
Proof. exact response_layout_is_source. Qed.
Print Assumptions C11_response_layout_is_source.

(* what follows the header is, for each kind of response (1 error, 2 get, 3 plain,
   4 quit, 5 version, 6 counter), what the arm of the source's encode_data — what the
   connection sends — and of write_data — the Encoder impl — writes, in that order
   (translated on every run; fields: 1 error text, 2 flags, 3 key, 4 value, 5 version,
   6 counter value) *)
Theorem C11_encode_data_is_source : src_encode_data_ok = true ->
  forall r, encode r = encode_rheader (resp_header r) ++ write_fields (writes_of (resp_group r) src_encode_data) r.
Proof. exact encode_data_is_source. Qed.
Print Assumptions C11_encode_data_is_source.

Theorem C11_write_data_is_source : src_write_data_ok = true ->
  forall r, encode r = encode_rheader (resp_header r) ++ write_fields (writes_of (resp_group r) src_write_data) r.
Proof. exact write_data_is_source. Qed.
Print Assumptions C11_write_data_is_source.
