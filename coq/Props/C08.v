(* C08 — Delete and flush remove exactly what they should. Statements only;
   proofs in Proofs/PC08.v (delete with CAS on a visible item: C02_delete_cas_iff). *)
From MC Require Import Model.Base Model.Generated Model.Store Model.Memc Model.Codec Model.Handler
  Spec.Exec Proofs.StoreLemmas Proofs.SetLemmas Proofs.MemcLemmas Proofs.Effects Proofs.PC06
  Proofs.PC01 Proofs.PC02 Proofs.PC05 Proofs.PC08 Proofs.PGuards Model.RustInt.

Theorem C08_delete_absent : forall s k h,
  lookup k (s_mem s) = None ->
  handle_request (ReqDelete false h k) s = (s, Some (err_resp h NotFound)).
Proof. exact delete_absent. Qed.
Print Assumptions C08_delete_absent.

(* delete of a stored key: CAS 0 or matching removes exactly that key; a
   non-matching CAS answers 'key exists' and the store is identical *)
Theorem C08_delete_present : forall s k r h,
  plain s -> lookup k (s_mem s) = Some r ->
  (h_cas h = 0 \/ h_cas h = r_cas r ->
   handle_request (ReqDelete false h k) s = (collected s k, Some (RespPlain (rh_of h)))) /\
  (h_cas h <> 0 -> h_cas h <> r_cas r ->
   handle_request (ReqDelete false h k) s = (s, Some (err_resp h KeyExists))).
Proof. exact delete_present. Qed.
Print Assumptions C08_delete_present.

Theorem C08_delete_exactly_that_key : forall s k,
  lookup k (s_mem (collected s k)) = None /\
  (forall k', k' <> k -> lookup k' (s_mem (collected s k)) = lookup k' (s_mem s)) /\
  s_now (collected s k) = s_now s /\ s_cas (collected s k) = s_cas s.
Proof. exact collected_effect. Qed.
Print Assumptions C08_delete_exactly_that_key.

Theorem C08_flush_now : forall s q h k,
  plain s -> view (fst (handle_request (ReqFlush q h 0) s)) k = None.
Proof. exact flush_now_empty. Qed.
Print Assumptions C08_flush_now.

(* a flush with delay n: every item present at the flush and not stored again is
   unretrievable at every clock >= flush time + n *)
Theorem C08_flush_delay : forall s n k cs q h,
  plain s -> 0 < n -> Forall (leaves_alone k) cs ->
  let s1 := fst (handle_request (ReqFlush q h n) s) in
  s_now s + n <= s_now (run s1 cs) -> view (run s1 cs) k = None.
Proof. exact flush_delay_kills. Qed.
Print Assumptions C08_flush_delay.

(* over any later history: what is stored under k still has a deadline within
   the flush's, or was written by a command after the flush (and those are
   governed by C05 alone: C05_live_until holds from every state) *)
Theorem C08_flush_delay_general : forall s n k cs q h,
  plain s -> 0 < n ->
  let s1 := fst (handle_request (ReqFlush q h n) s) in
  flushed_or_later (s_now s + n) (s_now s) (run s1 cs) k.
Proof. exact flush_delay_general. Qed.
Print Assumptions C08_flush_delay_general.

Example C08_nonvacuous :
  let s := mkStore [([x61], mkRec 3 1 0 0 [x31]); ([x62], mkRec 3 2 0 600 [x32])] 3 8 None 0 [] in
  plain s /\ view (flush 5 s) [x61] = Some (mkRec 8 1 0 5 [x31]) /\
  view (with_now (flush 5 s) 13) [x61] = None /\ view (with_now (flush 5 s) 13) [x62] = None.
Proof. repeat split. Qed.

(* the source's test for "this flush is delayed" (translated on every run) is the model's *)
Theorem C08_flush_delayed_is_source : src_flush_delayed_ok = true ->
  forall delay, src_flush_delayed delay = Some (0 <? delay).
Proof. exact flush_delayed_is_source. Qed.
Print Assumptions C08_flush_delayed_is_source.
