(* C01 — Stored data is returned exactly (read-your-writes, key isolation).
   Statements only; proofs in Proofs/PC01.v.  [view s k]: what a retrieval of k
   answers in s; [exec]/[run]: one command / a command history (requests as
   decoded, clock ticks); [plain s]: no eviction policy (random policy with an
   unreached limit: C20_policy_transparent). *)
From MC Require Import Model.Base Model.Generated Model.Store Model.Memc Model.Codec Model.Handler
  Spec.Exec Proofs.StoreLemmas Proofs.SetLemmas Proofs.MemcLemmas Proofs.Effects Proofs.PC06 Proofs.PC01 Proofs.PWire.

(* an acknowledged set leaves exactly (value, flags, ttl) under a non-zero CAS,
   and that is what a retrieval sees (fewer than 2^64 stores so far: 0 < s_cas) *)
Theorem C01_set_then_visible : forall s h f e k v s' c,
  plain s -> 0 < s_cas s ->
  handle_request (ReqSet VSet h f e k v) s = (s', Some (ok_resp h c)) ->
  view s' k = Some (mkRec (s_now s) c f e v) /\ c <> 0.
Proof. exact set_then_visible. Qed.
Print Assumptions C01_set_then_visible.

(* a retrieval returns exactly the stored value bytes, flags and CAS, and changes nothing *)
Theorem C01_get_returns_stored : forall s k r h,
  view s k = Some r -> h_opcode h = cmd_Get ->
  handle_request (ReqGet VGet h k) s = (s, Some (hit_response h r [])).
Proof. exact get_returns_stored. Qed.
Print Assumptions C01_get_returns_stored.

Theorem C01_getk_returns_stored : forall s k r h,
  view s k = Some r -> h_opcode h = cmd_GetKey ->
  handle_request (ReqGet VGetK h k) s = (s, Some (hit_response h r k)).
Proof. exact getk_returns_stored. Qed.
Print Assumptions C01_getk_returns_stored.

(* commands addressed to another key (or to none, flush excepted) never change
   what is returned for k *)
Theorem C01_key_isolation : forall s k req,
  plain s -> key_of req <> Some k -> is_flush req = false ->
  view (exec s (CReq req)) k = view s k.
Proof. exact key_isolation. Qed.
Print Assumptions C01_key_isolation.

(* read-your-writes over any history: as long as no command addresses k or
   flushes, and the clock stays below the item's own deadline, every retrieval
   returns the same record *)
Theorem C01_persists : forall s k r cs,
  plain s -> view s k = Some r -> Forall (leaves_alone k) cs ->
  (r_ttl r = 0 \/ s_now (run s cs) < r_ts r + r_ttl r) ->
  view (run s cs) k = Some r.
Proof. exact persists. Qed.
Print Assumptions C01_persists.

(* with eviction disabled an item disappears only by a delete of that key, a
   flush, or the clock reaching its own deadline *)
Theorem C01_no_spontaneous_loss : forall s k r req,
  plain s -> view s k = Some r -> view (exec s (CReq req)) k = None ->
  (key_of req = Some k /\ is_delete req = true) \/ is_flush req = true.
Proof. exact no_spontaneous_loss. Qed.
Print Assumptions C01_no_spontaneous_loss.

Theorem C01_tick_loss : forall s k r d,
  view s k = Some r -> view (exec s (CTick d)) k = None ->
  r_ttl r <> 0 /\ r_ts r + r_ttl r <= s_now s + d.
Proof. exact tick_loss. Qed.
Print Assumptions C01_tick_loss.

(* at the wire: a set frame carrying any key (1..250 bytes), any value within the
   item limit, any flags, expiration, opaque and CAS decodes to exactly that
   request and leaves exactly the bytes that follow it (the response side is
   C11_response_parses) *)
Theorem C01_wire_roundtrip : forall limit key value flags exp opaque cas rest,
  blen key <> 0 -> blen key <= MAX_KEY -> 8 + blen key + blen value <= limit ->
  8 + blen key + blen value < 4294967296 ->
  flags < 4294967296 -> exp < 4294967296 -> opaque < 4294967296 -> cas < 18446744073709551616 ->
  decode (new_codec limit) (set_frame cmd_Set key value flags exp opaque cas ++ rest) =
  (new_codec limit, rest,
   DFrame (ReqSet VSet (set_header cmd_Set key value opaque cas) flags exp key value)).
Proof. exact decode_set_frame. Qed.
Print Assumptions C01_wire_roundtrip.

(* non-vacuity: from the initial store, an acknowledged set of arbitrary binary data *)
Example C01_nonvacuous :
  let h := mkHdr 128 1 1 8 0 0 12 7 0 in
  exists s' c, handle_request (ReqSet VSet h 4294967295 0 [x00] [xff; x00; x0a]) (init_store None)
               = (s', Some (ok_resp h c)) /\ plain (init_store None) /\ 0 < s_cas (init_store None).
Proof. cbv zeta. eexists. eexists. split; [reflexivity|]. split; [reflexivity|]. reflexivity. Qed.
