(* C03 — Concurrent get / set / CAS-set / delete on a key are atomic (linearizable).
   Statements only; proofs in Proofs/PC03.v. Model/Conc.v: each operation is a
   program over the atomic calls it makes on the map (DashMap's single-key calls
   are atomic under the shard lock) and the CAS counter; threads interleave
   between calls. Spec/Atomic.v: the one-at-a-time specification, with two
   internal events (collection of an expired record, reservation of a CAS value).
   The clock is constant in the concurrent window. CAS values of unconditional
   stores are treated as fresh names drawn at the reservation, not at the store. *)
From Coq Require Import ZArith.
From MC Require Import Model.Base Model.Generated Model.Store Model.Memc Model.Conc Model.PolConc Spec.Atomic
  Proofs.StoreLemmas Proofs.SetLemmas Proofs.PC03 Proofs.PC03p.

(* any number of clients, any operation lists on any keys, any initial store,
   any schedule: a valid one-at-a-time trace reproduces the final shared state
   and every client's answers in its own order *)
Theorem C03_linearizable : forall now (opss : list (list op)) (sched : list nat) (s0 : shared),
  let '(ts, s) := run_sched now (prog_of now) sched (map new_thread opss) s0 in
  exists evs, valid now evs s0 /\ replay now evs s0 = s /\
    forall i t, nth_thread i ts = Some t ->
      exists pending, lins i evs = th_done t ++ pending /\ (length pending <= 1)%nat /\
                      (th_cur t = None -> pending = []).
Proof. exact linearizable. Qed.
Print Assumptions C03_linearizable.

(* the same behind the random eviction policy (Model/PolConc.v: every Cache
   operation of RandomPolicy as a program over its map calls and its usage-counter
   accesses; clients choose their next operation from the answers they have had;
   what the scans of the map accept is an arbitrary oracle): a valid one-at-a-time
   trace — operations atomic; expired records collected, CAS values reserved and
   records evicted as internal events — reproduces the final map and CAS counter
   and gives every client its answers in its own order. Evictions (and the
   record-by-record removals of an immediate flush) can remove any record at any
   time; nothing else distinguishes the policy store from the plain one. *)
Theorem C03_linearizable_policy :
  forall now limit (clients : list (list pores -> option pop)) (sched : list nat) (s0 : pshared),
  let '(ts, s) := prun_sched now limit sched (map (fun c => new_gthread c) clients) s0 in
  exists evs, qvalid now evs (proj s0) /\ qreplay now evs (proj s0) = proj s /\
    forall i t, gnth i ts = Some t ->
      exists pending, qlins i evs = filter not_fuel (g_done t) ++ pending /\ (length pending <= 1)%nat /\
                      (g_cur t = None -> pending = []).
Proof. exact linearizable_policy. Qed.
Print Assumptions C03_linearizable_policy.

(* the programs are the sequential store functions cut at their atomic calls *)
Theorem C03_get_prog_is_get : forall now k s,
  s_limit s = None -> s_now s = now ->
  run_atomic now (get_prog now k) (shared_of s) = (shared_of (fst (get k s)), OGetR (snd (get k s))).
Proof. exact get_prog_seq. Qed.
Print Assumptions C03_get_prog_is_get.

Theorem C03_set_prog_is_set : forall now k r s,
  s_now s = now ->
  run_atomic now (set_prog now k r) (shared_of s) =
  (shared_of (fst (inner_set k r s)), OSetR (snd (inner_set k r s))).
Proof. exact set_prog_seq. Qed.
Print Assumptions C03_set_prog_is_set.

Theorem C03_del_prog_is_delete : forall now k c s,
  s_limit s = None ->
  run_atomic now (del_prog k c) (shared_of s) = (shared_of (fst (delete k c s)), ODelR (snd (delete k c s))).
Proof. exact del_prog_seq. Qed.
Print Assumptions C03_del_prog_is_delete.

(* of any number of CAS-stores carrying the same CAS on one key, taking effect
   in any order among collections, reservations and retrievals, at most one
   succeeds (counter-issued CAS on the key, counter clear of its 2^64 wrap) *)
Theorem C03_one_cas_winner : forall now c k evs s,
  0 < c -> c < two64 -> Forall (same_cas_store c k) evs -> valid now evs s ->
  (forall s', sh_cas s <= sh_cas s' -> sh_cas s' <= sh_cas s + N.of_nat (length evs) -> sh_cas s' < u64_max) ->
  (forall r, lookup k (sh_mem s) = Some r -> r_cas r < sh_cas s) ->
  (successes evs <= 1)%nat.
Proof. exact one_cas_winner. Qed.
Print Assumptions C03_one_cas_winner.

(* an acknowledged store is never undone by a retrieval, by the collection of an
   expired predecessor, or by anything but a later store/delete of that key *)
Theorem C03_store_not_undone : forall now t k r res c s e,
  let s1 := apply_event now (SLin t (OpSet k r) res c) s in
  res = spec_result now (OpSet k r) c s -> (exists c', res = OSetR (ROk c')) ->
  mutates k e = false ->
  exists new, lookup k (sh_mem s1) = Some new /\ r_val new = r_val r /\ r_flags new = r_flags r /\
              lookup k (sh_mem (apply_event now e s1)) = Some new.
Proof. exact store_not_undone. Qed.
Print Assumptions C03_store_not_undone.

(* non-vacuity: a reader collecting an expired record while a writer stores *)
Example C03_nonvacuous :
  let k := [x6b] in
  let s0 := mkShared [(k, mkRec 0 1 0 5 [x6f])] 2 in
  let '(ts, s) := run_sched 10 (prog_of 10) [0;0;1;1;1;0;0;1]%nat
                    (map new_thread [[OpGet k]; [OpSet k (mkRec 0 0 7 0 [x6e])]]) s0 in
  map th_done ts = [[OGetR (RErr NotFound)]; [OSetR (ROk 2)]] /\
  lookup k (sh_mem s) = Some (mkRec 10 2 7 0 [x6e]).
Proof. vm_compute. split; reflexivity. Qed.
