(* Extraction of the executable model for the OCaml runner. Only ExtrOcamlBasic
   (bool, option, unit, list, prod, sumbool mapped to OCaml's own types); N,
   positive, nat and byte stay the extracted inductives. *)
Require Extraction.
Require Import ExtrOcamlBasic.
From MC Require Import Model.Base Model.Generated Model.Store Model.Memc Model.Codec
  Model.Handler Model.Conn Model.Run Model.Conc Model.Server Model.Listeners Model.PolConc Spec.Atomic Spec.AtomicM.
From Coq Require Import NArith ZArith Strings.Byte.

Extraction Language OCaml.
Extraction "model.ml"
  Run.init_world Run.init_world_at Run.step Run.status_code Run.event Run.world
  Store.s_mem Store.s_usage Store.s_now Store.s_cas Store.r_ts Store.total
  Conn.cn_buf Conn.cn_skip
  Server.new_server Server.sv_step Server.mem_nat Server.sv_active
  Listeners.new_mserver Listeners.ms_step Listeners.ms_active
  Conc.run_sched Conc.mprog_of Conc.new_thread Conc.th_done Conc.mop Conc.op Conc.opres Conc.shared
  PolConc.prun_sched PolConc.new_gthread PolConc.list_client PolConc.g_done PolConc.pop PolConc.pores PolConc.pshared
  AtomicM.ni_sched
  Z.of_N Z.to_N Z.opp Base.two64 N.sub
  N.add N.mul N.div_eucl N.of_nat N.to_nat Byte.to_N Byte.of_N Base.blen.
