(* PC20.v — proofs for C20: configurations *)
From MC Require Import Model.Base Model.Generated Model.Store Model.Memc Model.Codec Model.Handler
  Model.Conn Model.Run Model.Server Model.Config Spec.Exec
  Proofs.StoreLemmas Proofs.SetLemmas Proofs.Effects Proofs.PPolicy.
From Coq Require Import ZifyN ZifyNat.

(* ---- the configured limits are the ones enforced; runtime type, thread count
   and port do not enter the behaviour ---- *)
Lemma limits_enforced a :
  a_item_size_limit a < two32 ->
  e_item_limit (effective_of a) = a_item_size_limit a /\
  e_connection_limit (effective_of a) = a_connection_limit a.
Proof. intros H. cbn. split; [now apply N.mod_small|reflexivity]. Qed.

Lemma runtime_irrelevant a rt th port :
  world_of (mkArgs port (a_connection_limit a) (a_backlog_limit a) (a_memory_limit a) (a_item_size_limit a)
                   th rt (a_eviction_policy a)) = world_of a /\
  slots_of (mkArgs port (a_connection_limit a) (a_backlog_limit a) (a_memory_limit a) (a_item_size_limit a)
                   th rt (a_eviction_policy a)) = slots_of a.
Proof. split; reflexivity. Qed.

(* ---- policy 'random' with a limit that is not reached is transparent ---- *)
(* the same store without its policy *)
Definition strip (s : store) : store := mkStore (s_mem s) (s_cas s) (s_now s) None 0 [].

(* exact accounting, and the stored bytes within the limit *)
Definition calm (L : N) (s : store) : Prop := acct s /\ s_limit s = Some L /\ total (s_mem s) <= L.

Lemma strip_decr s n : strip (decr_usage s n) = strip s.
Proof. unfold decr_usage. destruct (s_limit s); reflexivity. Qed.

Lemma get_strip k s : strip (fst (get k s)) = fst (get k (strip s)) /\ snd (get k s) = snd (get k (strip s)).
Proof.
  unfold get. cbn [s_mem s_now strip]. destruct (lookup k (s_mem s)) as [r|]; [|auto].
  destruct (expired (s_now s) r); [|auto]. cbn [fst snd]. rewrite strip_decr. auto.
Qed.

Lemma delete_strip k c s :
  strip (fst (delete k c s)) = fst (delete k c (strip s)) /\ snd (delete k c s) = snd (delete k c (strip s)).
Proof.
  unfold delete. cbn [s_mem strip]. destruct (lookup k (s_mem s)) as [r|]; [|auto].
  destruct ((c =? 0) || (r_cas r =? c)); [|auto]. cbn [fst snd]. rewrite strip_decr. auto.
Qed.

Lemma flush_strip d s : strip (flush d s) = flush d (strip s).
Proof.
  unfold flush. destruct (0 <? d); [reflexivity|]. cbn [s_limit strip]. destruct (s_limit s); reflexivity.
Qed.

Lemma inner_set_strip k r s :
  strip (fst (inner_set k r s)) = fst (inner_set k r (strip s)) /\ snd (inner_set k r s) = snd (inner_set k r (strip s)).
Proof.
  unfold inner_set. cbn [s_mem s_cas s_now strip]. destruct (0 <? r_cas r).
  - destruct (lookup k (s_mem s)) as [old|]; [destruct (r_cas old =? r_cas r)|]; auto.
  - auto.
Qed.

Lemma set_strip L k r s :
  calm L s ->
  strip (fst (set k r s)) = fst (set k r (strip s)) /\ snd (set k r s) = snd (set k r (strip s)).
Proof.
  intros (A & EL & TL). unfold set at 1 3. rewrite EL.
  rewrite evict_no_pressure by (rewrite (ac_exact _ A L EL); exact TL).
  destruct (inner_set_strip k r s) as [E1 E2].
  unfold set. cbn [s_limit strip]. destruct (inner_set k r s) as [s2 res]. cbn [fst snd] in *.
  destruct res; cbn [fst snd]; rewrite <- E1, <- E2; auto.
Qed.

Lemma get_calm L k s : calm L s -> calm L (fst (get k s)).
Proof.
  intros (A & EL & TL). split; [now apply get_acct|]. split.
  - unfold get. destruct (lookup k (s_mem s)); [|exact EL]. destruct (expired _ _); [|exact EL].
    cbn. now rewrite s_limit_decr_usage.
  - pose proof (get_total k s A). lia.
Qed.

(* a command is a sequence of store operations; the results determine the reply *)
Lemma pair_eq {A B} (p q : A * B) : fst p = fst q -> snd p = snd q -> p = q.
Proof. destruct p, q. cbn. congruence. Qed.

Definition same {A} (p : store * A) (q : store * A) : Prop := strip (fst p) = fst q /\ snd p = snd q.

Lemma memc_add_strip L k r s : calm L s -> same (memc_add k r s) (memc_add k r (strip s)).
Proof.
  intros C. unfold memc_add. destruct (get_strip k s) as [G1 G2]. pose proof (get_calm L k s C) as C1.
  destruct (get k s) as [s1 g], (get k (strip s)) as [t1 g']. cbn [fst snd] in *. subst g' t1.
  destruct g; [split; reflexivity|]. exact (set_strip L k r s1 C1).
Qed.

Lemma memc_replace_strip L k r s : calm L s -> same (memc_replace k r s) (memc_replace k r (strip s)).
Proof.
  intros C. unfold memc_replace. destruct (get_strip k s) as [G1 G2]. pose proof (get_calm L k s C) as C1.
  destruct (get k s) as [s1 g], (get k (strip s)) as [t1 g']. cbn [fst snd] in *. subst g' t1.
  destruct g; [exact (set_strip L k r s1 C1)|split; reflexivity].
Qed.

Lemma memc_append_strip L k c v s : calm L s -> same (memc_append k c v s) (memc_append k c v (strip s)).
Proof.
  intros C. unfold memc_append. destruct (get_strip k s) as [G1 G2]. pose proof (get_calm L k s C) as C1.
  destruct (get k s) as [s1 g], (get k (strip s)) as [t1 g']. cbn [fst snd] in *. subst g' t1.
  destruct g; [apply (set_strip L); exact C1|split; reflexivity].
Qed.

Lemma memc_prepend_strip L k c v s : calm L s -> same (memc_prepend k c v s) (memc_prepend k c v (strip s)).
Proof.
  intros C. unfold memc_prepend. destruct (get_strip k s) as [G1 G2]. pose proof (get_calm L k s C) as C1.
  destruct (get k s) as [s1 g], (get k (strip s)) as [t1 g']. cbn [fst snd] in *. subst g' t1.
  destruct g; [apply (set_strip L); exact C1|split; reflexivity].
Qed.

Lemma memc_delta_strip L i k hc he d ini s :
  calm L s -> same (memc_delta i k hc he d ini s) (memc_delta i k hc he d ini (strip s)).
Proof.
  intros C. unfold memc_delta. destruct (get_strip k s) as [G1 G2]. pose proof (get_calm L k s C) as C1.
  destruct (get k s) as [s1 g], (get k (strip s)) as [t1 g']. cbn [fst snd] in *. subst g' t1.
  destruct g as [old|e].
  - destruct (parse_u64 (r_val old)); [|split; reflexivity].
    match goal with |- context[set k ?rr s1] => destruct (set_strip L k rr s1 C1) as [E1 E2];
      destruct (set k rr s1) as [s2 res], (set k rr (strip s1)) as [t2 res'] end.
    cbn [fst snd] in *. subst. destruct res'; split; reflexivity.
  - destruct (he =? u32_max); [split; reflexivity|].
    match goal with |- context[set k ?rr s1] => destruct (set_strip L k rr s1 C1) as [E1 E2];
      destruct (set k rr s1) as [s2 res], (set k rr (strip s1)) as [t2 res'] end.
    cbn [fst snd] in *. subst. destruct res'; split; reflexivity.
Qed.

(* every request: same reply, same resulting store (policy aside) *)
Theorem policy_transparent L req s :
  calm L s -> same (handle_request req s) (handle_request req (strip s)).
Proof.
  intros C. pose proof C as (A & EL & TL).
  assert (LIFT : forall (p q : store * response) (f : store * response -> store * option response),
            (forall x y, strip (fst x) = fst y -> snd x = snd y -> strip (fst (f x)) = fst (f y) /\ snd (f x) = snd (f y)) ->
            strip (fst p) = fst q -> snd p = snd q -> same (f p) (f q)).
  { intros p q f H H1 H2. exact (H p q H1 H2). }
  assert (LOUD : forall x y : store * response, strip (fst x) = fst y -> snd x = snd y ->
                 strip (fst (loud x)) = fst (loud y) /\ snd (loud x) = snd (loud y)).
  { intros x y H1 H2. unfold loud. cbn. rewrite H1, H2. auto. }
  assert (QM : forall x y : store * response, strip (fst x) = fst y -> snd x = snd y ->
                 strip (fst (quiet_mut x)) = fst (quiet_mut y) /\ snd (quiet_mut x) = snd (quiet_mut y)).
  { intros x y H1 H2. unfold quiet_mut. cbn. rewrite H1, H2. auto. }
  assert (HSET : forall h f e k v rh, strip (fst (h_set h f e k v rh s)) = fst (h_set h f e k v rh (strip s)) /\
                                       snd (h_set h f e k v rh s) = snd (h_set h f e k v rh (strip s))).
  { intros. unfold h_set. destruct (set_strip L k (mkRec 0 (h_cas h) f e v) s C) as [E1 E2].
    destruct (set _ _ s) as [s1 r1], (set _ _ (strip s)) as [t1 r1']. cbn [fst snd] in *. subst. auto. }
  assert (HAR : forall h f e k v rh, strip (fst (h_add_replace h f e k v rh s)) = fst (h_add_replace h f e k v rh (strip s)) /\
                                      snd (h_add_replace h f e k v rh s) = snd (h_add_replace h f e k v rh (strip s))).
  { intros. unfold h_add_replace. destruct ((h_opcode h =? cmd_Add) || (h_opcode h =? cmd_AddQuiet)).
    - destruct (memc_add_strip L k (mkRec 0 (h_cas h) f e v) s C) as [E1 E2].
      destruct (memc_add _ _ s) as [s1 r1], (memc_add _ _ (strip s)) as [t1 r1']. cbn [fst snd] in *. subst. auto.
    - destruct (memc_replace_strip L k (mkRec 0 (h_cas h) f e v) s C) as [E1 E2].
      destruct (memc_replace _ _ s) as [s1 r1], (memc_replace _ _ (strip s)) as [t1 r1']. cbn [fst snd] in *. subst. auto. }
  assert (HAP : forall h k v rh, strip (fst (h_append_prepend h k v rh s)) = fst (h_append_prepend h k v rh (strip s)) /\
                                  snd (h_append_prepend h k v rh s) = snd (h_append_prepend h k v rh (strip s))).
  { intros. unfold h_append_prepend. destruct ((h_opcode h =? cmd_Append) || (h_opcode h =? cmd_AppendQuiet)).
    - destruct (memc_append_strip L k (h_cas h) v s C) as [E1 E2].
      destruct (memc_append _ _ _ s) as [s1 r1], (memc_append _ _ _ (strip s)) as [t1 r1']. cbn [fst snd] in *. subst. auto.
    - destruct (memc_prepend_strip L k (h_cas h) v s C) as [E1 E2].
      destruct (memc_prepend _ _ _ s) as [s1 r1], (memc_prepend _ _ _ (strip s)) as [t1 r1']. cbn [fst snd] in *. subst. auto. }
  assert (HDEL : forall h k rh, strip (fst (h_delete h k rh s)) = fst (h_delete h k rh (strip s)) /\
                                 snd (h_delete h k rh s) = snd (h_delete h k rh (strip s))).
  { intros. unfold h_delete. destruct (delete_strip k (h_cas h) s) as [E1 E2].
    destruct (delete _ _ s) as [s1 r1], (delete _ _ (strip s)) as [t1 r1']. cbn [fst snd] in *. subst. auto. }
  assert (HGET : forall h k rh, strip (fst (h_get h k rh s)) = fst (h_get h k rh (strip s)) /\
                                 snd (h_get h k rh s) = snd (h_get h k rh (strip s))).
  { intros. unfold h_get. destruct (get_strip k s) as [E1 E2].
    destruct (get k s) as [s1 r1], (get k (strip s)) as [t1 r1']. cbn [fst snd] in *. subst. auto. }
  assert (HDL : forall i h d ini e k rh, strip (fst (h_delta i h d ini e k rh s)) = fst (h_delta i h d ini e k rh (strip s)) /\
                                           snd (h_delta i h d ini e k rh s) = snd (h_delta i h d ini e k rh (strip s))).
  { intros. unfold h_delta. destruct (memc_delta_strip L i k (h_cas h) e d ini s C) as [E1 E2].
    destruct (memc_delta _ _ _ _ _ _ s) as [s1 r1], (memc_delta _ _ _ _ _ _ (strip s)) as [t1 r1']. cbn [fst snd] in *. subst. auto. }
  unfold same.
  destruct req as [v h kk|v h fl ex kk val|v h kk val|q h kk|v h dl ini ex kk|h|h|h|h|q h ex|h|h];
    cbn [handle_request req_header]; try (split; reflexivity).
  - destruct v; first [apply LOUD; apply HGET | destruct (HGET h kk (new_rheader (h_opcode h) (h_opaque h))) as [E1 E2]; cbn [fst snd]; rewrite E1, E2; auto].
  - destruct v; first [apply LOUD; first [apply HSET|apply HAR] | apply QM; first [apply HSET|apply HAR]].
  - destruct v; first [apply LOUD; apply HAP | apply QM; apply HAP].
  - destruct q; first [apply LOUD; apply HDEL | apply QM; apply HDEL].
  - destruct v; first [apply LOUD; apply HDL | apply QM; apply HDL].
  - destruct q; unfold loud, quiet_mut, h_flush; cbn [fst snd]; rewrite flush_strip; auto.
Qed.
