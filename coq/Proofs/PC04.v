(* PC04.v — C04: the read-modify-write commands are a retrieval followed by a
   store; atomic when alone, not under interleaving (refutation witnesses),
   protected by a client CAS *)
From MC Require Import Model.Base Model.Generated Model.Store Model.Memc Model.Conc Spec.Atomic
  Proofs.StoreLemmas Proofs.SetLemmas Proofs.PC03.

Section PC04.
Variable now : N.

Lemma run_atomic_bind p f s :
  run_atomic now (pbind p f) s = let (s1, v) := run_atomic now p s in run_atomic now (f v) s1.
Proof.
  revert s. induction p as [v|a k IH]; intros s; cbn [pbind run_atomic]; [reflexivity|].
  destruct (act now a s) as [s1 x]. apply IH.
Qed.

(* run alone, each command's program is the sequential MemcStore function *)
Lemma add_prog_seq k r s :
  s_limit s = None -> s_now s = now ->
  run_atomic now (mprog_of now (MAdd k r)) (shared_of s) =
  (shared_of (fst (memc_add k r s)), OSetR (snd (memc_add k r s))).
Proof.
  intros P N. cbn [mprog_of]. rewrite run_atomic_bind, (get_prog_seq now k s P N).
  unfold memc_add. destruct (get k s) as [s1 g] eqn:G. cbn [fst snd].
  assert (P1 : s_limit s1 = None /\ s_now s1 = now).
  { pose proof (get_now k s) as Nw. rewrite G in Nw. cbn in Nw. split; [|congruence].
    unfold get in G. destruct (lookup k (s_mem s)); [destruct (expired (s_now s) r0)|];
      inversion G; subst; cbn; rewrite ?s_limit_decr_usage; assumption. }
  destruct P1 as [P1 N1]. destruct g; [reflexivity|].
  rewrite (set_prog_seq now k r s1 N1). unfold set. rewrite P1. reflexivity.
Qed.

(* with a client CAS the store part of a read-modify-write cannot overwrite an
   interleaved change: it fails with 'key exists' and changes nothing *)
Lemma cas_protected k r s cur :
  0 < r_cas r -> lookup k (sh_mem s) = Some cur -> r_cas cur <> r_cas r ->
  run_atomic now (set_prog now k r) s = (s, OSetR (RErr KeyExists)).
Proof.
  intros H0 L NE. unfold set_prog. assert (0 <? r_cas r = true) as -> by now apply N.ltb_lt.
  cbn [run_atomic act]. rewrite L. assert (r_cas cur =? r_cas r = false) as -> by now apply N.eqb_neq.
  reflexivity.
Qed.

End PC04.

(* ---- refutation witnesses: concrete schedules that no sequential order explains ---- *)
Definition outcome (now : N) (opss : list (list mop)) (sched : list nat) (s0 : shared)
  : list (list opres) * mem :=
  let '(ts, s) := run_sched now (mprog_of now) sched (map new_thread opss) s0 in
  (map th_done ts, sh_mem s).

(* thread 0 entirely, then thread 1 entirely (and the other way round) *)
Definition seq01 : list nat := [0;0;0;0;0;0;0;0;1;1;1;1;1;1;1;1]%nat.
Definition seq10 : list nat := [1;1;1;1;1;1;1;1;0;0;0;0;0;0;0;0]%nat.

Definition kx : bytes := [x78].
Definition rec_of (v : bytes) : record := mkRec 0 0 0 0 v.
Definition empty0 : shared := mkShared [] 1.

(* two adds of an absent key: both are acknowledged *)
Lemma add_add_refuted :
  let ops := [[MAdd kx (rec_of [x41])]; [MAdd kx (rec_of [x42])]] in
  let conc := outcome 0 ops [0;1;0;1;0;1;0;1;0;1]%nat empty0 in
  fst conc = [[OSetR (ROk 1)]; [OSetR (ROk 2)]] /\
  fst (outcome 0 ops seq01 empty0) = [[OSetR (ROk 1)]; [OSetR (RErr KeyExists)]] /\
  fst (outcome 0 ops seq10 empty0) = [[OSetR (RErr KeyExists)]; [OSetR (ROk 1)]].
Proof. cbv zeta. repeat split; vm_compute; reflexivity. Qed.

(* two increments by 1 of a counter holding 5: it ends at 6, not 7 *)
Definition five : shared := mkShared [(kx, mkRec 0 1 0 0 [x35])] 2.
Lemma incr_lost_refuted :
  let ops := [[MDelta true kx 0 0 1 0]; [MDelta true kx 0 0 1 0]] in
  let conc := outcome 0 ops [0;1;0;1;0;1;0;1;0;1;0;1]%nat five in
  option_map r_val (lookup kx (snd conc)) = Some [x36] /\
  option_map r_val (lookup kx (snd (outcome 0 ops seq01 five))) = Some [x37] /\
  option_map r_val (lookup kx (snd (outcome 0 ops seq10 five))) = Some [x37].
Proof. cbv zeta. repeat split; vm_compute; reflexivity. Qed.

(* two appends to "x": one suffix is lost although both are acknowledged *)
Definition onex : shared := mkShared [(kx, mkRec 0 1 0 0 [x78])] 2.
Lemma append_lost_refuted :
  let ops := [[MAppend kx 0 [x41]]; [MAppend kx 0 [x42]]] in
  let conc := outcome 0 ops [0;1;0;1;0;1;0;1;0;1;0;1]%nat onex in
  fst conc = [[OSetR (ROk 2)]; [OSetR (ROk 3)]] /\
  option_map r_val (lookup kx (snd conc)) = Some [x78; x42] /\
  option_map r_val (lookup kx (snd (outcome 0 ops seq01 onex))) = Some [x78; x41; x42] /\
  option_map r_val (lookup kx (snd (outcome 0 ops seq10 onex))) = Some [x78; x42; x41].
Proof. cbv zeta. repeat split; vm_compute; reflexivity. Qed.

(* a replace racing a delete re-creates the deleted item *)
Lemma resurrect_refuted :
  let ops := [[MReplace kx (rec_of [x52])]; [MBase (OpDel kx 0)]] in
  let conc := outcome 0 ops [0;0;1;1;1;0;0;0;0]%nat onex in
  (exists c r, fst conc = [[OSetR (ROk c)]; [ODelR (ROk r)]]) /\
  option_map r_val (lookup kx (snd conc)) = Some [x52] /\
  lookup kx (snd (outcome 0 ops seq01 onex)) = None /\
  lookup kx (snd (outcome 0 ops seq10 onex)) = None.
Proof. cbv zeta. split; [eexists; eexists; vm_compute; reflexivity|]. repeat split; vm_compute; reflexivity. Qed.
