(* Effects.v — what one request can do to the store (plain store): a frame lemma
   for the keys it does not address and a classification of what happens to the
   key it does address. Shared by C01 C02 C05 C07 C08. *)
From MC Require Import Model.Base Model.Generated Model.Store Model.Memc Model.Codec Model.Handler
  Proofs.StoreLemmas Proofs.SetLemmas Proofs.MemcLemmas.

(* the key a request addresses *)
Definition key_of (req : request) : option bytes :=
  match req with
  | ReqGet _ _ k | ReqSet _ _ _ _ k _ | ReqAppend _ _ k _ | ReqDelete _ _ k | ReqIncr _ _ _ _ _ k => Some k
  | _ => None
  end.

Definition is_flush (req : request) : bool :=
  match req with ReqFlush _ _ _ => true | _ => false end.

(* [s'] differs from [s] at most at key [k]; clock kept; CAS counter moved by 0 or 1 *)
Record only_at (k : bytes) (s s' : store) : Prop := {
  oa_frame : forall k', k' <> k -> lookup k' (s_mem s') = lookup k' (s_mem s);
  oa_now : s_now s' = s_now s;
  oa_plain : plain s';
  oa_cas : s_cas s' = s_cas s \/ s_cas s' = add64w (s_cas s) 1
}.

Lemma only_at_refl k s : plain s -> only_at k s s.
Proof. intros P. split; auto. Qed.

Lemma only_at_trans k s1 s2 s3 :
  only_at k s1 s2 -> s_cas s2 = s_cas s1 -> only_at k s2 s3 -> only_at k s1 s3.
Proof.
  intros [F1 N1 P1 C1] E [F2 N2 P2 C2]. split.
  - intros k' Hn. rewrite F2, F1; auto.
  - congruence.
  - assumption.
  - rewrite <- E. assumption.
Qed.

Lemma get_only_at k s : plain s -> only_at k s (fst (get k s)) /\ s_cas (fst (get k s)) = s_cas s.
Proof.
  intros P. unfold get. destruct (lookup k (s_mem s)) as [r|]; [|split; [now apply only_at_refl|reflexivity]].
  destruct (expired (s_now s) r); [|split; [now apply only_at_refl|reflexivity]].
  cbn. rewrite (plain_decr _ _ (plain_with_mem s _ P)). split; [|reflexivity].
  split; cbn; auto. intros k' Hn. now apply lookup_remove_ne.
Qed.

Lemma set_only_at k r s : plain s -> only_at k s (fst (set k r s)).
Proof.
  intros P. rewrite (plain_set k r s P).
  pose proof (inner_set_cases k r s) as S. destruct (inner_set k r s) as [s' res].
  inversion S; subst; cbn.
  - split; cbn; auto. intros k' Hn. now apply lookup_insert_ne.
  - split; cbn; auto. intros k' Hn. now apply lookup_insert_ne.
  - now apply only_at_refl.
Qed.

Lemma delete_only_at k c s : plain s -> only_at k s (fst (delete k c s)).
Proof.
  intros P. unfold delete. destruct (lookup k (s_mem s)) as [r|]; [|now apply only_at_refl].
  destruct ((c =? 0) || (r_cas r =? c)); [|now apply only_at_refl].
  cbn. rewrite (plain_decr _ _ (plain_with_mem s _ P)).
  split; cbn; auto. intros k' Hn. now apply lookup_remove_ne.
Qed.

(* get followed by one set, the shape of every read-modify-write command *)
Lemma get_then_set_only_at k s (f : store -> result record -> store * result N) :
  plain s ->
  (forall s1 g, plain s1 -> only_at k s1 (fst (f s1 g))) ->
  only_at k s (fst (f (fst (get k s)) (snd (get k s)))).
Proof.
  intros P HF. destruct (get_only_at k s P) as [G GC].
  eapply only_at_trans; [exact G|exact GC|]. apply HF. apply G.
Qed.

Lemma memc_add_only_at k r s : plain s -> only_at k s (fst (memc_add k r s)).
Proof.
  intros P. unfold memc_add. destruct (get k s) as [s1 g] eqn:E.
  pose proof (get_only_at k s P) as [G GC]. rewrite E in G, GC. cbn in G, GC.
  destruct g; cbn; [exact G|].
  eapply only_at_trans; [exact G|exact GC|]. apply set_only_at. apply G.
Qed.

Lemma memc_replace_only_at k r s : plain s -> only_at k s (fst (memc_replace k r s)).
Proof.
  intros P. unfold memc_replace. destruct (get k s) as [s1 g] eqn:E.
  pose proof (get_only_at k s P) as [G GC]. rewrite E in G, GC. cbn in G, GC.
  destruct g; cbn; [|exact G].
  eapply only_at_trans; [exact G|exact GC|]. apply set_only_at. apply G.
Qed.

Lemma memc_append_only_at k c v s : plain s -> only_at k s (fst (memc_append k c v s)).
Proof.
  intros P. unfold memc_append. destruct (get k s) as [s1 g] eqn:E.
  pose proof (get_only_at k s P) as [G GC]. rewrite E in G, GC. cbn in G, GC.
  destruct g; cbn; [|exact G].
  eapply only_at_trans; [exact G|exact GC|]. apply set_only_at. apply G.
Qed.

Lemma memc_prepend_only_at k c v s : plain s -> only_at k s (fst (memc_prepend k c v s)).
Proof.
  intros P. unfold memc_prepend. destruct (get k s) as [s1 g] eqn:E.
  pose proof (get_only_at k s P) as [G GC]. rewrite E in G, GC. cbn in G, GC.
  destruct g; cbn; [|exact G].
  eapply only_at_trans; [exact G|exact GC|]. apply set_only_at. apply G.
Qed.

Lemma memc_delta_only_at i k hc he d ini s : plain s -> only_at k s (fst (memc_delta i k hc he d ini s)).
Proof.
  intros P. unfold memc_delta. destruct (get k s) as [s1 g] eqn:E.
  pose proof (get_only_at k s P) as [G GC]. rewrite E in G, GC. cbn in G, GC.
  destruct g as [old|e].
  - destruct (parse_u64 (r_val old)) as [v|]; [|exact G].
    match goal with |- context[set k ?r s1] => pose proof (set_only_at k r s1 (oa_plain _ _ _ G)) as S;
      destruct (set k r s1) as [s2 res] end.
    cbn in S. eapply only_at_trans; [exact G|exact GC|]. destruct res; exact S.
  - destruct (he =? u32_max); [exact G|].
    match goal with |- context[set k ?r s1] => pose proof (set_only_at k r s1 (oa_plain _ _ _ G)) as S;
      destruct (set k r s1) as [s2 res] end.
    cbn in S. eapply only_at_trans; [exact G|exact GC|]. destruct res; exact S.
Qed.

(* the state component of each handler function *)
Lemma fst_h_set h f e k v rh s : fst (h_set h f e k v rh s) = fst (set k (mkRec 0 (h_cas h) f e v) s).
Proof. unfold h_set. destruct (set _ _ _). reflexivity. Qed.
Lemma fst_h_add_replace h f e k v rh s :
  fst (h_add_replace h f e k v rh s) =
  if (h_opcode h =? cmd_Add) || (h_opcode h =? cmd_AddQuiet)
  then fst (memc_add k (mkRec 0 (h_cas h) f e v) s) else fst (memc_replace k (mkRec 0 (h_cas h) f e v) s).
Proof.
  unfold h_add_replace. destruct ((h_opcode h =? cmd_Add) || (h_opcode h =? cmd_AddQuiet)).
  - destruct (memc_add _ _ _). reflexivity.
  - destruct (memc_replace _ _ _). reflexivity.
Qed.
Lemma fst_h_append_prepend h k v rh s :
  fst (h_append_prepend h k v rh s) =
  if (h_opcode h =? cmd_Append) || (h_opcode h =? cmd_AppendQuiet)
  then fst (memc_append k (h_cas h) v s) else fst (memc_prepend k (h_cas h) v s).
Proof.
  unfold h_append_prepend. destruct ((h_opcode h =? cmd_Append) || (h_opcode h =? cmd_AppendQuiet)).
  - destruct (memc_append _ _ _ _). reflexivity.
  - destruct (memc_prepend _ _ _ _). reflexivity.
Qed.
Lemma fst_h_delete h k rh s : fst (h_delete h k rh s) = fst (delete k (h_cas h) s).
Proof. unfold h_delete. destruct (delete _ _ _). reflexivity. Qed.
Lemma fst_h_get h k rh s : fst (h_get h k rh s) = fst (get k s).
Proof. unfold h_get. destruct (get _ _). reflexivity. Qed.
Lemma fst_h_delta i h d ini e k rh s :
  fst (h_delta i h d ini e k rh s) = fst (memc_delta i k (h_cas h) e d ini s).
Proof. unfold h_delta. destruct (memc_delta _ _ _ _ _ _ _). reflexivity. Qed.

(* the state after a request, as a function of the store-level command it runs *)
Definition effect (req : request) (s : store) : store :=
  match req with
  | ReqGet _ _ k => fst (get k s)
  | ReqSet VSet h f e k v | ReqSet VSetQ h f e k v => fst (set k (mkRec 0 (h_cas h) f e v) s)
  | ReqSet _ h f e k v =>
      if (h_opcode h =? cmd_Add) || (h_opcode h =? cmd_AddQuiet)
      then fst (memc_add k (mkRec 0 (h_cas h) f e v) s) else fst (memc_replace k (mkRec 0 (h_cas h) f e v) s)
  | ReqAppend _ h k v =>
      if (h_opcode h =? cmd_Append) || (h_opcode h =? cmd_AppendQuiet)
      then fst (memc_append k (h_cas h) v s) else fst (memc_prepend k (h_cas h) v s)
  | ReqDelete _ h k => fst (delete k (h_cas h) s)
  | ReqIncr VIncr h d i e k | ReqIncr VIncrQ h d i e k => fst (memc_delta true k (h_cas h) e d i s)
  | ReqIncr _ h d i e k => fst (memc_delta false k (h_cas h) e d i s)
  | ReqFlush _ _ d => flush d s
  | _ => s
  end.

Lemma handle_effect req s : fst (handle_request req s) = effect req s.
Proof.
  destruct req as [v h kk|v h fl ex kk val|v h kk val|q h kk|v h dl ini ex kk|h|h|h|h|q h ex|h|h];
    try reflexivity.
  - destruct v; cbn [handle_request effect req_header fst loud]; apply fst_h_get.
  - destruct v; cbn [handle_request effect req_header fst loud quiet_mut];
      first [apply fst_h_set | apply fst_h_add_replace].
  - destruct v; cbn [handle_request effect req_header fst loud quiet_mut]; apply fst_h_append_prepend.
  - destruct q; cbn [handle_request effect req_header fst loud quiet_mut]; apply fst_h_delete.
  - destruct v; cbn [handle_request effect req_header fst loud quiet_mut]; apply fst_h_delta.
  - destruct q; reflexivity.
Qed.

(* every request that is not a flush touches at most the key it addresses *)
Lemma handle_only_at req s k :
  plain s -> key_of req = Some k -> only_at k s (fst (handle_request req s)).
Proof.
  intros P K. rewrite handle_effect.
  destruct req as [v h kk|v h fl ex kk val|v h kk val|q h kk|v h dl ini ex kk|h|h|h|h|q h ex|h|h];
    cbn in K; try discriminate; injection K as K; subst k; cbn [effect].
  - apply get_only_at. exact P.
  - destruct v; try (apply set_only_at; exact P);
      (destruct ((h_opcode h =? cmd_Add) || (h_opcode h =? cmd_AddQuiet));
       [apply memc_add_only_at|apply memc_replace_only_at]; exact P).
  - destruct ((h_opcode h =? cmd_Append) || (h_opcode h =? cmd_AppendQuiet));
      [apply memc_append_only_at|apply memc_prepend_only_at]; exact P.
  - apply delete_only_at. exact P.
  - destruct v; apply memc_delta_only_at; exact P.
Qed.

(* requests without a key that are not flushes leave the store as it is *)
Lemma handle_keyless req s :
  key_of req = None -> is_flush req = false -> fst (handle_request req s) = s.
Proof.
  destruct req; cbn; try discriminate; reflexivity.
Qed.

(* ---- the flush ---- *)
Lemma handle_flush q h d s : fst (handle_request (ReqFlush q h d) s) = flush d s.
Proof. destruct q; reflexivity. Qed.

Lemma flush_lookup d s k : plain s ->
  lookup k (s_mem (flush d s)) =
  if 0 <? d then option_map (flush_record (s_now s) d) (lookup k (s_mem s)) else None.
Proof.
  intros P. unfold flush. destruct (0 <? d); cbn.
  - apply lookup_map_val.
  - unfold plain in P. rewrite P. reflexivity.
Qed.

Lemma flush_now d s : s_now (flush d s) = s_now s.
Proof. unfold flush. destruct (0 <? d); [reflexivity|]. destruct (s_limit s); reflexivity. Qed.
Lemma flush_cas d s : s_cas (flush d s) = s_cas s.
Proof. unfold flush. destruct (0 <? d); [reflexivity|]. destruct (s_limit s); reflexivity. Qed.
Lemma flush_plain d s : plain s -> plain (flush d s).
Proof. unfold plain, flush. intros P. destruct (0 <? d); cbn; [exact P|]. rewrite P. exact P. Qed.

(* every request keeps the clock and a plain store plain *)
Lemma handle_now req s : plain s -> s_now (fst (handle_request req s)) = s_now s /\ plain (fst (handle_request req s)).
Proof.
  intros P. destruct (key_of req) as [k|] eqn:K.
  - destruct (handle_only_at req s k P K) as [_ N P' _]. auto.
  - destruct (is_flush req) eqn:F.
    + destruct req; try discriminate. rewrite handle_flush. split; [apply flush_now|now apply flush_plain].
    + rewrite handle_keyless by assumption. auto.
Qed.
