(* SetLemmas.v — characterisation of Store.set / inner_set / delete / flush *)
From MC Require Import Model.Base Model.Generated Model.Store Proofs.StoreLemmas.

(* the policy, if any, is not under memory pressure: its eviction loop does nothing *)
Definition no_pressure (s : store) : Prop :=
  match s_limit s with None => True | Some L => s_usage s <= L end.

(* equal except for the accounted usage *)
Definition eq_mod_usage (a b : store) : Prop :=
  s_mem a = s_mem b /\ s_cas a = s_cas b /\ s_now a = s_now b /\
  s_limit a = s_limit b /\ s_oracle a = s_oracle b.

Lemma eq_mod_usage_refl a : eq_mod_usage a a.
Proof. repeat split. Qed.

Lemma evict_no_pressure fuel L s : s_usage s <= L -> evict fuel L s = s.
Proof.
  intros H. destruct fuel; cbn; [reflexivity|].
  destruct (L <? s_usage s) eqn:E; [|reflexivity].
  apply N.ltb_lt in E. lia.
Qed.

(* new record written by a successful store *)
Definition stored (s : store) (c : N) (r : record) : record :=
  mkRec (s_now s) c (r_flags r) (r_ttl r) (r_val r).

Inductive inner_set_spec (k : bytes) (r : record) (s : store) : store * result N -> Prop :=
| iss_counter :
    (r_cas r = 0 \/ exists old, lookup k (s_mem s) = Some old /\ r_cas old = r_cas r) ->
    inner_set_spec k r s
      (mkStore (insert k (stored s (s_cas s) r) (s_mem s)) (add64w (s_cas s) 1) (s_now s)
               (s_limit s) (s_usage s) (s_oracle s), ROk (s_cas s))
| iss_absent :
    0 < r_cas r -> lookup k (s_mem s) = None ->
    inner_set_spec k r s
      (with_mem s (insert k (stored s (next_client_cas (r_cas r)) r) (s_mem s)),
       ROk (next_client_cas (r_cas r)))
| iss_mismatch old :
    0 < r_cas r -> lookup k (s_mem s) = Some old -> r_cas old <> r_cas r ->
    inner_set_spec k r s (s, RErr KeyExists).

Lemma inner_set_cases k r s : inner_set_spec k r s (inner_set k r s).
Proof.
  unfold inner_set. destruct (0 <? r_cas r) eqn:C.
  - apply N.ltb_lt in C. destruct (lookup k (s_mem s)) as [old|] eqn:L.
    + destruct (r_cas old =? r_cas r) eqn:E.
      * apply N.eqb_eq in E. cbn. apply iss_counter. right. eauto.
      * apply N.eqb_neq in E. eapply iss_mismatch; eauto.
    + now apply iss_absent.
  - apply N.ltb_ge in C. cbn. apply iss_counter. left. lia.
Qed.

(* a successful store: the key holds exactly the new record, other keys untouched *)
Lemma inner_set_ok k r s s' c :
  inner_set k r s = (s', ROk c) ->
  s_mem s' = insert k (stored s c r) (s_mem s) /\
  s_now s' = s_now s /\ s_limit s' = s_limit s /\ s_usage s' = s_usage s /\
  s_oracle s' = s_oracle s /\
  (s_cas s' = s_cas s \/ (c = s_cas s /\ s_cas s' = add64w (s_cas s) 1)).
Proof.
  intros H. pose proof (inner_set_cases k r s) as S. rewrite H in S.
  inversion S; subst; cbn; intuition.
Qed.

Lemma inner_set_err k r s s' e :
  inner_set k r s = (s', RErr e) ->
  s' = s /\ e = KeyExists /\ 0 < r_cas r /\
  exists old, lookup k (s_mem s) = Some old /\ r_cas old <> r_cas r.
Proof.
  intros H. pose proof (inner_set_cases k r s) as S. rewrite H in S.
  inversion S; subst. repeat split; eauto.
Qed.

(* under no pressure the policy only adds bookkeeping to inner_set *)
Lemma set_no_pressure k r s :
  no_pressure s ->
  snd (set k r s) = snd (inner_set k r s) /\
  eq_mod_usage (fst (set k r s)) (fst (inner_set k r s)).
Proof.
  unfold no_pressure, set. destruct (s_limit s) as [L|] eqn:EL.
  - intros HP. rewrite evict_no_pressure by assumption.
    destruct (inner_set k r s) as [s2 res] eqn:E. destruct res as [c|e]; cbn.
    + split; [reflexivity|]. repeat split.
    + split; [reflexivity|apply eq_mod_usage_refl].
  - intros _. split; [reflexivity|apply eq_mod_usage_refl].
Qed.

Lemma set_ok k r s s' c :
  no_pressure s -> set k r s = (s', ROk c) ->
  s_mem s' = insert k (stored s c r) (s_mem s) /\ s_now s' = s_now s /\ s_limit s' = s_limit s.
Proof.
  intros HP H. destruct (set_no_pressure k r s HP) as [H1 H2]. rewrite H in H1, H2. cbn in H1, H2.
  destruct (inner_set k r s) as [s2 r2] eqn:E. cbn in H1, H2. subst r2.
  apply inner_set_ok in E. destruct H2 as (M & _ & Nw & Li & _).
  destruct E as (M2 & N2 & L2 & _). repeat split; congruence.
Qed.

Lemma set_err k r s s' e :
  no_pressure s -> set k r s = (s', RErr e) ->
  s' = s /\ e = KeyExists /\ 0 < r_cas r /\
  exists old, lookup k (s_mem s) = Some old /\ r_cas old <> r_cas r.
Proof.
  intros HP H. unfold set in H. unfold no_pressure in HP.
  destruct (s_limit s) as [L|] eqn:EL.
  - rewrite evict_no_pressure in H by assumption.
    destruct (inner_set k r s) as [s2 res] eqn:E. destruct res as [c|e']; [discriminate|].
    injection H as <- <-. now apply inner_set_err in E.
  - now apply inner_set_err in H.
Qed.

(* whether a store with request CAS [c] is accepted against what is physically stored *)
Definition cas_admits (c : N) (phys : option record) : Prop :=
  c = 0 \/ phys = None \/ exists old, phys = Some old /\ r_cas old = c.

Lemma set_accepts k r s :
  no_pressure s -> cas_admits (r_cas r) (lookup k (s_mem s)) ->
  exists s' c, set k r s = (s', ROk c).
Proof.
  intros HP HA. destruct (set k r s) as [s' [c|e]] eqn:E; [eauto|].
  apply set_err in E; [|assumption]. destruct E as (_ & _ & Hc & old & Hl & Hne).
  destruct HA as [H|[H|(o & H & H2)]]; [lia|congruence|]. rewrite Hl in H. injection H as <-. congruence.
Qed.

Lemma set_rejects k r s old :
  no_pressure s -> 0 < r_cas r -> lookup k (s_mem s) = Some old -> r_cas old <> r_cas r ->
  set k r s = (s, RErr KeyExists).
Proof.
  intros HP Hc Hl Hne. destruct (set k r s) as [s' [c|e]] eqn:E.
  - exfalso. unfold set in E. unfold no_pressure in HP.
    assert (HI : inner_set k r s = (s, RErr KeyExists)).
    { unfold inner_set. apply N.ltb_lt in Hc. rewrite Hc, Hl.
      apply N.eqb_neq in Hne. now rewrite Hne. }
    destruct (s_limit s) as [L|].
    + rewrite evict_no_pressure in E by assumption. rewrite HI in E. discriminate.
    + congruence.
  - apply set_err in E; [|assumption]. destruct E as (-> & -> & _). reflexivity.
Qed.

(* delete *)
Lemma delete_spec k cas s :
  match lookup k (s_mem s) with
  | None => delete k cas s = (s, RErr NotFound)
  | Some r =>
      if (cas =? 0) || (r_cas r =? cas)
      then exists s', delete k cas s = (s', ROk r) /\ s_mem s' = remove k (s_mem s) /\
                      s_now s' = s_now s /\ s_cas s' = s_cas s /\ s_limit s' = s_limit s
      else delete k cas s = (s, RErr KeyExists)
  end.
Proof.
  unfold delete. destruct (lookup k (s_mem s)) as [r|]; [|reflexivity].
  destruct ((cas =? 0) || (r_cas r =? cas)); [|reflexivity].
  eexists. split; [reflexivity|].
  now rewrite s_mem_decr_usage, s_now_decr_usage, s_cas_decr_usage, s_limit_decr_usage.
Qed.
