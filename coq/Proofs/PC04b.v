(* PC04b.v — C04, the positive half: every concurrent history of memcache
   commands — read-modify-write ones included — is equivalent to a one-at-a-time
   history (Spec/AtomicM.v), PROVIDED the schedule never lets a client change what
   a retrieval answers for a key while another client stands between the read
   and the write of a read-modify-write on that key ([ni_sched]). The four
   refutation witnesses of Props/C04.v are exactly schedules that do. Same
   architecture as PC03: a local obligation per program position, one generic
   induction over schedules. *)
From MC Require Import Model.Base Model.Generated Model.Store Model.Memc Model.Conc Spec.Atomic Spec.AtomicM
  Proofs.StoreLemmas Proofs.SetLemmas Proofs.PC03.
From Coq Require Import Arith.PeanoNat ZifyN ZifyNat.

Section PC04b.
Variable now : N.

Notation act := (act now).
Notation get_prog := (get_prog now).
Notation set_prog := (set_prog now).
Notation mprog_of := (mprog_of now).
Notation mthread := (@thread mop).
Notation thread_step := (thread_step now mprog_of).
Notation run_sched := (run_sched now mprog_of).
Notation view := (AtomicM.view now).
Notation mspec_result := (mspec_result now).
Notation mspec_effect := (mspec_effect now).
Notation apply_mevent := (apply_mevent now).
Notation mvalid := (mvalid now).
Notation mreplay := (mreplay now).
Notation ni_sched := (ni_sched now).

(* the continuation of the retrieval in each read-modify-write program, as
   written in Model/Conc.v, and the same through [decide] *)
Definition fm (m : mop) : opres -> prog :=
  match m with
  | MBase _ => fun g => Ret g
  | MAdd k r => fun g =>
      match g with OGetR (ROk _) => Ret (OSetR (RErr KeyExists)) | _ => set_prog k r end
  | MReplace k r => fun g =>
      match g with OGetR (ROk _) => set_prog k r | _ => Ret (OSetR (RErr NotFound)) end
  | MAppend k cas v => fun g =>
      match g with
      | OGetR (ROk old) => set_prog k (mkRec (r_ts old) cas (r_flags old) (r_ttl old) (r_val old ++ v))
      | _ => Ret (OSetR (RErr NotFound))
      end
  | MPrepend k cas v => fun g =>
      match g with
      | OGetR (ROk old) => set_prog k (mkRec (r_ts old) cas (r_flags old) (r_ttl old) (v ++ r_val old))
      | _ => Ret (OSetR (RErr NotFound))
      end
  | MDelta incr k hcas hexp delta initial => fun g =>
      match g with
      | OGetR (ROk old) =>
          match parse_u64 (r_val old) with
          | None => Ret (OSetR (RErr ArithOnNonNumeric))
          | Some v =>
              let v' := if incr then wrapping_add64 v delta else if v <? delta then 0 else v - delta in
              set_prog k (mkRec 0 hcas (r_flags old) hexp (to_dec v'))
          end
      | _ =>
          if hexp =? u32_max then Ret (OSetR (RErr NotFound))
          else set_prog k (mkRec 0 0 0 hexp (to_dec initial))
      end
  end.

Definition kont (m : mop) : opres -> prog :=
  fun g => match decide m g with DRet v => Ret v | DStore k r => set_prog k r end.

Lemma mprog_fm m k : rmw_key m = Some k -> mprog_of m = pbind (get_prog k) (fm m).
Proof.
  destruct m as [o|k' r|k' r|k' c v|k' c v|i k' hc he d ini]; cbn [AtomicM.rmw_key]; intros H; try discriminate;
    injection H as ->; reflexivity.
Qed.

Lemma fm_kont m g : rmw_key m <> None -> fm m g = kont m g.
Proof.
  unfold kont. destruct m as [o|k' r|k' r|k' c v|k' c v|i k' hc he d ini]; cbn [AtomicM.rmw_key AtomicM.decide fm]; intros H; try congruence.
  - destruct g as [[?|?]| |]; reflexivity.
  - destruct g as [[?|?]| |]; reflexivity.
  - destruct g as [[?|?]| |]; reflexivity.
  - destruct g as [[?|?]| |]; reflexivity.
  - destruct g as [[old|?]| |]; try (destruct (he =? u32_max); reflexivity).
    destruct (parse_u64 (r_val old)); reflexivity.
Qed.

(* ---- program positions --------------------------------------------------- *)
Inductive win :=
| WNone
| WRead (k : bytes) (g : opres).   (* k has been read as g and a store was decided *)

(* [mpstate m p lr w]: p is what remains of m's program; lr: the answer, once
   the command has taken effect; w: the window it is in *)
Inductive mpstate : mop -> prog -> option opres -> win -> Prop :=
| mp_base o p lr : pstate now o p lr -> mpstate (MBase o) p lr WNone
| mp_start m k : rmw_key m = Some k -> mpstate m (mprog_of m) None WNone
| mp_coll_ret m k v : rmw_key m = Some k -> decide m (OGetR (RErr NotFound)) = DRet v ->
    mpstate m (pbind (Act (ARemExp k) (fun _ => Ret (OGetR (RErr NotFound)))) (fm m)) (Some v) WNone
| mp_coll_store m k r : rmw_key m = Some k -> decide m (OGetR (RErr NotFound)) = DStore k r ->
    mpstate m (pbind (Act (ARemExp k) (fun _ => Ret (OGetR (RErr NotFound)))) (fm m)) None (WRead k (OGetR (RErr NotFound)))
| mp_ret m v : mpstate m (Ret v) (Some v) WNone
| mp_store m k g r : rmw_key m = Some k -> decide m g = DStore k r ->
    mpstate m (set_prog k r) None (WRead k g)
| mp_store1 m k g r c : rmw_key m = Some k -> decide m g = DStore k r -> r_cas r = 0 ->
    mpstate m (Act (AInsert k (mkRec now c (r_flags r) (r_ttl r) (r_val r))) (fun _ => Ret (OSetR (ROk c)))) None (WRead k g).

Lemma decide_key m k g k' r : rmw_key m = Some k -> decide m g = DStore k' r -> k' = k.
Proof.
  destruct m as [o|k0 r0|k0 r0|k0 c v|k0 c v|i k0 hc he d ini]; cbn [AtomicM.rmw_key AtomicM.decide];
    intros H D; try discriminate; injection H as <-.
  - destruct g as [[?|?]| |]; try discriminate; injection D as <- _; reflexivity.
  - destruct g as [[?|?]| |]; try discriminate; injection D as <- _; reflexivity.
  - destruct g as [[?|?]| |]; try discriminate; injection D as <- _; reflexivity.
  - destruct g as [[?|?]| |]; try discriminate; injection D as <- _; reflexivity.
  - destruct g as [[old|?]| |].
    + destruct (parse_u64 (r_val old)); [|discriminate]. injection D as <- _. reflexivity.
    + destruct (he =? u32_max); [discriminate|]. injection D as <- _. reflexivity.
    + destruct (he =? u32_max); [discriminate|]. injection D as <- _. reflexivity.
    + destruct (he =? u32_max); [discriminate|]. injection D as <- _. reflexivity.
Qed.

Lemma mpstate_init m : mpstate m (mprog_of m) None WNone.
Proof.
  destruct (rmw_key m) as [k|] eqn:K; [now apply (mp_start m k)|].
  destruct m; cbn in K; try discriminate. apply mp_base. apply pstate_start.
Qed.

Lemma mpstate_ret m v lr w : mpstate m (Ret v) lr w -> lr = Some v /\ w = WNone.
Proof.
  intros H. inversion H; subst.
  - split; [|reflexivity]. match goal with H0 : pstate _ _ _ _ |- _ => apply pstate_ret in H0 end. assumption.
  - match goal with H0 : mprog_of m = Ret v, K : rmw_key m = Some _ |- _ =>
      rewrite (mprog_fm m _ K) in H0; cbn [pbind Conc.get_prog] in H0; discriminate end.
  - auto.
  - unfold Conc.set_prog in *. destruct (0 <? r_cas r); discriminate.
Qed.

(* ---- views ---- *)
Definition mutates (a : action) (k : bytes) : Prop :=
  match a with
  | AInsert k' _ | AEntry k' _ | ARemIf k' _ => k' = k
  | _ => False
  end.

Lemma view_preserved a k s : ~ mutates a k -> view (fst (act a s)) k = view s k.
Proof.
  intros NM. unfold AtomicM.view. destruct a as [k'|k'| |k' r|k' r|k' c]; cbn [Conc.act mutates] in *.
  - reflexivity.
  - destruct (lookup k' (sh_mem s)) as [r'|] eqn:L; [|reflexivity].
    destruct (expired now r') eqn:E; [|reflexivity]. cbn [fst sh_mem].
    destruct (bytes_eqb k k') eqn:Q.
    + apply bytes_eqb_eq in Q. subst k'. rewrite lookup_remove_eq, L, E. reflexivity.
    + apply bytes_eqb_neq in Q. now rewrite lookup_remove_ne.
  - reflexivity.
  - cbn [fst sh_mem]. rewrite lookup_insert_ne; [reflexivity|congruence].
  - destruct (lookup k' (sh_mem s)) as [old|].
    + destruct (r_cas old =? r_cas r); [|reflexivity]. cbn [fst sh_mem]. rewrite lookup_insert_ne; [reflexivity|congruence].
    + cbn [fst sh_mem]. rewrite lookup_insert_ne; [reflexivity|congruence].
  - destruct (lookup k' (sh_mem s)) as [r'|]; [|reflexivity].
    destruct ((c =? 0) || (r_cas r' =? c)); [|reflexivity]. cbn [fst sh_mem].
    rewrite lookup_remove_ne; [reflexivity|congruence].
Qed.

Definition win_ok (w : win) (s : shared) : Prop :=
  match w with WNone => True | WRead k g => view s k = g end.

(* ---- one action of a program --------------------------------------------- *)
Definition mevent_of_base (e : sevent) : mevent :=
  match e with
  | SLin t o res c => MLin t (MBase o) res c
  | SCollect k => MCollect k
  | SReserve => MReserve
  end.

Lemma base_event_same e s : apply_mevent (mevent_of_base e) s = Atomic.apply_event now e s.
Proof. destruct e; reflexivity. Qed.

Lemma mspec_rmw m k c s : rmw_key m = Some k ->
  mspec_result m c s =
    match decide m (view s k) with DRet v => v | DStore k' r => Atomic.spec_result now (OpSet k' r) c s end /\
  mspec_effect m c s =
    match decide m (view s k) with DRet _ => s | DStore k' r => Atomic.spec_effect now (OpSet k' r) c s end.
Proof.
  destruct m as [o|k' r|k' r|k' c0 v|k' c0 v|i k' hc he d ini]; cbn [AtomicM.rmw_key]; intros H; try discriminate;
    injection H as ->; split; reflexivity.
Qed.

(* the specification's answer and effect for the read-modify-write in hand,
   with what is known about its key substituted *)
Ltac use_spec c s SR SE :=
  match goal with
  | K : rmw_key ?m = Some ?k |- _ =>
      destruct (mspec_rmw m k c s K) as (SR & SE);
      unfold AtomicM.view in SR, SE;
      repeat match goal with
             | H : lookup k (sh_mem s) = _ |- _ => rewrite H in SR, SE
             | H : expired now _ = _ |- _ => rewrite H in SR, SE
             end;
      repeat match goal with
             | D : decide m _ = _ |- _ => rewrite D in SR, SE
             end
  end.

(* the events a step amounts to (none, when a retrieval only opens a window) *)
Lemma maction_step t m a k lr w s :
  mpstate m (Act a k) lr w -> win_ok w s ->
  let s' := fst (act a s) in
  let x := snd (act a s) in
  exists (es : list mevent) lr' w',
    fold_left (fun s e => apply_mevent e s) es s = s' /\
    (length es <= 1)%nat /\
    (forall e, In e es ->
       match e with
       | MLin t' m' res c => t' = t /\ m' = m /\ res = mspec_result m c s /\ lr = None /\ lr' = Some res
       | _ => lr' = lr
       end) /\
    (es = [] -> lr' = lr) /\
    mpstate m (k x) lr' w' /\ win_ok w' s'.
Proof.
  intros H WO. inversion H; subst; cbn zeta.
  - (* a plain get / set / delete *)
    match goal with H0 : pstate _ _ _ _ |- _ => pose proof (action_step now t o a k lr s H0) as (AE & EV & PS') end.
    exists [mevent_of_base (event_of now t o a s)]. eexists. exists WNone.
    split; [cbn [fold_left]; rewrite base_event_same; exact AE|]. split; [cbn; lia|].
    split; [|split; [discriminate|split; [apply mp_base; exact PS'|exact I]]].
    intros e [<-|[]]. destruct (event_of now t o a s) as [t' o' res c|kk|] eqn:EE; cbn [mevent_of_base].
    + destruct EV as (-> & E & ->).
      assert (t' = t) by (destruct a; cbn in EE; congruence). subst t'. repeat split; reflexivity || exact E.
    + reflexivity.
    + reflexivity.
  - (* the retrieval of a read-modify-write *)
    match goal with H0 : mprog_of m = Act a k |- _ =>
      rewrite (mprog_fm m k0) in H0 by assumption; cbn [pbind Conc.get_prog] in H0; injection H0 as <- <- end.
    assert (NK : rmw_key m <> None) by congruence.
    cbn [Conc.act fst snd].
    destruct (lookup k0 (sh_mem s)) as [r|] eqn:L.
    + destruct (expired now r) eqn:E.
      * (* expired: to be collected; absent as far as the command is concerned *)
        cbn [pbind].
        destruct (decide m (OGetR (RErr NotFound))) as [v|k' r'] eqn:D.
        -- exists [MLin t m v 0], (Some v), WNone. split; [|split; [cbn; lia|]].
           { use_spec 0 s SR SE. cbn [fold_left AtomicM.apply_mevent]. exact SE. }
           split; [|split; [discriminate|split; [|exact I]]].
           { intros e [<-|[]]. use_spec 0 s SR SE. repeat split; try reflexivity. now rewrite SR. }
           now apply mp_coll_ret.
        -- pose proof (decide_key m k0 _ k' r' H2 D) as ->.
           exists [], None, (WRead k0 (OGetR (RErr NotFound))). split; [reflexivity|]. split; [cbn; lia|].
           split; [intros e []|]. split; [reflexivity|]. split; [now apply (mp_coll_store m k0 r')|].
           cbn [win_ok]. unfold AtomicM.view. now rewrite L, E.
      * (* live *)
        cbn [pbind]. rewrite (fm_kont m _ NK). unfold kont at 1.
        destruct (decide m (OGetR (ROk r))) as [v|k' r'] eqn:D.
        -- exists [MLin t m v 0], (Some v), WNone. split; [|split; [cbn; lia|]].
           { use_spec 0 s SR SE. cbn [fold_left AtomicM.apply_mevent]. exact SE. }
           split; [|split; [discriminate|split; [apply mp_ret|exact I]]].
           intros e [<-|[]]. use_spec 0 s SR SE. repeat split; try reflexivity. now rewrite SR.
        -- pose proof (decide_key m k0 _ k' r' H2 D) as ->.
           exists [], None, (WRead k0 (OGetR (ROk r))). split; [reflexivity|]. split; [cbn; lia|].
           split; [intros e []|]. split; [reflexivity|]. split; [now apply (mp_store m k0 (OGetR (ROk r)))|].
           cbn [win_ok]. unfold AtomicM.view. now rewrite L, E.
    + (* absent *)
      cbn [pbind]. rewrite (fm_kont m _ NK). unfold kont at 1.
      destruct (decide m (OGetR (RErr NotFound))) as [v|k' r'] eqn:D.
      * exists [MLin t m v 0], (Some v), WNone. split; [|split; [cbn; lia|]].
        { use_spec 0 s SR SE. cbn [fold_left AtomicM.apply_mevent]. exact SE. }
        split; [|split; [discriminate|split; [apply mp_ret|exact I]]].
        intros e [<-|[]]. use_spec 0 s SR SE. repeat split; try reflexivity. now rewrite SR.
      * pose proof (decide_key m k0 _ k' r' H2 D) as ->.
        exists [], None, (WRead k0 (OGetR (RErr NotFound))). split; [reflexivity|]. split; [cbn; lia|].
        split; [intros e []|]. split; [reflexivity|]. split; [now apply (mp_store m k0 (OGetR (RErr NotFound)))|].
        cbn [win_ok]. unfold AtomicM.view. now rewrite L.
  - (* collecting; the answer is already determined *)
    exists [MCollect k0], (Some v), WNone. split; [reflexivity|]. split; [cbn; lia|].
    split; [intros e [<-|[]]; reflexivity|]. split; [discriminate|]. split; [|exact I].
    cbn [pbind]. rewrite (fm_kont m) by congruence. unfold kont. match goal with D : decide m _ = DRet v |- _ => rewrite D end. apply mp_ret.
  - (* collecting; a store was decided *)
    exists [MCollect k0], None, (WRead k0 (OGetR (RErr NotFound))). split; [reflexivity|]. split; [cbn; lia|].
    split; [intros e [<-|[]]; reflexivity|]. split; [discriminate|]. split.
    + cbn [pbind]. rewrite (fm_kont m) by congruence. unfold kont. match goal with D : decide m _ = DStore _ _ |- _ => rewrite D end.
      now apply (mp_store m k0 (OGetR (RErr NotFound))).
    + cbn [win_ok] in *. rewrite view_preserved; [exact WO|]. cbn. tauto.
  - (* the store of a read-modify-write *)
    cbn [win_ok] in WO.
    unfold Conc.set_prog in *. destruct (0 <? r_cas r) eqn:C.
    + (* compare and store: the command takes effect *)
      match goal with H0 : Act _ _ = Act a k |- _ => injection H0 as <- <- end.
      destruct (act (AEntry k0 r) s) as [s1 x] eqn:A. cbn [fst snd].
      assert (exists res, x = XSet res) as [res ->].
      { cbn in A. destruct (lookup k0 (sh_mem s)) as [old|]; [destruct (r_cas old =? r_cas r)|];
          injection A as _ <-; eauto. }
      assert (SR : mspec_result m 0 s = OSetR res /\ mspec_effect m 0 s = s1).
      { match goal with K : rmw_key m = Some _ |- _ => destruct (mspec_rmw m _ 0 s K) as (SR & SE) end.
        rewrite WO in SR, SE.
        match goal with D : decide m g = DStore _ _ |- _ => rewrite D in SR, SE end.
        unfold Atomic.spec_result, Atomic.spec_effect in SR, SE. rewrite C, A in SR, SE. split; assumption. }
      destruct SR as (SR & SE).
      exists [MLin t m (OSetR res) 0], (Some (OSetR res)), WNone.
      split; [cbn [fold_left AtomicM.apply_mevent]; exact SE|]. split; [cbn; lia|].
      split; [|split; [discriminate|split; [apply mp_ret|exact I]]].
      intros e [<-|[]]. repeat split; try reflexivity. now rewrite SR.
    + (* draw a CAS first *)
      match goal with H0 : Act _ _ = Act a k |- _ => injection H0 as <- <- end.
      cbn [Conc.act fst snd].
      exists [MReserve], None, (WRead k0 g). split; [reflexivity|]. split; [cbn; lia|].
      split; [intros e [<-|[]]; reflexivity|]. split; [discriminate|]. split.
      * apply (mp_store1 m k0 g r); try assumption. apply N.ltb_ge in C. lia.
      * cbn [win_ok]. unfold AtomicM.view in *. cbn [sh_mem]. exact WO.
  - (* the insert of an unconditional store: the command takes effect *)
    cbn [win_ok] in WO. cbn [Conc.act fst snd].
    assert (0 <? r_cas r = false) as C by (apply N.ltb_ge; lia).
    assert (SR : mspec_result m c s = OSetR (ROk c) /\
                 mspec_effect m c s = mkShared (insert k0 (mkRec now c (r_flags r) (r_ttl r) (r_val r)) (sh_mem s)) (sh_cas s)).
    { match goal with K : rmw_key m = Some _ |- _ => destruct (mspec_rmw m _ c s K) as (SR & SE) end.
      rewrite WO in SR, SE.
      match goal with D : decide m g = DStore _ _ |- _ => rewrite D in SR, SE end.
      unfold Atomic.spec_result, Atomic.spec_effect in SR, SE. rewrite C in SR, SE. split; assumption. }
    destruct SR as (SR & SE).
    exists [MLin t m (OSetR (ROk c)) c], (Some (OSetR (ROk c))), WNone.
    split; [cbn [fold_left AtomicM.apply_mevent]; exact SE|]. split; [cbn; lia|].
    split; [|split; [discriminate|split; [apply mp_ret|exact I]]].
    intros e [<-|[]]. repeat split; try reflexivity. now rewrite SR.
Qed.

(* ---- the generic theorem, for schedules without interference ------------- *)
Lemma mnth_set_same i (t : mthread) : forall ts t0, nth_thread i ts = Some t0 -> nth_thread i (set_thread i t ts) = Some t.
Proof.
  induction i as [|i IH]; intros [|x ts] t0; cbn; try discriminate; [reflexivity|apply IH].
Qed.

Lemma mnth_set_other i j (t : mthread) : forall ts, i <> j -> nth_thread j (set_thread i t ts) = nth_thread j ts.
Proof.
  revert j. induction i as [|i IH]; intros j ts N; destruct ts as [|x ts]; try reflexivity.
  - destruct j; [congruence|reflexivity].
  - destruct j; [reflexivity|]. simpl. apply IH. congruence.
Qed.

Lemma mvalid_app evs e s :
  mvalid evs s -> (match e with MLin _ m res c => res = mspec_result m c (mreplay evs s) | _ => True end) ->
  mvalid (evs ++ [e]) s.
Proof.
  revert s. induction evs as [|e0 evs IH]; intros s V H; cbn in *.
  - split; [destruct e; auto|exact I].
  - destruct V as [V0 V1]. split; [exact V0|]. apply IH; assumption.
Qed.

Lemma mreplay_app evs es s : mreplay (evs ++ es) s = fold_left (fun s e => apply_mevent e s) es (mreplay evs s).
Proof. unfold AtomicM.mreplay. now rewrite fold_left_app. Qed.

Lemma mlins_app t evs es : mlins t (evs ++ es) = mlins t evs ++ mlins t es.
Proof.
  induction evs as [|e0 evs IH]; [reflexivity|]. cbn [app mlins].
  destruct e0 as [t' o res c|k|]; try exact IH. destruct (Nat.eqb t t'); [cbn; now rewrite IH|exact IH].
Qed.

Definition mthread_ok (i : nat) (t : mthread) (s : shared) (evs : list mevent) : Prop :=
  match th_cur t with
  | None => mlins i evs = th_done t
  | Some (m, p) => exists lr w, mpstate m p lr w /\ win_ok w s /\
                   mlins i evs = th_done t ++ match lr with Some r => [r] | None => [] end
  end.

Definition minv (s0 : shared) (ts : list mthread) (s : shared) (evs : list mevent) : Prop :=
  mvalid evs s0 /\ mreplay evs s0 = s /\
  forall i t, nth_thread i ts = Some t -> mthread_ok i t s evs.

(* a client in a window stands where [window_key] says *)
Lemma mpstate_window m p lr k g : mpstate m p lr (WRead k g) -> window_key (Some (m, p)) = Some k.
Proof.
  intros H. inversion H; subst.
  - cbn [pbind AtomicM.window_key]. assumption.
  - unfold Conc.set_prog. destruct (0 <? r_cas r); cbn [AtomicM.window_key]; assumption.
  - cbn [AtomicM.window_key]. assumption.
Qed.

Lemma mutated_key_spec m a kk k : mutates a k -> mutated_key (Some (m, Act a kk)) = Some k.
Proof. destruct a; cbn; intros H; try tauto; now subst. Qed.

Lemma others_clear_spec k i : forall ts j0,
  others_clear k i j0 ts = true ->
  forall n tj, nth_thread n ts = Some tj -> (j0 + n)%nat <> i -> window_key (th_cur tj) <> Some k.
Proof.
  induction ts as [|t ts IH]; intros j0 H n tj Hn Hne; [destruct n; discriminate|].
  cbn [AtomicM.others_clear] in H. apply andb_prop in H as [H0 H1].
  destruct n as [|n]; cbn [nth_thread] in Hn.
  - injection Hn as <-. rewrite Nat.add_0_r in Hne.
    destruct (Nat.eqb i j0) eqn:Q; [apply Nat.eqb_eq in Q; congruence|].
    destruct (window_key (th_cur t)) as [k'|]; [|discriminate].
    intros [= ->]. rewrite bytes_eqb_refl in H0. discriminate.
  - apply (IH (S j0) H1 n tj Hn). lia.
Qed.

Lemma step_minv s0 ts s evs i t :
  minv s0 ts s evs -> nth_thread i ts = Some t -> ni_step i t ts = true ->
  exists evs', minv s0 (set_thread i (fst (thread_step t s)) ts) (snd (thread_step t s)) evs'.
Proof.
  intros (V & R & TH) Hi NI. pose proof (TH i t Hi) as OK. unfold mthread_ok in OK.
  unfold Conc.thread_step. destruct (th_cur t) as [[m p]|] eqn:C.
  - destruct OK as (lr & w & PS & WO & L). destruct p as [v|a k].
    + (* the command returns *)
      cbn [fst snd]. exists evs. split; [exact V|]. split; [exact R|].
      intros j tj Hj. destruct (Nat.eq_dec i j) as [<-|N].
      * rewrite (mnth_set_same i _ ts t Hi) in Hj. injection Hj as <-. unfold mthread_ok. cbn [th_cur th_done].
        apply mpstate_ret in PS. destruct PS as (-> & _). exact L.
      * rewrite mnth_set_other in Hj by assumption. now apply TH.
    + (* one atomic action *)
      pose proof (maction_step i m a k lr w s PS WO) as (es & lr' & w' & AE & LE & EV & EN & PS' & WO').
      destruct (act a s) as [s1 x] eqn:A. cbn [fst snd] in *.
      exists (evs ++ es). split; [|split].
      * destruct es as [|e [|e2 es]]; [now rewrite app_nil_r| |cbn in LE; lia].
        apply mvalid_app; [exact V|]. rewrite R. specialize (EV e (or_introl eq_refl)).
        destruct e; auto. destruct EV as (_ & -> & E & _). exact E.
      * rewrite mreplay_app, R. exact AE.
      * intros j tj Hj. destruct (Nat.eq_dec i j) as [<-|N].
        -- rewrite (mnth_set_same i _ ts t Hi) in Hj. injection Hj as <-. unfold mthread_ok. cbn [th_cur th_done].
           exists lr', w'. split; [exact PS'|]. split; [exact WO'|]. rewrite mlins_app, L.
           destruct es as [|e [|e2 es]]; [|clear EN|cbn in LE; lia].
           ++ rewrite (EN eq_refl). cbn [mlins]. now rewrite app_nil_r.
           ++ specialize (EV e (or_introl eq_refl)). destruct e as [t' m' res c|kk|].
              ** destruct EV as (-> & -> & _ & -> & ->). cbn [mlins]. rewrite Nat.eqb_refl. now rewrite app_nil_r.
              ** rewrite EV. cbn [mlins]. now rewrite app_nil_r.
              ** rewrite EV. cbn [mlins]. now rewrite app_nil_r.
        -- rewrite mnth_set_other in Hj by assumption. pose proof (TH j tj Hj) as OKj.
           unfold mthread_ok in *. 
           assert (ML : mlins j (evs ++ es) = mlins j evs).
           { rewrite mlins_app. destruct es as [|e [|e2 es]]; [now rewrite app_nil_r| |cbn in LE; lia].
             specialize (EV e (or_introl eq_refl)). destruct e as [t' m' res c|kk|]; cbn [mlins]; try now rewrite app_nil_r.
             destruct EV as (-> & _). destruct (Nat.eqb j i) eqn:Q; [apply Nat.eqb_eq in Q; congruence|now rewrite app_nil_r]. }
           rewrite ML. destruct (th_cur tj) as [[mj pj]|] eqn:Cj; [|exact OKj].
           destruct OKj as (lrj & wj & PSj & WOj & Lj). exists lrj, wj. split; [exact PSj|]. split; [|exact Lj].
           destruct wj as [|kj gj]; [exact I|]. cbn [win_ok] in *.
           replace s1 with (fst (act a s)) by now rewrite A.
           rewrite view_preserved; [exact WOj|].
           intros MU. unfold AtomicM.ni_step in NI. rewrite C in NI.
           rewrite (mutated_key_spec m a k kj MU) in NI.
           pose proof (others_clear_spec kj i ts 0 NI j tj Hj) as OC.
           apply OC; [cbn; congruence|]. rewrite Cj. now apply (mpstate_window mj pj lrj kj gj).
  - (* start the next command, or idle *)
    destruct (th_todo t) as [|m rest] eqn:TD; cbn [fst snd].
    + exists evs. split; [exact V|]. split; [exact R|].
      intros j tj Hj. destruct (Nat.eq_dec i j) as [<-|N].
      * rewrite (mnth_set_same i _ ts t Hi) in Hj. injection Hj as <-. unfold mthread_ok. now rewrite C.
      * rewrite mnth_set_other in Hj by assumption. now apply TH.
    + exists evs. split; [exact V|]. split; [exact R|].
      intros j tj Hj. destruct (Nat.eq_dec i j) as [<-|N].
      * rewrite (mnth_set_same i _ ts t Hi) in Hj. injection Hj as <-. unfold mthread_ok. cbn [th_cur th_done].
        exists None, WNone. split; [apply mpstate_init|]. split; [exact I|]. now rewrite app_nil_r.
      * rewrite mnth_set_other in Hj by assumption. now apply TH.
Qed.

Lemma sched_minv s0 sched : forall ts s evs,
  minv s0 ts s evs -> ni_sched sched ts s = true ->
  exists evs', minv s0 (fst (run_sched sched ts s)) (snd (run_sched sched ts s)) evs'.
Proof.
  induction sched as [|i rest IH]; intros ts s evs I NI; cbn [Conc.run_sched AtomicM.ni_sched] in *.
  - eauto.
  - destruct (nth_thread i ts) as [t|] eqn:Hi; [|now apply (IH ts s evs)].
    apply andb_prop in NI as [N0 N1].
    pose proof (step_minv s0 ts s evs i t I Hi N0) as [evs' I'].
    destruct (Conc.thread_step now mprog_of t s) as [t' s1]. cbn [fst snd] in *. now apply (IH _ _ evs').
Qed.

Lemma new_thread_nth (opss : list (list mop)) : forall i t,
  nth_thread i (map new_thread opss) = Some t -> th_cur t = None /\ th_done t = [].
Proof.
  induction opss as [|ops opss' IHo]; intros [|i] t Hi; cbn in Hi; try discriminate.
  - injection Hi as <-. auto.
  - eapply IHo; eauto.
Qed.

(* any number of clients, each with any list of memcache commands on any keys,
   any initial store, any schedule in which no client changes what a retrieval
   answers for a key another client is between reading and writing: there is a
   one-at-a-time trace that is valid, ends in exactly the concrete shared state,
   and gives every client, in its own order, the answers it received *)
Theorem atomic_without_interference (opss : list (list mop)) (sched : list nat) (s0 : shared) :
  ni_sched sched (map new_thread opss) s0 = true ->
  let '(ts, s) := run_sched sched (map new_thread opss) s0 in
  exists evs, mvalid evs s0 /\ mreplay evs s0 = s /\
    forall i t, nth_thread i ts = Some t ->
      exists pending, mlins i evs = th_done t ++ pending /\ (length pending <= 1)%nat /\
                      (th_cur t = None -> pending = []).
Proof.
  intros NI.
  assert (I0 : minv s0 (map new_thread opss) s0 []).
  { split; [exact I|]. split; [reflexivity|]. intros i t Hi.
    destruct (new_thread_nth opss i t Hi) as [C D].
    unfold mthread_ok. rewrite C, D. reflexivity. }
  pose proof (sched_minv s0 sched _ _ _ I0 NI) as H.
  destruct (run_sched sched (map new_thread opss) s0) as [ts s]. cbn [fst snd] in H.
  destruct H as (evs & V & R & TH).
  exists evs. split; [exact V|]. split; [exact R|].
  intros i t Hi. pose proof (TH i t Hi) as OK. unfold mthread_ok in OK.
  destruct (th_cur t) as [[o p]|].
  - destruct OK as (lr & w & _ & _ & L). exists (match lr with Some r => [r] | None => [] end).
    split; [exact L|]. split; [destruct lr; cbn; lia|discriminate].
  - exists []. rewrite app_nil_r. auto.
Qed.

End PC04b.
