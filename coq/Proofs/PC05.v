(* PC05.v — proofs for C05: expiry *)
From MC Require Import Model.Base Model.Generated Model.Store Model.Memc Model.Codec Model.Handler
  Spec.Exec Proofs.StoreLemmas Proofs.SetLemmas Proofs.MemcLemmas Proofs.Effects Proofs.PC06 Proofs.PC01.

(* what a request can do to the record of the key it addresses: leave it, remove
   it, or write a fresh one (stamped now, hence visible) *)
Inductive touch (k : bytes) (s s' : store) : Prop :=
| t_same : lookup k (s_mem s') = lookup k (s_mem s) -> touch k s s'
| t_none : lookup k (s_mem s') = None -> touch k s s'
| t_fresh r' : lookup k (s_mem s') = Some r' -> r_ts r' = s_now s -> touch k s s'.

Lemma touch_trans k s s1 s2 :
  touch k s s1 -> s_now s1 = s_now s -> touch k s1 s2 -> touch k s s2.
Proof.
  intros T1 N T2. destruct T2 as [L|L|r' L Ts].
  - destruct T1 as [L1|L1|r1 L1 Ts1].
    + apply t_same. congruence.
    + apply t_none. congruence.
    + eapply t_fresh; [rewrite L; exact L1|exact Ts1].
  - now apply t_none.
  - eapply t_fresh; [exact L|congruence].
Qed.

Lemma get_touch k s : plain s -> touch k s (fst (get k s)).
Proof.
  intros P. destruct (get_own_cases k s P) as [->|[_ ->]]; [now apply t_same|].
  apply t_none. apply collected_lookup_same.
Qed.

Lemma set_touch k r s : plain s -> touch k s (fst (set k r s)).
Proof.
  intros P. rewrite (plain_set _ _ _ P).
  pose proof (inner_set_cases k r s) as S. destruct (inner_set k r s) as [s' res].
  inversion S; subst; cbn.
  - eapply t_fresh; cbn; [apply lookup_insert_eq|reflexivity].
  - eapply t_fresh; cbn; [apply lookup_insert_eq|reflexivity].
  - now apply t_same.
Qed.

Lemma delete_touch k c s : plain s -> touch k s (fst (delete k c s)).
Proof.
  intros P. unfold delete. destruct (lookup k (s_mem s)) as [r|]; [|now apply t_same].
  destruct ((c =? 0) || (r_cas r =? c)); [|now apply t_same].
  cbn. rewrite (plain_decr _ _ (plain_with_mem s _ P)). apply t_none. apply lookup_remove_eq.
Qed.

Lemma get_then k s (F : store -> result record -> store) :
  plain s ->
  (forall s1 g, plain s1 -> s_now s1 = s_now s -> touch k s1 (F s1 g)) ->
  touch k s (F (fst (get k s)) (snd (get k s))).
Proof.
  intros P HF. eapply touch_trans; [now apply get_touch|apply get_now|].
  apply HF; [|apply get_now]. destruct (get_only_at k s P) as [[_ _ P' _] _]. exact P'.
Qed.

Lemma handle_touch req s k :
  plain s -> key_of req = Some k -> touch k s (fst (handle_request req s)).
Proof.
  intros P K. rewrite handle_effect.
  destruct req as [v h kk|v h fl ex kk val|v h kk val|q h kk|v h dl ini ex kk|h|h|h|h|q h ex|h|h];
    cbn in K; try discriminate; injection K as K; subst kk; cbn [effect].
  - now apply get_touch.
  - assert (ADD : touch k s (fst (memc_add k (mkRec 0 (h_cas h) fl ex val) s))).
    { unfold memc_add. destruct (get k s) as [s1 g] eqn:E.
      change s1 with (fst (s1, g)). change g with (snd (s1, g)) at 1. rewrite <- E.
      apply (get_then k s (fun s1 g => fst (match g with ROk _ => (s1, RErr KeyExists) | RErr _ => set k _ s1 end))); [exact P|].
      intros s2 g2 P2 _. destruct g2; [now apply t_same|now apply set_touch]. }
    assert (REP : touch k s (fst (memc_replace k (mkRec 0 (h_cas h) fl ex val) s))).
    { unfold memc_replace. destruct (get k s) as [s1 g] eqn:E.
      change s1 with (fst (s1, g)). change g with (snd (s1, g)) at 1. rewrite <- E.
      apply (get_then k s (fun s1 g => fst (match g with ROk _ => set k _ s1 | RErr _ => (s1, RErr NotFound) end))); [exact P|].
      intros s2 g2 P2 _. destruct g2; [now apply set_touch|now apply t_same]. }
    destruct v; try (now apply set_touch);
      destruct ((h_opcode h =? cmd_Add) || (h_opcode h =? cmd_AddQuiet)); assumption.
  - destruct ((h_opcode h =? cmd_Append) || (h_opcode h =? cmd_AppendQuiet)).
    + unfold memc_append. destruct (get k s) as [s1 g] eqn:E.
      change s1 with (fst (s1, g)). change g with (snd (s1, g)) at 1. rewrite <- E.
      apply (get_then k s (fun s1 g => fst (match g with
               | ROk old => set k (mkRec (r_ts old) (h_cas h) (r_flags old) (r_ttl old) (r_val old ++ val)) s1
               | RErr _ => (s1, RErr NotFound) end))); [exact P|].
      intros s2 g2 P2 _. destruct g2; [now apply set_touch|now apply t_same].
    + unfold memc_prepend. destruct (get k s) as [s1 g] eqn:E.
      change s1 with (fst (s1, g)). change g with (snd (s1, g)) at 1. rewrite <- E.
      apply (get_then k s (fun s1 g => fst (match g with
               | ROk old => set k (mkRec (r_ts old) (h_cas h) (r_flags old) (r_ttl old) (val ++ r_val old)) s1
               | RErr _ => (s1, RErr NotFound) end))); [exact P|].
      intros s2 g2 P2 _. destruct g2; [now apply set_touch|now apply t_same].
  - now apply delete_touch.
  - assert (D : forall i, touch k s (fst (memc_delta i k (h_cas h) ex dl ini s))).
    { intros i. unfold memc_delta. destruct (get k s) as [s1 g] eqn:E.
      assert (T1 : touch k s s1) by (change s1 with (fst (s1, g)); rewrite <- E; now apply get_touch).
      assert (N1 : s_now s1 = s_now s) by (change s1 with (fst (s1, g)); rewrite <- E; apply get_now).
      assert (P1 : plain s1).
      { change s1 with (fst (s1, g)). rewrite <- E. destruct (get_only_at k s P) as [[_ _ P' _] _]. exact P'. }
      destruct g as [old|e].
      - destruct (parse_u64 (r_val old)); [|exact T1].
        match goal with |- context[set k ?rr s1] =>
          pose proof (set_touch k rr s1 P1) as T2; destruct (set k rr s1) as [s2 [c|er]] end;
          cbn in T2 |- *; eapply touch_trans; eauto.
      - destruct (ex =? u32_max); [exact T1|].
        match goal with |- context[set k ?rr s1] =>
          pose proof (set_touch k rr s1 P1) as T2; destruct (set k rr s1) as [s2 [c|er]] end;
          cbn in T2 |- *; eapply touch_trans; eauto. }
    destruct v; apply D.
Qed.

(* ---- deadlines ---- *)
(* the first second at which the record is no longer returned; None = never *)
Definition deadline (r : record) : option N :=
  if r_ttl r =? 0 then None else Some (r_ts r + r_ttl r).

Definition dl_le (a b : option N) : Prop :=
  match a, b with
  | _, None => True
  | None, Some _ => False
  | Some x, Some y => x <= y
  end.

Lemma expired_deadline now r : expired now r = true <-> exists d, deadline r = Some d /\ d <= now.
Proof.
  unfold expired, deadline. destruct (r_ttl r =? 0); cbn.
  - split; [discriminate|intros (d & H & _); discriminate].
  - rewrite N.leb_le. split; [intros H; eauto|intros (d & [= <-] & H); exact H].
Qed.

(* a delayed flush never moves a deadline later, and never beyond now + delay *)
Lemma flush_record_deadline now d r :
  0 < d -> dl_le (deadline (flush_record now d r)) (deadline r) /\
           dl_le (deadline (flush_record now d r)) (Some (now + d)).
Proof.
  intros D. unfold flush_record, deadline.
  destruct (r_ttl r =? 0) eqn:Z; cbn.
  - assert (d =? 0 = false) as -> by (apply N.eqb_neq; lia). cbn. split; [exact I|lia].
  - destruct (now + d <? r_ts r + r_ttl r) eqn:L; cbn.
    + assert (d =? 0 = false) as -> by (apply N.eqb_neq; lia). cbn.
      apply N.ltb_lt in L. split; lia.
    + rewrite Z. cbn. apply N.ltb_ge in L. split; lia.
Qed.

(* the deadline of k's record never moves later except by a command that writes
   the record afresh (stamping it with the current time) *)
Lemma deadline_step s k cm r r' :
  plain s -> lookup k (s_mem s) = Some r -> lookup k (s_mem (exec s cm)) = Some r' ->
  dl_le (deadline r') (deadline r) \/
  (exists req, cm = CReq req /\ key_of req = Some k /\ r_ts r' = s_now s).
Proof.
  intros P L L'. destruct cm as [req|d]; cbn [exec] in L'.
  2:{ cbn in L'. rewrite L in L'. injection L' as <-. left. unfold dl_le. destruct (deadline r); [lia|exact I]. }
  destruct (key_of req) as [k2|] eqn:K.
  - destruct (bytes_eqb k2 k) eqn:E.
    + apply bytes_eqb_eq in E. subst k2.
      destruct (handle_touch req s k P K) as [Ls|Ln|r2 L2 Ts].
      * rewrite Ls, L in L'. injection L' as <-. left. unfold dl_le. destruct (deadline r); [lia|exact I].
      * congruence.
      * rewrite L2 in L'. injection L' as <-. right. eauto.
    + apply bytes_eqb_neq in E. destruct (handle_only_at req s k2 P K) as [Fr _ _ _].
      rewrite Fr, L in L' by congruence. injection L' as <-. left.
      unfold dl_le. destruct (deadline r); [lia|exact I].
  - destruct (is_flush req) eqn:F.
    + destruct req; try discriminate. rewrite handle_flush, (flush_lookup _ _ _ P), L in L'.
      destruct (0 <? exp) eqn:D; [|discriminate]. cbn in L'. injection L' as <-.
      left. apply flush_record_deadline. now apply N.ltb_lt.
    + rewrite handle_keyless, L in L' by assumption. injection L' as <-. left.
      unfold dl_le. destruct (deadline r); [lia|exact I].
Qed.

(* an item is never returned at or after its deadline *)
Lemma dead_from s k r :
  lookup k (s_mem s) = Some r -> r_ttl r <> 0 -> r_ts r + r_ttl r <= s_now s -> view s k = None.
Proof.
  intros L Z D. unfold view. rewrite L. unfold expired.
  apply N.eqb_neq in Z. rewrite Z. cbn. apply N.leb_le in D. now rewrite D.
Qed.

(* ---- an acknowledged store lives exactly until its TTL ---- *)
Lemma live_until s h f e k v s' c cs :
  plain s -> 0 < s_cas s ->
  handle_request (ReqSet VSet h f e k v) s = (s', Some (ok_resp h c)) ->
  Forall (leaves_alone k) cs ->
  (e = 0 \/ s_now (run s' cs) < s_now s + e) ->
  view (run s' cs) k = Some (mkRec (s_now s) c f e v).
Proof.
  intros P C H HF HT.
  destruct (set_then_visible s h f e k v s' c P C H) as [V _].
  assert (P' : plain s').
  { change s' with (fst (s', Some (ok_resp h c))). rewrite <- H. now apply handle_now. }
  apply persists; auto.
Qed.

Lemma run_now_alone s cs : plain s -> s_now s <= s_now (run s cs).
Proof.
  revert s. induction cs as [|c cs IH]; intros s P; cbn [run fold_left]; [lia|].
  fold (run (exec s c) cs). specialize (IH (exec s c) (exec_plain s c P)).
  destruct c as [req|d]; cbn [exec] in *.
  - destruct (handle_now req s P) as [N _]. lia.
  - cbn in IH. lia.
Qed.

(* ... and not longer: at every clock at or after store time + TTL it is gone,
   whatever the other keys' commands did in between *)
Lemma dead_after_ttl s h f e k v s' c cs :
  plain s -> 0 < s_cas s -> e <> 0 ->
  handle_request (ReqSet VSet h f e k v) s = (s', Some (ok_resp h c)) ->
  Forall (leaves_alone k) cs ->
  s_now s + e <= s_now (run s' cs) ->
  view (run s' cs) k = None.
Proof.
  intros P C E H HF HT.
  destruct (set_then_visible s h f e k v s' c P C H) as [V _].
  assert (P' : plain s').
  { change s' with (fst (s', Some (ok_resp h c))). rewrite <- H. now apply handle_now. }
  apply (dead_from _ k (mkRec (s_now s) c f e v)); cbn; auto.
  rewrite run_lookup_alone by assumption. now apply view_lookup.
Qed.

(* ---- expired = absent ---- *)
Definition store_equiv (a b : store) : Prop :=
  (forall k, lookup k (s_mem a) = lookup k (s_mem b)) /\
  s_cas a = s_cas b /\ s_now a = s_now b /\ s_limit a = s_limit b.

Lemma view_collected_none s k : view (collected s k) k = None.
Proof. unfold view. now rewrite collected_lookup_same. Qed.

Lemma get_on_collected s k : get k (collected s k) = (collected s k, RErr NotFound).
Proof. unfold get. now rewrite collected_lookup_same. Qed.

(* the commands that start with a retrieval behave on an expired item exactly as
   on the store from which it has been removed: same reply, same resulting store *)
Definition starts_with_get (req : request) : Prop :=
  match req with
  | ReqGet _ _ _ | ReqAppend _ _ _ _ | ReqIncr _ _ _ _ _ _ => True
  | ReqSet VSet _ _ _ _ _ | ReqSet VSetQ _ _ _ _ _ => False
  | ReqSet _ _ _ _ _ _ => True
  | _ => False
  end.

Lemma expired_is_absent req s k :
  plain s -> view s k = None -> key_of req = Some k -> starts_with_get req ->
  handle_request req s = handle_request req (collected s k).
Proof.
  intros P V K G. pose proof (plain_get_miss k s P V) as GM. fold (collected s k) in GM.
  pose proof (get_on_collected s k) as GC.
  destruct req as [v h kk|v h fl ex kk val|v h kk val|q h kk|v h dl ini ex kk|h|h|h|h|q h ex|h|h];
    cbn in K, G; try discriminate; try contradiction; injection K as K; subst kk.
  - destruct v; cbn [handle_request req_header]; unfold h_get; now rewrite GM, GC.
  - destruct v; try contradiction; cbn [handle_request req_header]; unfold h_add_replace, memc_add, memc_replace;
      now rewrite GM, GC.
  - destruct v; cbn [handle_request req_header]; unfold h_append_prepend, memc_append, memc_prepend;
      now rewrite GM, GC.
  - destruct v; cbn [handle_request req_header]; unfold h_delta, memc_delta; now rewrite GM, GC.
Qed.

Lemma insert_remove_lookup k r m k' :
  lookup k' (insert k r m) = lookup k' (insert k r (remove k m)).
Proof.
  destruct (bytes_eqb k' k) eqn:EK.
  - apply bytes_eqb_eq in EK; subst k'; now rewrite !lookup_insert_eq.
  - apply bytes_eqb_neq in EK; rewrite !lookup_insert_ne by assumption; symmetry; now apply lookup_remove_ne.
Qed.

(* an unconditional set overwrites an expired record as it would fill the gap *)
Lemma set_on_expired s k h f e v q :
  plain s -> view s k = None -> h_cas h = 0 ->
  let req := ReqSet (if q : bool then VSetQ else VSet) h f e k v in
  snd (handle_request req s) = snd (handle_request req (collected s k)) /\
  store_equiv (fst (handle_request req s)) (fst (handle_request req (collected s k))).
Proof.
  intros P V Z req. unfold req.
  assert (E : forall s0, plain s0 ->
            set k (mkRec 0 (h_cas h) f e v) s0 =
            (mkStore (insert k (mkRec (s_now s0) (s_cas s0) f e v) (s_mem s0)) (add64w (s_cas s0) 1)
                     (s_now s0) (s_limit s0) (s_usage s0) (s_oracle s0), ROk (s_cas s0))).
  { intros s0 P0. rewrite (plain_set _ _ _ P0). unfold inner_set. cbn. rewrite Z. reflexivity. }
  destruct q; cbn [handle_request req_header]; unfold loud, quiet_mut, h_set;
    rewrite (E s P), (E (collected s k) P); cbn; (split; [reflexivity|]);
    (split; [|auto]); intros k'; apply insert_remove_lookup.
Qed.

(* ---- no resurrection ---- *)
(* an invisible key becomes visible only through a command addressed to it that
   writes a fresh record *)
Lemma no_resurrection s k cm r' :
  plain s -> view s k = None -> view (exec s cm) k = Some r' ->
  exists req, cm = CReq req /\ key_of req = Some k /\ r_ts r' = s_now s.
Proof.
  intros P V V'. pose proof (view_lookup _ _ _ V') as L'. pose proof (view_live _ _ _ V') as Lv.
  destruct (lookup k (s_mem s)) as [r|] eqn:L.
  - destruct (deadline_step s k cm r r' P L L') as [D|X]; [|exact X]. exfalso.
    (* r was expired at s_now s; r' has an earlier-or-equal deadline yet is live later *)
    assert (ER : expired (s_now s) r = true).
    { unfold view in V. rewrite L in V. destruct (expired (s_now s) r); [reflexivity|discriminate]. }
    apply expired_deadline in ER as (d & Dr & Dle). rewrite Dr in D.
    assert (NowLe : s_now s <= s_now (exec s cm)).
    { destruct cm as [req|dd]; cbn; [destruct (handle_now req s P) as [-> _]|]; lia. }
    assert (EX : expired (s_now (exec s cm)) r' = true).
    { apply expired_deadline. unfold dl_le in D. destruct (deadline r') as [d'|]; [|contradiction].
      exists d'. split; [reflexivity|lia]. }
    congruence.
  - destruct cm as [req|dd]; [|cbn in L'; congruence]. cbn [exec] in L'.
    destruct (key_of req) as [k2|] eqn:K.
    + destruct (bytes_eqb k2 k) eqn:E.
      * apply bytes_eqb_eq in E. subst k2.
        destruct (handle_touch req s k P K) as [Ls|Ln|r2 L2 Ts]; try congruence.
        rewrite L2 in L'. injection L' as <-. eauto.
      * apply bytes_eqb_neq in E. destruct (handle_only_at req s k2 P K) as [Fr _ _ _].
        rewrite Fr in L' by congruence. congruence.
    + destruct (is_flush req) eqn:F.
      * destruct req; try discriminate. rewrite handle_flush, (flush_lookup _ _ _ P), L in L'.
        destruct (0 <? exp); discriminate.
      * rewrite handle_keyless in L' by assumption. congruence.
Qed.
