(* PC17m.v — the connection limit with several listeners (Model/Listeners.v) *)
From MC Require Import Model.Base Model.Conn Model.Server Model.Listeners Proofs.PC17.
From Coq Require Import ZifyN ZifyNat Arith.PeanoNat.

Definition mconserved (limit : N) (s : mserver) : Prop :=
  ms_permits s + N.of_nat (length (ms_active s)) = limit.

Definition measure (s : mserver) : nat := 2 * length (ms_backlog s) + length (ms_pending s).

Definition quiescent (s : mserver) : Prop := settle1 s = None.

Lemma next_accept_length p : forall b x bl, next_accept p b = Some (x, bl) -> length b = S (length bl).
Proof.
  induction b as [|y t IH]; intros x bl H; cbn [next_accept] in H; [discriminate|].
  destruct (busy (fst y) p).
  - destruct (next_accept p t) as [[z r]|] eqn:E; [|discriminate].
    injection H as <- <-. cbn [length]. f_equal. exact (IH _ _ eq_refl).
  - injection H as <- <-. reflexivity.
Qed.

Lemma take_first_length l : forall b x bl, take_first l b = Some (x, bl) -> length b = S (length bl).
Proof.
  induction b as [|y t IH]; intros x bl H; cbn [take_first] in H; [discriminate|].
  destruct (Nat.eqb (fst y) l).
  - injection H as <- <-. reflexivity.
  - destruct (take_first l t) as [[z r]|] eqn:E; [|discriminate].
    injection H as <- <-. cbn [length]. f_equal. exact (IH _ _ eq_refl).
Qed.

Lemma settle1_measure s s' : settle1 s = Some s' -> (measure s' < measure s)%nat.
Proof.
  unfold settle1, measure. destruct (ms_pending s) as [|[l c] rest] eqn:P.
  - destruct (next_accept [] (ms_backlog s)) as [[x bl]|] eqn:E; [|discriminate].
    intros H; injection H as <-. cbn. apply next_accept_length in E. lia.
  - destruct (0 <? ms_permits s).
    + destruct (mem_nat c (ms_gone s)).
      * destruct (take_first l (ms_backlog s)) as [[x bl]|] eqn:E; intros H; injection H as <-; cbn; [|lia].
        rewrite app_length. cbn. apply take_first_length in E. lia.
      * intros H; injection H as <-; cbn; lia.
    + destruct (next_accept ((l, c) :: rest) (ms_backlog s)) as [[x bl]|] eqn:E; [|discriminate].
      intros H; injection H as <-. cbn. rewrite app_length. cbn. apply next_accept_length in E. lia.
Qed.

Lemma settle1_conserved limit s s' : mconserved limit s -> settle1 s = Some s' -> mconserved limit s'.
Proof.
  unfold mconserved, settle1. intros C. destruct (ms_pending s) as [|[l c] rest].
  - destruct (next_accept [] (ms_backlog s)) as [[x bl]|]; [|discriminate].
    intros H; injection H as <-. exact C.
  - destruct (0 <? ms_permits s) eqn:Q.
    + apply N.ltb_lt in Q.
      destruct (mem_nat c (ms_gone s)).
      * destruct (take_first l (ms_backlog s)) as [[x bl]|]; intros H; injection H as <-; exact C.
      * intros H; injection H as <-; cbn. rewrite app_length. cbn. lia.
    + destruct (next_accept _ (ms_backlog s)) as [[x bl]|]; [|discriminate].
      intros H; injection H as <-. exact C.
Qed.

Lemma settle_conserved limit fuel : forall s, mconserved limit s -> mconserved limit (settle fuel s).
Proof.
  induction fuel as [|f IH]; intros s C; cbn [settle]; [exact C|].
  destruct (settle1 s) as [s'|] eqn:E; [|exact C]. apply IH. exact (settle1_conserved _ _ _ C E).
Qed.

(* the fuel is enough: nothing can move any more when settle returns *)
Lemma settle_quiescent fuel : forall s, (measure s < fuel)%nat -> quiescent (settle fuel s).
Proof.
  induction fuel as [|f IH]; intros s M; [lia|]. cbn [settle].
  destruct (settle1 s) as [s'|] eqn:E; [|exact E].
  apply IH. apply settle1_measure in E. lia.
Qed.

Lemma fuel_enough s : (measure s < settle_fuel s)%nat.
Proof. unfold measure, settle_fuel. lia. Qed.

Lemma step_mconserved limit s e : mconserved limit s -> mconserved limit (ms_step s e).
Proof.
  intros C. destruct e as [l c|c why]; cbn [ms_step].
  - apply settle_conserved. exact C.
  - destruct (mem_nat c (ms_active s)) eqn:M.
    + apply settle_conserved. unfold mconserved in *. cbn.
      pose proof (length_remove_nat c _ M). lia.
    + destruct (has_conn c (ms_pending s) || has_conn c (ms_backlog s)); exact C.
Qed.

Lemma run_mconserved limit es : forall s, mconserved limit s -> mconserved limit (ms_run s es).
Proof.
  induction es as [|e es IH]; intros s C; [exact C|]. cbn [ms_run fold_left]. apply IH. now apply step_mconserved.
Qed.

Lemma new_mconserved limit : mconserved limit (new_mserver limit).
Proof. unfold mconserved. cbn. lia. Qed.

Lemma m_at_most_limit limit es :
  N.of_nat (length (ms_active (ms_run (new_mserver limit) es))) <= limit.
Proof.
  pose proof (run_mconserved limit es _ (new_mconserved limit)) as C. unfold mconserved in C. lia.
Qed.

(* ---- quiescence after every event --------------------------------------- *)
Lemma step_quiescent s e : quiescent s -> quiescent (ms_step s e).
Proof.
  intros Q. destruct e as [l c|c why]; cbn [ms_step].
  - apply settle_quiescent. apply fuel_enough.
  - destruct (mem_nat c (ms_active s)).
    + apply settle_quiescent. apply fuel_enough.
    + destruct (has_conn c (ms_pending s) || has_conn c (ms_backlog s)); [|exact Q].
      (* marking a waiting connection as gone moves nothing: the server does not know *)
      unfold quiescent, settle1 in *. cbn [ms_pending ms_permits ms_backlog ms_gone ms_active].
      destruct (ms_pending s) as [|[l w] rest].
      * destruct (next_accept [] (ms_backlog s)) as [[x bl]|]; [discriminate|reflexivity].
      * destruct (0 <? ms_permits s).
        -- destruct (mem_nat w (ms_gone s)); [destruct (take_first l (ms_backlog s)) as [[x bl]|]|]; discriminate.
        -- destruct (next_accept ((l, w) :: rest) (ms_backlog s)) as [[x bl]|]; [discriminate|reflexivity].
Qed.

Lemma new_quiescent limit : quiescent (new_mserver limit).
Proof. reflexivity. Qed.

Lemma run_quiescent es : forall s, quiescent s -> quiescent (ms_run s es).
Proof.
  induction es as [|e es IH]; intros s Q; [exact Q|]. cbn [ms_run fold_left]. apply IH. now apply step_quiescent.
Qed.

Lemma next_accept_none_busy p : forall b, next_accept p b = None -> forall x, In x b -> busy (fst x) p = true.
Proof.
  induction b as [|y t IH]; intros H x Hin; [destruct Hin|].
  cbn [next_accept] in H. destruct (busy (fst y) p) eqn:B; [|discriminate].
  destruct (next_accept p t) as [[z r]|] eqn:E; [discriminate|].
  destruct Hin as [<-|Hin]; [exact B|]. now apply IH.
Qed.

(* while a slot is free nobody waits: neither inside acquire() nor in a backlog *)
Lemma quiescent_free_slot s :
  quiescent s -> 0 < ms_permits s -> ms_pending s = [] /\ ms_backlog s = [].
Proof.
  unfold quiescent, settle1. intros Q P. apply N.ltb_lt in P.
  destruct (ms_pending s) as [|[l c] rest].
  - split; [reflexivity|].
    destruct (next_accept [] (ms_backlog s)) as [[x bl]|] eqn:E; [discriminate|].
    destruct (ms_backlog s) as [|y t]; [reflexivity|].
    pose proof (next_accept_none_busy [] _ E y (or_introl eq_refl)) as B. discriminate B.
  - rewrite P in Q. destruct (mem_nat c (ms_gone s)); [destruct (take_first l (ms_backlog s)) as [[x bl]|]|]; discriminate.
Qed.

(* a connection left in a backlog belongs to a listener that is inside acquire() *)
Lemma quiescent_backlog_busy s x :
  quiescent s -> In x (ms_backlog s) -> busy (fst x) (ms_pending s) = true.
Proof.
  unfold quiescent, settle1. intros Q Hin.
  destruct (ms_pending s) as [|[l c] rest] eqn:P.
  - destruct (next_accept [] (ms_backlog s)) as [[y bl]|] eqn:E; [discriminate|].
    exact (next_accept_none_busy [] _ E x Hin).
  - destruct (0 <? ms_permits s).
    + destruct (mem_nat c (ms_gone s)); [destruct (take_first l (ms_backlog s)) as [[y bl]|]|]; discriminate.
    + destruct (next_accept ((l, c) :: rest) (ms_backlog s)) as [[y bl]|] eqn:E; [discriminate|].
      exact (next_accept_none_busy _ _ E x Hin).
Qed.

(* ---- a freed slot goes to the listener that has waited longest ----------- *)
Lemma settle1_active_mono s s' x : settle1 s = Some s' -> In x (ms_active s) -> In x (ms_active s').
Proof.
  unfold settle1. destruct (ms_pending s) as [|[l c] rest].
  - destruct (next_accept [] (ms_backlog s)) as [[y bl]|]; [|discriminate].
    intros H; injection H as <-. auto.
  - destruct (0 <? ms_permits s).
    + destruct (mem_nat c (ms_gone s)).
      * destruct (take_first l (ms_backlog s)) as [[y bl]|]; intros H; injection H as <-; cbn; auto.
      * intros H; injection H as <-; cbn. intros Hin. apply in_or_app. now left.
    + destruct (next_accept _ (ms_backlog s)) as [[y bl]|]; [|discriminate].
      intros H; injection H as <-. auto.
Qed.

Lemma settle_active_mono fuel x : forall s, In x (ms_active s) -> In x (ms_active (settle fuel s)).
Proof.
  induction fuel as [|f IH]; intros s Hin; cbn [settle]; [exact Hin|].
  destruct (settle1 s) as [s'|] eqn:E; [|exact Hin]. apply IH. exact (settle1_active_mono _ _ _ E Hin).
Qed.

Lemma m_waiting_is_served_on_exit s c why l w rest :
  mem_nat c (ms_active s) = true -> ms_pending s = (l, w) :: rest -> ms_permits s = 0 ->
  mem_nat w (ms_gone s) = false ->
  In w (ms_active (ms_step s (MEnd c why))).
Proof.
  intros M P Z G. cbn [ms_step]. rewrite M.
  set (s1 := mkMS _ _ _ _ _).
  assert (E : settle1 s1 = Some (mkMS 0 (remove_nat c (ms_active s) ++ [w]) rest (ms_backlog s) (ms_gone s))).
  { unfold settle1, s1. cbn [ms_pending ms_permits ms_gone ms_active ms_backlog]. rewrite P, Z, G. reflexivity. }
  unfold settle_fuel. cbn [settle]. rewrite E. apply settle_active_mono. cbn [ms_active].
  apply in_or_app. right. now left.
Qed.

(* ---- the general form: the freed slot goes to the first connection in the line whose
        client is still there, however many before it have gone away meanwhile ---- *)
Lemma settle_serves_first_live :
  forall pre s fuel l w post,
    ms_pending s = pre ++ (l, w) :: post ->
    Forall (fun x => mem_nat (snd x) (ms_gone s) = true) pre ->
    mem_nat w (ms_gone s) = false ->
    0 < ms_permits s ->
    (length pre < fuel)%nat ->
    In w (ms_active (settle fuel s)).
Proof.
  induction pre as [|[l0 c0] pre IH]; intros s fuel l w post P G W Q F;
    (destruct fuel as [|f]; [cbn in F; lia|]); cbn [settle].
  - cbn [app] in P.
    assert (E : settle1 s = Some (mkMS (ms_permits s - 1) (ms_active s ++ [w]) post (ms_backlog s) (ms_gone s))).
    { unfold settle1. rewrite P. apply N.ltb_lt in Q. rewrite Q, W. reflexivity. }
    rewrite E. apply settle_active_mono. cbn [ms_active]. apply in_or_app. right. now left.
  - cbn [app] in P. inversion G as [|x xs G0 G1]; subst. cbn [snd] in G0.
    pose proof Q as Q'. apply N.ltb_lt in Q'.
    destruct (take_first l0 (ms_backlog s)) as [[x bl]|] eqn:T.
    + assert (E : settle1 s = Some (mkMS (ms_permits s) (ms_active s) ((pre ++ (l, w) :: post) ++ [x]) bl (ms_gone s))).
      { unfold settle1. rewrite P, Q', G0, T. reflexivity. }
      rewrite E. apply (IH _ f l w (post ++ [x])); cbn [ms_pending ms_gone ms_permits]; try assumption.
      * rewrite <- app_assoc. reflexivity.
      * cbn [length] in F. lia.
    + assert (E : settle1 s = Some (mkMS (ms_permits s) (ms_active s) (pre ++ (l, w) :: post) (ms_backlog s) (ms_gone s))).
      { unfold settle1. rewrite P, Q', G0, T. reflexivity. }
      rewrite E. apply (IH _ f l w post); cbn [ms_pending ms_gone ms_permits]; try assumption.
      * reflexivity.
      * cbn [length] in F. lia.
Qed.

Lemma m_first_live_is_served_on_exit s c why pre l w post :
  mem_nat c (ms_active s) = true ->
  ms_pending s = pre ++ (l, w) :: post ->
  Forall (fun x => mem_nat (snd x) (ms_gone s) = true) pre ->
  mem_nat w (ms_gone s) = false ->
  In w (ms_active (ms_step s (MEnd c why))).
Proof.
  intros M P G W. cbn [ms_step]. rewrite M.
  apply (settle_serves_first_live pre _ _ l w post); cbn [ms_pending ms_gone ms_permits ms_backlog]; try assumption.
  - lia.
  - unfold settle_fuel. cbn [ms_pending ms_backlog]. rewrite P, app_length. cbn [length]. lia.
Qed.
