(* Decimal.v — u64::to_string followed by str::parse::<u64> is the identity *)
From MC Require Import Model.Base.
From Coq Require Import Arith.PeanoNat.
From Coq Require Import Strings.Byte.

Lemma b2n_n2b n : n < 256 -> b2n (n2b n) = n.
Proof.
  intros H. unfold b2n, n2b. rewrite N.mod_small by assumption.
  destruct (Byte.of_N n) as [b|] eqn:E.
  - now apply Byte.to_of_N.
  - apply Byte.of_N_None_iff in E. lia.
Qed.

Lemma b2n_lt b : b2n b < 256.
Proof. unfold b2n. pose proof (Byte.to_N_bounded b). lia. Qed.

Lemma n2b_b2n b : n2b (b2n b) = b.
Proof.
  unfold n2b, b2n. rewrite N.mod_small by (pose proof (Byte.to_N_bounded b); lia).
  now rewrite Byte.of_to_N.
Qed.

Definition is_digit (b : byte) : Prop := 48 <= b2n b <= 57.

Lemma digit_is_digit d : d < 10 -> is_digit (digit d) /\ b2n (digit d) = 48 + d.
Proof.
  intros H. unfold digit, is_digit. rewrite b2n_n2b by lia. lia.
Qed.

Lemma digit_val_digit d : d < 10 -> digit_val (digit d) = Some d.
Proof.
  intros H. unfold digit_val. destruct (digit_is_digit d H) as [_ ->].
  assert ((48 <=? 48 + d) && (48 + d <=? 57) = true) as ->.
  { apply Bool.andb_true_iff. split; apply N.leb_le; lia. }
  f_equal. lia.
Qed.

(* value of a digit string, continuing from acc *)
Fixpoint dval (acc : N) (l : bytes) : N :=
  match l with
  | [] => acc
  | b :: t => dval (acc * 10 + (b2n b - 48)) t
  end.

Lemma dval_app a x y : dval a (x ++ y) = dval (dval a x) y.
Proof. revert a. induction x as [|b x IH]; intros a; cbn; [reflexivity|apply IH]. Qed.

Lemma dval_ge a l : a <= dval a l.
Proof. revert a. induction l as [|b l IH]; intros a; cbn; [lia|]. specialize (IH (a * 10 + (b2n b - 48))). lia. Qed.

Lemma parse_digits_ok l : forall a,
  Forall is_digit l -> dval a l < two64 -> parse_digits a l = Some (dval a l).
Proof.
  induction l as [|b l IH]; intros a HF HV; cbn; [reflexivity|].
  inversion HF as [|? ? Hb Hl]; subst. unfold is_digit in Hb.
  unfold digit_val.
  assert ((48 <=? b2n b) && (b2n b <=? 57) = true) as ->.
  { apply Bool.andb_true_iff. split; apply N.leb_le; lia. }
  cbn in HV. pose proof (dval_ge (a * 10 + (b2n b - 48)) l) as G.
  assert (a * 10 + (b2n b - 48) <? two64 = true) as -> by (apply N.ltb_lt; lia).
  now apply IH.
Qed.

(* the digits produced for n *)
Lemma dec_digits_spec fuel : forall n acc,
  n < 10 ^ N.of_nat fuel -> fuel <> O ->
  exists ds, dec_digits fuel n acc = ds ++ acc /\ ds <> [] /\ Forall is_digit ds /\
             (forall a, dval a ds = a * 10 ^ N.of_nat (length ds) + n) /\
             (exists d, d < 10 /\ hd_error ds = Some (digit d)).
Proof.
  induction fuel as [|f IH]; intros n acc Hn Hf; [congruence|].
  cbn [dec_digits].
  assert (Hm : n mod 10 < 10) by (apply N.mod_lt; lia).
  destruct (n / 10 =? 0) eqn:E.
  - apply N.eqb_eq in E. assert (n < 10) by (apply N.div_small_iff in E; lia).
    exists [digit (n mod 10)]. rewrite N.mod_small by assumption.
    split; [reflexivity|]. split; [discriminate|]. split.
    + constructor; [apply digit_is_digit; assumption|constructor].
    + split.
      * intros a. cbn. destruct (digit_is_digit n H) as [_ ->]. cbn. lia.
      * exists n. split; [assumption|reflexivity].
  - apply N.eqb_neq in E.
    assert (Hf' : f <> O).
    { intros ->. cbn in Hn. assert (n / 10 = 0) by (apply N.div_small; lia). contradiction. }
    assert (Hn' : n / 10 < 10 ^ N.of_nat f).
    { apply N.div_lt_upper_bound; [lia|]. rewrite Nat2N.inj_succ, N.pow_succ_r' in Hn. exact Hn. }
    destruct (IH (n / 10) (digit (n mod 10) :: acc) Hn' Hf') as (ds & Eq & Ne & Fd & Val & Hd).
    exists (ds ++ [digit (n mod 10)]). rewrite Eq, <- app_assoc. split; [reflexivity|].
    split; [destruct ds; discriminate|]. split.
    + apply Forall_app. split; [exact Fd|]. constructor; [apply digit_is_digit; assumption|constructor].
    + split.
      * intros a. rewrite dval_app, Val. cbn. destruct (digit_is_digit (n mod 10) Hm) as [_ ->].
        rewrite app_length. cbn. rewrite Nat.add_1_r, Nat2N.inj_succ, N.pow_succ_r'.
        pose proof (N.div_mod' n 10) as HD. generalize dependent (n / 10). generalize dependent (n mod 10).
        intros m Hm0 HmE q HqE Hq1 Hq2 HD. generalize (10 ^ N.of_nat (length ds)). intros X. nia.
      * destruct Hd as (d & Hd1 & Hd2). exists d. split; [assumption|].
        destruct ds; [contradiction|]. exact Hd2.
Qed.

Lemma to_dec_parse v : v < two64 -> parse_u64 (to_dec v) = Some v.
Proof.
  intros H. unfold to_dec.
  destruct (dec_digits_spec 40 v []) as (ds & Eq & Ne & Fd & Val & (d & Hd1 & Hd2)).
  { unfold two64 in H. change (N.of_nat 40) with 40. 
    assert (18446744073709551616 < 10 ^ 40) by reflexivity. lia. }
  { discriminate. }
  rewrite Eq, app_nil_r. destruct ds as [|b ds']; [contradiction|].
  cbn in Hd2. injection Hd2 as ->. unfold parse_u64.
  assert (Byte.eqb (digit d) x2b = false) as ->.
  { destruct (Byte.eqb (digit d) x2b) eqn:E; [|reflexivity].
    apply Byte.byte_dec_bl in E. destruct (digit_is_digit d Hd1) as [_ B]. rewrite E in B. cbn in B. lia. }
  rewrite parse_digits_ok; [|exact Fd|rewrite Val; lia]. rewrite Val. f_equal.
Qed.
