(* PC06.v — proofs for C06: add / replace / append / prepend through the handler *)
From MC Require Import Model.Base Model.Generated Model.Store Model.Memc Model.Codec Model.Handler
  Proofs.StoreLemmas Proofs.SetLemmas Proofs.MemcLemmas.

Definition rh_of (h : header) : rheader := new_rheader (h_opcode h) (h_opaque h).
Definition ok_resp (h : header) (c : N) : response := RespPlain (with_cas (rh_of h) c).
Definition err_resp (h : header) (e : cerr) : response := error_response e (rh_of h).

Lemma add_opcode_test h : h_opcode h = cmd_Add ->
  (h_opcode h =? cmd_Add) || (h_opcode h =? cmd_AddQuiet) = true.
Proof. intros ->. reflexivity. Qed.
Lemma replace_opcode_test h : h_opcode h = cmd_Replace ->
  (h_opcode h =? cmd_Add) || (h_opcode h =? cmd_AddQuiet) = false.
Proof. intros ->. reflexivity. Qed.
Lemma append_opcode_test h : h_opcode h = cmd_Append ->
  (h_opcode h =? cmd_Append) || (h_opcode h =? cmd_AppendQuiet) = true.
Proof. intros ->. reflexivity. Qed.
Lemma prepend_opcode_test h : h_opcode h = cmd_Prepend ->
  (h_opcode h =? cmd_Append) || (h_opcode h =? cmd_AppendQuiet) = false.
Proof. intros ->. reflexivity. Qed.

Lemma handle_add h f e k v s : h_opcode h = cmd_Add ->
  handle_request (ReqSet VAdd h f e k v) s =
  (fst (memc_add k (mkRec 0 (h_cas h) f e v) s),
   Some (set_response (rh_of h) (snd (memc_add k (mkRec 0 (h_cas h) f e v) s)))).
Proof.
  intros O. cbn [handle_request req_header]. unfold loud, h_add_replace.
  rewrite (add_opcode_test h O). destruct (memc_add _ _ _). reflexivity.
Qed.

Lemma handle_replace h f e k v s : h_opcode h = cmd_Replace ->
  handle_request (ReqSet VReplace h f e k v) s =
  (fst (memc_replace k (mkRec 0 (h_cas h) f e v) s),
   Some (set_response (rh_of h) (snd (memc_replace k (mkRec 0 (h_cas h) f e v) s)))).
Proof.
  intros O. cbn [handle_request req_header]. unfold loud, h_add_replace.
  rewrite (replace_opcode_test h O). destruct (memc_replace _ _ _). reflexivity.
Qed.

Lemma handle_append h k v s : h_opcode h = cmd_Append ->
  handle_request (ReqAppend VAppend h k v) s =
  (fst (memc_append k (h_cas h) v s),
   Some (set_response (rh_of h) (snd (memc_append k (h_cas h) v s)))).
Proof.
  intros O. cbn [handle_request req_header]. unfold loud, h_append_prepend.
  rewrite (append_opcode_test h O). destruct (memc_append _ _ _ _). reflexivity.
Qed.

Lemma handle_prepend h k v s : h_opcode h = cmd_Prepend ->
  handle_request (ReqAppend VPrepend h k v) s =
  (fst (memc_prepend k (h_cas h) v s),
   Some (set_response (rh_of h) (snd (memc_prepend k (h_cas h) v s)))).
Proof.
  intros O. cbn [handle_request req_header]. unfold loud, h_append_prepend.
  rewrite (prepend_opcode_test h O). destruct (memc_prepend _ _ _ _). reflexivity.
Qed.

(* what a successful conditional store leaves behind *)
Definition stores (s s' : store) (k : bytes) (new : record) : Prop :=
  lookup k (s_mem s') = Some new /\
  (forall k', k' <> k -> lookup k' (s_mem s') = lookup k' (s_mem s)) /\
  s_now s' = s_now s /\ plain s'.

Lemma stores_of_set s0 s k r s' c :
  plain s -> s_now s = s_now s0 ->
  (forall k', k' <> k -> lookup k' (s_mem s) = lookup k' (s_mem s0)) ->
  set k r s = (s', ROk c) -> stores s0 s' k (stored s0 c r).
Proof.
  intros P Nw Fr H. destruct (plain_set_ok k r s s' c P H) as (M & N2 & P').
  unfold stores. rewrite M. split; [|split; [|split]].
  - rewrite lookup_insert_eq. unfold stored. now rewrite Nw.
  - intros k' Hn. rewrite lookup_insert_ne by assumption. now apply Fr.
  - congruence.
  - assumption.
Qed.

(* -------- add -------- *)
Lemma add_on_present s k old h f e v :
  view s k = Some old -> h_opcode h = cmd_Add ->
  handle_request (ReqSet VAdd h f e k v) s = (s, Some (err_resp h KeyExists)).
Proof.
  intros V O. rewrite (handle_add h f e k v s O).
  now rewrite (add_present k _ s old V).
Qed.

Lemma add_on_absent s k h f e v :
  plain s -> view s k = None -> h_opcode h = cmd_Add ->
  exists s' c,
    handle_request (ReqSet VAdd h f e k v) s = (s', Some (ok_resp h c)) /\
    stores s s' k (mkRec (s_now s) c f e v).
Proof.
  intros P V O. rewrite (handle_add h f e k v s O).
  destruct (add_absent k (mkRec 0 (h_cas h) f e v) s P V) as (s' & c & E & ES).
  exists s', c. rewrite E. split; [reflexivity|].
  apply (stores_of_set s (collected s k) k (mkRec 0 (h_cas h) f e v) s' c); auto.
  intros k' N. now apply collected_lookup_other.
Qed.

(* -------- replace -------- *)
Lemma replace_on_absent s k h f e v :
  plain s -> view s k = None -> h_opcode h = cmd_Replace ->
  handle_request (ReqSet VReplace h f e k v) s = (collected s k, Some (err_resp h NotFound)).
Proof.
  intros P V O. rewrite (handle_replace h f e k v s O).
  now rewrite (replace_absent k _ s P V).
Qed.

Lemma replace_on_present s k old h f e v :
  plain s -> view s k = Some old -> h_opcode h = cmd_Replace ->
  (h_cas h = 0 \/ h_cas h = r_cas old ->
   exists s' c,
     handle_request (ReqSet VReplace h f e k v) s = (s', Some (ok_resp h c)) /\
     stores s s' k (mkRec (s_now s) c f e v)) /\
  (h_cas h <> 0 -> h_cas h <> r_cas old ->
   handle_request (ReqSet VReplace h f e k v) s = (s, Some (err_resp h KeyExists))).
Proof.
  intros P V O. rewrite (handle_replace h f e k v s O).
  rewrite (replace_present k _ s old V).
  destruct (set_on_live k (mkRec 0 (h_cas h) f e v) s old P V) as [A B]. split.
  - intros HC. destruct (A HC) as (s' & c & E & _). exists s', c. rewrite E.
    split; [reflexivity|].
    apply (stores_of_set s s k (mkRec 0 (h_cas h) f e v) s' c); auto.
  - intros H0 H1. now rewrite (B H0 H1).
Qed.

(* -------- append / prepend -------- *)
Lemma append_on_absent s k h v :
  plain s -> view s k = None -> h_opcode h = cmd_Append ->
  handle_request (ReqAppend VAppend h k v) s = (collected s k, Some (err_resp h NotFound)).
Proof.
  intros P V O. rewrite (handle_append h k v s O). now rewrite (append_absent k _ v s P V).
Qed.

Lemma prepend_on_absent s k h v :
  plain s -> view s k = None -> h_opcode h = cmd_Prepend ->
  handle_request (ReqAppend VPrepend h k v) s = (collected s k, Some (err_resp h NotFound)).
Proof.
  intros P V O. rewrite (handle_prepend h k v s O). now rewrite (prepend_absent k _ v s P V).
Qed.

Lemma append_on_present s k old h v :
  plain s -> view s k = Some old -> h_opcode h = cmd_Append ->
  (h_cas h = 0 \/ h_cas h = r_cas old ->
   exists s' c,
     handle_request (ReqAppend VAppend h k v) s = (s', Some (ok_resp h c)) /\
     stores s s' k (mkRec (s_now s) c (r_flags old) (r_ttl old) (r_val old ++ v))) /\
  (h_cas h <> 0 -> h_cas h <> r_cas old ->
   handle_request (ReqAppend VAppend h k v) s = (s, Some (err_resp h KeyExists))).
Proof.
  intros P V O. rewrite (handle_append h k v s O).
  rewrite (append_present k _ v s old V).
  destruct (set_on_live k (mkRec (r_ts old) (h_cas h) (r_flags old) (r_ttl old) (r_val old ++ v)) s old P V)
    as [A B]. split.
  - intros HC. destruct (A HC) as (s' & c & E & _). exists s', c. rewrite E.
    split; [reflexivity|].
    apply (stores_of_set s s k (mkRec (r_ts old) (h_cas h) (r_flags old) (r_ttl old) (r_val old ++ v)) s' c); auto.
  - intros H0 H1. now rewrite (B H0 H1).
Qed.

Lemma prepend_on_present s k old h v :
  plain s -> view s k = Some old -> h_opcode h = cmd_Prepend ->
  (h_cas h = 0 \/ h_cas h = r_cas old ->
   exists s' c,
     handle_request (ReqAppend VPrepend h k v) s = (s', Some (ok_resp h c)) /\
     stores s s' k (mkRec (s_now s) c (r_flags old) (r_ttl old) (v ++ r_val old))) /\
  (h_cas h <> 0 -> h_cas h <> r_cas old ->
   handle_request (ReqAppend VPrepend h k v) s = (s, Some (err_resp h KeyExists))).
Proof.
  intros P V O. rewrite (handle_prepend h k v s O).
  rewrite (prepend_present k _ v s old V).
  destruct (set_on_live k (mkRec (r_ts old) (h_cas h) (r_flags old) (r_ttl old) (v ++ r_val old)) s old P V)
    as [A B]. split.
  - intros HC. destruct (A HC) as (s' & c & E & _). exists s', c. rewrite E.
    split; [reflexivity|].
    apply (stores_of_set s s k (mkRec (r_ts old) (h_cas h) (r_flags old) (r_ttl old) (v ++ r_val old)) s' c); auto.
  - intros H0 H1. now rewrite (B H0 H1).
Qed.

(* -------- a rejected command changes nothing that can be observed -------- *)
Definition cond_store (req : request) : Prop :=
  match req with
  | ReqSet VAdd h _ _ _ _ => h_opcode h = cmd_Add
  | ReqSet VReplace h _ _ _ _ => h_opcode h = cmd_Replace
  | ReqAppend VAppend h _ _ => h_opcode h = cmd_Append
  | ReqAppend VPrepend h _ _ => h_opcode h = cmd_Prepend
  | _ => False
  end.

Definition unchanged (s s' : store) : Prop :=
  (forall k', view s' k' = view s k') /\
  (forall k' r, view s k' = Some r -> lookup k' (s_mem s') = Some r) /\
  s_now s' = s_now s /\ s_cas s' = s_cas s.

Lemma unchanged_refl s : unchanged s s.
Proof.
  repeat split; auto. intros k' r. apply view_lookup.
Qed.

Lemma unchanged_collected s k : view s k = None -> unchanged s (collected s k).
Proof.
  intros V. repeat split; auto.
  - intros k'. now apply collected_view.
  - intros k' r Vr. destruct (bytes_eqb k' k) eqn:E.
    + apply bytes_eqb_eq in E. subst. congruence.
    + apply bytes_eqb_neq in E. rewrite collected_lookup_other by assumption.
      now apply view_lookup.
Qed.

Lemma rejected_unchanged req s s' rh msg :
  plain s -> cond_store req ->
  handle_request req s = (s', Some (RespError rh msg)) -> unchanged s s'.
Proof.
  intros P C H.
  destruct req as [| v h f e k val | v h k val | | | | | | | | |]; try contradiction.
  - destruct v; try contradiction; cbn in C.
    + (* add *)
      destruct (view s k) as [old|] eqn:V.
      * rewrite (add_on_present s k old h f e val V C) in H. injection H as <- _. apply unchanged_refl.
      * destruct (add_on_absent s k h f e val P V C) as (s2 & c & E & _). rewrite E in H. discriminate.
    + (* replace *)
      destruct (view s k) as [old|] eqn:V.
      * destruct (replace_on_present s k old h f e val P V C) as [A B].
        destruct (N.eq_dec (h_cas h) 0) as [Z|NZ].
        { destruct (A (or_introl Z)) as (s2 & c & E & _). rewrite E in H. discriminate. }
        destruct (N.eq_dec (h_cas h) (r_cas old)) as [M|NM].
        { destruct (A (or_intror M)) as (s2 & c & E & _). rewrite E in H. discriminate. }
        rewrite (B NZ NM) in H. injection H as <- _. apply unchanged_refl.
      * rewrite (replace_on_absent s k h f e val P V C) in H. injection H as <- _.
        now apply unchanged_collected.
  - destruct v; try contradiction; cbn in C.
    + destruct (view s k) as [old|] eqn:V.
      * destruct (append_on_present s k old h val P V C) as [A B].
        destruct (N.eq_dec (h_cas h) 0) as [Z|NZ].
        { destruct (A (or_introl Z)) as (s2 & c & E & _). rewrite E in H. discriminate. }
        destruct (N.eq_dec (h_cas h) (r_cas old)) as [M|NM].
        { destruct (A (or_intror M)) as (s2 & c & E & _). rewrite E in H. discriminate. }
        rewrite (B NZ NM) in H. injection H as <- _. apply unchanged_refl.
      * rewrite (append_on_absent s k h val P V C) in H. injection H as <- _.
        now apply unchanged_collected.
    + destruct (view s k) as [old|] eqn:V.
      * destruct (prepend_on_present s k old h val P V C) as [A B].
        destruct (N.eq_dec (h_cas h) 0) as [Z|NZ].
        { destruct (A (or_introl Z)) as (s2 & c & E & _). rewrite E in H. discriminate. }
        destruct (N.eq_dec (h_cas h) (r_cas old)) as [M|NM].
        { destruct (A (or_intror M)) as (s2 & c & E & _). rewrite E in H. discriminate. }
        rewrite (B NZ NM) in H. injection H as <- _. apply unchanged_refl.
      * rewrite (prepend_on_absent s k h val P V C) in H. injection H as <- _.
        now apply unchanged_collected.
Qed.
