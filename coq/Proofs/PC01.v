(* PC01.v — proofs for C01: read-your-writes, key isolation, no spontaneous loss *)
From MC Require Import Model.Base Model.Generated Model.Store Model.Memc Model.Codec Model.Handler
  Spec.Exec Proofs.StoreLemmas Proofs.SetLemmas Proofs.MemcLemmas Proofs.Effects Proofs.PC06.

(* ---- a retrieval returns exactly the stored bytes, flags and CAS ---- *)
Definition hit_response (h : header) (r : record) (k : bytes) : response :=
  RespGet (mkRHdr magic_Response (h_opcode h) (blen k) EXTRAS_LENGTH 0 0
             (blen (r_val r) + EXTRAS_LENGTH + blen k) (h_opaque h) (r_cas r))
          (r_flags r) k (r_val r).

Lemma getk_test_get : (cmd_Get =? cmd_GetKey) || (cmd_Get =? cmd_GetKeyQuiet) = false.
Proof. reflexivity. Qed.
Lemma getk_test_getk : (cmd_GetKey =? cmd_GetKey) || (cmd_GetKey =? cmd_GetKeyQuiet) = true.
Proof. reflexivity. Qed.

Lemma get_returns_stored s k r h :
  view s k = Some r -> h_opcode h = cmd_Get ->
  handle_request (ReqGet VGet h k) s = (s, Some (hit_response h r [])).
Proof.
  intros V O. cbn [handle_request req_header]. unfold loud, h_get.
  rewrite (get_hit k s r V). unfold hit_response. rewrite O, getk_test_get. reflexivity.
Qed.

Lemma getk_returns_stored s k r h :
  view s k = Some r -> h_opcode h = cmd_GetKey ->
  handle_request (ReqGet VGetK h k) s = (s, Some (hit_response h r k)).
Proof.
  intros V O. cbn [handle_request req_header]. unfold loud, h_get.
  rewrite (get_hit k s r V). unfold hit_response. rewrite O, getk_test_getk. reflexivity.
Qed.

Lemma get_miss_response s k h :
  view s k = None -> h_opcode h = cmd_Get ->
  snd (handle_request (ReqGet VGet h k) s) = Some (err_resp h NotFound).
Proof.
  intros V O. cbn [handle_request req_header]. unfold loud, h_get.
  pose proof (get_view k s) as G. rewrite V in G.
  destruct (get k s) as [s1 g]. cbn in G. subst g. reflexivity.
Qed.

(* ---- a fresh record is visible ---- *)
Lemma stored_visible s c r : expired (s_now s) (stored s c r) = false.
Proof.
  unfold expired, stored. cbn. destruct (r_ttl r =? 0) eqn:E; [reflexivity|].
  apply N.eqb_neq in E. cbn. apply N.leb_gt. lia.
Qed.

Lemma ok_resp_inj h c c' : RespPlain (with_cas (rh_of h) c) = ok_resp h c' -> c = c'.
Proof. unfold ok_resp, with_cas. intros H. injection H as H. exact H. Qed.

(* an acknowledged set: the key now holds exactly value, flags, ttl of the request
   under a non-zero CAS, and a retrieval sees it *)
Lemma set_then_visible s h f e k v s' c :
  plain s -> 0 < s_cas s ->
  handle_request (ReqSet VSet h f e k v) s = (s', Some (ok_resp h c)) ->
  view s' k = Some (mkRec (s_now s) c f e v) /\ c <> 0.
Proof.
  intros P C H. cbn [handle_request req_header] in H. unfold loud, h_set in H.
  rewrite (plain_set _ _ _ P) in H.
  pose proof (inner_set_cases k (mkRec 0 (h_cas h) f e v) s) as S.
  destruct (inner_set k (mkRec 0 (h_cas h) f e v) s) as [s1 res]. cbn in H.
  inversion S; subst; cbn in H.
  - injection H as Hs Hc. subst s'. subst c.
    split; [|lia]. unfold view. cbn. rewrite lookup_insert_eq.
    change (mkRec (s_now s) (s_cas s) f e v) with (stored s (s_cas s) (mkRec 0 (h_cas h) f e v)).
    now rewrite stored_visible.
  - injection H as Hs Hc. subst s'. subst c.
    split.
    + unfold view. cbn. rewrite lookup_insert_eq.
      match goal with |- context[expired _ ?r] =>
        change r with (stored s (next_client_cas (h_cas h)) (mkRec 0 (h_cas h) f e v)) end.
      now rewrite stored_visible.
    + unfold next_client_cas. cbn [r_cas]. lia.
  - discriminate.
Qed.

(* ---- key isolation ---- *)
Definition leaves_alone (k : bytes) (c : cmd) : Prop :=
  match c with
  | CReq req => key_of req <> Some k /\ is_flush req = false
  | CTick _ => True
  end.

Lemma isolation_lookup s k req :
  plain s -> key_of req <> Some k -> is_flush req = false ->
  lookup k (s_mem (fst (handle_request req s))) = lookup k (s_mem s).
Proof.
  intros P K F. destruct (key_of req) as [k2|] eqn:E.
  - destruct (handle_only_at req s k2 P E) as [Fr _ _ _]. apply Fr. congruence.
  - now rewrite handle_keyless.
Qed.

Lemma key_isolation s k req :
  plain s -> key_of req <> Some k -> is_flush req = false ->
  view (exec s (CReq req)) k = view s k.
Proof.
  intros P K F. unfold view, exec. rewrite isolation_lookup by assumption.
  destruct (handle_now req s P) as [-> _]. reflexivity.
Qed.

Lemma exec_plain s c : plain s -> plain (exec s c).
Proof. intros P. destruct c; cbn; [now apply handle_now|exact P]. Qed.

Lemma run_plain s cs : plain s -> plain (run s cs).
Proof. revert s. induction cs as [|c cs IH]; intros s P; cbn; [exact P|]. apply IH. now apply exec_plain. Qed.

Lemma run_lookup_alone s k cs :
  plain s -> Forall (leaves_alone k) cs ->
  lookup k (s_mem (run s cs)) = lookup k (s_mem s).
Proof.
  revert s. induction cs as [|c cs IH]; intros s P HF; [reflexivity|].
  inversion HF as [|? ? Hc Hr]; subst. cbn [run fold_left]. fold (run (exec s c) cs).
  rewrite IH; [|now apply exec_plain|assumption].
  destruct c as [req|d]; cbn.
  - destruct Hc. now apply isolation_lookup.
  - reflexivity.
Qed.

(* read-your-writes over a whole history: commands on other keys and the passage
   of time (short of the item's own deadline) never change what is returned *)
Lemma persists s k r cs :
  plain s -> view s k = Some r -> Forall (leaves_alone k) cs ->
  (r_ttl r = 0 \/ s_now (run s cs) < r_ts r + r_ttl r) ->
  view (run s cs) k = Some r.
Proof.
  intros P V HF HT. unfold view. rewrite run_lookup_alone by assumption.
  rewrite (view_lookup s k r V). unfold expired.
  destruct HT as [Z|L].
  - rewrite Z. reflexivity.
  - destruct (r_ttl r =? 0); [reflexivity|]. cbn.
    assert (r_ts r + r_ttl r <=? s_now (run s cs) = false) as -> by (apply N.leb_gt; lia).
    reflexivity.
Qed.

(* ---- no spontaneous loss ---- *)
Lemma visible_insert_stored s s1 k c r :
  s_now s1 = s_now s ->
  view (with_mem s1 (insert k (stored s c r) (s_mem s1))) k = Some (stored s c r).
Proof.
  intros N. unfold view. cbn. rewrite lookup_insert_eq, N. now rewrite stored_visible.
Qed.

Lemma set_keeps_visible k r s r0 :
  plain s -> view s k = Some r0 -> view (fst (set k r s)) k <> None.
Proof.
  intros P V. rewrite (plain_set _ _ _ P).
  pose proof (inner_set_cases k r s) as S. destruct (inner_set k r s) as [s' res].
  inversion S; subst; cbn.
  - unfold view. cbn. rewrite lookup_insert_eq. now rewrite stored_visible.
  - unfold view. cbn. rewrite lookup_insert_eq. now rewrite stored_visible.
  - congruence.
Qed.

Definition is_delete (req : request) : bool :=
  match req with ReqDelete _ _ _ => true | _ => false end.

Lemma no_spontaneous_loss s k r req :
  plain s -> view s k = Some r -> view (exec s (CReq req)) k = None ->
  (key_of req = Some k /\ is_delete req = true) \/ is_flush req = true.
Proof.
  intros P V L. destruct (is_flush req) eqn:F; [now right|]. left.
  destruct (key_of req) as [k2|] eqn:K.
  2:{ rewrite key_isolation in L by (auto; congruence). congruence. }
  destruct (bytes_eqb k2 k) eqn:E.
  2:{ apply bytes_eqb_neq in E. rewrite key_isolation in L by (auto; congruence). congruence. }
  apply bytes_eqb_eq in E. subst k2. split; [reflexivity|].
  destruct (is_delete req) eqn:D; [reflexivity|]. exfalso.
  unfold exec in L. rewrite handle_effect in L.
  destruct req as [v h kk|v h fl ex kk val|v h kk val|q h kk|v h dl ini ex kk|h|h|h|h|q h ex|h|h];
    cbn in K, D, F; try discriminate; injection K as K; subst kk; cbn [effect] in L.
  - rewrite (get_hit k s r V) in L. cbn in L. congruence.
  - assert (SK : forall rr, view (fst (set k rr s)) k <> None) by (intros; eapply set_keeps_visible; eauto).
    destruct v; try (now apply SK in L).
    all: destruct ((h_opcode h =? cmd_Add) || (h_opcode h =? cmd_AddQuiet)).
    all: try (rewrite (add_present k _ s r V) in L; cbn in L; congruence).
    all: rewrite (replace_present k _ s r V) in L; now apply SK in L.
  - assert (SK : forall rr, view (fst (set k rr s)) k <> None) by (intros; eapply set_keeps_visible; eauto).
    destruct ((h_opcode h =? cmd_Append) || (h_opcode h =? cmd_AppendQuiet)).
    + rewrite (append_present k _ val s r V) in L. now apply SK in L.
    + rewrite (prepend_present k _ val s r V) in L. now apply SK in L.
  - assert (SK : forall rr, view (fst (set k rr s)) k <> None) by (intros; eapply set_keeps_visible; eauto).
    assert (DK : forall i, view (fst (memc_delta i k (h_cas h) ex dl ini s)) k <> None).
    { intros i. unfold memc_delta. rewrite (get_hit k s r V).
      destruct (parse_u64 (r_val r)); [|cbn; congruence].
      match goal with |- context[set k ?rr s] => specialize (SK rr); destruct (set k rr s) as [s2 [c|e]] end;
        exact SK. }
    destruct v; now apply DK in L.
Qed.

(* the only other way to lose an item: the clock reaches its own deadline *)
Lemma tick_loss s k r d :
  view s k = Some r -> view (exec s (CTick d)) k = None ->
  r_ttl r <> 0 /\ r_ts r + r_ttl r <= s_now s + d.
Proof.
  intros V L. unfold view, exec in L. cbn in L. rewrite (view_lookup s k r V) in L.
  unfold expired in L. destruct (r_ttl r =? 0) eqn:E; [discriminate|]. cbn in L.
  apply N.eqb_neq in E. split; [exact E|].
  destruct (r_ts r + r_ttl r <=? s_now s + d) eqn:E2; [|discriminate]. now apply N.leb_le.
Qed.
