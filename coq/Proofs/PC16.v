(* PC16.v — C16: every command completes. In the model no atomic call ever waits
   for another thread (every action is defined in every shared state), a program
   is a finite tree, and a thread therefore finishes its operation after a
   bounded number of its own steps whatever the others do. *)
From MC Require Import Model.Base Model.Generated Model.Store Model.Memc Model.Conc.
From Coq Require Import ZifyN ZifyNat Arith.PeanoNat.

Section PC16.
Variable now : N.

(* the number of actions a program can still perform, over all results it may see:
   bounded, because get/set/delete programs have depth <= 2 and the commands <= 4 *)
Inductive depth_le : prog -> nat -> Prop :=
| dl_ret v n : depth_le (Ret v) n
| dl_act a k n : (forall x, depth_le (k x) n) -> depth_le (Act a k) (S n).

Lemma depth_le_mono p n m : depth_le p n -> (n <= m)%nat -> depth_le p m.
Proof.
  intros H. revert m. induction H as [v n|a k n H IH]; intros m L; [constructor|].
  destruct m as [|m]; [lia|]. constructor. intros x. apply IH. lia.
Qed.

Lemma get_prog_depth k : depth_le (get_prog now k) 2.
Proof.
  unfold get_prog. constructor. intros [[r|]| | | |]; try constructor.
  destruct (expired now r); constructor. intros _. constructor.
Qed.

Lemma set_prog_depth k r : depth_le (set_prog now k r) 2.
Proof.
  unfold set_prog. destruct (0 <? r_cas r).
  - constructor. intros [| | |res|]; constructor.
  - constructor. intros [| |c| |]; constructor. intros _. constructor.
Qed.

Lemma del_prog_depth k c : depth_le (del_prog k c) 2.
Proof. unfold del_prog. constructor. intros [| | | |res]; constructor. Qed.

Lemma pbind_depth p f n m : depth_le p n -> (forall v, depth_le (f v) m) -> depth_le (pbind p f) (n + m).
Proof.
  intros H Hf. induction H as [v n|a k n H IH]; cbn [pbind].
  - eapply depth_le_mono; [apply Hf|lia].
  - cbn [Nat.add]. constructor. intros x. apply IH.
Qed.

Lemma prog_of_depth o : depth_le (prog_of now o) 2.
Proof. destruct o; [apply get_prog_depth|apply set_prog_depth|apply del_prog_depth]. Qed.

Lemma mprog_of_depth m : depth_le (mprog_of now m) 4.
Proof.
  destruct m as [o|k r|k r|k c v|k c v|i k hc he d ini]; cbn [mprog_of].
  - eapply depth_le_mono; [apply prog_of_depth|lia].
  - apply (pbind_depth _ _ 2 2); [apply get_prog_depth|]. intros [[?|?]| |]; try apply set_prog_depth; constructor.
  - apply (pbind_depth _ _ 2 2); [apply get_prog_depth|]. intros [[?|?]| |]; try apply set_prog_depth; constructor.
  - apply (pbind_depth _ _ 2 2); [apply get_prog_depth|]. intros [[?|?]| |]; try apply set_prog_depth; constructor.
  - apply (pbind_depth _ _ 2 2); [apply get_prog_depth|]. intros [[?|?]| |]; try apply set_prog_depth; try constructor.
  - apply (pbind_depth _ _ 2 2); [apply get_prog_depth|]. intros [[old|?]| |].
    + destruct (parse_u64 (r_val old)); [apply set_prog_depth|constructor].
    + destruct (he =? u32_max); [constructor|apply set_prog_depth].
    + destruct (he =? u32_max); [constructor|apply set_prog_depth].
    + destruct (he =? u32_max); [constructor|apply set_prog_depth].
Qed.

(* no action ever blocks: in every shared state it returns a result (act is a
   total function); so a granted step always completes, whatever other threads
   are doing and wherever they are parked *)
Lemma action_never_blocks a s : exists s' x, act now a s = (s', x).
Proof. destruct (act now a s) as [s' x]. eauto. Qed.

(* one own step of a thread in the middle of an operation: the operation returns,
   or its remaining program got strictly shorter — in whatever shared state *)
Lemma step_progress {Op} (pof : Op -> prog) (t : @thread Op) s o p n :
  th_cur t = Some (o, p) -> depth_le p n ->
  let t' := fst (thread_step now pof t s) in
  (exists v, th_cur t' = None /\ th_done t' = th_done t ++ [v]) \/
  (exists p' m, n = S m /\ th_cur t' = Some (o, p') /\ depth_le p' m /\ th_done t' = th_done t).
Proof.
  intros C D. unfold thread_step. rewrite C. destruct D as [v n|a k n H].
  - left. exists v. cbn. auto.
  - right. destruct (act now a s) as [s1 x]. cbn. exists (k x), n. auto.
Qed.

(* a thread's own steps, each taken in an arbitrary shared state (whatever the
   other threads did in between) *)
Fixpoint own_steps {Op} (pof : Op -> prog) (ss : list shared) (t : @thread Op) : @thread Op :=
  match ss with
  | [] => t
  | s :: rest => own_steps pof rest (fst (thread_step now pof t s))
  end.

Lemma step_done_grows {Op} (pof : Op -> prog) (t : @thread Op) s :
  exists more, th_done (fst (thread_step now pof t s)) = th_done t ++ more.
Proof.
  unfold thread_step. destruct (th_cur t) as [[o [v|a k]]|].
  - exists [v]. reflexivity.
  - destruct (act now a s). exists []. cbn. now rewrite app_nil_r.
  - destruct (th_todo t); exists []; cbn; now rewrite app_nil_r.
Qed.

Lemma done_grows {Op} (pof : Op -> prog) ss : forall (t : @thread Op),
  exists more, th_done (own_steps pof ss t) = th_done t ++ more.
Proof.
  induction ss as [|s ss IH]; intros t; cbn [own_steps]; [exists []; now rewrite app_nil_r|].
  destruct (step_done_grows pof t s) as [m1 E1]. destruct (IH (fst (thread_step now pof t s))) as [m2 E2].
  exists (m1 ++ m2). rewrite E2, E1. now rewrite app_assoc.
Qed.

(* a thread in the middle of an operation whose program has depth <= n has that
   operation's result after n + 1 of its own steps — whatever the shared states
   it meets, i.e. whatever the other threads do and wherever they are parked *)
Lemma completes_within {Op} (pof : Op -> prog) n : forall (t : @thread Op) o p ss,
  th_cur t = Some (o, p) -> depth_le p n -> length ss = S n ->
  exists v rest, th_done (own_steps pof ss t) = th_done t ++ v :: rest.
Proof.
  induction n as [|n IH]; intros t o p ss C D L; destruct ss as [|s ss]; try discriminate; cbn [own_steps].
  - destruct (step_progress pof t s o p O C D) as [(v & _ & Dn)|(p' & m & E & _)]; [|discriminate].
    destruct (done_grows pof ss (fst (thread_step now pof t s))) as [more E]. rewrite E, Dn, <- app_assoc.
    exists v, more. reflexivity.
  - destruct (step_progress pof t s o p (S n) C D) as [(v & _ & Dn)|(p' & m & E & C' & D' & Dn)].
    + destruct (done_grows pof ss (fst (thread_step now pof t s))) as [more E]. rewrite E, Dn, <- app_assoc.
      exists v, more. reflexivity.
    + injection E as <-. injection L as L.
      destruct (IH _ o p' ss C' D' L) as (v & rest & E). exists v, rest. rewrite E, Dn. reflexivity.
Qed.

End PC16.
