(* PC03.v — proofs for C03: concurrent get / set / CAS-set / delete are linearizable.
   Architecture: a local obligation per operation program ([pstate]: where the
   program stands relative to its single linearization point) and one generic
   theorem, by induction on the schedule, for any number of threads, any
   operation lists, any initial store and any schedule. *)
From MC Require Import Model.Base Model.Generated Model.Store Model.Memc Model.Conc Spec.Atomic
  Proofs.StoreLemmas Proofs.SetLemmas.
From Coq Require Import Arith.PeanoNat ZifyN ZifyNat.

Section PC03.
Variable now : N.

Notation act := (act now).
Notation get_prog := (get_prog now).
Notation set_prog := (set_prog now).
Notation prog_of := (prog_of now).
Notation thread := (@thread op).
Notation thread_step := (thread_step now prog_of).
Notation run_sched := (run_sched now prog_of).
Notation spec_result := (spec_result now).
Notation spec_effect := (spec_effect now).
Notation apply_event := (apply_event now).
Notation valid := (valid now).
Notation replay := (replay now).

(* ---- local obligations ---- *)
(* [pstate o p lr]: p is what remains of o's program; lr = Some res once the
   operation has taken effect (then p can only return res) *)
Inductive pstate : op -> prog -> option opres -> Prop :=
| ps_get0 k : pstate (OpGet k) (get_prog k) None
| ps_get1 k : pstate (OpGet k) (Act (ARemExp k) (fun _ => Ret (OGetR (RErr NotFound)))) (Some (OGetR (RErr NotFound)))
| ps_setc0 k r : 0 < r_cas r -> pstate (OpSet k r) (set_prog k r) None
| ps_set0 k r : r_cas r = 0 -> pstate (OpSet k r) (set_prog k r) None
| ps_set1 k r c : r_cas r = 0 ->
    pstate (OpSet k r) (Act (AInsert k (mkRec now c (r_flags r) (r_ttl r) (r_val r))) (fun _ => Ret (OSetR (ROk c)))) None
| ps_del0 k c : pstate (OpDel k c) (del_prog k c) None
| ps_ret o v : pstate o (Ret v) (Some v).

Lemma pstate_start o : pstate o (prog_of o) None.
Proof.
  destruct o as [k|k r|k c]; cbn.
  - constructor.
  - destruct (N.eq_dec (r_cas r) 0) as [Z|NZ]; [now apply ps_set0|apply ps_setc0; lia].
  - constructor.
Qed.

Lemma pstate_ret o v lr : pstate o (Ret v) lr -> lr = Some v.
Proof.
  intros H. inversion H; subst; try reflexivity;
  try (unfold Conc.set_prog in *; destruct (0 <? r_cas r); discriminate).
Qed.

(* the specification event an action amounts to *)
Definition event_of (t : nat) (o : op) (a : action) (s : shared) : sevent :=
  match a with
  | AGet _ => SLin t o (spec_result o 0 s) 0
  | ARemExp k => SCollect k
  | AFetchCas => SReserve
  | AInsert _ r => SLin t o (OSetR (ROk (r_cas r))) (r_cas r)
  | AEntry _ _ => SLin t o (spec_result o 0 s) 0
  | ARemIf _ _ => SLin t o (spec_result o 0 s) 0
  end.

(* one action of a program in state [pstate]: same effect as its event, the
   event's answer is the specification's, and the program moves on consistently *)
Lemma action_step t o a k lr s :
  pstate o (Act a k) lr ->
  let e := event_of t o a s in
  let s' := fst (act a s) in
  let x := snd (act a s) in
  apply_event e s = s' /\
  (match e with SLin _ o' res c => o' = o /\ res = spec_result o c s /\ lr = None | _ => True end) /\
  pstate o (k x) (match e with SLin _ _ res _ => Some res | _ => lr end).
Proof.
  intros H. inversion H; subst; cbn zeta.
  - (* get, first action *)
    cbn [event_of act fst snd apply_event spec_effect spec_result].
    split; [reflexivity|]. split; [auto|].
    destruct (lookup k0 (sh_mem s)) as [r|]; [|constructor].
    destruct (expired now r); constructor.
  - (* get, collecting *)
    cbn [event_of apply_event]. split; [reflexivity|]. split; [exact I|]. constructor.
  - (* CAS set *)
    unfold Conc.set_prog in *. assert (0 <? r_cas r = true) as E by now apply N.ltb_lt.
    rewrite E in *. match goal with H0 : Act _ _ = Act a k |- _ => injection H0 as <- <- end.
    cbn [event_of apply_event spec_effect spec_result]. rewrite E.
    split; [reflexivity|]. split; [auto|].
    destruct (act (AEntry k0 r) s) as [s1 x] eqn:A. cbn [snd].
    assert (exists res, x = XSet res) as [res ->].
    { cbn in A. destruct (lookup k0 (sh_mem s)) as [old|]; [destruct (r_cas old =? r_cas r)|];
        injection A as _ <-; eauto. }
    constructor.
  - (* unconditional set, reserving *)
    unfold Conc.set_prog in *. assert (0 <? r_cas r = false) as E by (apply N.ltb_ge; lia).
    rewrite E in *. match goal with H0 : Act _ _ = Act a k |- _ => injection H0 as <- <- end.
    cbn [event_of apply_event act fst snd]. split; [reflexivity|]. split; [exact I|].
    now apply ps_set1.
  - (* unconditional set, inserting *)
    cbn [event_of apply_event spec_effect spec_result act fst snd r_cas r_flags r_ttl r_val].
    assert (0 <? r_cas r = false) as E by (apply N.ltb_ge; lia). rewrite E.
    split; [reflexivity|]. split; [auto|]. constructor.
  - (* delete *)
    cbn [event_of apply_event spec_effect spec_result].
    split; [reflexivity|]. split; [auto|].
    destruct (act (ARemIf k0 c) s) as [s1 x] eqn:A. cbn [snd].
    assert (exists res, x = XDel res) as [res ->].
    { cbn in A. destruct (lookup k0 (sh_mem s)) as [r|]; [destruct ((c =? 0) || (r_cas r =? c))|];
        injection A as _ <-; eauto. }
    constructor.
Qed.

(* ---- the generic theorem ---- *)
Lemma nth_set_same i (t : thread) : forall ts t0, nth_thread i ts = Some t0 -> nth_thread i (set_thread i t ts) = Some t.
Proof.
  induction i as [|i IH]; intros [|x ts] t0; cbn; try discriminate; [reflexivity|apply IH].
Qed.

Lemma nth_set_other i j (t : thread) : forall ts, i <> j -> nth_thread j (set_thread i t ts) = nth_thread j ts.
Proof.
  revert j. induction i as [|i IH]; intros j ts N; destruct ts as [|x ts]; try reflexivity.
  - destruct j; [congruence|reflexivity].
  - destruct j; [reflexivity|]. simpl. apply IH. congruence.
Qed.

Lemma valid_app evs e s :
  valid evs s -> (match e with SLin _ o res c => res = spec_result o c (replay evs s) | _ => True end) ->
  valid (evs ++ [e]) s.
Proof.
  revert s. induction evs as [|e0 evs IH]; intros s V H; cbn in *.
  - split; [destruct e; auto|exact I].
  - destruct V as [V0 V1]. split; [exact V0|]. apply IH; assumption.
Qed.

Lemma replay_app evs e s : replay (evs ++ [e]) s = apply_event e (replay evs s).
Proof. unfold Atomic.replay. now rewrite fold_left_app. Qed.

Lemma lins_app t evs e : lins t (evs ++ [e]) = lins t evs ++ lins t [e].
Proof.
  induction evs as [|e0 evs IH]; [reflexivity|]. cbn [app lins].
  destruct e0 as [t' o res c|k|]; try exact IH. destruct (Nat.eqb t t'); [cbn; now rewrite IH|exact IH].
Qed.

(* what the trace must say about one thread *)
Definition thread_ok (i : nat) (t : thread) (evs : list sevent) : Prop :=
  match th_cur t with
  | None => lins i evs = th_done t
  | Some (o, p) => exists lr, pstate o p lr /\
                   lins i evs = th_done t ++ match lr with Some r => [r] | None => [] end
  end.

Definition inv (s0 : shared) (ts : list thread) (s : shared) (evs : list sevent) : Prop :=
  valid evs s0 /\ replay evs s0 = s /\
  forall i t, nth_thread i ts = Some t -> thread_ok i t evs.

Lemma step_inv s0 ts s evs i t :
  inv s0 ts s evs -> nth_thread i ts = Some t ->
  let '(t', s') := thread_step t s in
  exists evs', inv s0 (set_thread i t' ts) s' evs'.
Proof.
  intros (V & R & TH) Hi. pose proof (TH i t Hi) as OK. unfold thread_ok in OK.
  unfold Conc.thread_step. destruct (th_cur t) as [[o p]|] eqn:C.
  - destruct OK as (lr & PS & L). destruct p as [v|a k].
    + (* the operation returns *)
      exists evs. split; [exact V|]. split; [exact R|].
      intros j tj Hj. destruct (Nat.eq_dec i j) as [<-|N].
      * rewrite (nth_set_same i _ ts t Hi) in Hj. injection Hj as <-. unfold thread_ok. cbn.
        apply pstate_ret in PS. subst lr. exact L.
      * rewrite nth_set_other in Hj by assumption. now apply TH.
    + (* one atomic action *)
      pose proof (action_step i o a k lr s PS) as (AE & EV & PS').
      destruct (act a s) as [s1 x] eqn:A. cbn [fst snd] in *.
      exists (evs ++ [event_of i o a s]). split; [|split].
      * apply valid_app; [exact V|]. rewrite R. destruct (event_of i o a s); auto.
        destruct EV as (-> & E & _). exact E.
      * rewrite replay_app, R. exact AE.
      * intros j tj Hj. destruct (Nat.eq_dec i j) as [<-|N].
        -- rewrite (nth_set_same i _ ts t Hi) in Hj. injection Hj as <-. unfold thread_ok. cbn [th_cur th_done].
           eexists. split; [exact PS'|]. rewrite lins_app, L.
           destruct (event_of i o a s) as [t' o' res c|kk|] eqn:EE.
           ++ destruct EV as (-> & _ & ->).
              assert (t' = i) by (destruct a; cbn in EE; congruence). subst t'.
              cbn [lins]. rewrite Nat.eqb_refl. now rewrite app_nil_r.
           ++ cbn [lins]. now rewrite app_nil_r.
           ++ cbn [lins]. now rewrite app_nil_r.
        -- rewrite nth_set_other in Hj by assumption. pose proof (TH j tj Hj) as OKj.
           unfold thread_ok in *. rewrite lins_app.
           assert (lins j [event_of i o a s] = []) as ->.
           { destruct (event_of i o a s) as [t' o' res c|kk|] eqn:EE; try reflexivity.
             assert (t' = i) by (destruct a; cbn in EE; congruence). subst t'. cbn.
             destruct (Nat.eqb j i) eqn:Q; [apply Nat.eqb_eq in Q; congruence|reflexivity]. }
           rewrite app_nil_r. exact OKj.
  - (* start the next operation, or idle *)
    destruct (th_todo t) as [|o rest] eqn:TD.
    + exists evs. split; [exact V|]. split; [exact R|].
      intros j tj Hj. destruct (Nat.eq_dec i j) as [<-|N].
      * rewrite (nth_set_same i _ ts t Hi) in Hj. injection Hj as <-. unfold thread_ok. now rewrite C.
      * rewrite nth_set_other in Hj by assumption. now apply TH.
    + exists evs. split; [exact V|]. split; [exact R|].
      intros j tj Hj. destruct (Nat.eq_dec i j) as [<-|N].
      * rewrite (nth_set_same i _ ts t Hi) in Hj. injection Hj as <-. unfold thread_ok. cbn [th_cur th_done].
        exists None. split; [apply pstate_start|]. now rewrite app_nil_r.
      * rewrite nth_set_other in Hj by assumption. now apply TH.
Qed.

Lemma sched_inv s0 sched : forall ts s evs,
  inv s0 ts s evs ->
  let '(ts', s') := run_sched sched ts s in exists evs', inv s0 ts' s' evs'.
Proof.
  induction sched as [|i rest IH]; intros ts s evs I; cbn [Conc.run_sched].
  - eauto.
  - destruct (nth_thread i ts) as [t|] eqn:Hi; [|now apply (IH ts s evs)].
    pose proof (step_inv s0 ts s evs i t I Hi) as ST.
    destruct (thread_step t s) as [t' s1]. destruct ST as [evs' I']. now apply (IH _ _ evs').
Qed.

(* any number of clients, each with any list of get/set/CAS-set/delete on any
   keys, any initial store, any schedule: there is a one-at-a-time trace that is
   valid, ends in exactly the concrete shared state, and gives every client, in
   its own order, the answers it received (plus the answer already determined
   for an operation that has taken effect but not yet returned) *)
Theorem linearizable (opss : list (list op)) (sched : list nat) (s0 : shared) :
  let '(ts, s) := run_sched sched (map new_thread opss) s0 in
  exists evs, valid evs s0 /\ replay evs s0 = s /\
    forall i t, nth_thread i ts = Some t ->
      exists pending, lins i evs = th_done t ++ pending /\ (length pending <= 1)%nat /\
                      (th_cur t = None -> pending = []).
Proof.
  assert (I0 : inv s0 (map new_thread opss) s0 []).
  { split; [exact I|]. split; [reflexivity|]. intros i t Hi.
    assert (th_cur t = None /\ th_done t = []) as [C D].
    { revert i Hi. induction opss as [|ops opss' IHo]; intros [|i] Hi; cbn in Hi; try discriminate.
      - injection Hi as <-. auto.
      - eapply IHo; eauto. }
    unfold thread_ok. rewrite C, D. reflexivity. }
  pose proof (sched_inv s0 sched _ _ _ I0) as H.
  destruct (run_sched sched (map new_thread opss) s0) as [ts s]. destruct H as (evs & V & R & TH).
  exists evs. split; [exact V|]. split; [exact R|].
  intros i t Hi. pose proof (TH i t Hi) as OK. unfold thread_ok in OK.
  destruct (th_cur t) as [[o p]|].
  - destruct OK as (lr & _ & L). exists (match lr with Some r => [r] | None => [] end).
    split; [exact L|]. split; [destruct lr; cbn; lia|discriminate].
  - exists []. rewrite app_nil_r. auto.
Qed.

End PC03.

(* ------------------------------------------------------------------ *)
(* the programs are the sequential store functions cut into atomic calls *)
Section Equiv.
Variable now : N.

Definition shared_of (s : store) : shared := mkShared (s_mem s) (s_cas s).

Lemma get_prog_seq k s :
  s_limit s = None -> s_now s = now ->
  run_atomic now (get_prog now k) (shared_of s) = (shared_of (fst (get k s)), OGetR (snd (get k s))).
Proof.
  intros P N. unfold get, get_prog, shared_of. cbn [run_atomic act sh_mem sh_cas].
  destruct (lookup k (s_mem s)) as [r|] eqn:L; [|reflexivity].
  rewrite N. destruct (expired now r) eqn:E; [|reflexivity].
  cbn [run_atomic act sh_mem sh_cas]. rewrite L, E.
  unfold decr_usage. cbn [s_limit with_mem]. rewrite P. reflexivity.
Qed.

Lemma set_prog_seq k r s :
  s_now s = now ->
  run_atomic now (set_prog now k r) (shared_of s) =
  (shared_of (fst (inner_set k r s)), OSetR (snd (inner_set k r s))).
Proof.
  intros N. unfold inner_set, set_prog. destruct (0 <? r_cas r).
  - cbn [run_atomic act shared_of sh_mem sh_cas]. destruct (lookup k (s_mem s)) as [old|].
    + destruct (r_cas old =? r_cas r); cbn; rewrite ?N; reflexivity.
    + cbn. rewrite N. reflexivity.
  - cbn. rewrite N. reflexivity.
Qed.

Lemma del_prog_seq k c s :
  s_limit s = None ->
  run_atomic now (del_prog k c) (shared_of s) = (shared_of (fst (delete k c s)), ODelR (snd (delete k c s))).
Proof.
  intros P. unfold delete, del_prog. cbn [run_atomic act shared_of sh_mem].
  destruct (lookup k (s_mem s)) as [r|]; [|reflexivity].
  destruct ((c =? 0) || (r_cas r =? c)); [|reflexivity].
  cbn. unfold decr_usage. cbn [s_limit with_mem]. rewrite P. reflexivity.
Qed.

End Equiv.

(* ------------------------------------------------------------------ *)
(* consequences, on the one-at-a-time specification *)
Section Consequences.
Variable now : N.
Notation spec_result := (spec_result now).
Notation spec_effect := (spec_effect now).
Notation apply_event := (apply_event now).

(* k's CAS, if any, was issued by the counter earlier; the counter has not wrapped *)
Definition cas_ok (s : shared) (k : bytes) : Prop :=
  sh_cas s < u64_max /\ forall r, lookup k (sh_mem s) = Some r -> r_cas r < sh_cas s.

Lemma fresh_live c f t v : expired now (mkRec now c f t v) = false.
Proof.
  unfold expired. cbn. destruct (t =? 0) eqn:E; [reflexivity|]. apply N.eqb_neq in E. cbn. apply N.leb_gt. lia.
Qed.

Lemma next_client_cas_neq c : 0 < c -> c < two64 -> next_client_cas c <> c.
Proof.
  intros H0 H1. unfold next_client_cas.
  destruct (N.eq_dec (c + 1) two64) as [E|NE].
  - rewrite E, N.mod_same by discriminate. unfold two64 in *. lia.
  - rewrite N.mod_small by (unfold two64 in *; lia). lia.
Qed.

(* a CAS-store that succeeds leaves a live record whose CAS differs from the one it carried *)
Lemma cas_store_success k r s c' :
  0 < r_cas r -> r_cas r < two64 -> cas_ok s k ->
  spec_result (OpSet k r) 0 s = OSetR (ROk c') ->
  exists new, lookup k (sh_mem (spec_effect (OpSet k r) 0 s)) = Some new /\
              r_cas new <> r_cas r /\ expired now new = false.
Proof.
  intros H0 H1 [NW B] R. unfold Atomic.spec_result, Atomic.spec_effect in *.
  assert (0 <? r_cas r = true) as E by now apply N.ltb_lt. rewrite E in *.
  cbn [act] in *. destruct (lookup k (sh_mem s)) as [old|] eqn:L.
  - destruct (r_cas old =? r_cas r) eqn:M; [|discriminate].
    apply N.eqb_eq in M. cbn [fst sh_mem]. rewrite lookup_insert_eq. eexists. split; [reflexivity|].
    split; [|apply fresh_live]. cbn. specialize (B old eq_refl). lia.
  - cbn [fst sh_mem]. rewrite lookup_insert_eq. eexists. split; [reflexivity|].
    split; [|apply fresh_live]. cbn. now apply next_client_cas_neq.
Qed.

(* against a record with a different CAS it fails and changes nothing *)
Lemma cas_store_loses k r s cur cc :
  0 < r_cas r -> lookup k (sh_mem s) = Some cur -> r_cas cur <> r_cas r ->
  spec_result (OpSet k r) cc s = OSetR (RErr KeyExists) /\ spec_effect (OpSet k r) cc s = s.
Proof.
  intros H0 L NE. unfold Atomic.spec_result, Atomic.spec_effect.
  assert (0 <? r_cas r = true) as E by now apply N.ltb_lt. rewrite E. cbn [act]. rewrite L.
  assert (r_cas cur =? r_cas r = false) as -> by now apply N.eqb_neq. split; reflexivity.
Qed.

(* a burst of CAS-stores carrying the same CAS c on key k, in any one-at-a-time
   order, interleaved with collections, reservations and retrievals: at most one succeeds *)
Definition same_cas_store (c : N) (k : bytes) (e : sevent) : Prop :=
  match e with
  | SLin _ (OpSet k' r) _ _ => k' = k /\ r_cas r = c
  | SLin _ (OpGet _) _ _ => True
  | SLin _ (OpDel _ _) _ _ => False
  | SCollect _ | SReserve => True
  end.

Definition is_success (e : sevent) : bool :=
  match e with SLin _ (OpSet _ _) (OSetR (ROk _)) _ => true | _ => false end.

Fixpoint successes (evs : list sevent) : nat :=
  match evs with [] => O | e :: t => ((if is_success e then 1 else 0) + successes t)%nat end.

(* after a winner: k holds a live record with another CAS; nothing in such a burst changes that *)
Definition blocked (c : N) (k : bytes) (s : shared) : Prop :=
  exists cur, lookup k (sh_mem s) = Some cur /\ r_cas cur <> c /\ expired now cur = false.

Lemma blocked_step c k e s :
  0 < c -> same_cas_store c k e -> blocked c k s ->
  (match e with SLin _ o res cc => res = spec_result o cc s | _ => True end) ->
  blocked c k (apply_event e s) /\ is_success e = false.
Proof.
  intros H0 SC (cur & L & NE & LV) V. destruct e as [t o res cc|k'|]; cbn [Atomic.apply_event].
  - destruct o as [k'|k' r|k' c']; cbn in SC.
    + split; [exists cur; auto|reflexivity].
    + destruct SC as [-> EC]. destruct (cas_store_loses k r s cur cc) as [R Ef]; [lia|assumption|congruence|].
      rewrite Ef. split; [exists cur; auto|]. rewrite V, R. reflexivity.
    + contradiction.
  - split; [|reflexivity]. cbn [act]. destruct (lookup k' (sh_mem s)) as [r|] eqn:L'; [|cbn; exists cur; auto].
    destruct (expired now r) eqn:E; [|cbn; exists cur; auto]. cbn [fst sh_mem].
    destruct (bytes_eqb k k') eqn:Q.
    + apply bytes_eqb_eq in Q. subst. rewrite L in L'. injection L' as <-. congruence.
    + apply bytes_eqb_neq in Q. exists cur. cbn [sh_mem]. rewrite lookup_remove_ne by assumption. auto.
  - split; [exists cur; auto|reflexivity].
Qed.

Lemma blocked_no_success c k evs : forall s,
  0 < c -> Forall (same_cas_store c k) evs -> blocked c k s -> valid now evs s -> successes evs = O.
Proof.
  induction evs as [|e evs IH]; intros s H0 HF B V; [reflexivity|].
  inversion HF as [|? ? He Hr]; subst. destruct V as [V0 V1].
  destruct (blocked_step c k e s H0 He B V0) as [B' NS]. cbn [successes]. rewrite NS.
  now apply (IH (apply_event e s)).
Qed.

Lemma cas_ok_reserve s k : cas_ok s k -> sh_cas s + 1 < u64_max -> cas_ok (fst (act now AFetchCas s)) k.
Proof.
  intros [NW B] H. cbn. split.
  - cbn. unfold add64w. rewrite N.mod_small by (unfold u64_max, two64 in *; lia). exact H.
  - cbn. intros r L. specialize (B r L). unfold add64w. rewrite N.mod_small by (unfold u64_max, two64 in *; lia). lia.
Qed.

Theorem one_cas_winner c k evs : forall s,
  0 < c -> c < two64 -> Forall (same_cas_store c k) evs -> valid now evs s ->
  (* the counter stays clear of wrapping during the burst, k's CAS is counter-issued *)
  (forall s', sh_cas s <= sh_cas s' -> sh_cas s' <= sh_cas s + N.of_nat (length evs) -> sh_cas s' < u64_max) ->
  (forall r, lookup k (sh_mem s) = Some r -> r_cas r < sh_cas s) ->
  (successes evs <= 1)%nat.
Proof.
  induction evs as [|e evs IH]; intros s H0 H1 HF V NW B; [cbn; lia|].
  inversion HF as [|? ? He Hr]; subst. destruct V as [V0 V1]. cbn [successes].
  destruct (is_success e) eqn:S.
  - (* the winner: everything after it is blocked *)
    destruct e as [t o res cc|k'|]; try discriminate. destruct o as [k'|k' r|k' c']; try discriminate.
    destruct res as [|[c'|]|]; try discriminate. cbn in He. destruct He as [-> EC].
    assert (Z : 0 <? r_cas r = true) by (apply N.ltb_lt; lia).
    assert (CC : spec_result (OpSet k r) 0 s = OSetR (ROk c') /\ spec_effect (OpSet k r) cc s = spec_effect (OpSet k r) 0 s).
    { unfold Atomic.spec_result, Atomic.spec_effect in *. rewrite Z in *. auto. }
    destruct CC as [R0 E0].
    destruct (cas_store_success k r s c') as (new & L & NE & LV); try lia.
    { split; [apply NW; lia|exact B]. }
    { exact R0. }
    assert (NS : successes evs = O).
    { apply (blocked_no_success (r_cas r) k evs (apply_event (SLin t (OpSet k r) (OSetR (ROk c')) cc) s)).
      - lia.
      - rewrite EC. exact Hr.
      - cbn [Atomic.apply_event]. rewrite E0. exists new. auto.
      - exact V1. }
    rewrite NS. lia.
  - (* not a success: the preconditions carry over *)
    assert (successes evs <= 1)%nat; [|lia].
    apply (IH (apply_event e s)); try assumption.
    + intros s' A1 A2. apply NW.
      * destruct e as [t o res cc|k'|]; cbn in A1 |- *.
        -- destruct o as [k'|k' r|k' c']; cbn in A1; try lia.
           ++ destruct (0 <? r_cas r); cbn in A1; [|lia]. destruct (lookup k' (sh_mem s)) as [old|]; [|cbn in A1; lia].
              destruct (r_cas old =? r_cas r); cbn in A1; [|lia].
              unfold add64w in A1. pose proof (N.mod_le (sh_cas s + 1) two64). assert (two64 <> 0) by discriminate.
              pose proof (NW s (N.le_refl _)). rewrite N.mod_small in A1 by (unfold u64_max, two64 in *; lia). lia.
           ++ destruct (lookup k' (sh_mem s)) as [r0|]; [|cbn in A1; lia].
              destruct ((c' =? 0) || (r_cas r0 =? c')); cbn in A1; lia.
        -- destruct (lookup k' (sh_mem s)) as [r0|]; [|cbn in A1; lia]. destruct (expired now r0); cbn in A1; lia.
        -- unfold add64w in A1. pose proof (NW s (N.le_refl _)).
           rewrite N.mod_small in A1 by (unfold u64_max, two64 in *; cbn; lia). cbn in A1. lia.
      * destruct e as [t o res cc|k'|]; cbn [length] in *; cbn in A2 |- *.
        -- destruct o as [k'|k' r|k' c']; cbn in A2 |- *; try lia.
           ++ destruct (0 <? r_cas r); cbn in A2 |- *; [|lia]. destruct (lookup k' (sh_mem s)) as [old|]; [|cbn in A2 |- *; lia].
              destruct (r_cas old =? r_cas r); cbn in A2 |- *; [|lia].
              unfold add64w in A2. pose proof (NW s (N.le_refl _)).
              rewrite N.mod_small in A2 by (unfold u64_max, two64 in *; lia). lia.
           ++ destruct (lookup k' (sh_mem s)) as [r0|]; [|cbn in A2 |- *; lia].
              destruct ((c' =? 0) || (r_cas r0 =? c')); cbn in A2 |- *; lia.
        -- destruct (lookup k' (sh_mem s)) as [r0|]; [|cbn in A2 |- *; lia]. destruct (expired now r0); cbn in A2 |- *; lia.
        -- unfold add64w in A2. pose proof (NW s (N.le_refl _)).
           rewrite N.mod_small in A2 by (unfold u64_max, two64 in *; cbn; lia). cbn in A2. lia.
    + (* k's CAS stays counter-issued: a failed or foreign event does not store on k with a client CAS *)
      intros r0 L0. destruct e as [t o res cc|k'|]; cbn [Atomic.apply_event] in L0 |- *.
      * destruct o as [k'|k' r|k' c']; cbn in He.
        -- cbn in L0 |- *. now apply B.
        -- destruct He as [-> EC]. cbn [Atomic.spec_effect] in L0 |- *.
           assert (Z : 0 <? r_cas r = true) by (apply N.ltb_lt; lia). rewrite Z in *.
           cbn [act] in *. destruct (lookup k (sh_mem s)) as [old|] eqn:L.
           ++ destruct (r_cas old =? r_cas r) eqn:M.
              ** (* would have been a success *) exfalso. cbn in S. rewrite V0 in S.
                 unfold Atomic.spec_result in S. rewrite Z in S. cbn [act] in S. rewrite L, M in S. discriminate.
              ** cbn in L0 |- *. rewrite L in L0. injection L0 as <-. now apply B.
           ++ exfalso. cbn in S. rewrite V0 in S. unfold Atomic.spec_result in S. rewrite Z in S.
              cbn [act] in S. rewrite L in S. discriminate.
        -- contradiction.
      * cbn [act] in *. destruct (lookup k' (sh_mem s)) as [r1|] eqn:L1; [|cbn in *; now apply B].
        destruct (expired now r1); [|cbn in *; now apply B]. cbn [fst sh_mem sh_cas] in *.
        destruct (bytes_eqb k k') eqn:Q.
        -- apply bytes_eqb_eq in Q. subst. rewrite lookup_remove_eq in L0. discriminate.
        -- apply bytes_eqb_neq in Q. rewrite lookup_remove_ne in L0 by assumption. now apply B.
      * cbn in L0 |- *. specialize (B r0 L0). unfold add64w. pose proof (NW s (N.le_refl _)).
        rewrite N.mod_small by (unfold u64_max, two64 in *; lia). lia.
Qed.

(* an acknowledged store is not undone by a retrieval, a collection or a
   reservation: only a later store or delete of that key changes it *)
Definition mutates (k : bytes) (e : sevent) : bool :=
  match e with
  | SLin _ (OpSet k' _) _ _ | SLin _ (OpDel k' _) _ _ => bytes_eqb k' k
  | _ => false
  end.

Theorem store_not_undone t k r res c s e :
  let s1 := apply_event (SLin t (OpSet k r) res c) s in
  res = spec_result (OpSet k r) c s -> (exists c', res = OSetR (ROk c')) ->
  mutates k e = false ->
  exists new, lookup k (sh_mem s1) = Some new /\ r_val new = r_val r /\ r_flags new = r_flags r /\
              lookup k (sh_mem (apply_event e s1)) = Some new.
Proof.
  cbn zeta. intros R [c' ->] M.
  assert (LIVE : exists new, lookup k (sh_mem (spec_effect (OpSet k r) c s)) = Some new /\
                  r_val new = r_val r /\ r_flags new = r_flags r /\ expired now new = false).
  { unfold Atomic.spec_result, Atomic.spec_effect in *. destruct (0 <? r_cas r) eqn:Z.
    - cbn [act] in *. destruct (lookup k (sh_mem s)) as [old|].
      + destruct (r_cas old =? r_cas r); [|discriminate]. cbn. rewrite lookup_insert_eq.
        eexists. repeat split; try reflexivity. apply fresh_live.
      + cbn. rewrite lookup_insert_eq. eexists. repeat split; try reflexivity. apply fresh_live.
    - cbn. rewrite lookup_insert_eq. eexists. repeat split; try reflexivity. apply fresh_live. }
  destruct LIVE as (new & L & Vv & Ff & LV). cbn [Atomic.apply_event].
  exists new. repeat split; auto.
  set (s1 := spec_effect (OpSet k r) c s) in *. clearbody s1.
  destruct e as [t' o res' cc|k'|]; cbn [Atomic.apply_event].
  - destruct o as [k'|k' r'|k' c'']; cbn in M |- *.
    + exact L.
    + apply bytes_eqb_neq in M. destruct (0 <? r_cas r'); cbn [act].
      * destruct (lookup k' (sh_mem s1)) as [old|]; [destruct (r_cas old =? r_cas r')|]; cbn;
          rewrite ?lookup_insert_ne by congruence; exact L.
      * cbn. rewrite lookup_insert_ne by congruence. exact L.
    + apply bytes_eqb_neq in M. cbn [act]. destruct (lookup k' (sh_mem s1)) as [r0|]; [|exact L].
      destruct ((c'' =? 0) || (r_cas r0 =? c'')); cbn; [|exact L]. rewrite lookup_remove_ne by congruence. exact L.
  - cbn [act]. destruct (lookup k' (sh_mem s1)) as [r0|] eqn:L0; [|exact L].
    destruct (expired now r0) eqn:E0; [|exact L]. cbn.
    destruct (bytes_eqb k k') eqn:Q.
    + apply bytes_eqb_eq in Q. subst. rewrite L in L0. injection L0 as <-. congruence.
    + apply bytes_eqb_neq in Q. rewrite lookup_remove_ne by assumption. exact L.
  - exact L.
Qed.

End Consequences.
