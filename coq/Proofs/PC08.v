(* PC08.v — proofs for C08: delete and flush *)
From MC Require Import Model.Base Model.Generated Model.Store Model.Memc Model.Codec Model.Handler
  Spec.Exec Proofs.StoreLemmas Proofs.SetLemmas Proofs.MemcLemmas Proofs.Effects Proofs.PC06
  Proofs.PC01 Proofs.PC02 Proofs.PC05.

(* delete, in terms of what is physically stored *)
Lemma delete_absent s k h :
  lookup k (s_mem s) = None ->
  handle_request (ReqDelete false h k) s = (s, Some (err_resp h NotFound)).
Proof. intros L. rewrite handle_delete. unfold delete. now rewrite L. Qed.

Lemma delete_present s k r h :
  plain s -> lookup k (s_mem s) = Some r ->
  (h_cas h = 0 \/ h_cas h = r_cas r ->
   handle_request (ReqDelete false h k) s = (collected s k, Some (RespPlain (rh_of h)))) /\
  (h_cas h <> 0 -> h_cas h <> r_cas r ->
   handle_request (ReqDelete false h k) s = (s, Some (err_resp h KeyExists))).
Proof.
  intros P L. rewrite handle_delete. unfold delete. rewrite L. split.
  - intros HC. assert ((h_cas h =? 0) || (r_cas r =? h_cas h) = true) as ->.
    { destruct HC as [->| ->]; [reflexivity|]. rewrite N.eqb_refl. apply Bool.orb_true_r. }
    cbn. now rewrite (plain_decr _ _ (plain_with_mem s _ P)).
  - intros NZ NM. assert ((h_cas h =? 0) || (r_cas r =? h_cas h) = false) as ->.
    { apply Bool.orb_false_iff. split; apply N.eqb_neq; congruence. }
    reflexivity.
Qed.

(* after a successful delete the key is gone and every other key is untouched *)
Lemma collected_effect s k :
  lookup k (s_mem (collected s k)) = None /\
  (forall k', k' <> k -> lookup k' (s_mem (collected s k)) = lookup k' (s_mem s)) /\
  s_now (collected s k) = s_now s /\ s_cas (collected s k) = s_cas s.
Proof.
  split; [apply collected_lookup_same|]. split; [intros; now apply collected_lookup_other|auto].
Qed.

(* immediate flush: nothing is retrievable *)
Lemma flush_now_empty s q h k :
  plain s -> view (fst (handle_request (ReqFlush q h 0) s)) k = None.
Proof.
  intros P. rewrite handle_flush. unfold view. now rewrite (flush_lookup _ _ _ P).
Qed.

(* delayed flush: right after it, every record's deadline is at most now + n *)
Lemma flush_delay_deadlines s n k r' :
  plain s -> 0 < n -> lookup k (s_mem (flush n s)) = Some r' ->
  dl_le (deadline r') (Some (s_now s + n)).
Proof.
  intros P N L. rewrite (flush_lookup _ _ _ P) in L.
  apply N.ltb_lt in N. rewrite N in L. apply N.ltb_lt in N.
  destruct (lookup k (s_mem s)) as [r|]; [|discriminate]. cbn in L. injection L as <-.
  now apply flush_record_deadline.
Qed.

(* ... so an item present at the flush and not stored again is unretrievable
   from n seconds after the flush at the latest *)
Lemma flush_delay_kills s n k cs q h :
  plain s -> 0 < n -> Forall (leaves_alone k) cs ->
  let s1 := fst (handle_request (ReqFlush q h n) s) in
  s_now s + n <= s_now (run s1 cs) -> view (run s1 cs) k = None.
Proof.
  intros P N HF s1 HT. subst s1. rewrite handle_flush in *.
  pose proof (flush_plain n s P) as P1.
  unfold view. rewrite run_lookup_alone by assumption.
  destruct (lookup k (s_mem (flush n s))) as [r'|] eqn:L; [|reflexivity].
  pose proof (flush_delay_deadlines s n k r' P N L) as D.
  assert (E : expired (s_now (run (flush n s) cs)) r' = true).
  { apply expired_deadline. unfold dl_le in D. destruct (deadline r') as [d|]; [|contradiction].
    exists d. split; [reflexivity|lia]. }
  now rewrite E.
Qed.

(* general form over arbitrary later histories: whatever is stored under k later
   either still carries a deadline within the flush's, or was written afresh by
   a command executed after the flush *)
Definition flushed_or_later (D F : N) (s : store) (k : bytes) : Prop :=
  forall r, lookup k (s_mem s) = Some r -> dl_le (deadline r) (Some D) \/ F <= r_ts r.

Lemma dl_le_trans a b c : dl_le a b -> dl_le b c -> dl_le a c.
Proof.
  unfold dl_le. destruct a, b, c; try tauto; try lia.
Qed.

Lemma flushed_step D F s k cm :
  plain s -> F <= s_now s -> flushed_or_later D F s k -> flushed_or_later D F (exec s cm) k.
Proof.
  intros P FN J r' L'. destruct (lookup k (s_mem s)) as [r|] eqn:L.
  - destruct (deadline_step s k cm r r' P L L') as [DL|(req & _ & _ & Ts)].
    + destruct (J r L) as [A|B].
      * left. eapply dl_le_trans; eauto.
      * (* r was written after the flush; r' is r, or a flushed copy of r, or ... *)
        destruct cm as [req|d]; cbn [exec] in L'.
        2:{ cbn in L'. rewrite L in L'. injection L' as <-. now right. }
        destruct (key_of req) as [k2|] eqn:K.
        -- destruct (bytes_eqb k2 k) eqn:E.
           ++ apply bytes_eqb_eq in E. subst k2.
              destruct (handle_touch req s k P K) as [Ls|Ln|r2 L2 Ts2].
              ** rewrite Ls, L in L'. injection L' as <-. now right.
              ** congruence.
              ** rewrite L2 in L'. injection L' as <-. right. lia.
           ++ apply bytes_eqb_neq in E. destruct (handle_only_at req s k2 P K) as [Fr _ _ _].
              rewrite Fr, L in L' by congruence. injection L' as <-. now right.
        -- destruct (is_flush req) eqn:Fl.
           ++ destruct req; try discriminate. rewrite handle_flush, (flush_lookup _ _ _ P), L in L'.
              destruct (0 <? exp) eqn:Dd; [|discriminate]. cbn in L'. injection L' as <-.
              unfold flush_record. destruct ((r_ttl r =? 0) || (s_now s + exp <? r_ts r + r_ttl r)); cbn; right; lia.
           ++ rewrite handle_keyless, L in L' by assumption. injection L' as <-. now right.
    + right. lia.
  - (* k was absent: r' is fresh *)
    destruct cm as [req|d]; cbn [exec] in L'; [|cbn in L'; congruence].
    destruct (key_of req) as [k2|] eqn:K.
    + destruct (bytes_eqb k2 k) eqn:E.
      * apply bytes_eqb_eq in E. subst k2.
        destruct (handle_touch req s k P K) as [Ls|Ln|r2 L2 Ts2]; try congruence.
        rewrite L2 in L'. injection L' as <-. right. lia.
      * apply bytes_eqb_neq in E. destruct (handle_only_at req s k2 P K) as [Fr _ _ _].
        rewrite Fr in L' by congruence. congruence.
    + destruct (is_flush req) eqn:Fl.
      * destruct req; try discriminate. rewrite handle_flush, (flush_lookup _ _ _ P), L in L'.
        destruct (0 <? exp); discriminate.
      * rewrite handle_keyless in L' by assumption. congruence.
Qed.

Lemma flushed_run D F k cs : forall s,
  plain s -> F <= s_now s -> flushed_or_later D F s k -> flushed_or_later D F (run s cs) k.
Proof.
  induction cs as [|cm cs IH]; intros s P FN J; [exact J|].
  cbn [run fold_left]. fold (run (exec s cm) cs). apply IH.
  - now apply exec_plain.
  - destruct cm as [req|d]; cbn; [destruct (handle_now req s P) as [-> _]|]; lia.
  - now apply flushed_step.
Qed.

Lemma flush_delay_general s n k cs q h :
  plain s -> 0 < n ->
  let s1 := fst (handle_request (ReqFlush q h n) s) in
  flushed_or_later (s_now s + n) (s_now s) (run s1 cs) k.
Proof.
  intros P N s1. subst s1. rewrite handle_flush.
  apply flushed_run; [now apply flush_plain|rewrite flush_now; lia|].
  intros r L. left. now apply (flush_delay_deadlines s n k r P N).
Qed.
