(* MemcLemmas.v — the memcache commands on a plain store (no eviction policy),
   characterised through [view]. *)
From MC Require Import Model.Base Model.Generated Model.Store Model.Memc
  Proofs.StoreLemmas Proofs.SetLemmas.

Definition plain (s : store) : Prop := s_limit s = None.

Lemma plain_no_pressure s : plain s -> no_pressure s.
Proof. unfold plain, no_pressure. now intros ->. Qed.

Lemma plain_decr s n : plain s -> decr_usage s n = s.
Proof. unfold plain, decr_usage. now intros ->. Qed.

Lemma plain_set k r s : plain s -> set k r s = inner_set k r s.
Proof. unfold plain, set. now intros ->. Qed.

Lemma plain_get_miss k s :
  plain s -> view s k = None -> get k s = (with_mem s (remove k (s_mem s)), RErr NotFound).
Proof.
  intros P. unfold get, view. destruct (lookup k (s_mem s)) as [r|] eqn:L.
  - destruct (expired (s_now s) r); [|discriminate]. intros _.
    rewrite plain_decr; [reflexivity|exact P].
  - intros _. rewrite remove_absent by assumption. destruct s; reflexivity.
Qed.

Lemma plain_with_mem s m : plain s -> plain (with_mem s m).
Proof. exact (fun H => H). Qed.

(* the store after an expired/absent key has been collected *)
Definition collected (s : store) (k : bytes) : store := with_mem s (remove k (s_mem s)).

Lemma collected_lookup_same s k : lookup k (s_mem (collected s k)) = None.
Proof. apply lookup_remove_eq. Qed.
Lemma collected_lookup_other s k k' : k' <> k -> lookup k' (s_mem (collected s k)) = lookup k' (s_mem s).
Proof. apply lookup_remove_ne. Qed.

Lemma collected_view s k k' : view s k = None -> view (collected s k) k' = view s k'.
Proof.
  intros V. unfold view at 1. cbn.
  destruct (bytes_eqb k' k) eqn:E.
  - apply bytes_eqb_eq in E. subst. rewrite lookup_remove_eq. now rewrite V.
  - apply bytes_eqb_neq in E. rewrite lookup_remove_ne by assumption. reflexivity.
Qed.

(* ---- results of a successful store on a plain store ---- *)
Lemma plain_set_ok k r s s' c :
  plain s -> set k r s = (s', ROk c) ->
  s_mem s' = insert k (stored s c r) (s_mem s) /\ s_now s' = s_now s /\ plain s'.
Proof.
  intros P H. destruct (set_ok k r s s' c (plain_no_pressure s P) H) as (A & B & C).
  repeat split; try assumption. unfold plain in *. congruence.
Qed.

Lemma set_ok_view k r s s' c :
  plain s -> set k r s = (s', ROk c) ->
  lookup k (s_mem s') = Some (stored s c r) /\
  (forall k', k' <> k -> lookup k' (s_mem s') = lookup k' (s_mem s)).
Proof.
  intros P H. destruct (plain_set_ok k r s s' c P H) as (A & _ & _). rewrite A.
  split; [apply lookup_insert_eq|]. intros k' N. now apply lookup_insert_ne.
Qed.

(* ---- add ---- *)
Lemma add_present k r s old : view s k = Some old -> memc_add k r s = (s, RErr KeyExists).
Proof. intros V. unfold memc_add. now rewrite (get_hit k s old V). Qed.

Lemma add_absent k r s :
  plain s -> view s k = None ->
  exists s' c, memc_add k r s = (s', ROk c) /\ set k r (collected s k) = (s', ROk c).
Proof.
  intros P V. unfold memc_add. rewrite (plain_get_miss k s P V). fold (collected s k).
  destruct (set_accepts k r (collected s k)) as (s' & c & E).
  - apply plain_no_pressure. exact P.
  - right. left. apply collected_lookup_same.
  - exists s', c. now rewrite E.
Qed.

(* ---- replace ---- *)
Lemma replace_absent k r s :
  plain s -> view s k = None -> memc_replace k r s = (collected s k, RErr NotFound).
Proof. intros P V. unfold memc_replace. now rewrite (plain_get_miss k s P V). Qed.

Lemma replace_present k r s old :
  view s k = Some old -> memc_replace k r s = set k r s.
Proof. intros V. unfold memc_replace. now rewrite (get_hit k s old V). Qed.

(* ---- append / prepend ---- *)
Lemma append_absent k c v s :
  plain s -> view s k = None -> memc_append k c v s = (collected s k, RErr NotFound).
Proof. intros P V. unfold memc_append. now rewrite (plain_get_miss k s P V). Qed.

Lemma prepend_absent k c v s :
  plain s -> view s k = None -> memc_prepend k c v s = (collected s k, RErr NotFound).
Proof. intros P V. unfold memc_prepend. now rewrite (plain_get_miss k s P V). Qed.

Lemma append_present k c v s old :
  view s k = Some old ->
  memc_append k c v s = set k (mkRec (r_ts old) c (r_flags old) (r_ttl old) (r_val old ++ v)) s.
Proof. intros V. unfold memc_append. now rewrite (get_hit k s old V). Qed.

Lemma prepend_present k c v s old :
  view s k = Some old ->
  memc_prepend k c v s = set k (mkRec (r_ts old) c (r_flags old) (r_ttl old) (v ++ r_val old)) s.
Proof. intros V. unfold memc_prepend. now rewrite (get_hit k s old V). Qed.

Lemma view_lookup s k r : view s k = Some r -> lookup k (s_mem s) = Some r.
Proof.
  unfold view. destruct (lookup k (s_mem s)) as [r'|]; [|discriminate].
  destruct (expired (s_now s) r'); [discriminate|]. congruence.
Qed.

Lemma view_live s k r : view s k = Some r -> expired (s_now s) r = false.
Proof.
  unfold view. destruct (lookup k (s_mem s)) as [r'|]; [|discriminate].
  destruct (expired (s_now s) r') eqn:E; [discriminate|]. now intros [= <-].
Qed.

(* a conditional store against a visible item: accepted iff cas is 0 or matches *)
Lemma set_on_live k r s old :
  plain s -> view s k = Some old ->
  (r_cas r = 0 \/ r_cas r = r_cas old ->
     exists s' c, set k r s = (s', ROk c) /\
       s_mem s' = insert k (stored s c r) (s_mem s) /\ s_now s' = s_now s /\ plain s') /\
  (r_cas r <> 0 -> r_cas r <> r_cas old -> set k r s = (s, RErr KeyExists)).
Proof.
  intros P V. pose proof (view_lookup s k old V) as L. split.
  - intros HC. destruct (set_accepts k r s (plain_no_pressure s P)) as (s' & c & E).
    { destruct HC as [H|H]; [now left|]. right. right. exists old. split; [assumption|congruence]. }
    exists s', c. split; [assumption|]. now apply plain_set_ok.
  - intros H0 Hne. apply (set_rejects k r s old (plain_no_pressure s P)); [lia|assumption|congruence].
Qed.

Lemma get_own_cases k s : plain s ->
  (fst (get k s) = s) \/ (view s k = None /\ fst (get k s) = collected s k).
Proof.
  intros P. destruct (view s k) as [r|] eqn:V.
  - left. now rewrite (get_hit k s r V).
  - right. split; [reflexivity|]. now rewrite (plain_get_miss k s P V).
Qed.
