(* Chunking.v — the connection machine does not depend on how its input is cut
   into reads: feed (a ++ b) = feed a ; feed b, hence any two segmentations of
   the same stream agree (C09), a cut stream executes a prefix (C18). *)
From MC Require Import Model.Base Model.Generated Model.Store Model.Codec Model.Handler Model.Conn
  Spec.Quiet Proofs.CodecLemmas Proofs.Framing.
From Coq Require Import ZifyN ZifyNat.

Definition mkc (c : codec) (b : bytes) : conn := mkConn c b 0 None COpen.

(* pump with the fuel feed gives it *)
Definition pumpF (c : codec) (b : bytes) (s : store) (out : list bytes) : conn * store * list bytes :=
  pump (length b + 2) (mkc c b) s out.

Definition credit (c : codec) : nat :=
  match c_state c with PHeaderParsed => 24%nat | PNone => 0%nat end.

Definition enough (f : nat) (c : codec) (b : bytes) : Prop := (length b + credit c < 24 * f)%nat.

(* ---- drop ---- *)
Lemma drop_length n : forall l, length (drop n l) = (length l - n)%nat.
Proof. induction n as [|n IH]; intros [|x l]; cbn; auto. Qed.

Lemma drop_app_le n : forall a y, (n <= length a)%nat -> drop n (a ++ y) = drop n a ++ y.
Proof.
  induction n as [|n IH]; intros a y H; [reflexivity|].
  destruct a as [|x a]; [cbn in H; lia|]. cbn in *. apply IH. lia.
Qed.

Lemma drop_app_ge n : forall a y, (length a <= n)%nat -> drop n (a ++ y) = drop (n - length a) y.
Proof.
  induction n as [|n IH]; intros a y H.
  - destruct a; [reflexivity|cbn in H; lia].
  - destruct a as [|x a]; [reflexivity|]. cbn in *. apply IH. lia.
Qed.

Lemma drop_all n : forall a, (length a <= n)%nat -> drop n a = [].
Proof.
  induction n as [|n IH]; intros [|x a] H; cbn in *; auto; try lia. apply IH. lia.
Qed.

(* ---- serve ---- *)
Lemma serve_conn req c b s out :
  let '(cn', s', out') := serve req (mkc c b) s out in
  (cn' = mkc c b \/ exists w, cn' = close (mkc c b) w).
Proof.
  unfold serve. destruct req; try (right; eexists; reflexivity);
  match goal with |- context[handle_request ?q s] => destruct (handle_request q s) as [s1 [r|]] end;
  try (now left); destruct r; try (now left); right; eexists; reflexivity.
Qed.

(* serve does not look at the buffer *)
Lemma serve_buf req c b b' s out :
  let '(cn1, s1, out1) := serve req (mkc c b) s out in
  let '(cn2, s2, out2) := serve req (mkc c b') s out in
  s1 = s2 /\ out1 = out2 /\ cn_status cn1 = cn_status cn2 /\
  (is_open cn1 = true -> cn1 = mkc c b /\ cn2 = mkc c b').
Proof.
  unfold serve.
  destruct req;
  try (match goal with |- context[handle_request ?q s] => destruct (handle_request q s) as [s1 [r|]] end;
       [destruct r|]; cbn; repeat split; auto; discriminate).
  cbn. repeat split; auto; discriminate.
Qed.

Lemma serve_out req cn s o1 o2 :
  serve req cn s (o1 ++ o2) =
  let '(cn', s', o) := serve req cn s o2 in (cn', s', o1 ++ o).
Proof.
  unfold serve. destruct req; try reflexivity;
  match goal with |- context[handle_request ?q s] => destruct (handle_request q s) as [s1 [r|]] end;
  try reflexivity; rewrite <- app_assoc; destruct r; reflexivity.
Qed.

(* ---- decode consumes a header per frame ---- *)
Lemma decode_body_frame_measure c b c1 b1 r :
  decode_body c b = (c1, b1, DFrame r) -> c_state c1 = PNone /\ (length b1 <= length b)%nat.
Proof.
  unfold decode_body. destruct (c_limit c <? h_bodylen (c_hdr c)).
  - intros H; inversion H; subst. split; [reflexivity|lia].
  - destruct (blen b <? h_bodylen (c_hdr c)) eqn:L; [discriminate|].
    unfold parse_request. destruct (c_state c); [discriminate|].
    destruct (c_limit c <? h_bodylen (c_hdr c)); [intros H; inversion H; subst; split; [reflexivity|lia]|].
    rewrite L. apply N.ltb_ge in L. destruct (split_to_ok _ _ L) as (x & r' & E & _ & A). rewrite E.
    intros H; inversion H; subst. split; [reflexivity|]. rewrite app_length. lia.
Qed.

Lemma decode_frame_measure c b c1 b1 r :
  decode c b = (c1, b1, DFrame r) ->
  c_state c1 = PNone /\ (length b1 + 24 <= length b + credit c)%nat.
Proof.
  unfold decode, credit. destruct (c_state c).
  - destruct (blen b <? HEADER_LEN) eqn:L; [discriminate|]. apply N.ltb_ge in L.
    destruct (header_of_bytes_ok b L) as (h & rest & hb & E & A & Lh). rewrite E.
    destruct (negb (header_valid h)); [discriminate|].
    intros D. apply decode_body_frame_measure in D as [S Le]. split; [exact S|].
    subst b. rewrite app_length. lia.
  - intros D. apply decode_body_frame_measure in D as [S Le]. split; [exact S|lia].
Qed.

(* ---- one step of pump, as an equation ---- *)
Definition pump_step (rec : codec -> bytes -> store -> list bytes -> conn * store * list bytes)
           (c : codec) (b : bytes) (s : store) (out : list bytes) : conn * store * list bytes :=
  match decode c b with
  | (c1, buf1, DNeedMore) => (mkConn c1 buf1 0 None COpen, s, out)
  | (c1, buf1, DError e) => (mkConn c1 buf1 0 None (CClosed (WError e)), s, out)
  | (c1, buf1, DPanic) => (mkConn c1 buf1 0 None (CClosed WPanic), s, out)
  | (c1, buf1, DFrame (ReqTooLarge h)) =>
      let buffered := N.min (h_bodylen h) (blen buf1) in
      let buf2 := drop (N.to_nat buffered) buf1 in
      let skip := h_bodylen h - buffered in
      if skip =? 0 then
        match serve (ReqTooLarge h) (mkc c1 buf2) s out with
        | (cn2, s2, out2) => if is_open cn2 then rec c1 buf2 s2 out2 else (cn2, s2, out2)
        end
      else (mkConn c1 buf2 skip (Some (ReqTooLarge h)) COpen, s, out)
  | (c1, buf1, DFrame req) =>
      match serve req (mkc c1 buf1) s out with
      | (cn2, s2, out2) => if is_open cn2 then rec c1 buf1 s2 out2 else (cn2, s2, out2)
      end
  end.

Lemma pump_S f c b s out :
  pump (S f) (mkc c b) s out = pump_step (fun c' b' => pump f (mkc c' b')) c b s out.
Proof.
  cbn [pump mkc cn_codec cn_buf]. unfold pump_step.
  destruct (decode c b) as [[c1 buf1] d]. destruct d as [r| |e|]; try reflexivity.
  destruct r; try reflexivity;
  match goal with
  | |- context[serve ?rq (mkConn ?cc ?bb 0 None COpen) s out] =>
      pose proof (serve_conn rq cc bb s out) as SC;
      fold (mkc cc bb) in *; destruct (serve rq (mkc cc bb) s out) as [[cn2 s2] out2];
      destruct SC as [->|[w ->]]; reflexivity
  | _ => idtac
  end.
Qed.

(* ---- fuel is irrelevant once there is enough of it ---- *)
Lemma pump_fuel_irrel f1 : forall f2 c b s out,
  enough f1 c b -> enough f2 c b -> pump f1 (mkc c b) s out = pump f2 (mkc c b) s out.
Proof.
  induction f1 as [|f1 IH]; intros f2 c b s out E1 E2; [unfold enough in E1; lia|].
  destruct f2 as [|f2]; [unfold enough in E2; lia|].
  rewrite !pump_S. unfold pump_step.
  destruct (decode c b) as [[c1 buf1] d] eqn:D. destruct d as [r| |e|]; try reflexivity.
  pose proof (decode_frame_measure _ _ _ _ _ D) as [S1 M].
  assert (EN : forall f b', (length b' <= length buf1)%nat -> enough (S f) c b -> enough f c1 b').
  { intros f b' Lb. unfold enough, credit in *. rewrite S1. destruct (c_state c); lia. }
  destruct r;
  try (destruct (serve _ (mkc c1 buf1) s out) as [[cn2 s2] out2]; destruct (is_open cn2); [|reflexivity];
       apply IH; apply EN; auto).
  (* oversized *)
  destruct (h_bodylen h - N.min (h_bodylen h) (blen buf1) =? 0); [|reflexivity].
  destruct (serve _ _ s out) as [[cn2 s2] out2]. destruct (is_open cn2); [|reflexivity].
  apply IH; apply EN; auto; rewrite drop_length; lia.
Qed.

Lemma enough_pumpF c b : enough (length b + 2) c b.
Proof. unfold enough, credit. destruct (c_state c); lia. Qed.

Lemma pump_canon f c b s out : enough f c b -> pump f (mkc c b) s out = pumpF c b s out.
Proof. intros E. unfold pumpF. apply pump_fuel_irrel; [exact E|apply enough_pumpF]. Qed.

Lemma pumpF_unfold c b s out : pumpF c b s out = pump_step pumpF c b s out.
Proof.
  unfold pumpF at 1. replace (length b + 2)%nat with (S (length b + 1)) by lia. rewrite pump_S.
  unfold pump_step.
  destruct (decode c b) as [[c1 buf1] d] eqn:D. destruct d as [r| |e|]; try reflexivity.
  pose proof (decode_frame_measure _ _ _ _ _ D) as [S1 M].
  assert (EN : forall b', (length b' <= length buf1)%nat -> enough (length b + 1) c1 b').
  { intros b' Lb. unfold enough, credit in *. rewrite S1. destruct (c_state c); lia. }
  destruct r;
  try (destruct (serve _ (mkc c1 buf1) s out) as [[cn2 s2] out2]; destruct (is_open cn2); [|reflexivity];
       apply pump_canon; apply EN; auto).
  destruct (h_bodylen h - N.min (h_bodylen h) (blen buf1) =? 0); [|reflexivity].
  destruct (serve _ _ s out) as [[cn2 s2] out2]. destruct (is_open cn2); [|reflexivity].
  apply pump_canon; apply EN; rewrite drop_length; lia.
Qed.

(* ---- what an observer can tell about a connection ---- *)
Definition norm (r : conn * store * list bytes) :=
  let '(cn, s, out) := r in
  (if is_open cn then Some (cn_codec cn, cn_buf cn, cn_skip cn, cn_pending cn) else None,
   cn_status cn, s, out).

(* feed, accumulating onto [out] *)
Definition feedF (chunk : bytes) (cn : conn) (s : store) (out : list bytes) : conn * store * list bytes :=
  if negb (is_open cn) then (cn, s, out) else
  if 0 <? cn_skip cn then
    let d := N.min (cn_skip cn) (blen chunk) in
    let rest := drop (N.to_nat d) chunk in
    let skip' := cn_skip cn - d in
    if skip' =? 0 then
      match cn_pending cn with
      | Some req =>
          match serve req (mkc (cn_codec cn) (cn_buf cn ++ rest)) s out with
          | (cn2, s2, out2) =>
              if is_open cn2 then pumpF (cn_codec cn) (cn_buf cn ++ rest) s2 out2 else (cn2, s2, out2)
          end
      | None => (close cn WPanic, s, out)
      end
    else (mkConn (cn_codec cn) (cn_buf cn) skip' (cn_pending cn) COpen, s, out)
  else pumpF (cn_codec cn) (cn_buf cn ++ chunk) s out.

(* ---- outputs only ever grow at the end ---- *)
Lemma pump_out f : forall cn s o1 o2,
  pump f cn s (o1 ++ o2) = let '(cn', s', o) := pump f cn s o2 in (cn', s', o1 ++ o).
Proof.
  induction f as [|f IH]; intros cn s o1 o2; [reflexivity|].
  cbn [pump]. destruct (decode (cn_codec cn) (cn_buf cn)) as [[c1 buf1] d].
  destruct d as [r| |e|]; try reflexivity.
  destruct r;
  try (rewrite serve_out;
       match goal with |- context[serve ?q ?cc s o2] => destruct (serve q cc s o2) as [[cn2 s2] out2] end;
       destruct (is_open cn2); [apply IH|reflexivity]).
  destruct (h_bodylen h - N.min (h_bodylen h) (blen buf1) =? 0); [|reflexivity].
  rewrite serve_out.
  match goal with |- context[serve ?q ?cc s o2] => destruct (serve q cc s o2) as [[cn2 s2] out2] end.
  destruct (is_open cn2); [apply IH|reflexivity].
Qed.

Lemma pumpF_out c b s o1 o2 :
  pumpF c b s (o1 ++ o2) = let '(cn', s', o) := pumpF c b s o2 in (cn', s', o1 ++ o).
Proof. apply pump_out. Qed.

(* ---- the main lemma: pumping a buffer with more bytes behind it ---- *)
Lemma norm_closed cn1 cn2 s out :
  is_open cn1 = false -> is_open cn2 = false -> cn_status cn1 = cn_status cn2 ->
  norm (cn1, s, out) = norm (cn2, s, out).
Proof. intros O1 O2 E. unfold norm. now rewrite O1, O2, E. Qed.

Lemma feedF_closed y cn s out : is_open cn = false -> feedF y cn s out = (cn, s, out).
Proof. intros O. unfold feedF. now rewrite O. Qed.

Lemma feedF_plain y c b s out : feedF y (mkc c b) s out = pumpF c (b ++ y) s out.
Proof. reflexivity. Qed.

Lemma pumpF_append n : forall c b y s out,
  (length b + length y + credit c <= n)%nat ->
  norm (pumpF c (b ++ y) s out) =
  norm (let '(cn1, s1, out1) := pumpF c b s out in feedF y cn1 s1 out1).
Proof.
  induction n as [|n IH]; intros c b y s out Hn.
  - (* nothing buffered, nothing added, parser idle: both sides are the same computation *)
    assert (b = []) by (destruct b; [reflexivity|cbn in Hn; lia]).
    assert (y = []) by (destruct y; [reflexivity|cbn in Hn; lia]). subst. cbn [app].
    assert (C : c_state c = PNone) by (unfold credit in Hn; destruct (c_state c); [reflexivity|lia]).
    assert (E : pumpF c [] s out = (mkc c [], s, out)).
    { rewrite pumpF_unfold. unfold pump_step, decode. rewrite C. reflexivity. }
    rewrite E. rewrite feedF_plain. cbn [app]. now rewrite E.
  - rewrite (pumpF_unfold c (b ++ y)), (pumpF_unfold c b). unfold pump_step.
    destruct (decode c b) as [[c1 b1] d] eqn:D. destruct d as [r| |e|].
    + (* a frame *)
      assert (DN : DFrame r <> DNeedMore) by discriminate.
      rewrite (decode_final _ _ _ _ _ y D DN).
      pose proof (decode_frame_measure _ _ _ _ _ D) as [S1 M].
      assert (C1 : credit c1 = 0%nat) by (unfold credit; now rewrite S1).
      assert (GEN : forall req,
        norm (let '(cn2, s2, out2) := serve req (mkc c1 (b1 ++ y)) s out in
              if is_open cn2 then pumpF c1 (b1 ++ y) s2 out2 else (cn2, s2, out2)) =
        norm (let '(cn1, s1, out1) :=
                (let '(cn2, s2, out2) := serve req (mkc c1 b1) s out in
                 if is_open cn2 then pumpF c1 b1 s2 out2 else (cn2, s2, out2)) in
              feedF y cn1 s1 out1)).
      { intros req. pose proof (serve_buf req c1 (b1 ++ y) b1 s out) as SB.
        destruct (serve req (mkc c1 (b1 ++ y)) s out) as [[cnA sA] oA].
        destruct (serve req (mkc c1 b1) s out) as [[cnB sB] oB].
        destruct SB as (-> & -> & ST & OP).
        destruct (is_open cnA) eqn:OA.
        - destruct (OP eq_refl) as [-> ->]. cbn [is_open mkc cn_status].
          apply IH. rewrite C1. lia.
        - assert (OB : is_open cnB = false).
          { unfold is_open in *. rewrite <- ST. exact OA. }
          rewrite OB, (feedF_closed y cnB _ _ OB). now apply norm_closed. }
      destruct r; try apply GEN.
      (* the oversized marker *)
      set (L := h_bodylen h). clearbody L.
      destruct (N.le_gt_cases L (blen b1)) as [LE|GT].
      * (* the whole body is already buffered *)
        assert (E1 : L - N.min L (blen b1) = 0) by lia.
        assert (E2 : L - N.min L (blen (b1 ++ y)) = 0) by (rewrite blen_app; lia).
        rewrite E1, E2. rewrite !N.eqb_refl.
        assert (M1 : N.min L (blen b1) = L) by lia.
        assert (M2 : N.min L (blen (b1 ++ y)) = L) by (rewrite blen_app; lia).
        rewrite M1, M2. rewrite (drop_app_le (N.to_nat L) b1 y) by (unfold blen in LE; lia).
        set (b2 := drop (N.to_nat L) b1).
        pose proof (serve_buf (ReqTooLarge h) c1 (b2 ++ y) b2 s out) as SB.
        destruct (serve (ReqTooLarge h) (mkc c1 (b2 ++ y)) s out) as [[cnA sA] oA].
        destruct (serve (ReqTooLarge h) (mkc c1 b2) s out) as [[cnB sB] oB].
        destruct SB as (-> & -> & ST & OP).
        destruct (is_open cnA) eqn:OA.
        -- destruct (OP eq_refl) as [-> ->]. cbn [is_open mkc cn_status].
           apply IH. rewrite C1. subst b2. rewrite drop_length. lia.
        -- assert (OB : is_open cnB = false) by (unfold is_open in *; rewrite <- ST; exact OA).
           rewrite OB. cbv beta iota zeta. rewrite (feedF_closed y cnB _ _ OB). now apply norm_closed.
      * (* part of the body is still to come *)
        assert (M1 : N.min L (blen b1) = blen b1) by lia. rewrite M1.
        assert (E1 : L - blen b1 =? 0 = false) by (apply N.eqb_neq; lia). rewrite E1.
        rewrite (drop_all (N.to_nat (blen b1)) b1) by (unfold blen; lia).
        unfold feedF. cbn [is_open cn_status negb cn_skip cn_buf cn_pending cn_codec app].
        assert (SK : 0 <? L - blen b1 = true) by (apply N.ltb_lt; lia). rewrite SK.
        rewrite blen_app.
        assert (DR : drop (N.to_nat (N.min L (blen b1 + blen y))) (b1 ++ y) =
                     drop (N.to_nat (N.min (L - blen b1) (blen y))) y).
        { rewrite drop_app_ge by (unfold blen in *; lia). f_equal. unfold blen in *. lia. }
        rewrite DR.
        assert (SKe : L - N.min L (blen b1 + blen y) = L - blen b1 - N.min (L - blen b1) (blen y)) by lia.
        rewrite SKe.
        destruct (L - blen b1 - N.min (L - blen b1) (blen y) =? 0) eqn:Z.
        2:{ apply N.eqb_neq in Z. rewrite (drop_all _ y) by (unfold blen in *; lia). reflexivity. }
        set (rest := drop (N.to_nat (N.min (L - blen b1) (blen y))) y).
        destruct (serve (ReqTooLarge h) (mkc c1 rest) s out) as [[cnA sA] oA]. reflexivity.
    + (* need more: both sides continue with the same decode *)
      rewrite (decode_need _ _ _ _ y D).
      change (feedF y (mkConn c1 b1 0 None COpen) s out) with (pumpF c1 (b1 ++ y) s out).
      rewrite (pumpF_unfold c1 (b1 ++ y)). reflexivity.
    + assert (DN : DError e <> DNeedMore) by discriminate.
      rewrite (decode_final _ _ _ _ _ y D DN). rewrite feedF_closed by reflexivity. now apply norm_closed.
    + assert (DN : DPanic <> DNeedMore) by discriminate.
      rewrite (decode_final _ _ _ _ _ y D DN). rewrite feedF_closed by reflexivity. now apply norm_closed.
Qed.

(* ---- feed is feedF ---- *)
Lemma feed_feedF y cn s : feed y cn s = feedF y cn s [].
Proof.
  unfold feed, feedF. destruct (negb (is_open cn)); [reflexivity|].
  destruct (0 <? cn_skip cn).
  - destruct (cn_skip cn - N.min (cn_skip cn) (blen y) =? 0); [|reflexivity].
    destruct (cn_pending cn) as [req|]; [|reflexivity].
    fold (mkc (cn_codec cn) (cn_buf cn ++ drop (N.to_nat (N.min (cn_skip cn) (blen y))) y)).
    pose proof (serve_conn req (cn_codec cn) (cn_buf cn ++ drop (N.to_nat (N.min (cn_skip cn) (blen y))) y) s []) as SC.
    destruct (serve req _ s []) as [[cn2 s2] out2].
    destruct SC as [->|[w ->]]; reflexivity.
  - reflexivity.
Qed.

Lemma feedF_out y cn s o1 o2 :
  feedF y cn s (o1 ++ o2) = let '(cn', s', o) := feedF y cn s o2 in (cn', s', o1 ++ o).
Proof.
  unfold feedF. destruct (negb (is_open cn)); [reflexivity|].
  destruct (0 <? cn_skip cn); [|apply pumpF_out].
  destruct (cn_skip cn - N.min (cn_skip cn) (blen y) =? 0); [|reflexivity].
  destruct (cn_pending cn) as [req|]; [|reflexivity].
  rewrite serve_out.
  match goal with |- context[serve req ?cc s o2] => destruct (serve req cc s o2) as [[cn2 s2] out2] end.
  destruct (is_open cn2); [apply pumpF_out|reflexivity].
Qed.

(* feedF only looks at what norm shows *)
Lemma feedF_congr y cn1 cn2 s out :
  norm (cn1, s, out) = norm (cn2, s, out) -> norm (feedF y cn1 s out) = norm (feedF y cn2 s out).
Proof.
  unfold norm at 1 2. intros H.
  destruct (is_open cn1) eqn:O1, (is_open cn2) eqn:O2.
  - assert (cn1 = cn2).
    { destruct cn1, cn2. cbn in *. inversion H; subst. reflexivity. }
    subst. reflexivity.
  - inversion H.
  - inversion H.
  - rewrite !feedF_closed by assumption. unfold norm. rewrite O1, O2. exact H.
Qed.

(* ---- cutting a chunk in two ---- *)
Lemma feedF_append a b cn s out :
  norm (feedF (a ++ b) cn s out) =
  norm (let '(cn1, s1, out1) := feedF a cn s out in feedF b cn1 s1 out1).
Proof.
  destruct (is_open cn) eqn:O.
  2:{ rewrite (feedF_closed (a ++ b)), (feedF_closed a) by assumption.
      rewrite (feedF_closed b) by assumption. reflexivity. }
  assert (UF : forall y, feedF y cn s out =
    if 0 <? cn_skip cn then
      let d := N.min (cn_skip cn) (blen y) in
      let rest := drop (N.to_nat d) y in
      let skip' := cn_skip cn - d in
      if skip' =? 0 then
        match cn_pending cn with
        | Some req =>
            match serve req (mkc (cn_codec cn) (cn_buf cn ++ rest)) s out with
            | (cn2, s2, out2) =>
                if is_open cn2 then pumpF (cn_codec cn) (cn_buf cn ++ rest) s2 out2 else (cn2, s2, out2)
            end
        | None => (close cn WPanic, s, out)
        end
      else (mkConn (cn_codec cn) (cn_buf cn) skip' (cn_pending cn) COpen, s, out)
    else pumpF (cn_codec cn) (cn_buf cn ++ y) s out).
  { intros y. unfold feedF. rewrite O. reflexivity. }
  rewrite (UF (a ++ b)), (UF a). cbv zeta.
  destruct (0 <? cn_skip cn) eqn:SK.
  - apply N.ltb_lt in SK. set (k := cn_skip cn) in *. rewrite blen_app.
    destruct (N.le_gt_cases k (blen a)) as [LE|GT].
    + (* the skip completes inside a *)
      assert (M1 : N.min k (blen a + blen b) = k) by lia.
      assert (M2 : N.min k (blen a) = k) by lia. rewrite M1, M2, N.sub_diag, N.eqb_refl.
      rewrite (drop_app_le (N.to_nat k) a b) by (unfold blen in LE; lia).
      destruct (cn_pending cn) as [req|].
      2:{ rewrite feedF_closed by reflexivity. reflexivity. }
      rewrite app_assoc. set (buf := cn_buf cn ++ drop (N.to_nat k) a).
      pose proof (serve_buf req (cn_codec cn) (buf ++ b) buf s out) as SB.
      destruct (serve req (mkc (cn_codec cn) (buf ++ b)) s out) as [[cnA sA] oA].
      destruct (serve req (mkc (cn_codec cn) buf) s out) as [[cnB sB] oB].
      destruct SB as (-> & -> & ST & OP).
      destruct (is_open cnA) eqn:OA.
      * destruct (OP eq_refl) as [-> ->]. cbn [is_open mkc cn_status].
        apply (pumpF_append _ _ _ _ _ _ (le_n _)).
      * assert (OB : is_open cnB = false) by (unfold is_open in *; rewrite <- ST; exact OA).
        rewrite OB. cbv beta iota zeta. rewrite (feedF_closed b cnB _ _ OB). now apply norm_closed.
    + (* a is swallowed entirely *)
      assert (M2 : N.min k (blen a) = blen a) by lia. rewrite M2.
      assert (E2 : k - blen a =? 0 = false) by (apply N.eqb_neq; lia). rewrite E2.
      unfold feedF. cbn [is_open cn_status negb cn_skip cn_buf cn_pending cn_codec].
      assert (SK2 : 0 <? k - blen a = true) by (apply N.ltb_lt; lia). rewrite SK2.
      assert (DR : drop (N.to_nat (N.min k (blen a + blen b))) (a ++ b) =
                   drop (N.to_nat (N.min (k - blen a) (blen b))) b).
      { rewrite drop_app_ge by (unfold blen in *; lia). f_equal. unfold blen in *. lia. }
      rewrite DR.
      assert (SKe : k - N.min k (blen a + blen b) = k - blen a - N.min (k - blen a) (blen b)) by lia.
      rewrite SKe.
      destruct (k - blen a - N.min (k - blen a) (blen b) =? 0); [|reflexivity].
      destruct (cn_pending cn); [reflexivity|]. now apply norm_closed.
  - rewrite app_assoc. apply (pumpF_append _ _ _ _ _ _ (le_n _)).
Qed.

(* ---- any segmentation ---- *)
Fixpoint feed_all (cs : list bytes) (cn : conn) (s : store) (out : list bytes) : conn * store * list bytes :=
  match cs with
  | [] => (cn, s, out)
  | c :: t => let '(cn1, s1, out1) := feedF c cn s out in feed_all t cn1 s1 out1
  end.

Lemma norm_inv cn1 s1 o1 cn2 s2 o2 :
  norm (cn1, s1, o1) = norm (cn2, s2, o2) -> s1 = s2 /\ o1 = o2.
Proof. unfold norm. intros H. injection H; auto. Qed.

Lemma feed_all_congr cs : forall cn1 cn2 s out,
  norm (cn1, s, out) = norm (cn2, s, out) ->
  norm (feed_all cs cn1 s out) = norm (feed_all cs cn2 s out).
Proof.
  induction cs as [|c t IH]; intros cn1 cn2 s out H; [exact H|].
  cbn [feed_all]. pose proof (feedF_congr c cn1 cn2 s out H) as F.
  destruct (feedF c cn1 s out) as [[cnA sA] oA], (feedF c cn2 s out) as [[cnB sB] oB].
  destruct (norm_inv _ _ _ _ _ _ F) as [-> ->]. now apply IH.
Qed.

Lemma chunking_irrelevant (c : bytes) (cs : list bytes) : forall cn s out,
  norm (feed_all (c :: cs) cn s out) = norm (feedF (concat (c :: cs)) cn s out).
Proof.
  revert c. induction cs as [|c2 cs IH]; intros c cn s out.
  - cbn [feed_all concat]. rewrite app_nil_r. destruct (feedF c cn s out) as [[cn1 s1] o1]. reflexivity.
  - change (concat (c :: c2 :: cs)) with (c ++ concat (c2 :: cs)).
    rewrite feedF_append. cbn [feed_all].
    destruct (feedF c cn s out) as [[cn1 s1] o1]. apply IH.
Qed.

(* two segmentations of the same bytes cannot be told apart *)
Lemma any_two_segmentations (c1 : bytes) (cs1 : list bytes) (c2 : bytes) (cs2 : list bytes) cn s out :
  concat (c1 :: cs1) = concat (c2 :: cs2) ->
  norm (feed_all (c1 :: cs1) cn s out) = norm (feed_all (c2 :: cs2) cn s out).
Proof.
  intros E. rewrite (chunking_irrelevant c1 cs1), (chunking_irrelevant c2 cs2). now rewrite E.
Qed.

(* a cut stream: what has been executed after the first part is a prefix of what
   the whole stream executes; the rest of the stream continues from there *)
Lemma cut_is_prefix a b cn s :
  let '(cn1, s1, out1) := feedF a cn s [] in
  exists out2, snd (feedF (a ++ b) cn s []) = out1 ++ out2 /\
               norm (feedF (a ++ b) cn s []) = norm (let '(cn2, s2, o2) := feedF b cn1 s1 [] in (cn2, s2, out1 ++ o2)).
Proof.
  pose proof (feedF_append a b cn s []) as H.
  destruct (feedF a cn s []) as [[cn1 s1] out1].
  pose proof (feedF_out b cn1 s1 out1 []) as O. rewrite app_nil_r in O. rewrite O in H.
  destruct (feedF b cn1 s1 []) as [[cn2 s2] o2].
  exists o2. split; [|exact H].
  destruct (feedF (a ++ b) cn s []) as [[cnX sX] oX]. destruct (norm_inv _ _ _ _ _ _ H) as [_ ->]. reflexivity.
Qed.
