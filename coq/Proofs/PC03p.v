(* PC03p.v — C03 for the store behind the random eviction policy
   (Model/PolConc.v): concurrent get / set / CAS-set / delete / delayed flush
   through RandomPolicy are linearizable. The one-at-a-time specification is that
   of Spec/Atomic.v on the map and the CAS counter, with one more internal event:
   a record leaves the store because the eviction loop (or the record-by-record
   removal of an immediate flush) removed it. The usage counter and the scans of
   the map do not appear in the specification at all.
   Architecture: a judgment [linp t o p lr] on program remainders, defined by
   recursion on the program with the shared state universally quantified at each
   action (as [safe] in PPolConc.v), checked once per Cache operation; one
   induction over schedules. *)
From Coq Require Import ZArith Lia Arith.PeanoNat.
From MC Require Import Model.Base Model.Generated Model.Store Model.Memc Model.Conc Model.PolConc
  Spec.Atomic Proofs.StoreLemmas.

Section PC03p.
Variable now : N.
Variable limit : Z.

Notation pact := (pact now).
Notation prog := (gprog paction presult pores).
Notation pprog_of := (pprog_of now limit).
Notation pthread := (gthread paction presult pores pop).
Notation pstep := (gthread_step pact pprog_of).
Notation prun := (prun_sched now limit).

Definition proj (s : pshared) : shared := mkShared (p_mem s) (p_cas s).

(* ---- the specification ---------------------------------------------------- *)
Definition op_of (o : pop) : option op :=
  match o with
  | PoGet k => Some (OpGet k)
  | PoSet k r => Some (OpSet k r)
  | PoDel k c => Some (OpDel k c)
  | PoFlush _ => None
  end.

Definition pores_of (r : opres) : pores :=
  match r with OGetR x => PGetR x | OSetR x => PSetR x | ODelR x => PDelR x end.

Definition pspec_result (o : pop) (c : N) (s : shared) : pores :=
  match op_of o with
  | Some o' => pores_of (spec_result now o' c s)
  | None => PFlushR
  end.

(* a delayed flush re-dates every record in one map call; an immediate flush under
   the policy removes record by record: those removals are internal events like
   evictions, the flush itself changes nothing more *)
Definition pspec_effect (o : pop) (c : N) (s : shared) : shared :=
  match o with
  | PoFlush d =>
      if 0 <? d then mkShared (map (fun kr => (fst kr, flush_record now d (snd kr))) (sh_mem s)) (sh_cas s)
      else s
  | _ => match op_of o with Some o' => spec_effect now o' c s | None => s end
  end.

Inductive qevent :=
| QLin (t : nat) (o : pop) (res : pores) (c : N)
| QCollect (k : bytes)
| QReserve
| QEvict (k : bytes).

Definition apply_q (e : qevent) (s : shared) : shared :=
  match e with
  | QLin _ o _ c => pspec_effect o c s
  | QCollect k => fst (act now (ARemExp k) s)
  | QReserve => fst (act now AFetchCas s)
  | QEvict k => mkShared (remove k (sh_mem s)) (sh_cas s)
  end.

Fixpoint qvalid (evs : list qevent) (s : shared) : Prop :=
  match evs with
  | [] => True
  | e :: rest =>
      (match e with QLin _ o res c => res = pspec_result o c s | _ => True end) /\
      qvalid rest (apply_q e s)
  end.

Definition qreplay (evs : list qevent) (s : shared) : shared := fold_left (fun s e => apply_q e s) evs s.

Fixpoint qlins (t : nat) (evs : list qevent) : list pores :=
  match evs with
  | [] => []
  | QLin t' _ res _ :: rest => if Nat.eqb t t' then res :: qlins t rest else qlins t rest
  | _ :: rest => qlins t rest
  end.

(* ---- the judgment --------------------------------------------------------- *)
(* one action amounts to at most one event of the specification *)
Definition step_ok (t : nat) (o : pop) (a : paction) (s : pshared) (lr lr' : option pores) : Prop :=
  let s' := fst (pact a s) in
  (proj s' = proj s /\ lr' = lr) \/
  (exists e, apply_q e (proj s) = proj s' /\
     match e with
     | QLin t' o' res c => t' = t /\ o' = o /\ res = pspec_result o c (proj s) /\ lr = None /\ lr' = Some res
     | _ => lr' = lr
     end).

Fixpoint linp (t : nat) (o : pop) (p : prog) (lr : option pores) : Prop :=
  match p with
  | GRet v => lr = Some v \/ (lr = None /\ v = PFuel)   (* out of fuel: abandoned without any effect *)
  | GAct a k => forall s, exists lr', step_ok t o a s lr lr' /\ linp t o (k (snd (pact a s))) lr'
  end.

Ltac quiet_step := left; split; reflexivity.

(* normalise both sides of an obligation with what is known about the state *)
Ltac nrm :=
  repeat (unfold pspec_result, pspec_effect, spec_result, spec_effect;
          cbn [apply_q op_of act PolConc.pact proj fst snd
               sh_mem sh_cas p_mem p_cas p_usage p_oracle with_pmem with_pusage pores_of];
          repeat match goal with
                 | H : ?x = _ |- context[match ?x with _ => _ end] => rewrite H
                 end).

Lemma linp_subs t o ls : forall k lr, linp t o k lr -> linp t o (subs ls k) lr.
Proof.
  induction ls as [|n ls IH]; intros k lr H; cbn [subs]; [exact H|].
  cbn [linp]. intros s. exists lr. split; [quiet_step|]. now apply IH.
Qed.

Lemma linp_removes t o ks : forall acc k lr,
  (forall ls, linp t o (k ls) lr) -> linp t o (removes ks acc k) lr.
Proof.
  induction ks as [|x ks IH]; intros acc k lr H; cbn [removes]; [apply H|].
  cbn [linp]. intros s. exists lr. cbn [PolConc.pact fst snd].
  destruct (lookup x (p_mem s)) as [rc|] eqn:L.
  - split; [|now apply IH]. right. exists (QEvict x). split; reflexivity.
  - split; [|now apply IH]. left. split; [|reflexivity]. cbn [PolConc.pact fst]. unfold proj. cbn [p_mem p_cas with_pmem].
    now rewrite (remove_absent x (p_mem s) L).
Qed.

Lemma linp_remove_if t o k lr : linp t o k lr -> linp t o (remove_if_prog k) lr.
Proof.
  intros H. unfold remove_if_prog. cbn [linp]. intros s. exists lr.
  assert (Q : proj (fst (pact PScan s)) = proj s) by (cbn [PolConc.pact]; destruct (p_oracle s); reflexivity).
  split; [left; split; [exact Q|reflexivity]|].
  cbn [PolConc.pact]. destruct (p_oracle s) as [|ks rest]; cbn [fst snd].
  - cbn [removes subs]. exact H.
  - apply linp_removes. intros ls. now apply linp_subs.
Qed.

Lemma linp_evict t o fuel : forall k lr,
  linp t o (k false) lr -> linp t o (k true) lr -> linp t o (evict_prog limit fuel k) lr.
Proof.
  induction fuel as [|f IH]; intros k lr Hf Ht; cbn [evict_prog]; [exact Hf|].
  cbn [linp]. intros s. exists lr. split; [quiet_step|]. cbn [PolConc.pact snd].
  destruct (limit <? p_usage s)%Z; [|exact Ht].
  cbn [linp]. intros s2. exists lr. split; [quiet_step|]. cbn [PolConc.pact snd].
  destruct (N.of_nat (length (p_mem s2)) =? 0); [exact Ht|].
  apply linp_remove_if. now apply IH.
Qed.

Lemma linp_sub_ret t o n v : linp t o (GAct (PUsageSub n) (fun _ => GRet v)) (Some v).
Proof. cbn [linp]. intros s. exists (Some v). split; [quiet_step|now left]. Qed.

(* the four Cache operations *)
Lemma linp_get t k : linp t (PoGet k) (pget_prog now k) None.
Proof.
  unfold pget_prog. cbn [linp]. intros s. cbn [PolConc.pact fst snd].
  destruct (lookup k (p_mem s)) as [r|] eqn:L.
  - destruct (expired now r) eqn:E.
    + (* takes effect now (not found); the expired record is collected next *)
      exists (Some (PGetR (RErr NotFound))). split.
      * right. exists (QLin t (PoGet k) (PGetR (RErr NotFound)) 0). split; [reflexivity|].
        repeat split. nrm. reflexivity.
      * cbn [linp]. intros s2. exists (Some (PGetR (RErr NotFound))). split.
        -- right. exists (QCollect k). split; [|reflexivity].
           nrm. destruct (lookup k (p_mem s2)) as [r2|]; [destruct (expired now r2)|]; reflexivity.
        -- apply linp_sub_ret.
    + exists (Some (PGetR (ROk r))). split; [|now left].
      right. exists (QLin t (PoGet k) (PGetR (ROk r)) 0). split; [reflexivity|].
      repeat split. nrm. reflexivity.
  - exists (Some (PGetR (RErr NotFound))). split; [|now left].
    right. exists (QLin t (PoGet k) (PGetR (RErr NotFound)) 0). split; [reflexivity|].
    repeat split. nrm. reflexivity.
Qed.

Lemma linp_del t k c : linp t (PoDel k c) (pdel_prog k c) None.
Proof.
  unfold pdel_prog. cbn [linp]. intros s. cbn [PolConc.pact].
  destruct (lookup k (p_mem s)) as [r|] eqn:L.
  - destruct ((c =? 0) || (r_cas r =? c)) eqn:M; cbn [fst snd].
    + exists (Some (PDelR (ROk r))). split; [|apply linp_sub_ret].
      right. exists (QLin t (PoDel k c) (PDelR (ROk r)) 0). split.
      * nrm. reflexivity.
      * repeat split. nrm. reflexivity.
    + exists (Some (PDelR (RErr KeyExists))). split; [|now left].
      right. exists (QLin t (PoDel k c) (PDelR (RErr KeyExists)) 0). split.
      * nrm. reflexivity.
      * repeat split. nrm. reflexivity.
  - cbn [fst snd]. exists (Some (PDelR (RErr NotFound))). split; [|now left].
    right. exists (QLin t (PoDel k c) (PDelR (RErr NotFound)) 0). split.
    + nrm. reflexivity.
    + repeat split. nrm. reflexivity.
Qed.

Lemma linp_flush t d : linp t (PoFlush d) (pflush_prog d) None.
Proof.
  unfold pflush_prog. destruct (0 <? d) eqn:D.
  - cbn [linp]. intros s. exists (Some PFlushR). split; [|now left].
    right. exists (QLin t (PoFlush d) PFlushR 0). split.
    + nrm. reflexivity.
    + repeat split.
  - (* immediate: takes effect (as nothing) at its scan; the removals are internal events *)
    unfold remove_if_prog. cbn [linp]. intros s. exists (Some PFlushR). split.
    + right. exists (QLin t (PoFlush d) PFlushR 0). split.
      * nrm. destruct (p_oracle s); reflexivity.
      * repeat split.
    + cbn [PolConc.pact]. destruct (p_oracle s) as [|ks rest]; cbn [snd].
      * cbn [removes subs linp]. now left.
      * apply linp_removes. intros ls. apply linp_subs. cbn [linp]. now left.
Qed.

Lemma linp_set t k r : linp t (PoSet k r) (pset_prog now limit k r) None.
Proof.
  unfold pset_prog. apply linp_evict.
  - (* out of fuel: the store is abandoned; it answers PFuel having done nothing *)
    cbn [linp]. right. split; reflexivity.
  - cbn [linp]. intros s. exists None. split; [quiet_step|]. cbn [PolConc.pact snd].
    unfold inner_set_prog. destruct (0 <? r_cas r) eqn:C.
    + (* compare and store under the entry lock: takes effect here *)
      cbn [linp]. intros s2.
      destruct (pact (PEntry k r) s2) as [s3 x] eqn:A. cbn [fst snd].
      assert (exists res rep, x = QSet res rep) as (res & rep & ->).
      { cbn in A. destruct (lookup k (p_mem s2)) as [old|]; [destruct (r_cas old =? r_cas r)|];
          injection A as _ <-; eauto. }
      exists (Some (PSetR res)). split.
      * right. exists (QLin t (PoSet k r) (PSetR res) 0).
        assert (SE : spec_effect now (OpSet k r) 0 (proj s2) = proj s3 /\
                     spec_result now (OpSet k r) 0 (proj s2) = OSetR res).
        { unfold spec_effect, spec_result. rewrite C. cbn [act proj sh_mem sh_cas].
          cbn in A. destruct (lookup k (p_mem s2)) as [old|]; [destruct (r_cas old =? r_cas r)|];
            injection A as <- <- _; cbn [proj p_mem p_cas fst snd with_pmem]; split; reflexivity. }
        destruct SE as (SE & SR). split.
        -- cbn [apply_q pspec_effect op_of]. rewrite A. exact SE.
        -- repeat split. unfold pspec_result. cbn [op_of]. now rewrite SR.
      * destruct res as [c|e]; apply linp_sub_ret.
    + (* draw a CAS, then insert: takes effect at the insert *)
      cbn [linp]. intros s2. exists None. split.
      * right. exists QReserve. split; reflexivity.
      * cbn [PolConc.pact snd linp]. intros s3. cbn [PolConc.pact fst snd].
        exists (Some (PSetR (ROk (p_cas s2)))). split.
        -- right. exists (QLin t (PoSet k r) (PSetR (ROk (p_cas s2))) (p_cas s2)). split.
           ++ cbn [apply_q pspec_effect op_of]. unfold spec_effect. rewrite C. reflexivity.
           ++ repeat split. unfold pspec_result. cbn [op_of]. unfold spec_result. rewrite C. reflexivity.
        -- destruct (lookup k (p_mem s3)); apply linp_sub_ret.
Qed.

(* ---- the generic theorem -------------------------------------------------- *)
Definition not_fuel (v : pores) : bool := match v with PFuel => false | _ => true end.

Lemma pspec_result_not_fuel o c s : not_fuel (pspec_result o c s) = true.
Proof.
  unfold pspec_result. destruct (op_of o) as [o'|]; [|reflexivity].
  destruct (spec_result now o' c s); reflexivity.
Qed.

Lemma gnth_gset_same i (t : pthread) : forall ts t0, gnth i ts = Some t0 -> gnth i (gset i t ts) = Some t.
Proof. induction i as [|i IH]; intros [|x ts] t0; cbn; try discriminate; [reflexivity|apply IH]. Qed.

Lemma gnth_gset_other i j (t : pthread) : forall ts, i <> j -> gnth j (gset i t ts) = gnth j ts.
Proof.
  revert j. induction i as [|i IH]; intros j ts N; destruct ts as [|x ts]; try reflexivity.
  - destruct j; [congruence|reflexivity].
  - destruct j; [reflexivity|]. simpl. apply IH. congruence.
Qed.

Lemma qvalid_app evs e s :
  qvalid evs s -> (match e with QLin _ o res c => res = pspec_result o c (qreplay evs s) | _ => True end) ->
  qvalid (evs ++ [e]) s.
Proof.
  revert s. induction evs as [|e0 evs IH]; intros s V H; cbn in *.
  - split; [destruct e; auto|exact I].
  - destruct V as [V0 V1]. split; [exact V0|]. apply IH; assumption.
Qed.

Lemma qreplay_app evs e s : qreplay (evs ++ [e]) s = apply_q e (qreplay evs s).
Proof. unfold qreplay. now rewrite fold_left_app. Qed.

Lemma qlins_app t evs e : qlins t (evs ++ [e]) = qlins t evs ++ qlins t [e].
Proof.
  induction evs as [|e0 evs IH]; [reflexivity|]. cbn [app qlins].
  destruct e0 as [t' o res c|k|k|]; try exact IH. destruct (Nat.eqb t t'); [cbn; now rewrite IH|exact IH].
Qed.

Definition qthread_ok (i : nat) (t : pthread) (evs : list qevent) : Prop :=
  match g_cur t with
  | None => qlins i evs = filter not_fuel (g_done t)
  | Some (o, p) => exists lr, linp i o p lr /\
      (forall r, lr = Some r -> not_fuel r = true) /\
      qlins i evs = filter not_fuel (g_done t) ++ match lr with Some r => [r] | None => [] end
  end.

Definition qinv (s0 : pshared) (ts : list pthread) (s : pshared) (evs : list qevent) : Prop :=
  qvalid evs (proj s0) /\ qreplay evs (proj s0) = proj s /\
  forall i t, gnth i ts = Some t -> qthread_ok i t evs.

Lemma linp_start i o : linp i o (pprog_of o) None.
Proof.
  destruct o as [k|k r|k c|d]; cbn [PolConc.pprog_of].
  - apply linp_get.
  - apply linp_set.
  - apply linp_del.
  - apply linp_flush.
Qed.

Lemma filter_app_one (l : list pores) v :
  filter not_fuel (l ++ [v]) = filter not_fuel l ++ (if not_fuel v then [v] else []).
Proof. induction l as [|x l IH]; cbn [app filter]; [destruct (not_fuel v); reflexivity|]. destruct (not_fuel x); cbn; now rewrite IH. Qed.

Lemma step_qinv s0 ts s evs i t :
  qinv s0 ts s evs -> gnth i ts = Some t ->
  exists evs', qinv s0 (gset i (fst (pstep t s)) ts) (snd (pstep t s)) evs'.
Proof.
  intros (V & R & TH) Hi. pose proof (TH i t Hi) as OK. unfold qthread_ok in OK.
  unfold gthread_step. destruct (g_cur t) as [[o p]|] eqn:C.
  - destruct OK as (lr & LP & NF & L). destruct p as [v|a k].
    + (* the operation returns *)
      cbn [fst snd]. exists evs. split; [exact V|]. split; [exact R|].
      intros j tj Hj. destruct (Nat.eq_dec i j) as [<-|N].
      * rewrite (gnth_gset_same i _ ts t Hi) in Hj. injection Hj as <-. unfold qthread_ok. cbn [g_cur g_done].
        rewrite filter_app_one. cbn [linp] in LP. destruct LP as [->|(-> & ->)].
        -- rewrite (NF v eq_refl). exact L.
        -- cbn [not_fuel]. exact L.
      * rewrite gnth_gset_other in Hj by assumption. now apply TH.
    + (* one atomic action *)
      cbn [linp] in LP. destruct (LP s) as (lr' & SO & LP').
      destruct (pact a s) as [s1 x] eqn:A. cbn [fst snd] in *.
      unfold step_ok in SO. rewrite A in SO. cbn [fst] in SO.
      destruct SO as [(PE & ->)|(e & AE & EV)].
      * (* no event *)
        exists evs. split; [exact V|]. split; [now rewrite PE|].
        intros j tj Hj. destruct (Nat.eq_dec i j) as [<-|N].
        -- rewrite (gnth_gset_same i _ ts t Hi) in Hj. injection Hj as <-. unfold qthread_ok. cbn [g_cur g_done].
           exists lr. split; [exact LP'|]. split; assumption.
        -- rewrite gnth_gset_other in Hj by assumption. now apply TH.
      * exists (evs ++ [e]). split; [|split].
        -- apply qvalid_app; [exact V|]. rewrite R. destruct e; auto.
           destruct EV as (_ & -> & E & _). exact E.
        -- rewrite qreplay_app, R. exact AE.
        -- intros j tj Hj. destruct (Nat.eq_dec i j) as [<-|N].
           ++ rewrite (gnth_gset_same i _ ts t Hi) in Hj. injection Hj as <-. unfold qthread_ok. cbn [g_cur g_done].
              exists lr'. split; [exact LP'|]. rewrite qlins_app, L.
              destruct e as [t' o' res c|kk|kk|].
              ** destruct EV as (-> & -> & E & -> & ->). split.
                 { intros r [= <-]. rewrite E. apply pspec_result_not_fuel. }
                 cbn [qlins]. rewrite Nat.eqb_refl. now rewrite app_nil_r.
              ** subst lr'. split; [exact NF|]. cbn [qlins]. now rewrite app_nil_r.
              ** subst lr'. split; [exact NF|]. cbn [qlins]. now rewrite app_nil_r.
              ** subst lr'. split; [exact NF|]. cbn [qlins]. now rewrite app_nil_r.
           ++ rewrite gnth_gset_other in Hj by assumption. pose proof (TH j tj Hj) as OKj.
              unfold qthread_ok in *. rewrite qlins_app.
              assert (qlins j [e] = []) as ->.
              { destruct e as [t' o' res c|kk|kk|]; try reflexivity.
                destruct EV as (-> & _). cbn.
                destruct (Nat.eqb j i) eqn:Q; [apply Nat.eqb_eq in Q; congruence|reflexivity]. }
              rewrite app_nil_r. exact OKj.
  - (* start the next operation, or stay idle *)
    destruct (g_client t (g_done t)) as [o|] eqn:N; cbn [fst snd].
    + exists evs. split; [exact V|]. split; [exact R|].
      intros j tj Hj. destruct (Nat.eq_dec i j) as [<-|NE].
      * rewrite (gnth_gset_same i _ ts t Hi) in Hj. injection Hj as <-. unfold qthread_ok. cbn [g_cur g_done].
        exists None. split; [apply linp_start|]. split; [discriminate|]. now rewrite app_nil_r.
      * rewrite gnth_gset_other in Hj by assumption. now apply TH.
    + exists evs. split; [exact V|]. split; [exact R|].
      intros j tj Hj. destruct (Nat.eq_dec i j) as [<-|NE].
      * rewrite (gnth_gset_same i _ ts t Hi) in Hj. injection Hj as <-. unfold qthread_ok. now rewrite C.
      * rewrite gnth_gset_other in Hj by assumption. now apply TH.
Qed.

Lemma sched_qinv s0 sched : forall ts s evs,
  qinv s0 ts s evs ->
  exists evs', qinv s0 (fst (prun sched ts s)) (snd (prun sched ts s)) evs'.
Proof.
  unfold prun_sched. induction sched as [|i rest IH]; intros ts s evs I; cbn [grun_sched].
  - eauto.
  - destruct (gnth i ts) as [t|] eqn:Hi; [|now apply (IH ts s evs)].
    pose proof (step_qinv s0 ts s evs i t I Hi) as [evs' I'].
    destruct (gthread_step pact pprog_of t s) as [t' s1]. cbn [fst snd] in *. now apply (IH _ _ evs').
Qed.

Lemma new_gthread_nth (cs : list (list pores -> option pop)) : forall i (t : pthread),
  gnth i (map (fun c => new_gthread c) cs) = Some t -> g_cur t = None /\ g_done t = [].
Proof.
  induction cs as [|c cs IHc]; intros [|i] t Hi; cbn in Hi; try discriminate.
  - injection Hi as <-. auto.
  - eapply IHc; eauto.
Qed.

(* any number of clients choosing their next Cache operation from the answers
   they have had, any initial store, any schedule, any outcome of the scans: a
   valid one-at-a-time trace — operations atomic, expired records collected,
   CAS values reserved and records evicted as internal events — reproduces the
   final map and CAS counter and gives every client, in its own order, the
   answers it received (an operation abandoned for want of model fuel has no
   effect and no place in the trace) *)
Theorem linearizable_policy (cs : list (list pores -> option pop)) (sched : list nat) (s0 : pshared) :
  let '(ts, s) := prun sched (map (fun c => new_gthread c) cs) s0 in
  exists evs, qvalid evs (proj s0) /\ qreplay evs (proj s0) = proj s /\
    forall i t, gnth i ts = Some t ->
      exists pending, qlins i evs = filter not_fuel (g_done t) ++ pending /\ (length pending <= 1)%nat /\
                      (g_cur t = None -> pending = []).
Proof.
  assert (I0 : qinv s0 (map (fun c => new_gthread c) cs) s0 []).
  { split; [exact I|]. split; [reflexivity|]. intros i t Hi.
    destruct (new_gthread_nth cs i t Hi) as [C D]. unfold qthread_ok. rewrite C, D. reflexivity. }
  pose proof (sched_qinv s0 sched _ _ _ I0) as H.
  destruct (prun sched (map (fun c => new_gthread c) cs) s0) as [ts s]. cbn [fst snd] in H.
  destruct H as (evs & V & R & TH).
  exists evs. split; [exact V|]. split; [exact R|].
  intros i t Hi. pose proof (TH i t Hi) as OK. unfold qthread_ok in OK.
  destruct (g_cur t) as [[o p]|].
  - destruct OK as (lr & _ & _ & L). exists (match lr with Some r => [r] | None => [] end).
    split; [exact L|]. split; [destruct lr; cbn; lia|discriminate].
  - exists []. rewrite app_nil_r. auto.
Qed.

End PC03p.
