(* PC10.v — proofs for C10: no client input can crash, hang or bloat *)
From MC Require Import Model.Base Model.Generated Model.Store Model.Codec Model.Handler Model.Conn
  Spec.Quiet Proofs.CodecLemmas Proofs.Framing Proofs.Chunking.
From Coq Require Import ZifyN ZifyNat.

(* ---- only validated requests are executed ---- *)
(* requests that reach the store or answer with data (everything except the
   oversized marker and the 'unknown command' answer) *)
Definition executed (r : request) : bool :=
  match r with ReqTooLarge _ | ReqNotSupported _ => false | _ => true end.

Definition needs_key (r : request) : bool :=
  match r with
  | ReqGet _ _ _ | ReqSet _ _ _ _ _ _ | ReqAppend _ _ _ _ | ReqDelete _ _ _ | ReqIncr _ _ _ _ _ _ => true
  | _ => false
  end.

Lemma parse_body_validated h body r :
  parse_body h body = DFrame r -> executed r = true ->
  request_valid h (needs_key r) = true /\ from_u8_is_some (h_opcode h) = true.
Proof.
  unfold parse_body. destruct (from_u8_is_some (h_opcode h)) eqn:F; [|discriminate]. cbn [negb].
  intros H E. split; [|reflexivity]. revert H.
  repeat match goal with |- context[if is_one_of ?a ?l then _ else _] => destruct (is_one_of a l) end;
    try discriminate.
  - unfold parse_get. destruct (request_valid h true) eqn:V; [|discriminate]. cbn.
    destruct (split_to _ _) as [[? ?]|]; [|discriminate]. intros [= <-]. exact V.
  - unfold parse_append_prepend. destruct (request_valid h true) eqn:V; [|discriminate]. cbn.
    destruct (split_to _ _) as [[? ?]|]; [|discriminate].
    destruct (split_to _ _) as [[? ?]|]; [|discriminate]. intros [= <-]. exact V.
  - unfold parse_set. destruct (request_valid h true) eqn:V; [|discriminate]. cbn.
    destruct (_ <? _); [discriminate|].
    destruct (get_n 4 body) as [[? ?]|]; [|discriminate].
    destruct (get_n 4 _) as [[? ?]|]; [|discriminate].
    destruct (split_to _ _) as [[? ?]|]; [|discriminate].
    destruct (split_to _ _) as [[? ?]|]; [|discriminate].
    repeat match goal with |- context[if h_opcode h =? ?c then _ else _] => destruct (h_opcode h =? c) end;
      try discriminate; intros [= <-]; exact V.
  - unfold parse_delete. destruct (request_valid h true) eqn:V; [|discriminate]. cbn.
    destruct (split_to _ _) as [[? ?]|]; [|discriminate]. intros [= <-]. exact V.
  - unfold parse_inc_dec. destruct (request_valid h true) eqn:V; [|discriminate]. cbn.
    destruct (_ <? _); [discriminate|].
    destruct (get_n 8 body) as [[? ?]|]; [|discriminate].
    destruct (get_n 8 _) as [[? ?]|]; [|discriminate].
    destruct (get_n 4 _) as [[? ?]|]; [|discriminate].
    destruct (split_to _ _) as [[? ?]|]; [|discriminate]. intros [= <-]. exact V.
  - unfold parse_header_only. destruct (request_valid h false) eqn:V; [|discriminate]. cbn.
    repeat match goal with |- context[if h_opcode h =? ?c then _ else _] => destruct (h_opcode h =? c) end;
      intros [= <-]; exact V.
  - unfold parse_flush. destruct (request_valid h false) eqn:V; [|discriminate]. cbn.
    destruct (h_extlen h =? 4).
    + destruct (get_n 4 body) as [[? ?]|]; [|discriminate]. intros [= <-]. exact V.
    + intros [= <-]. exact V.
  - intros [= <-]. discriminate.
Qed.

Lemma decode_header_valid limit b c1 b1 r :
  decode (new_codec limit) b = (c1, b1, DFrame r) -> header_valid (req_header r) = true.
Proof.
  unfold decode. cbn [c_state new_codec].
  destruct (blen b <? HEADER_LEN); [discriminate|].
  destruct (header_of_bytes b) as [[h rest]|]; [|discriminate].
  destruct (header_valid h) eqn:V; [|discriminate]. cbn [negb].
  cbv beta zeta iota delta [decode_body c_hdr c_limit c_state new_codec].
  destruct (limit <? h_bodylen h); [intros H; inversion H; subst; exact V|].
  destruct (blen rest <? h_bodylen h); [discriminate|].
  unfold parse_request. cbn [c_state c_hdr c_limit].
  destruct (limit <? h_bodylen h); [intros H; inversion H; subst; exact V|].
  destruct (blen rest <? h_bodylen h); [discriminate|].
  destruct (split_to _ _) as [[body r']|]; [|discriminate].
  intros H; inversion H as [[H1 H2 D]]. apply parse_body_wf in D as [_ ->]. exact V.
Qed.

Lemma decode_validated limit b c1 b1 r :
  decode (new_codec limit) b = (c1, b1, DFrame r) -> executed r = true ->
  let h := req_header r in
  h_magic h = 128 /\ h_opcode h < 37 /\ from_u8_is_some (h_opcode h) = true /\ h_dtype h = 0 /\
  h_keylen h <= 250 /\ h_extlen h <= 20 /\ (needs_key r = true -> h_keylen h <> 0) /\
  h_keylen h + h_extlen h <= h_bodylen h /\ h_bodylen h <= limit.
Proof.
  intros D E. pose proof (decode_header_valid _ _ _ _ _ D) as HV.
  destruct (decode_extent _ _ _ _ _ D) as (hb & body & h & _ & _ & _ & RH & _ & [(-> & _)|(LB & LL & PB)]);
    [discriminate|].
  cbv zeta. rewrite RH in *.
  destruct (parse_body_validated _ _ _ PB E) as [RV FU].
  apply request_valid_bounds in RV as (A & B & C & D').
  unfold header_valid in HV. apply Bool.andb_true_iff in HV as [HV1 HV3].
  apply Bool.andb_true_iff in HV1 as [HV1 HV2].
  apply N.eqb_eq in HV1, HV3. apply N.ltb_lt in HV2.
  repeat split; auto.
Qed.

(* ---- the connection never panics, and at rest it buffers less than a frame ---- *)
Definition at_rest (limit : N) (cn : conn) : Prop :=
  c_limit (cn_codec cn) = limit /\
  cn_status cn <> CClosed WPanic /\
  (is_open cn = true ->
     (0 < cn_skip cn -> cn_pending cn <> None /\ cn_buf cn = []) /\
     (cn_skip cn = 0 ->
        match c_state (cn_codec cn) with
        | PNone => blen (cn_buf cn) < 24
        | PHeaderParsed => blen (cn_buf cn) < h_bodylen (c_hdr (cn_codec cn)) /\
                           h_bodylen (c_hdr (cn_codec cn)) <= limit
        end)).

Lemma decode_limit c b : c_limit (fst (fst (decode c b))) = c_limit c.
Proof.
  unfold decode, decode_body, parse_request, init_parser.
  repeat match goal with
  | |- context[match ?x with _ => _ end] => destruct x; cbn
  | |- context[if ?x then _ else _] => destruct x; cbn
  end; reflexivity.
Qed.

Lemma decode_need_rest c b c1 b1 :
  decode c b = (c1, b1, DNeedMore) ->
  match c_state c1 with
  | PNone => blen b1 < 24
  | PHeaderParsed => blen b1 < h_bodylen (c_hdr c1) /\ h_bodylen (c_hdr c1) <= c_limit c1
  end.
Proof.
  assert (DB : forall c b c1 b1, c_state c = PHeaderParsed -> decode_body c b = (c1, b1, DNeedMore) ->
               c_state c1 = PHeaderParsed /\ blen b1 < h_bodylen (c_hdr c1) /\ h_bodylen (c_hdr c1) <= c_limit c1).
  { intros c0 b0 c2 b2 S D. destruct (decode_body_need _ _ _ _ D S) as [-> ->].
    unfold decode_body in D. destruct (c_limit c0 <? h_bodylen (c_hdr c0)) eqn:L; [discriminate|].
    apply N.ltb_ge in L. destruct (blen b0 <? h_bodylen (c_hdr c0)) eqn:L2.
    - apply N.ltb_lt in L2. auto.
    - exfalso. pose proof (parse_request_not_need c0 b0 S) as NN. rewrite D in NN. now apply NN. }
  unfold decode. destruct (c_state c) eqn:S.
  - destruct (blen b <? HEADER_LEN) eqn:L.
    + intros H; inversion H; subst. rewrite S. now apply N.ltb_lt in L.
    + destruct (header_of_bytes b) as [[h rest]|]; [|discriminate].
      destruct (negb (header_valid h)); [discriminate|].
      intros D. apply DB in D as (-> & A & B); [auto|reflexivity].
  - intros D. apply DB in D as (-> & A & B); auto.
Qed.

Lemma serve_closes req c b s out :
  let '(cn', _, _) := serve req (mkc c b) s out in
  cn' = mkc c b \/ cn' = close (mkc c b) WQuit \/ cn' = close (mkc c b) WQuitQ.
Proof.
  unfold serve. destruct req; try (right; right; reflexivity);
  match goal with |- context[handle_request ?q s] => destruct (handle_request q s) as [s1 [r|]] end;
  try (now left); destruct r; try (now left); right; left; reflexivity.
Qed.

Lemma at_rest_closed limit c b w : c_limit c = limit -> w <> WPanic -> at_rest limit (close (mkc c b) w).
Proof. intros L W. unfold at_rest. cbn. repeat split; auto; try congruence; discriminate. Qed.

Lemma pump_at_rest limit n : forall c b s out,
  (length b + credit c <= n)%nat -> c_limit c = limit ->
  at_rest limit (fst (fst (pumpF c b s out))).
Proof.
  induction n as [|n IH]; intros c b s out Hn L.
  - assert (b = []) by (destruct b; [reflexivity|cbn in Hn; lia]). subst.
    assert (C : c_state c = PNone) by (unfold credit in Hn; destruct (c_state c); [reflexivity|lia]).
    assert (E : pumpF c [] s out = (mkc c [], s, out)).
    { rewrite pumpF_unfold. unfold pump_step, decode. rewrite C. reflexivity. }
    rewrite E. unfold at_rest. cbn. rewrite ?C. repeat split; auto; try discriminate; try (intros; lia).
  - rewrite pumpF_unfold. unfold pump_step.
    destruct (decode c b) as [[c1 b1] d] eqn:D.
    pose proof (decode_limit c b) as DL. rewrite D in DL. cbn in DL. rewrite L in DL.
    destruct d as [r| |e|].
    + pose proof (decode_frame_measure _ _ _ _ _ D) as [S1 M].
      assert (C1 : credit c1 = 0%nat) by (unfold credit; now rewrite S1).
      assert (GEN : forall req b',
        (length b' <= length b1)%nat ->
        at_rest limit (fst (fst (let '(cn2, s2, out2) := serve req (mkc c1 b') s out in
                                 if is_open cn2 then pumpF c1 b' s2 out2 else (cn2, s2, out2))))).
      { intros req b' Lb. pose proof (serve_closes req c1 b' s out) as SC.
        destruct (serve req (mkc c1 b') s out) as [[cn2 s2] out2].
        destruct SC as [->|[->| ->]]; cbn [is_open mkc close cn_status].
        - apply IH; [rewrite C1; lia|exact DL].
        - apply at_rest_closed; [exact DL|discriminate].
        - apply at_rest_closed; [exact DL|discriminate]. }
      destruct r; try (apply GEN; lia).
      destruct (h_bodylen h - N.min (h_bodylen h) (blen b1) =? 0) eqn:Z.
      * apply GEN. rewrite drop_length. lia.
      * apply N.eqb_neq in Z. cbn [fst]. unfold at_rest. cbn.
        repeat split; auto; try discriminate; try lia.
        apply drop_all. unfold blen in *. lia.
    + cbn [fst]. unfold at_rest. cbn. repeat split; auto; try discriminate; try lia.
      intros _. apply (decode_need_rest _ _ _ _ D) || (pose proof (decode_need_rest _ _ _ _ D) as R; rewrite DL in R; exact R).
    + cbn [fst]. unfold at_rest. cbn. repeat split; auto; discriminate.
    + exfalso. pose proof (decode_no_panic c b) as NP. rewrite D in NP. now apply NP.
Qed.

Lemma feed_at_rest limit y cn s : at_rest limit cn -> at_rest limit (fst (fst (feed y cn s))).
Proof.
  intros (L & NP & OP). rewrite feed_feedF. unfold feedF.
  destruct (is_open cn) eqn:O; cbn [negb]; [|unfold at_rest; cbn; rewrite O; repeat split; auto; discriminate].
  destruct (OP eq_refl) as [SK NS].
  destruct (0 <? cn_skip cn) eqn:S0.
  - apply N.ltb_lt in S0. destruct (SK S0) as [PN BE].
    destruct (cn_skip cn - N.min (cn_skip cn) (blen y) =? 0) eqn:Z.
    + destruct (cn_pending cn) as [req|]; [|congruence].
      pose proof (serve_closes req (cn_codec cn) (cn_buf cn ++ drop (N.to_nat (N.min (cn_skip cn) (blen y))) y) s []) as SC.
      destruct (serve req _ s []) as [[cn2 s2] out2].
      destruct SC as [->|[->| ->]]; cbn [is_open mkc close cn_status].
      * apply (pump_at_rest limit _ _ _ _ _ (le_n _) L).
      * apply at_rest_closed; [exact L|discriminate].
      * apply at_rest_closed; [exact L|discriminate].
    + apply N.eqb_neq in Z. cbn [fst]. unfold at_rest. cbn. repeat split; auto; try discriminate; try lia.
  - apply (pump_at_rest limit _ _ _ _ _ (le_n _) L).
Qed.

Lemma new_conn_at_rest limit : at_rest limit (new_conn limit).
Proof. unfold at_rest, new_conn. cbn. repeat split; auto; try discriminate; lia. Qed.

(* after any sequence of reads the connection has not panicked and, if it is
   still open, holds less than a header or less than one admissible body *)
Lemma feeds_at_rest limit ys : forall cn s,
  at_rest limit cn ->
  at_rest limit (fst (fst (fold_left (fun st y => let '(cn, s, _) := st in feed y cn s) ys (cn, s, [])))).
Proof.
  assert (G : forall ys st, at_rest limit (fst (fst st)) ->
          at_rest limit (fst (fst (fold_left (fun st y => let '(cn, s, _) := st in feed y cn s) ys st)))).
  { induction ys0 as [|y ys0 IH]; intros [[cn s] o] H; [exact H|].
    cbn [fold_left]. apply IH. now apply feed_at_rest. }
  intros cn s H. now apply G.
Qed.

Lemma at_rest_bound limit cn :
  at_rest limit cn -> is_open cn = true -> blen (cn_buf cn) < N.max 24 limit.
Proof.
  intros (_ & _ & OP) O. destruct (OP O) as [SK NS].
  destruct (N.eq_dec (cn_skip cn) 0) as [Z|NZ].
  - specialize (NS Z). destruct (c_state (cn_codec cn)); lia.
  - destruct SK as [_ ->]; [lia|]. cbn. lia.
Qed.
