(* PC17eq.v — with one listener, Model/Listeners.v serves exactly the connections
   Model/Server.v serves: the same permits and the same served connections after
   every history in which connection identifiers are not reused; the waiting queue
   of Server.v is the line of Listeners.v (the connection inside acquire(), then the
   backlog) without the connections that are gone. *)
From MC Require Import Model.Base Model.Conn Model.Server Model.Listeners Proofs.PC17 Proofs.PC17m.
From Coq Require Import ZifyN ZifyNat Arith.PeanoNat.

Definition line (m : mserver) : list nat := map snd (ms_pending m ++ ms_backlog m).
Definition live_of (gone : list nat) (l : list nat) : list nat := filter (fun c => negb (mem_nat c gone)) l.

Definition one_listener (m : mserver) : Prop :=
  forall x, In x (ms_pending m ++ ms_backlog m) -> fst x = 0%nat.

(* the relation while things still move *)
Definition Rpre (s : server) (m : mserver) : Prop :=
  ms_permits m = sv_permits s /\ ms_active m = sv_active s /\
  live_of (ms_gone m) (line m) = sv_waiting s /\ one_listener m.

Definition R (s : server) (m : mserver) : Prop := Rpre s m /\ quiescent m /\ NoDup (line m).

Lemma busy_all_zero (p : list (nat * nat)) (x : nat * nat) : (forall y, In y p -> fst y = 0%nat) -> p <> [] -> fst x = 0%nat -> busy (fst x) p = true.
Proof.
  intros Z N X. destruct p as [|y t]; [congruence|]. unfold busy. cbn [existsb].
  rewrite (Z y (or_introl eq_refl)), X. reflexivity.
Qed.

Lemma next_accept_busy_none (p : list (nat * nat)) : forall b : list (nat * nat),
  (forall y, In y p -> fst y = 0%nat) -> p <> [] -> (forall y, In y b -> fst y = 0%nat) ->
  next_accept p b = None.
Proof.
  induction b as [|x t IH]; intros Zp N Zb; [reflexivity|]. cbn [next_accept].
  rewrite (busy_all_zero p x Zp N (Zb x (or_introl eq_refl))).
  rewrite IH; auto. intros y Hy. apply Zb. now right.
Qed.

Lemma take_first_zero (x : nat * nat) t : fst x = 0%nat -> take_first 0 (x :: t) = Some (x, t).
Proof. intros E. cbn [take_first]. rewrite E. reflexivity. Qed.

Lemma live_cons_live gone c l : mem_nat c gone = false -> live_of gone (c :: l) = c :: live_of gone l.
Proof. intros G. unfold live_of. cbn [filter]. rewrite G. reflexivity. Qed.

Lemma live_cons_gone gone c l : mem_nat c gone = true -> live_of gone (c :: l) = live_of gone l.
Proof. intros G. unfold live_of. cbn [filter]. rewrite G. reflexivity. Qed.

(* one internal step of the listeners is no step or one step of serve_waiting *)
Lemma settle_simulates : forall fm m s fs,
  Rpre s m -> (measure m < fm)%nat -> (length (sv_waiting s) < fs)%nat ->
  Rpre (serve_waiting fs s) (settle fm m) /\ quiescent (settle fm m).
Proof.
  induction fm as [|f IH]; intros m s fs Rp M F; [lia|]. cbn [settle].
  destruct Rp as (EP & EA & EW & Z).
  destruct (settle1 m) as [m'|] eqn:E.
  2:{ (* nothing moves: the waiting queue is empty or no permit is free *)
    split; [|exact E].
    assert (Stop : serve_waiting fs s = s).
    { destruct fs as [|fs']; [reflexivity|]. cbn [serve_waiting].
      destruct (sv_waiting s) as [|c rest] eqn:W; [reflexivity|].
      destruct (0 <? sv_permits s) eqn:Q; [|reflexivity]. exfalso.
      apply N.ltb_lt in Q. rewrite <- EP in Q.
      destruct (quiescent_free_slot m E Q) as [P0 B0].
      unfold line in EW. rewrite P0, B0 in EW. cbn in EW. congruence. }
    rewrite Stop. repeat split; assumption. }
  pose proof (settle1_measure _ _ E) as Mlt.
  unfold settle1 in E.
  destruct (ms_pending m) as [|[l c] rest] eqn:P.
  - (* the listener takes the oldest connection of its backlog *)
    destruct (ms_backlog m) as [|x bl] eqn:B; [discriminate|].
    cbn [next_accept busy existsb] in E. injection E as <-.
    apply (IH _ s fs); [|lia|exact F].
    repeat split; cbn [ms_permits ms_active ms_gone]; try assumption.
    + unfold line in *. cbn [ms_pending ms_backlog] in *. rewrite P, B in EW. exact EW.
    + unfold one_listener in *. cbn [ms_pending ms_backlog]. rewrite P, B in Z. exact Z.
  - assert (Zc : l = 0%nat) by (apply (Z (l, c)); rewrite P; now left).
    subst l.
    destruct (0 <? ms_permits m) eqn:Q.
    + destruct (mem_nat c (ms_gone m)) eqn:G.
      * (* the head is gone: dropped, the listener goes on with its next connection *)
        destruct (ms_backlog m) as [|x bl] eqn:B.
        -- cbn [take_first] in E. injection E as <-.
           apply (IH _ s fs); [|lia|exact F].
           repeat split; cbn [ms_permits ms_active ms_gone]; try assumption.
           ++ unfold line in *. cbn [ms_pending ms_backlog] in *. rewrite P, B in EW.
              cbn [app map snd] in EW. rewrite live_cons_gone in EW by exact G. exact EW.
           ++ unfold one_listener in *. cbn [ms_pending ms_backlog]. rewrite P, B in Z.
              intros y Hy. apply Z. now right.
        -- assert (Zx : fst x = 0%nat) by (apply Z; rewrite P, B; apply in_or_app; right; now left).
           rewrite (take_first_zero x bl Zx) in E. injection E as <-.
           apply (IH _ s fs); [|lia|exact F].
           repeat split; cbn [ms_permits ms_active ms_gone]; try assumption.
           ++ unfold line in *. cbn [ms_pending ms_backlog] in *. rewrite P, B in EW.
              cbn [app map snd] in EW. rewrite live_cons_gone in EW by exact G.
              rewrite <- app_assoc. exact EW.
           ++ unfold one_listener in *. cbn [ms_pending ms_backlog]. rewrite P, B in Z.
              intros y Hy. apply Z. rewrite <- app_assoc in Hy. now right.
      * (* the head is served: one step of serve_waiting *)
        injection E as <-.
        assert (W : sv_waiting s = c :: live_of (ms_gone m) (map snd (rest ++ ms_backlog m))).
        { rewrite <- EW. unfold line. rewrite P. cbn [app map snd]. now apply live_cons_live. }
        destruct fs as [|fs']; [lia|]. cbn [serve_waiting]. rewrite W.
        rewrite <- EP, Q.
        apply IH; [|lia|].
        -- split; [reflexivity|]. split; [cbn [ms_active sv_active]; now rewrite EA|].
           split; [unfold line; reflexivity|].
           unfold one_listener in *. cbn [ms_pending ms_backlog]. rewrite P in Z.
           intros y Hy. apply Z. now right.
        -- cbn [sv_waiting]. rewrite W in F. cbn [length] in F. lia.
    + (* no permit: with one listener, and that one inside acquire(), nothing is accepted *)
      rewrite (next_accept_busy_none ((0%nat, c) :: rest) (ms_backlog m)) in E; [discriminate| |discriminate|].
      * intros y Hy. apply Z. rewrite P. apply in_or_app. now left.
      * intros y Hy. apply Z. rewrite P. apply in_or_app. now right.
Qed.

(* ---- the line only ever loses its head ------------------------------------ *)
Lemma mem_nat_In c l : mem_nat c l = true <-> In c l.
Proof.
  induction l as [|x t IH]; cbn [mem_nat In]; [split; [discriminate|tauto]|].
  rewrite Bool.orb_true_iff, IH, Nat.eqb_eq. tauto.
Qed.

Lemma mem_nat_false c l : mem_nat c l = false <-> ~ In c l.
Proof. rewrite <- mem_nat_In. destruct (mem_nat c l); split; congruence. Qed.

Lemma has_conn_In c (p : list (nat * nat)) : has_conn c p = true <-> In c (map snd p).
Proof.
  unfold has_conn. induction p as [|x t IH]; cbn [existsb map In]; [split; [discriminate|tauto]|].
  rewrite Bool.orb_true_iff, IH, Nat.eqb_eq. tauto.
Qed.

Lemma settle1_line m m' :
  one_listener m -> settle1 m = Some m' ->
  one_listener m' /\ ms_gone m' = ms_gone m /\ (line m' = line m \/ exists c, line m = c :: line m').
Proof.
  intros Z E. unfold settle1 in E.
  destruct (ms_pending m) as [|[l c] rest] eqn:P.
  - destruct (ms_backlog m) as [|x bl] eqn:B; [discriminate|].
    cbn [next_accept busy existsb] in E. injection E as <-.
    unfold one_listener, line in *. cbn [ms_pending ms_backlog ms_gone]. rewrite P, B in *.
    repeat split; auto.
  - assert (Zc : l = 0%nat) by (apply (Z (l, c)); rewrite P; now left). subst l.
    destruct (0 <? ms_permits m).
    + destruct (mem_nat c (ms_gone m)).
      * destruct (ms_backlog m) as [|x bl] eqn:B.
        -- cbn [take_first] in E. injection E as <-.
           unfold one_listener, line in *. cbn [ms_pending ms_backlog ms_gone]. rewrite P, B in *.
           repeat split; [intros y Hy; apply Z; now right|]. right. exists c. reflexivity.
        -- assert (Zx : fst x = 0%nat) by (apply Z; rewrite P, B; apply in_or_app; right; now left).
           rewrite (take_first_zero x bl Zx) in E. injection E as <-.
           unfold one_listener, line in *. cbn [ms_pending ms_backlog ms_gone]. rewrite P, B in *.
           repeat split.
           ++ intros y Hy. apply Z. rewrite <- app_assoc in Hy. now right.
           ++ right. exists c. rewrite <- app_assoc. reflexivity.
      * injection E as <-.
        unfold one_listener, line in *. cbn [ms_pending ms_backlog ms_gone]. rewrite P in *.
        repeat split; [intros y Hy; apply Z; now right|]. right. exists c. reflexivity.
    + rewrite (next_accept_busy_none ((0%nat, c) :: rest) (ms_backlog m)) in E; [discriminate| |discriminate|].
      * intros y Hy. apply Z. rewrite P. apply in_or_app. now left.
      * intros y Hy. apply Z. rewrite P. apply in_or_app. now right.
Qed.

Lemma settle_line fuel : forall m,
  one_listener m -> NoDup (line m) ->
  NoDup (line (settle fuel m)) /\ ms_gone (settle fuel m) = ms_gone m /\
  (forall c, In c (line (settle fuel m)) -> In c (line m)).
Proof.
  induction fuel as [|f IH]; intros m Z N; cbn [settle]; [auto|].
  destruct (settle1 m) as [m'|] eqn:E; [|auto].
  destruct (settle1_line m m' Z E) as (Z' & G & L).
  assert (N' : NoDup (line m')).
  { destruct L as [L|[c Hc]]; [rewrite L; exact N|]. rewrite Hc in N. now inversion N. }
  destruct (IH m' Z' N') as (N2 & G2 & I2).
  split; [exact N2|]. split; [congruence|].
  intros c Hc. apply I2 in Hc. destruct L as [L|[c0 Hc0]]; [rewrite <- L; exact Hc|]. rewrite Hc0. now right.
Qed.

Lemma live_not_in gone c l : ~ In c l -> live_of (c :: gone) l = live_of gone l.
Proof.
  induction l as [|x t IH]; intros H; [reflexivity|]. unfold live_of in *. cbn [filter].
  change (mem_nat x (c :: gone)) with (Nat.eqb c x || mem_nat x gone).
  assert (Nat.eqb c x = false) as -> by (apply Nat.eqb_neq; intros ->; apply H; now left).
  cbn [orb]. rewrite IH; [reflexivity|]. intros Ht. apply H. now right.
Qed.

Lemma remove_nat_not_in c l : ~ In c l -> remove_nat c l = l.
Proof.
  induction l as [|x t IH]; intros H; [reflexivity|]. cbn [remove_nat].
  assert (Nat.eqb x c = false) as -> by (apply Nat.eqb_neq; intros ->; apply H; now left).
  f_equal. apply IH. intros Ht. apply H. now right.
Qed.

Lemma live_remove gone c l :
  NoDup l -> live_of (c :: gone) l = remove_nat c (live_of gone l).
Proof.
  induction l as [|x t IH]; intros N; [reflexivity|]. inversion N as [|? ? Nx Nt]; subst.
  destruct (Nat.eqb c x) eqn:Ecx.
  - apply Nat.eqb_eq in Ecx. subst x.
    assert (L : live_of (c :: gone) (c :: t) = live_of gone t).
    { unfold live_of at 1. cbn [filter]. change (mem_nat c (c :: gone)) with (Nat.eqb c c || mem_nat c gone).
      rewrite Nat.eqb_refl. cbn [orb negb]. apply live_not_in. exact Nx. }
    rewrite L.
    assert (Hn : ~ In c (live_of gone t)) by (intros H; apply filter_In in H; tauto).
    unfold live_of at 2. cbn [filter]. destruct (mem_nat c gone); cbn [negb].
    + fold (live_of gone t). now rewrite remove_nat_not_in.
    + fold (live_of gone t). cbn [remove_nat]. now rewrite Nat.eqb_refl.
  - unfold live_of at 1 2. cbn [filter]. change (mem_nat x (c :: gone)) with (Nat.eqb c x || mem_nat x gone).
    rewrite Ecx. cbn [orb]. fold (live_of (c :: gone) t). fold (live_of gone t).
    destruct (mem_nat x gone); cbn [negb].
    + apply IH. exact Nt.
    + cbn [remove_nat]. assert (Nat.eqb x c = false) as -> by (rewrite Nat.eqb_sym; exact Ecx).
      f_equal. apply IH. exact Nt.
Qed.

Lemma NoDup_snoc (l : list nat) c : NoDup l -> ~ In c l -> NoDup (l ++ [c]).
Proof.
  induction l as [|x t IH]; intros N H; cbn [app]; [constructor; [tauto|constructor]|].
  inversion N as [|? ? Nx Nt]; subst. constructor.
  - intros Hin. apply in_app_or in Hin. destruct Hin as [Hin|[->|[]]]; [tauto|]. apply H. now left.
  - apply IH; [exact Nt|]. intros Ht. apply H. now right.
Qed.

Definition of_sevent (e : sevent) : mevent :=
  match e with SvConnect c => MConnect 0 c | SvEnd c why => MEnd c why end.

(* a connection identifier is new: not in the line, not among those gone *)
Definition fresh (m : mserver) (e : sevent) : Prop :=
  match e with
  | SvConnect c => ~ In c (line m) /\ mem_nat c (ms_gone m) = false
  | SvEnd _ _ => True
  end.

Lemma live_app gone l1 l2 : live_of gone (l1 ++ l2) = live_of gone l1 ++ live_of gone l2.
Proof. unfold live_of. apply filter_app. Qed.

Lemma step_R s m e : R s m -> fresh m e -> R (sv_step s e) (ms_step m (of_sevent e)).
Proof.
  intros ((EP & EA & EW & Z) & Q & N) F. destruct e as [c|c why]; cbn [of_sevent sv_step ms_step].
  - destruct F as [Fl Fg].
    set (m1 := mkMS _ _ _ _ _). set (s1 := mkServer _ _ _).
    assert (L1 : line m1 = line m ++ [c]).
    { unfold line, m1. cbn [ms_pending ms_backlog]. rewrite app_assoc, map_app. reflexivity. }
    assert (Z1 : one_listener m1).
    { unfold one_listener, m1. cbn [ms_pending ms_backlog]. intros y Hy.
      rewrite app_assoc in Hy. apply in_app_or in Hy. destruct Hy as [Hy|[<-|[]]]; [now apply Z|reflexivity]. }
    assert (N1 : NoDup (line m1)).
    { rewrite L1. apply NoDup_snoc; assumption. }
    assert (Rp : Rpre s1 m1).
    { repeat split; try assumption.
      change (ms_gone m1) with (ms_gone m). change (sv_waiting s1) with (sv_waiting s ++ [c]).
      rewrite L1, live_app, EW. unfold live_of at 1. cbn [filter]. rewrite Fg. reflexivity. }
    destruct (settle_simulates (settle_fuel m1) m1 s1 (S (length (sv_waiting s1))) Rp (fuel_enough m1) ltac:(lia)) as [Rp' Q'].
    destruct (settle_line (settle_fuel m1) m1 Z1 N1) as (N' & _ & _).
    repeat split; try apply Rp'; assumption.
  - rewrite <- EA. destruct (mem_nat c (ms_active m)) eqn:M.
    + set (m1 := mkMS _ _ _ _ _). set (s1 := mkServer _ _ _).
      assert (Z1 : one_listener m1) by exact Z.
      assert (N1 : NoDup (line m1)) by exact N.
      assert (Rp : Rpre s1 m1).
      { split; [unfold m1, s1; cbn [ms_permits sv_permits]; now rewrite EP|].
        split; [reflexivity|]. split; [exact EW|exact Z]. }
      destruct (settle_simulates (settle_fuel m1) m1 s1 (S (length (sv_waiting s1))) Rp (fuel_enough m1) ltac:(lia)) as [Rp' Q'].
      destruct (settle_line (settle_fuel m1) m1 Z1 N1) as (N' & _ & _).
      repeat split; try apply Rp'; assumption.
    + destruct (mem_nat c (sv_waiting s)) eqn:W.
      * (* it waited and is still there for the listeners: marked, and out of the line of the living *)
        assert (HL : In c (line m)).
        { apply mem_nat_In in W. rewrite <- EW in W. apply filter_In in W. tauto. }
        assert (HC : has_conn c (ms_pending m) || has_conn c (ms_backlog m) = true).
        { unfold line in HL. rewrite map_app in HL. apply in_app_or in HL.
          apply Bool.orb_true_iff. destruct HL; [left|right]; now apply has_conn_In. }
        rewrite HC.
        repeat split; cbn [ms_permits ms_active ms_gone sv_permits sv_active sv_waiting]; try assumption.
        -- change (line (mkMS (ms_permits m) (ms_active m) (ms_pending m) (ms_backlog m) (c :: ms_gone m))) with (line m).
           rewrite live_remove by exact N. now rewrite EW.
        -- pose proof (step_quiescent m (MEnd c why) Q) as Q2. cbn [ms_step] in Q2. rewrite M, HC in Q2. exact Q2.
      * (* not waiting (any more): nothing changes for the living *)
        destruct (has_conn c (ms_pending m) || has_conn c (ms_backlog m)) eqn:HC.
        -- repeat split; cbn [ms_permits ms_active ms_gone sv_permits sv_active sv_waiting]; try assumption.
           ++ change (line (mkMS (ms_permits m) (ms_active m) (ms_pending m) (ms_backlog m) (c :: ms_gone m))) with (line m).
              rewrite live_remove by exact N. rewrite EW.
              apply remove_nat_not_in. now apply mem_nat_false.
           ++ pose proof (step_quiescent m (MEnd c why) Q) as Q2. cbn [ms_step] in Q2. rewrite M, HC in Q2. exact Q2.
        -- repeat split; assumption.
Qed.

(* ---- whole histories -------------------------------------------------------- *)
Definition conn_ids (es : list sevent) : list nat :=
  flat_map (fun e => match e with SvConnect c => [c] | SvEnd _ _ => [] end) es.

Definition known (m : mserver) (c : nat) : Prop := In c (line m) \/ In c (ms_gone m).

Lemma step_known m e c :
  one_listener m -> NoDup (line m) ->
  known (ms_step m (of_sevent e)) c ->
  known m c \/ e = SvConnect c.
Proof.
  intros Z N K. destruct e as [c0|c0 why]; cbn [of_sevent ms_step] in K.
  - set (m1 := mkMS _ _ _ _ _) in K.
    assert (L1 : line m1 = line m ++ [c0]).
    { unfold line, m1. cbn [ms_pending ms_backlog]. rewrite app_assoc, map_app. reflexivity. }
    assert (Z1 : one_listener m1).
    { unfold one_listener, m1. cbn [ms_pending ms_backlog]. intros y Hy.
      rewrite app_assoc in Hy. apply in_app_or in Hy. destruct Hy as [Hy|[<-|[]]]; [now apply Z|reflexivity]. }
    destruct (Nat.eq_dec c c0) as [->|Ne]; [now right|]. left.
    (* whatever the line looks like, its members come from the line before *)
    assert (Sub : forall fuel mm, one_listener mm ->
              (forall x, In x (line (settle fuel mm)) -> In x (line mm)) /\ ms_gone (settle fuel mm) = ms_gone mm).
    { induction fuel as [|f IH]; intros mm Zm; cbn [settle]; [auto|].
      destruct (settle1 mm) as [m'|] eqn:E; [|auto].
      destruct (settle1_line mm m' Zm E) as (Z' & G & L). destruct (IH m' Z') as [I2 G2].
      split; [|congruence]. intros x Hx. apply I2 in Hx.
      destruct L as [L|[c1 Hc1]]; [rewrite <- L; exact Hx|]. rewrite Hc1. now right. }
    destruct (Sub (settle_fuel m1) m1 Z1) as [I G].
    destruct K as [K|K].
    + apply I in K. rewrite L1 in K. apply in_app_or in K. destruct K as [K|[K|[]]]; [now left|congruence].
    + rewrite G in K. now right.
  - left. destruct (mem_nat c0 (ms_active m)).
    + set (m1 := mkMS _ _ _ _ _) in K.
      assert (Sub : forall fuel mm, one_listener mm ->
                (forall x, In x (line (settle fuel mm)) -> In x (line mm)) /\ ms_gone (settle fuel mm) = ms_gone mm).
      { induction fuel as [|f IH]; intros mm Zm; cbn [settle]; [auto|].
        destruct (settle1 mm) as [m'|] eqn:E; [|auto].
        destruct (settle1_line mm m' Zm E) as (Z' & G & L). destruct (IH m' Z') as [I2 G2].
        split; [|congruence]. intros x Hx. apply I2 in Hx.
        destruct L as [L|[c1 Hc1]]; [rewrite <- L; exact Hx|]. rewrite Hc1. now right. }
      destruct (Sub (settle_fuel m1) m1 Z) as [I G].
      destruct K as [K|K]; [left; exact (I _ K)|right; rewrite G in K; exact K].
    + destruct (has_conn c0 (ms_pending m) || has_conn c0 (ms_backlog m)) eqn:HC; [|exact K].
      destruct K as [K|K]; [left; exact K|]. cbn [ms_gone] in K. destruct K as [<-|K]; [|now right].
      left. apply Bool.orb_true_iff in HC. unfold line. rewrite map_app. apply in_or_app.
      destruct HC as [H|H]; [left|right]; now apply has_conn_In.
Qed.

Lemma run_R : forall es s m seen,
  R s m -> (forall c, known m c -> In c seen) -> NoDup (seen ++ conn_ids es) ->
  R (sv_run s es) (ms_run m (map of_sevent es)).
Proof.
  induction es as [|e es IH]; intros s m seen Rm K N; [exact Rm|].
  cbn [sv_run ms_run fold_left map].
  assert (F : fresh m e).
  { destruct e as [c|c why]; [|exact I]. cbn [conn_ids flat_map app] in N.
    assert (Hc : ~ In c seen).
    { apply NoDup_remove_2 in N. intros H. apply N. apply in_or_app. now left. }
    split; [intros H; apply Hc, K; now left|].
    apply mem_nat_false. intros H. apply Hc, K. now right. }
  destruct Rm as (Rp & Q & Nl). pose proof Rp as (_ & _ & _ & Z).
  apply (IH _ _ (seen ++ match e with SvConnect c => [c] | SvEnd _ _ => [] end)).
  - apply step_R; [exact (conj Rp (conj Q Nl))|exact F].
  - intros c Kc. apply (step_known m e c Z Nl) in Kc. apply in_or_app.
    destruct Kc as [Kc| ->]; [left; now apply K|right; now left].
  - rewrite <- app_assoc. exact N.
Qed.

Theorem single_listener_is_server : forall limit es,
  NoDup (conn_ids es) ->
  let s := sv_run (new_server limit) es in
  let m := ms_run (new_mserver limit) (map of_sevent es) in
  ms_permits m = sv_permits s /\ ms_active m = sv_active s /\
  live_of (ms_gone m) (line m) = sv_waiting s.
Proof.
  intros limit es N s m.
  assert (R0 : R (new_server limit) (new_mserver limit)).
  { repeat split; try reflexivity; [intros x []|constructor]. }
  destruct (run_R es _ _ [] R0) as ((EP & EA & EW & _) & _ & _); [intros c [[]|[]]|exact N|].
  auto.
Qed.
