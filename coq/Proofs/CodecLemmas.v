(* CodecLemmas.v — the decoder: no panics, validation, the variant agrees with
   the opcode, and independence of a decoded frame from the bytes that follow it *)
From MC Require Import Model.Base Model.Generated Model.Store Model.Codec Spec.Quiet.
From Coq Require Import ZifyN ZifyNat.

(* ---- take ---- *)
Lemma take_some n : forall l, (n <= length l)%nat ->
  exists x r, take n l = Some (x, r) /\ length x = n /\ l = x ++ r.
Proof.
  induction n as [|n IH]; intros l H; cbn.
  - exists [], l. auto.
  - destruct l as [|b t]; [cbn in H; lia|]. cbn in H.
    destruct (IH t) as (x & r & E & L & A); [lia|]. rewrite E.
    exists (b :: x), r. cbn. subst t. auto.
Qed.

Lemma take_spec n : forall l x r, take n l = Some (x, r) -> length x = n /\ l = x ++ r.
Proof.
  induction n as [|n IH]; intros l x r; cbn.
  - intros [= <- <-]. auto.
  - destruct l as [|b t]; [discriminate|]. destruct (take n t) as [[h r']|] eqn:E; [|discriminate].
    intros [= <- <-]. destruct (IH _ _ _ E) as [L A]. cbn. subst t. auto.
Qed.

Lemma take_none n : forall l, take n l = None -> (length l < n)%nat.
Proof.
  induction n as [|n IH]; intros l; cbn; [discriminate|].
  destruct l as [|b t]; [cbn; lia|]. destruct (take n t) as [[h r']|] eqn:E; [discriminate|].
  intros _. apply IH in E. cbn. lia.
Qed.

Lemma take_app n : forall l x r y, take n l = Some (x, r) -> take n (l ++ y) = Some (x, r ++ y).
Proof.
  induction n as [|n IH]; intros l x r y; cbn.
  - now intros [= <- <-].
  - destruct l as [|b t]; [discriminate|]. destruct (take n t) as [[h r']|] eqn:E; [|discriminate].
    intros [= <- <-]. cbn. now rewrite (IH _ _ _ y E).
Qed.

Lemma blen_app a b : blen (a ++ b) = blen a + blen b.
Proof. unfold blen. rewrite app_length. lia. Qed.

Lemma split_to_ok n b : n <= blen b ->
  exists x r, split_to n b = Some (x, r) /\ blen x = n /\ b = x ++ r.
Proof.
  intros H. unfold split_to, blen in *.
  destruct (take_some (N.to_nat n) b) as (x & r & E & L & A); [lia|].
  exists x, r. repeat split; auto. lia.
Qed.

Lemma get_n_ok n b : (n <= length b)%nat -> exists v r x, get_n n b = Some (v, r) /\ b = x ++ r /\ length x = n.
Proof.
  intros H. unfold get_n. destruct (take_some n b H) as (x & r & E & L & A). rewrite E.
  exists (be_dec x), r, x. auto.
Qed.

(* ---- the header ---- *)
Lemma header_of_bytes_ok b : 24 <= blen b ->
  exists h rest hb, header_of_bytes b = Some (h, rest) /\ b = hb ++ rest /\ length hb = 24%nat.
Proof.
  intros H. unfold header_of_bytes, blen in *.
  destruct (take_some 24 b) as (x & r & E & L & A); [lia|]. rewrite E.
  do 24 (destruct x as [|? x]; [discriminate|]). destruct x; [|discriminate].
  eexists. exists r. eexists. split; [reflexivity|]. split; [exact A|reflexivity].
Qed.

Lemma header_of_bytes_app b y h rest :
  header_of_bytes b = Some (h, rest) -> header_of_bytes (b ++ y) = Some (h, rest ++ y).
Proof.
  unfold header_of_bytes. destruct (take 24 b) as [[x r]|] eqn:E; [|discriminate].
  rewrite (take_app _ _ _ _ y E). intros H.
  do 24 (destruct x as [|? x]; [discriminate|]). destruct x; [|discriminate].
  injection H as <- <-. reflexivity.
Qed.

(* ---- body parsers never panic on a body of the announced length ---- *)
Lemma request_valid_bounds h kr :
  request_valid h kr = true ->
  h_extlen h <= MAX_EXTRAS /\ h_keylen h <= MAX_KEY /\ (kr = true -> h_keylen h <> 0) /\
  h_keylen h + h_extlen h <= h_bodylen h.
Proof.
  unfold request_valid. intros H.
  repeat (apply Bool.andb_true_iff in H; destruct H as [H ?]).
  repeat match goal with H : negb _ = true |- _ => apply Bool.negb_true_iff in H end.
  repeat match goal with H : (_ <? _) = false |- _ => apply N.ltb_ge in H end.
  repeat split; try assumption.
  intros ->. cbn in H1. apply N.eqb_neq in H1. exact H1.
Qed.

Definition not_panic (d : dres) : Prop := d <> DPanic.

Ltac split_ok n b :=
  let x := fresh "x" in let r := fresh "r" in let E := fresh "E" in
  let L := fresh "L" in let A := fresh "A" in
  destruct (split_to_ok n b) as (x & r & E & L & A); [try lia|rewrite E].

Lemma parse_body_no_panic h body : blen body = h_bodylen h -> not_panic (parse_body h body).
Proof.
  intros HB. unfold parse_body, not_panic.
  repeat match goal with |- context[if ?c then _ else _] => destruct c end; try discriminate.
  - unfold parse_get. destruct (request_valid h true) eqn:V; cbn; [|discriminate].
    apply request_valid_bounds in V as (_ & _ & _ & B).
    split_ok (h_keylen h) body. discriminate.
  - unfold parse_append_prepend. destruct (request_valid h true) eqn:V; cbn; [|discriminate].
    apply request_valid_bounds in V as (_ & _ & _ & B).
    split_ok (h_keylen h) body.
    destruct (split_to_ok (value_len h) r) as (x2 & r2 & E2 & L2 & A2).
    { unfold value_len. subst body. rewrite blen_app in HB. lia. }
    rewrite E2. discriminate.
  - unfold parse_set. destruct (request_valid h true) eqn:V; cbn; [|discriminate].
    apply request_valid_bounds in V as (_ & _ & _ & B).
    destruct (blen body <? 8 + h_keylen h + value_len h) eqn:C; [discriminate|]. apply N.ltb_ge in C.
    unfold blen in C, HB.
    destruct (get_n_ok 4 body) as (v1 & r1 & x1 & E1 & A1 & L1); [lia|]. rewrite E1.
    destruct (get_n_ok 4 r1) as (v2 & r2 & x2 & E2 & A2 & L2).
    { subst body. rewrite app_length in C. lia. } rewrite E2.
    destruct (split_to_ok (h_keylen h) r2) as (x3 & r3 & E3 & L3 & A3).
    { subst body r1. rewrite !app_length in C. unfold blen. lia. } rewrite E3.
    destruct (split_to_ok (value_len h) r3) as (x4 & r4 & E4 & L4 & A4).
    { subst body r1 r2. rewrite !app_length in C. unfold blen in *. lia. } rewrite E4.
    repeat match goal with |- context[if ?c then _ else _] => destruct c end; discriminate.
  - unfold parse_delete. destruct (request_valid h true) eqn:V; cbn; [|discriminate].
    apply request_valid_bounds in V as (_ & _ & _ & B).
    split_ok (h_keylen h) body. discriminate.
  - unfold parse_inc_dec. destruct (request_valid h true) eqn:V; cbn; [|discriminate].
    destruct (blen body <? 20 + h_keylen h) eqn:C; [discriminate|]. apply N.ltb_ge in C.
    unfold blen in C.
    destruct (get_n_ok 8 body) as (v1 & r1 & x1 & E1 & A1 & L1); [lia|]. rewrite E1.
    destruct (get_n_ok 8 r1) as (v2 & r2 & x2 & E2 & A2 & L2).
    { subst body. rewrite app_length in C. lia. } rewrite E2.
    destruct (get_n_ok 4 r2) as (v3 & r3 & x3 & E3 & A3 & L3).
    { subst body r1. rewrite !app_length in C. lia. } rewrite E3.
    destruct (split_to_ok (h_keylen h) r3) as (x4 & r4 & E4 & L4 & A4).
    { subst body r1 r2. rewrite !app_length in C. unfold blen. lia. } rewrite E4.
    discriminate.
  - unfold parse_header_only. destruct (request_valid h false); cbn; discriminate.
  - unfold parse_flush. destruct (request_valid h false) eqn:V; cbn; [|discriminate].
    apply request_valid_bounds in V as (_ & _ & _ & B).
    destruct (h_extlen h =? 4) eqn:X; [|discriminate]. apply N.eqb_eq in X.
    destruct (get_n_ok 4 body) as (v1 & r1 & x1 & E1 & A1 & L1); [unfold blen in HB; lia|].
    rewrite E1. discriminate.
Qed.

(* ---- decode never panics ---- *)
Lemma parse_request_no_panic c src :
  h_bodylen (c_hdr c) <= blen src ->
  not_panic (snd (parse_request c src)).
Proof.
  intros H. unfold parse_request, not_panic. destruct (c_state c); cbn; [discriminate|].
  destruct (c_limit c <? h_bodylen (c_hdr c)); cbn; [discriminate|].
  destruct (blen src <? h_bodylen (c_hdr c)) eqn:C; cbn; [discriminate|].
  destruct (split_to_ok (h_bodylen (c_hdr c)) src H) as (x & r & E & L & A). rewrite E. cbn.
  now apply parse_body_no_panic.
Qed.

Lemma decode_body_no_panic c src : not_panic (snd (decode_body c src)).
Proof.
  unfold decode_body, not_panic. destruct (c_limit c <? h_bodylen (c_hdr c)); cbn; [discriminate|].
  destruct (blen src <? h_bodylen (c_hdr c)) eqn:C; cbn; [discriminate|].
  apply N.ltb_ge in C. now apply parse_request_no_panic.
Qed.

Lemma decode_no_panic c src : not_panic (snd (decode c src)).
Proof.
  unfold decode. destruct (c_state c).
  - destruct (blen src <? HEADER_LEN) eqn:C; cbn; [discriminate|]. apply N.ltb_ge in C.
    destruct (header_of_bytes_ok src C) as (h & rest & hb & E & _). rewrite E.
    destruct (negb (header_valid h)); cbn; [discriminate|]. apply decode_body_no_panic.
  - apply decode_body_no_panic.
Qed.

(* ---- the variant of a decoded request agrees with its opcode ---- *)
Lemma is_one_of_in op l : is_one_of op l = true -> In op l.
Proof.
  unfold is_one_of. intros H. apply existsb_exists in H as (x & I & E).
  apply N.eqb_eq in E. now subst.
Qed.

Definition frame_ok (h : header) (d : dres) : Prop :=
  forall r, d = DFrame r -> wf_req r /\ req_header r = h.

Ltac opcode_cases H :=
  apply is_one_of_in in H; cbn [In] in H;
  repeat (destruct H as [H|H]); try contradiction.

Lemma parse_get_wf h body :
  is_one_of (h_opcode h) [cmd_Get; cmd_GetQuiet; cmd_GetKeyQuiet; cmd_GetKey] = true ->
  frame_ok h (parse_get h body).
Proof.
  intros O r. unfold parse_get. destruct (negb (request_valid h true)); [discriminate|].
  destruct (split_to (h_keylen h) body) as [[key rest]|]; [|discriminate].
  opcode_cases O; rewrite <- O; cbn; intros [= <-]; split; cbn; auto.
Qed.

Lemma parse_delete_wf h body :
  is_one_of (h_opcode h) [cmd_Delete; cmd_DeleteQuiet] = true -> frame_ok h (parse_delete h body).
Proof.
  intros O r. unfold parse_delete. destruct (negb (request_valid h true)); [discriminate|].
  destruct (split_to (h_keylen h) body) as [[key rest]|]; [|discriminate].
  opcode_cases O; rewrite <- O; cbn; intros [= <-]; split; cbn; auto.
Qed.

Lemma parse_header_only_wf h body :
  is_one_of (h_opcode h) [cmd_Noop; cmd_Quit; cmd_QuitQuiet; cmd_Stat; cmd_Version] = true ->
  frame_ok h (parse_header_only h body).
Proof.
  intros O r. unfold parse_header_only. destruct (negb (request_valid h false)); [discriminate|].
  opcode_cases O; rewrite <- O; cbn; intros [= <-]; split; cbn; auto.
Qed.

Lemma parse_flush_wf h body :
  is_one_of (h_opcode h) [cmd_Flush; cmd_FlushQuiet] = true -> frame_ok h (parse_flush h body).
Proof.
  intros O r. unfold parse_flush. destruct (negb (request_valid h false)); [discriminate|].
  destruct (h_extlen h =? 4).
  - destruct (get_n 4 body) as [[e rest]|]; [|discriminate].
    opcode_cases O; rewrite <- O; cbn; intros [= <-]; split; cbn; auto.
  - opcode_cases O; rewrite <- O; cbn; intros [= <-]; split; cbn; auto.
Qed.

Lemma parse_append_prepend_wf h body :
  is_one_of (h_opcode h) [cmd_Append; cmd_AppendQuiet; cmd_Prepend; cmd_PrependQuiet] = true ->
  frame_ok h (parse_append_prepend h body).
Proof.
  intros O r. unfold parse_append_prepend. destruct (negb (request_valid h true)); [discriminate|].
  destruct (split_to (h_keylen h) body) as [[key rest]|]; [|discriminate].
  destruct (split_to (value_len h) rest) as [[val rest2]|]; [|discriminate].
  opcode_cases O; rewrite <- O; cbn; intros [= <-]; split; cbn; auto.
Qed.

Lemma parse_inc_dec_wf h body :
  is_one_of (h_opcode h) [cmd_Increment; cmd_Decrement; cmd_IncrementQuiet; cmd_DecrementQuiet] = true ->
  frame_ok h (parse_inc_dec h body).
Proof.
  intros O r. unfold parse_inc_dec. destruct (negb (request_valid h true)); [discriminate|].
  destruct (blen body <? 20 + h_keylen h); [discriminate|].
  destruct (get_n 8 body) as [[d b1]|]; [|discriminate].
  destruct (get_n 8 b1) as [[i b2]|]; [|discriminate].
  destruct (get_n 4 b2) as [[e b3]|]; [|discriminate].
  destruct (split_to (h_keylen h) b3) as [[key b4]|]; [|discriminate].
  opcode_cases O; rewrite <- O; cbn; intros [= <-]; split; cbn; auto.
Qed.

Lemma parse_set_wf h body : frame_ok h (parse_set h body).
Proof.
  intros r. unfold parse_set. destruct (negb (request_valid h true)); [discriminate|].
  destruct (blen body <? 8 + h_keylen h + value_len h); [discriminate|].
  destruct (get_n 4 body) as [[f b1]|]; [|discriminate].
  destruct (get_n 4 b1) as [[e b2]|]; [|discriminate].
  destruct (split_to (h_keylen h) b2) as [[key b3]|]; [|discriminate].
  destruct (split_to (value_len h) b3) as [[val b4]|]; [|discriminate].
  destruct (h_opcode h =? cmd_Set) eqn:E1; [apply N.eqb_eq in E1; intros [= <-]; split; cbn; auto|].
  destruct (h_opcode h =? cmd_SetQuiet) eqn:E2; [apply N.eqb_eq in E2; intros [= <-]; split; cbn; auto|].
  destruct (h_opcode h =? cmd_Add) eqn:E3; [apply N.eqb_eq in E3; intros [= <-]; split; cbn; auto|].
  destruct (h_opcode h =? cmd_AddQuiet) eqn:E4; [apply N.eqb_eq in E4; intros [= <-]; split; cbn; auto|].
  destruct (h_opcode h =? cmd_Replace) eqn:E5; [apply N.eqb_eq in E5; intros [= <-]; split; cbn; auto|].
  destruct (h_opcode h =? cmd_ReplaceQuiet) eqn:E6; [apply N.eqb_eq in E6; intros [= <-]; split; cbn; auto|].
  discriminate.
Qed.

Lemma parse_body_wf h body r : parse_body h body = DFrame r -> wf_req r /\ req_header r = h.
Proof.
  unfold parse_body.
  destruct (negb (from_u8_is_some (h_opcode h))); [discriminate|].
  destruct (is_one_of (h_opcode h) [cmd_Get; cmd_GetQuiet; cmd_GetKeyQuiet; cmd_GetKey]) eqn:O1;
    [now apply parse_get_wf|].
  destruct (is_one_of (h_opcode h) [cmd_Append; cmd_AppendQuiet; cmd_Prepend; cmd_PrependQuiet]) eqn:O2;
    [now apply parse_append_prepend_wf|].
  destruct (is_one_of (h_opcode h) [cmd_Set; cmd_SetQuiet; cmd_Add; cmd_Replace; cmd_AddQuiet; cmd_ReplaceQuiet]) eqn:O3;
    [now apply parse_set_wf|].
  destruct (is_one_of (h_opcode h) [cmd_Delete; cmd_DeleteQuiet]) eqn:O4; [now apply parse_delete_wf|].
  destruct (is_one_of (h_opcode h) [cmd_Increment; cmd_Decrement; cmd_IncrementQuiet; cmd_DecrementQuiet]) eqn:O5;
    [now apply parse_inc_dec_wf|].
  destruct (is_one_of (h_opcode h) [cmd_Noop; cmd_Quit; cmd_QuitQuiet; cmd_Stat; cmd_Version]) eqn:O6;
    [now apply parse_header_only_wf|].
  destruct (is_one_of (h_opcode h) [cmd_Flush; cmd_FlushQuiet]) eqn:O7; [now apply parse_flush_wf|].
  match goal with |- context[if ?c then _ else _] => destruct c end; [|intros HH; discriminate HH].
  intros [= <-]. split; [exact I|reflexivity].
Qed.
