(* PC02.v — proofs for C02: CAS guards against lost updates *)
From MC Require Import Model.Base Model.Generated Model.Store Model.Memc Model.Codec Model.Handler
  Spec.Exec Proofs.StoreLemmas Proofs.SetLemmas Proofs.MemcLemmas Proofs.Effects Proofs.PC06 Proofs.PC01.

(* ------------------------------------------------------------------ *)
(* 1. success iff the CAS matches, for every mutation on a visible item *)

Lemma handle_set h f e k v s :
  handle_request (ReqSet VSet h f e k v) s =
  (fst (set k (mkRec 0 (h_cas h) f e v) s),
   Some (set_response (rh_of h) (snd (set k (mkRec 0 (h_cas h) f e v) s)))).
Proof. cbn [handle_request req_header]. unfold loud, h_set. destruct (set _ _ _). reflexivity. Qed.

Lemma set_cas_iff s k old h f e v :
  plain s -> view s k = Some old -> h_cas h <> 0 ->
  (h_cas h = r_cas old ->
   exists s' c, handle_request (ReqSet VSet h f e k v) s = (s', Some (ok_resp h c)) /\
                stores s s' k (mkRec (s_now s) c f e v)) /\
  (h_cas h <> r_cas old ->
   handle_request (ReqSet VSet h f e k v) s = (s, Some (err_resp h KeyExists))).
Proof.
  intros P V NZ. rewrite handle_set.
  destruct (set_on_live k (mkRec 0 (h_cas h) f e v) s old P V) as [A B]. split.
  - intros M. destruct (A (or_intror M)) as (s' & c & E & _). exists s', c. rewrite E.
    split; [reflexivity|].
    apply (stores_of_set s s k (mkRec 0 (h_cas h) f e v) s' c); auto.
  - intros NM. now rewrite (B NZ NM).
Qed.

Lemma handle_delete h k s :
  handle_request (ReqDelete false h k) s =
  (fst (delete k (h_cas h) s),
   Some (match snd (delete k (h_cas h) s) with
         | ROk _ => RespPlain (rh_of h)
         | RErr e => error_response e (rh_of h)
         end)).
Proof. cbn [handle_request req_header]. unfold loud, h_delete. destruct (delete _ _ _). reflexivity. Qed.

Lemma delete_cas_iff s k old h :
  plain s -> view s k = Some old -> h_cas h <> 0 ->
  (h_cas h = r_cas old ->
   handle_request (ReqDelete false h k) s = (collected s k, Some (RespPlain (rh_of h)))) /\
  (h_cas h <> r_cas old ->
   handle_request (ReqDelete false h k) s = (s, Some (err_resp h KeyExists))).
Proof.
  intros P V NZ. rewrite handle_delete. unfold delete. rewrite (view_lookup s k old V).
  apply N.eqb_neq in NZ. rewrite NZ. cbn [orb]. split.
  - intros M. rewrite M, N.eqb_refl. cbn. rewrite (plain_decr _ _ (plain_with_mem s _ P)). reflexivity.
  - intros NM. assert (r_cas old =? h_cas h = false) as -> by (apply N.eqb_neq; congruence). reflexivity.
Qed.

Definition counter_response (h : header) (c v : N) : response :=
  RespCounter (mkRHdr magic_Response (h_opcode h) 0 0 0 0 8 (h_opaque h) c) v.

Lemma handle_incr h d i e k s :
  handle_request (ReqIncr VIncr h d i e k) s =
  (fst (memc_delta true k (h_cas h) e d i s),
   Some (match snd (memc_delta true k (h_cas h) e d i s) with
         | ROk (c, v) => counter_response h c v
         | RErr er => error_response er (rh_of h)
         end)).
Proof.
  cbn [handle_request req_header]. unfold loud, h_delta.
  destruct (memc_delta _ _ _ _ _ _ _) as [s1 [[c v]|er]]; reflexivity.
Qed.

Lemma handle_decr h d i e k s :
  handle_request (ReqIncr VDecr h d i e k) s =
  (fst (memc_delta false k (h_cas h) e d i s),
   Some (match snd (memc_delta false k (h_cas h) e d i s) with
         | ROk (c, v) => counter_response h c v
         | RErr er => error_response er (rh_of h)
         end)).
Proof.
  cbn [handle_request req_header]. unfold loud, h_delta.
  destruct (memc_delta _ _ _ _ _ _ _) as [s1 [[c v]|er]]; reflexivity.
Qed.

(* incr/decr on a visible numeric item with a non-zero CAS *)
Lemma delta_cas_mismatch incr s k old n hc he d i :
  plain s -> view s k = Some old -> parse_u64 (r_val old) = Some n ->
  hc <> 0 -> hc <> r_cas old ->
  memc_delta incr k hc he d i s = (s, RErr KeyExists).
Proof.
  intros P V PN NZ NM. unfold memc_delta. rewrite (get_hit k s old V), PN.
  match goal with |- context[set k ?r s] =>
    destruct (set_on_live k r s old P V) as [_ B]; rewrite (B NZ NM) end.
  reflexivity.
Qed.

Lemma delta_cas_match incr s k old n hc he d i :
  plain s -> view s k = Some old -> parse_u64 (r_val old) = Some n ->
  (hc = 0 \/ hc = r_cas old) ->
  exists s' c v, memc_delta incr k hc he d i s = (s', ROk (c, v)) /\
    v = (if incr then wrapping_add64 n d else if n <? d then 0 else n - d) /\
    stores s s' k (mkRec (s_now s) c (r_flags old) he (to_dec v)).
Proof.
  intros P V PN HC. unfold memc_delta. rewrite (get_hit k s old V), PN.
  set (v := if incr then wrapping_add64 n d else if n <? d then 0 else n - d).
  destruct (set_on_live k (mkRec 0 hc (r_flags old) he (to_dec v)) s old P V) as [A _].
  destruct (A HC) as (s' & c & E & _). rewrite E. exists s', c, v.
  split; [reflexivity|]. split; [reflexivity|].
  apply (stores_of_set s s k (mkRec 0 hc (r_flags old) he (to_dec v)) s' c); auto.
Qed.

(* ------------------------------------------------------------------ *)
(* 2. freshness: an invariant over histories *)

(* k's physically stored CAS (if any) was issued by the counter before now *)
Definition below (s : store) (k : bytes) : Prop :=
  forall r, lookup k (s_mem s) = Some r -> r_cas r < s_cas s.

(* the counter has not wrapped: fewer than 2^64 stores *)
Definition no_wrap (s : store) : Prop := s_cas s < u64_max.

(* the carve-out of the property: a store carrying a non-zero CAS for a key
   that is not visible begins a lifetime with a client-derived CAS *)
Definition carve (k : bytes) (s : store) (req : request) : Prop :=
  match req with
  | ReqSet _ h _ _ k' _ => k' = k /\ h_cas h <> 0 /\ view s k = None
  | _ => False
  end.

(* what a request does to the key it addresses *)
Inductive own (k : bytes) (s s' : store) : Prop :=
| own_same : lookup k (s_mem s') = lookup k (s_mem s) -> s_cas s' = s_cas s -> own k s s'
| own_none : lookup k (s_mem s') = None -> s_cas s' = s_cas s -> own k s s'
| own_counter r' : lookup k (s_mem s') = Some r' -> r_cas r' = s_cas s ->
                   s_cas s' = add64w (s_cas s) 1 -> own k s s'.

Lemma set_own k r s :
  plain s -> (r_cas r = 0 \/ lookup k (s_mem s) <> None) -> own k s (fst (set k r s)).
Proof.
  intros P H. rewrite (plain_set _ _ _ P).
  pose proof (inner_set_cases k r s) as S. destruct (inner_set k r s) as [s' res].
  inversion S; subst; cbn.
  - eapply own_counter; cbn; [apply lookup_insert_eq|reflexivity|reflexivity].
  - destruct H as [H|H]; [lia|congruence].
  - now apply own_same.
Qed.

Lemma get_own k s : plain s ->
  (fst (get k s) = s) \/
  (view s k = None /\ fst (get k s) = collected s k).
Proof.
  intros P. destruct (view s k) as [r|] eqn:V.
  - left. now rewrite (get_hit k s r V).
  - right. split; [reflexivity|]. now rewrite (plain_get_miss k s P V).
Qed.

Lemma own_after_collect k s s' :
  own k (collected s k) s' -> own k s s' \/ (lookup k (s_mem s') = None /\ s_cas s' = s_cas s).
Proof.
  intros O. inversion O as [L C|L C|r' L C1 C2].
  - right. rewrite L. split; [apply collected_lookup_same|exact C].
  - right. auto.
  - left. eapply own_counter; eauto.
Qed.

Lemma own_collected k s : own k s (collected s k).
Proof. apply own_none; [apply collected_lookup_same|reflexivity]. Qed.

(* every request addressing k, other than the carve-out, is [own] *)
Lemma handle_own req s k :
  plain s -> key_of req = Some k -> ~ carve k s req -> own k s (fst (handle_request req s)).
Proof.
  intros P K NC. rewrite handle_effect.
  destruct req as [v h kk|v h fl ex kk val|v h kk val|q h kk|v h dl ini ex kk|h|h|h|h|q h ex|h|h];
    cbn in K; try discriminate; injection K as K; subst kk; cbn [effect].
  - (* get *) destruct (get_own k s P) as [->|[_ ->]]; [now apply own_same|apply own_collected].
  - (* set / add / replace *)
    cbn in NC.
    assert (SO : forall s1, plain s1 -> (h_cas h = 0 \/ lookup k (s_mem s1) <> None) ->
                 own k s1 (fst (set k (mkRec 0 (h_cas h) fl ex val) s1))).
    { intros s1 P1 H1. apply set_own; auto. }
    assert (CS : h_cas h = 0 \/ lookup k (s_mem s) <> None).
    { destruct (N.eq_dec (h_cas h) 0) as [Z|NZ]; [now left|right].
      intros L. apply NC. repeat split; auto. unfold view. now rewrite L. }
    assert (ADD : own k s (fst (memc_add k (mkRec 0 (h_cas h) fl ex val) s))).
    { unfold memc_add. destruct (view s k) as [r|] eqn:V.
      - rewrite (get_hit k s r V). now apply own_same.
      - rewrite (plain_get_miss k s P V). fold (collected s k).
        destruct (N.eq_dec (h_cas h) 0) as [Z|NZ].
        + destruct (own_after_collect k s _ (SO (collected s k) P (or_introl Z))) as [O|[L C]];
            [exact O|now apply own_none].
        + exfalso. apply NC. auto. }
    assert (REP : own k s (fst (memc_replace k (mkRec 0 (h_cas h) fl ex val) s))).
    { unfold memc_replace. destruct (view s k) as [r|] eqn:V.
      - rewrite (get_hit k s r V). apply SO; [exact P|]. right. rewrite (view_lookup s k r V). discriminate.
      - rewrite (plain_get_miss k s P V). apply own_collected. }
    destruct v; try (apply SO; assumption);
      destruct ((h_opcode h =? cmd_Add) || (h_opcode h =? cmd_AddQuiet)); assumption.
  - (* append / prepend *)
    assert (SO : forall rr, lookup k (s_mem s) <> None -> own k s (fst (set k rr s))).
    { intros rr H1. apply set_own; auto. }
    destruct ((h_opcode h =? cmd_Append) || (h_opcode h =? cmd_AppendQuiet)).
    + unfold memc_append. destruct (view s k) as [r|] eqn:V.
      * rewrite (get_hit k s r V). apply SO. rewrite (view_lookup s k r V). discriminate.
      * rewrite (plain_get_miss k s P V). apply own_collected.
    + unfold memc_prepend. destruct (view s k) as [r|] eqn:V.
      * rewrite (get_hit k s r V). apply SO. rewrite (view_lookup s k r V). discriminate.
      * rewrite (plain_get_miss k s P V). apply own_collected.
  - (* delete *)
    unfold delete. destruct (lookup k (s_mem s)) as [r|] eqn:L; [|now apply own_same].
    destruct ((h_cas h =? 0) || (r_cas r =? h_cas h)); [|now apply own_same].
    cbn. rewrite (plain_decr _ _ (plain_with_mem s _ P)). apply own_collected.
  - (* incr / decr *)
    assert (D : forall i, own k s (fst (memc_delta i k (h_cas h) ex dl ini s))).
    { intros i. unfold memc_delta. destruct (view s k) as [r|] eqn:V.
      - rewrite (get_hit k s r V). destruct (parse_u64 (r_val r)); [|now apply own_same].
        match goal with |- context[set k ?rr s] =>
          assert (O : own k s (fst (set k rr s)))
            by (apply set_own; [exact P|right; rewrite (view_lookup s k r V); discriminate]);
          destruct (set k rr s) as [s2 [c|e]] end; exact O.
      - rewrite (plain_get_miss k s P V). fold (collected s k).
        destruct (ex =? u32_max); [apply own_collected|].
        match goal with |- context[set k ?rr (collected s k)] =>
          assert (O : own k (collected s k) (fst (set k rr (collected s k))))
            by (apply set_own; [exact P|left; reflexivity]);
          destruct (set k rr (collected s k)) as [s2 [c|e]] end;
        cbn in O |- *; (destruct (own_after_collect k s _ O) as [O'|[L C]]; [exact O'|now apply own_none]). }
    destruct v; apply D.
Qed.

Lemma add64w_succ c : c < u64_max -> add64w c 1 = c + 1.
Proof. intros H. unfold add64w. apply N.mod_small. unfold u64_max, two64 in *. lia. Qed.

(* the token invariant: the client's token [c] was read together with (v, f);
   as long as the item still carries CAS c it still holds (v, f); any other CAS
   it carries is larger than c *)
Definition tok_ok (c : N) (v : bytes) (f : N) (s : store) (k : bytes) : Prop :=
  c < s_cas s /\
  match lookup k (s_mem s) with
  | None => True
  | Some r => (r_cas r = c /\ r_val r = v /\ r_flags r = f) \/ c < r_cas r
  end.

Definition safe_cmd (k : bytes) (s : store) (c : cmd) : Prop :=
  no_wrap s /\ match c with CReq req => ~ carve k s req | CTick _ => True end.

Fixpoint safe_hist (k : bytes) (s : store) (cs : list cmd) : Prop :=
  match cs with
  | [] => True
  | c :: t => safe_cmd k s c /\ safe_hist k (exec s c) t
  end.

Lemma flush_record_keeps now d r :
  r_cas (flush_record now d r) = r_cas r /\ r_val (flush_record now d r) = r_val r /\
  r_flags (flush_record now d r) = r_flags r.
Proof. unfold flush_record. destruct ((r_ttl r =? 0) || (now + d <? r_ts r + r_ttl r)); auto. Qed.

Lemma tok_step c v f s k cm :
  plain s -> safe_cmd k s cm -> tok_ok c v f s k -> tok_ok c v f (exec s cm) k.
Proof.
  intros P [NW SC] [TC TL]. destruct cm as [req|d]; [|exact (conj TC TL)].
  cbn [exec]. destruct (key_of req) as [k2|] eqn:K.
  - destruct (bytes_eqb k2 k) eqn:E.
    + apply bytes_eqb_eq in E. subst k2.
      pose proof (handle_own req s k P K SC) as O.
      inversion O as [L C|L C|r' L C1 C2]; unfold tok_ok.
      * rewrite L, C. auto.
      * rewrite L, C. auto.
      * rewrite L, C2, (add64w_succ _ NW). split; [lia|]. right. lia.
    + apply bytes_eqb_neq in E.
      destruct (handle_only_at req s k2 P K) as [Fr _ _ Cs]. unfold tok_ok.
      rewrite Fr by congruence. split; [|exact TL].
      destruct Cs as [->| ->]; [exact TC|]. rewrite (add64w_succ _ NW). lia.
  - destruct (is_flush req) eqn:F.
    + destruct req; try discriminate. rewrite handle_flush. unfold tok_ok.
      rewrite flush_cas, (flush_lookup _ _ _ P). split; [exact TC|].
      destruct (0 <? exp); [|exact I].
      destruct (lookup k (s_mem s)) as [r|]; [|exact I]. cbn.
      destruct (flush_record_keeps (s_now s) exp r) as (-> & -> & ->). exact TL.
    + rewrite handle_keyless by assumption. exact (conj TC TL).
Qed.

Lemma tok_run c v f k cs : forall s,
  plain s -> safe_hist k s cs -> tok_ok c v f s k -> tok_ok c v f (run s cs) k.
Proof.
  induction cs as [|cm cs IH]; intros s P SH T; [exact T|].
  destruct SH as [SC SH]. cbn [run fold_left]. fold (run (exec s cm) cs).
  apply IH; [now apply exec_plain|exact SH|now apply tok_step].
Qed.

(* no lost update: the client read (value, flags, cas) of k; after any history
   without the carve-out on k, a mutation carrying that cas is accepted against
   the visible item only if the item still holds what the client read *)
Lemma no_lost_update s k r0 cs cur :
  plain s -> view s k = Some r0 -> below s k -> safe_hist k s cs ->
  view (run s cs) k = Some cur -> r_cas cur = r_cas r0 ->
  r_val cur = r_val r0 /\ r_flags cur = r_flags r0.
Proof.
  intros P V B SH VC EC.
  assert (T0 : tok_ok (r_cas r0) (r_val r0) (r_flags r0) s k).
  { split; [apply B; now apply view_lookup|]. rewrite (view_lookup s k r0 V). left. auto. }
  pose proof (tok_run _ _ _ k cs s P SH T0) as [_ T].
  rewrite (view_lookup _ k cur VC) in T. destruct T as [(_ & A & B')|L]; [auto|lia].
Qed.

(* below is an invariant of histories without the carve-out *)
Lemma below_step s k cm : plain s -> safe_cmd k s cm -> below s k -> below (exec s cm) k.
Proof.
  intros P [NW SC] B. destruct cm as [req|d]; [|exact B].
  cbn [exec]. unfold below. destruct (key_of req) as [k2|] eqn:K.
  - destruct (bytes_eqb k2 k) eqn:E.
    + apply bytes_eqb_eq in E. subst k2.
      pose proof (handle_own req s k P K SC) as O.
      inversion O as [L C|L C|r' L C1 C2]; intros r Hr.
      * rewrite L in Hr. rewrite C. now apply B.
      * congruence.
      * rewrite L in Hr. injection Hr as <-. rewrite C2, (add64w_succ _ NW). lia.
    + apply bytes_eqb_neq in E.
      destruct (handle_only_at req s k2 P K) as [Fr _ _ Cs]. intros r Hr.
      rewrite Fr in Hr by congruence. apply B in Hr.
      destruct Cs as [->| ->]; [exact Hr|]. rewrite (add64w_succ _ NW). lia.
  - destruct (is_flush req) eqn:F.
    + destruct req; try discriminate. rewrite handle_flush. intros r Hr.
      rewrite flush_cas. rewrite (flush_lookup _ _ _ P) in Hr.
      destruct (0 <? exp); [|discriminate].
      destruct (lookup k (s_mem s)) as [r1|] eqn:L; [|discriminate]. cbn in Hr. injection Hr as <-.
      destruct (flush_record_keeps (s_now s) exp r1) as (-> & _). now apply B.
    + rewrite handle_keyless by assumption. exact B.
Qed.

(* a successful mutation of a visible item installs the counter value, which is
   larger than every CAS the key has carried while [below] held *)
Lemma new_cas_fresh s k old req r' :
  plain s -> no_wrap s -> below s k -> view s k = Some old ->
  key_of req = Some k ->
  lookup k (s_mem (exec s (CReq req))) = Some r' -> r_cas r' <> r_cas old ->
  r_cas r' = s_cas s /\ r_cas old < r_cas r' /\ below (exec s (CReq req)) k.
Proof.
  intros P NW B V K L NE.
  assert (NC : ~ carve k s req).
  { destruct req; cbn; try tauto. intros (_ & _ & VN). congruence. }
  pose proof (below_step s k (CReq req) P (conj NW NC) B) as B'.
  pose proof (handle_own req s k P K NC) as O. cbn [exec] in L.
  inversion O as [L2 C|L2 C|r2 L2 C1 C2].
  - rewrite L2, (view_lookup s k old V) in L. injection L as <-. congruence.
  - congruence.
  - rewrite L2 in L. injection L as <-. split; [exact C1|]. split; [|exact B'].
    rewrite C1. apply B. now apply view_lookup.
Qed.

(* the wire status of an error response is the error's code *)
Definition err_resp_status_is_2 : Prop :=
  forall h, rh_status (resp_header (err_resp h KeyExists)) = 2.
Lemma err_resp_status_2 : err_resp_status_is_2.
Proof. intros h. reflexivity. Qed.
