(* PBody.v — what the body parsers of the decoder read, and in which order, is what the
   translator finds in the source (src_body_reads_* of Generated.v: the get_uN / split_to
   calls of each parser in the order they are executed, with the field each result goes
   into). A generic reader interprets such a list on the body; each model parser is that
   reader on the source's list, behind the guards proved elsewhere (request_valid,
   required lengths). Conditional on [src_body_reads_X_ok = true] as everywhere. *)
From Coq Require Import ZArith.
From MC Require Import Model.RustInt Model.Base Model.Generated Model.Codec Proofs.PGuards.

Inductive bval := BN (n : N) | BB (b : bytes).

Fixpoint read_body (h : header) (l : list (N * bread)) (b : bytes) : option (list (N * bval)) :=
  match l with
  | [] => Some []
  | (id, rd) :: r =>
      let one :=
        match rd with
        | RdU w => match get_n w b with Some (n, rest) => Some (BN n, rest) | None => None end
        | RdKey => match split_to (h_keylen h) b with Some (x, rest) => Some (BB x, rest) | None => None end
        | RdValue => match split_to (value_len h) b with Some (x, rest) => Some (BB x, rest) | None => None end
        end in
      match one with
      | None => None
      | Some (v, rest) =>
          match read_body h r rest with
          | None => None
          | Some vs => Some ((id, v) :: vs)
          end
      end
  end.

Definition bnum (id : N) (vs : list (N * bval)) : N :=
  match find (fun p => fst p =? id) vs with Some (_, BN n) => n | _ => 0 end.
Definition bbytes (id : N) (vs : list (N * bval)) : bytes :=
  match find (fun p => fst p =? id) vs with Some (_, BB b) => b | _ => [] end.

(* the request each parser builds from the fields read (its dispatch on the opcode) *)
Definition set_frame (h : header) (flags exp : N) (key value : bytes) : dres :=
  let op := h_opcode h in
  if op =? cmd_Set then DFrame (ReqSet VSet h flags exp key value)
  else if op =? cmd_SetQuiet then DFrame (ReqSet VSetQ h flags exp key value)
  else if op =? cmd_Add then DFrame (ReqSet VAdd h flags exp key value)
  else if op =? cmd_AddQuiet then DFrame (ReqSet VAddQ h flags exp key value)
  else if op =? cmd_Replace then DFrame (ReqSet VReplace h flags exp key value)
  else if op =? cmd_ReplaceQuiet then DFrame (ReqSet VReplaceQ h flags exp key value)
  else DError EInvalidData.

Definition incdec_frame (h : header) (delta initial exp : N) (key : bytes) : dres :=
  let op := h_opcode h in
  DFrame (ReqIncr (if op =? cmd_Increment then VIncr else if op =? cmd_IncrementQuiet then VIncrQ
                   else if op =? cmd_Decrement then VDecr else VDecrQ) h delta initial exp key).

Definition append_frame (h : header) (key value : bytes) : dres :=
  let op := h_opcode h in
  DFrame (ReqAppend (if op =? cmd_Append then VAppend else if op =? cmd_AppendQuiet then VAppendQ
                     else if op =? cmd_Prepend then VPrepend else VPrependQ) h key value).

Definition get_frame (h : header) (key : bytes) : dres :=
  let op := h_opcode h in
  DFrame (ReqGet (if op =? cmd_Get then VGet else if op =? cmd_GetQuiet then VGetQ
                  else if op =? cmd_GetKey then VGetK else VGetKQ) h key).

Definition delete_frame (h : header) (key : bytes) : dres :=
  DFrame (ReqDelete (negb (h_opcode h =? cmd_Delete)) h key).

Ltac reads :=
  repeat match goal with
         | |- context[match get_n ?w ?b with _ => _ end] => destruct (get_n w b) as [[? ?]|]; [|reflexivity]
         | |- context[match split_to ?n ?b with _ => _ end] => destruct (split_to n b) as [[? ?]|]; [|reflexivity]
         end.

Lemma set_body_is_source : src_body_reads_set_ok = true -> forall h body,
  parse_set h body =
  if negb (request_valid h true) then DError EInvalidData else
  if blen body <? 8 + h_keylen h + value_len h then DError EInvalidData else
  match read_body h src_body_reads_set body with
  | None => DPanic
  | Some vs => set_frame h (bnum 1 vs) (bnum 2 vs) (bbytes 3 vs) (bbytes 4 vs)
  end.
Proof.
  intros Hok h body. unfold src_body_reads_set_ok in Hok.
  gated Hok (unfold parse_set, src_body_reads_set, set_frame;
    destruct (negb (request_valid h true)); [reflexivity|];
    destruct (blen body <? 8 + h_keylen h + value_len h); [reflexivity|];
    cbn [read_body]; reads; reflexivity).
Qed.

Lemma incdec_body_is_source : src_body_reads_incdec_ok = true -> forall h body,
  parse_inc_dec h body =
  if negb (request_valid h true) then DError EInvalidData else
  if blen body <? 20 + h_keylen h then DError EInvalidData else
  match read_body h src_body_reads_incdec body with
  | None => DPanic
  | Some vs => incdec_frame h (bnum 5 vs) (bnum 6 vs) (bnum 2 vs) (bbytes 3 vs)
  end.
Proof.
  intros Hok h body. unfold src_body_reads_incdec_ok in Hok.
  gated Hok (unfold parse_inc_dec, src_body_reads_incdec, incdec_frame;
    destruct (negb (request_valid h true)); [reflexivity|];
    destruct (blen body <? 20 + h_keylen h); [reflexivity|];
    cbn [read_body]; reads; reflexivity).
Qed.

Lemma append_body_is_source : src_body_reads_append_ok = true -> forall h body,
  parse_append_prepend h body =
  if negb (request_valid h true) then DError EInvalidData else
  match read_body h src_body_reads_append body with
  | None => DPanic
  | Some vs => append_frame h (bbytes 3 vs) (bbytes 4 vs)
  end.
Proof.
  intros Hok h body. unfold src_body_reads_append_ok in Hok.
  gated Hok (unfold parse_append_prepend, src_body_reads_append, append_frame;
    destruct (negb (request_valid h true)); [reflexivity|];
    cbn [read_body]; reads; reflexivity).
Qed.

Lemma get_body_is_source : src_body_reads_get_ok = true -> forall h body,
  parse_get h body =
  if negb (request_valid h true) then DError EInvalidData else
  match read_body h src_body_reads_get body with
  | None => DPanic
  | Some vs => get_frame h (bbytes 3 vs)
  end.
Proof.
  intros Hok h body. unfold src_body_reads_get_ok in Hok.
  gated Hok (unfold parse_get, src_body_reads_get, get_frame;
    destruct (negb (request_valid h true)); [reflexivity|];
    cbn [read_body]; reads; reflexivity).
Qed.

Lemma delete_body_is_source : src_body_reads_delete_ok = true -> forall h body,
  parse_delete h body =
  if negb (request_valid h true) then DError EInvalidData else
  match read_body h src_body_reads_delete body with
  | None => DPanic
  | Some vs => delete_frame h (bbytes 3 vs)
  end.
Proof.
  intros Hok h body. unfold src_body_reads_delete_ok in Hok.
  gated Hok (unfold parse_delete, src_body_reads_delete, delete_frame;
    destruct (negb (request_valid h true)); [reflexivity|];
    cbn [read_body]; reads; reflexivity).
Qed.

(* the reader is not vacuous: a set body of 8 + 1 + 2 bytes *)
Example read_body_example :
  read_body (mkHdr 128 1 1 8 0 0 11 0 0) src_body_reads_set
            (map n2b [0;0;0;7; 0;0;0;9; 107; 118;119]) =
  (if src_body_reads_set_ok
   then Some [(1, BN 7); (2, BN 9); (3, BB [n2b 107]); (4, BB (map n2b [118;119]))]
   else Some []).
Proof. vm_compute. reflexivity. Qed.

(* ---- the encoder: what is written behind the response header ----------------- *)
Definition resp_group (r : response) : N :=
  match r with
  | RespError _ _ => 1 | RespGet _ _ _ _ => 2 | RespPlain _ => 3 | RespQuit _ => 4
  | RespVersion _ _ => 5 | RespCounter _ _ => 6
  end.

(* the fields of a response: 1 error text, 2 flags, 3 key, 4 value, 5 version, 6 counter *)
Definition resp_num (r : response) (id : N) : N :=
  match r with
  | RespGet _ f _ _ => if id =? 2 then f else 0
  | RespCounter _ v => if id =? 6 then v else 0
  | _ => 0
  end.
Definition resp_bytes (r : response) (id : N) : bytes :=
  match r with
  | RespError _ m => if id =? 1 then m else []
  | RespGet _ _ k v => if id =? 3 then k else if id =? 4 then v else []
  | RespVersion _ v => if id =? 5 then v else []
  | _ => []
  end.

Definition write_fields (ws : list (N * bwrite)) (r : response) : bytes :=
  flat_map (fun p => match snd p with
                     | WrU w => be_enc w (resp_num r (fst p))
                     | WrBytes => resp_bytes r (fst p)
                     end) ws.

Definition writes_of (g : N) (t : list (N * list (N * bwrite))) : list (N * bwrite) :=
  match find (fun p => fst p =? g) t with Some p => snd p | None => [] end.

Ltac enc_solve :=
  let r := fresh "r" in
  intro r; destruct r; unfold encode; f_equal;
  cbv [resp_group writes_of find fst snd N.eqb Pos.eqb write_fields flat_map resp_num resp_bytes be32 be64];
  rewrite ?app_nil_r; reflexivity.

Lemma encode_data_is_source : src_encode_data_ok = true ->
  forall r, encode r = encode_rheader (resp_header r) ++ write_fields (writes_of (resp_group r) src_encode_data) r.
Proof.
  intros Hok. unfold src_encode_data_ok in Hok.
  gated Hok (unfold src_encode_data; enc_solve).
Qed.

Lemma write_data_is_source : src_write_data_ok = true ->
  forall r, encode r = encode_rheader (resp_header r) ++ write_fields (writes_of (resp_group r) src_write_data) r.
Proof.
  intros Hok. unfold src_write_data_ok in Hok.
  gated Hok (unfold src_write_data; enc_solve).
Qed.

(* ---- the flush parser (one read, under a test of the extras length) and the
   header-only parser (no read at all) ------------------------------------------ *)
Lemma flush_body_is_source : src_flush_read_ok = true -> forall h body,
  parse_flush h body =
  if negb (request_valid h false) then DError EInvalidData else
  if h_extlen h =? fst src_flush_read then
    match get_n (snd src_flush_read) body with
    | None => DPanic
    | Some (exp, _) => DFrame (ReqFlush (negb (h_opcode h =? cmd_Flush)) h exp)
    end
  else DFrame (ReqFlush (negb (h_opcode h =? cmd_Flush)) h 0).
Proof.
  intros Hok h body. unfold src_flush_read_ok in Hok.
  gated Hok (unfold parse_flush, src_flush_read; cbn [fst snd]; reflexivity).
Qed.

Lemma header_only_reads_nothing : src_header_only_reads_nothing = true ->
  forall h b1 b2, parse_header_only h b1 = parse_header_only h b2.
Proof. intros _ h b1 b2. reflexivity. Qed.

(* ---- the skeleton of Decoder::decode ------------------------------------------ *)
Fixpoint run_steps (steps : list dstep) (c : codec) (src : bytes) : codec * bytes * dres :=
  match steps with
  | [] => (c, src, DError EOther)
  | StHeader :: r =>
      match c_state c with
      | PNone =>
          if blen src <? HEADER_LEN then (c, src, DNeedMore)
          else
            match header_of_bytes src with
            | None => (c, src, DPanic)
            | Some (h, rest) =>
                let c1 := mkCodec h PHeaderParsed (c_limit c) in
                if negb (header_valid h) then (c1, rest, DError EInvalidData)
                else run_steps r c1 rest
            end
      | PHeaderParsed => run_steps r c src
      end
  | StTooLarge :: r =>
      if c_limit c <? h_bodylen (c_hdr c) then (init_parser c, src, DFrame (ReqTooLarge (c_hdr c)))
      else run_steps r c src
  | StNeedMore :: r =>
      if blen src <? h_bodylen (c_hdr c) then (c, src, DNeedMore)
      else run_steps r c src
  | StParse :: _ => parse_request c src
  end.

Lemma decode_steps_are_source : src_decode_steps_ok = true ->
  forall c src, decode c src = run_steps src_decode_steps c src.
Proof.
  intros Hok c src. unfold src_decode_steps_ok in Hok.
  gated Hok (unfold decode, decode_body, src_decode_steps; cbn [run_steps];
    destruct (c_state c); [|reflexivity];
    destruct (blen src <? HEADER_LEN); [reflexivity|];
    destruct (header_of_bytes src) as [[h rest]|]; reflexivity).
Qed.
