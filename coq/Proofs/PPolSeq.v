(* PPolSeq.v — the policy's concurrent programs (Model/PolConc.v), run without
   interleaving, are the sequential functions of Model/Store.v: the two models of
   memcache/random_policy.rs describe the same code. Stated for stores with exact
   accounting ([acct]: keys unique, counter = stored bytes < 2^64), which every
   sequentially reachable store has (C15_accounting_exact); for [set] on a store
   whose usage is within the limit (no eviction: there the two oracles — victims
   there, keys accepted per scan here — have nothing to say). *)
From Coq Require Import ZArith Lia.
From MC Require Import Model.Base Model.Generated Model.Store Model.PolConc
  Proofs.StoreLemmas Proofs.SetLemmas Proofs.PPolicy.

Section PPolSeq.
Variable L : N.

Definition pshared_of (s : store) (o : list (list bytes)) : pshared :=
  mkP (s_mem s) (s_cas s) (Z.of_N (s_usage s)) o.

Notation run now p s := (grun (pact now) p s).

Ltac simp :=
  repeat (cbn [grun pact with_pmem with_pusage p_mem p_cas p_usage p_oracle fst snd next_cas
               s_cas s_mem with_mem s_usage with_usage s_now s_limit s_oracle];
          repeat match goal with
                 | H : ?x = _ |- context[match ?x with _ => _ end] => rewrite H
                 end);
  unfold pshared_of, with_pusage, with_pmem;
  cbn [s_cas s_mem with_mem s_usage with_usage s_now s_limit s_oracle fst snd p_mem p_cas p_usage p_oracle].

Lemma usage_sub_exact s r k :
  acct s -> s_limit s = Some L -> lookup k (s_mem s) = Some r ->
  (Z.of_N (s_usage s) - Z.of_N (rec_len r))%Z = Z.of_N (sub64w (s_usage s) (rec_len r)).
Proof.
  intros [ND EX SM] EL Hl. pose proof (EX L EL) as U.
  pose proof (lookup_len_le k r (s_mem s) ND Hl) as LE.
  rewrite sub64w_exact by lia. lia.
Qed.

(* RandomPolicy::get *)
Lemma pget_seq k s o :
  acct s -> s_limit s = Some L ->
  run (s_now s) (pget_prog (s_now s) k) (pshared_of s o) =
  (pshared_of (fst (get k s)) o, PGetR (snd (get k s))).
Proof.
  intros A EL. unfold pget_prog, get, pshared_of. cbn [grun pact p_mem].
  destruct (lookup k (s_mem s)) as [r|] eqn:Hl; [|reflexivity].
  destruct (expired (s_now s) r) eqn:E; [|reflexivity].
  cbn [grun pact p_mem]. rewrite Hl, E. cbn [grun pact with_pmem with_pusage p_mem p_cas p_usage p_oracle fst snd].
  unfold decr_usage. cbn [s_limit with_mem]. rewrite EL. unfold with_pusage, with_pmem.
  cbn [s_mem s_cas s_usage with_usage with_mem p_mem p_cas p_usage p_oracle].
  rewrite (usage_sub_exact s r k A EL Hl). reflexivity.
Qed.

(* RandomPolicy::delete *)
Lemma pdel_seq now k c s o :
  acct s -> s_limit s = Some L ->
  run now (pdel_prog k c) (pshared_of s o) =
  (pshared_of (fst (delete k c s)) o, PDelR (snd (delete k c s))).
Proof.
  intros A EL. unfold pdel_prog, delete, pshared_of. cbn [grun pact p_mem].
  destruct (lookup k (s_mem s)) as [r|] eqn:Hl; [|reflexivity].
  destruct ((c =? 0) || (r_cas r =? c)); [|reflexivity].
  cbn [grun pact with_pmem with_pusage p_mem p_cas p_usage p_oracle fst snd].
  unfold decr_usage. cbn [s_limit with_mem]. rewrite EL. unfold with_pusage, with_pmem.
  cbn [s_mem s_cas s_usage with_usage with_mem p_mem p_cas p_usage p_oracle fst snd].
  rewrite (usage_sub_exact s r k A EL Hl). reflexivity.
Qed.

(* RandomPolicy::flush with a delay *)
Lemma pflush_delay_seq d s o :
  0 < d ->
  run (s_now s) (pflush_prog d) (pshared_of s o) = (pshared_of (flush d s) o, PFlushR).
Proof.
  intros Hd. unfold pflush_prog, flush. apply N.ltb_lt in Hd. rewrite Hd.
  reflexivity.
Qed.

(* the eviction loop leaves at once when the usage is within the limit *)
Lemma evict_within now limit f (k : bool -> gprog paction presult pores) s :
  (limit <? p_usage s)%Z = false ->
  run now (evict_prog limit (S f) k) s = run now (k true) s.
Proof. intros Q. cbn [evict_prog grun pact]. rewrite Q. reflexivity. Qed.

(* RandomPolicy::set while the usage is within the limit *)
Lemma pset_seq limit k r s o :
  acct s -> s_limit s = Some L -> limit = Z.of_N L -> s_usage s <= L ->
  total (s_mem s) + rec_len r < two64 ->
  run (s_now s) (pset_prog (s_now s) limit k r) (pshared_of s o) =
  (pshared_of (fst (set k r s)) o, PSetR (snd (set k r s))).
Proof.
  intros A EL -> HP Hroom. pose proof A as [ND EX SM]. pose proof (EX L EL) as U.
  unfold pset_prog, set. rewrite EL. rewrite evict_no_pressure by assumption.
  assert ((Z.of_N L <? Z.of_N (s_usage s))%Z = false) as Q by (apply Z.ltb_ge; lia).
  replace EVICT_FUEL with (S (Nat.pred EVICT_FUEL)) by (vm_compute; reflexivity).
  rewrite evict_within by exact Q.
  unfold pshared_of. cbn [grun pact with_pusage p_mem p_cas p_usage p_oracle].
  unfold inner_set_prog, inner_set. unfold with_pusage. cbn [p_mem p_cas p_usage p_oracle].
  destruct (0 <? r_cas r) eqn:C.
  - (* compare and store *)
    destruct (lookup k (s_mem s)) as [old|] eqn:Hl.
    + pose proof (lookup_len_le k old (s_mem s) ND Hl) as LE.
      destruct (r_cas old =? r_cas r) eqn:Ec; simp.
      * rewrite (add64w_exact (s_usage s) (rec_len r)) by lia. rewrite sub64w_exact by lia. f_equal. f_equal. lia.
      * f_equal. f_equal. lia.
    + simp. rewrite (add64w_exact (s_usage s) (rec_len r)) by lia. rewrite sub64w_exact by lia. f_equal. f_equal. lia.
  - (* draw a CAS, insert *)
    destruct (lookup k (s_mem s)) as [old|] eqn:Hl; simp.
    + pose proof (lookup_len_le k old (s_mem s) ND Hl) as LE.
      rewrite (add64w_exact (s_usage s) (rec_len r)) by lia. rewrite sub64w_exact by lia. f_equal. f_equal. lia.
    + rewrite (add64w_exact (s_usage s) (rec_len r)) by lia. rewrite sub64w_exact by lia. f_equal. f_equal. lia.
Qed.

End PPolSeq.
