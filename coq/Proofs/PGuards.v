(* PGuards.v — the guards and the arithmetic the translator reads out of the source
   (the src_ definitions of Generated.v) are the ones the model computes with, for all field values.
   Each statement is conditional on [src_X_ok = true] (the translator recognised the
   shape of X); the proofs do not depend on how the source spells the test, only on
   what it evaluates to: they unfold the Rust-expression combinators, split on every
   comparison and close the cases by linear arithmetic. *)
From Coq Require Import ZArith ZifyBool ZifyN.
From MC Require Import Model.RustInt Model.Base Model.Generated Model.Store Model.Memc Model.Codec Model.Handler Proofs.Decimal Proofs.PC07.

Ltac Zify.zify_post_hook ::= Z.div_mod_to_equations.

Ltac pow2 :=
  repeat match goal with
         | |- context[2 ^ ?b] => let v := eval vm_compute in (2 ^ b) in change (2 ^ b) with v
         end.

Ltac rs_unfold :=
  unfold rbind, rguard, rif, rand, ror, rnot, rcmp, rcast, radd, rsub, rmul, rwrapping_add, rwrapping_sub,
    rsaturating_sub, rsaturating_add, rmax, rmin, nneqb, ngtb, ngeb;
  pow2.

Ltac split_cmp :=
  repeat match goal with
         | |- context[N.ltb ?a ?b] => destruct (N.ltb_spec a b)
         | |- context[N.leb ?a ?b] => destruct (N.leb_spec a b)
         | |- context[N.eqb ?a ?b] => destruct (N.eqb_spec a b)
         end.

Ltac rs_solve :=
  rs_unfold; split_cmp; cbn [negb andb orb]; try reflexivity; try (exfalso; lia); try (f_equal; lia).

Tactic Notation "gated" hyp(H) tactic(t) := first [ discriminate H | (clear H; t) ].

(* ---- the ranges of the header fields: what 1, 2 and 4 bytes can hold ---------- *)
Definition header_in_range (h : header) : Prop :=
  h_magic h < 256 /\ h_opcode h < 256 /\ h_keylen h < 65536 /\ h_extlen h < 256 /\
  h_dtype h < 256 /\ h_bodylen h < 4294967296.

Lemma be_acc_lt l : forall acc bound, acc < bound -> be_acc acc l < bound * 256 ^ N.of_nat (length l).
Proof.
  induction l as [|b t IH]; intros acc bound H; cbn [be_acc length].
  - change (256 ^ N.of_nat 0) with 1. lia.
  - rewrite Nat2N.inj_succ, N.pow_succ_r'.
    replace (bound * (256 * 256 ^ N.of_nat (length t))) with ((bound * 256) * 256 ^ N.of_nat (length t)) by lia.
    apply IH. pose proof (b2n_lt b). lia.
Qed.

Lemma be_dec_lt l : be_dec l < 256 ^ N.of_nat (length l).
Proof. unfold be_dec. pose proof (be_acc_lt l 0 1 ltac:(lia)) as H. lia. Qed.

Lemma header_of_bytes_in_range b h rest : header_of_bytes b = Some (h, rest) -> header_in_range h.
Proof.
  unfold header_of_bytes. destruct (take 24 b) as [[hd r]|]; [|discriminate].
  do 24 (destruct hd as [|? hd]; [discriminate|]). destruct hd; [|discriminate].
  intros H; injection H as <- _. unfold header_in_range; cbn [h_magic h_opcode h_keylen h_extlen h_dtype h_bodylen].
  repeat split; try apply b2n_lt.
  - exact (be_dec_lt [_; _]).
  - exact (be_dec_lt [_; _; _; _]).
Qed.

(* ---- header_valid / request_valid ---------------------------------------- *)
Lemma header_valid_is_source :
  src_header_valid_ok = true ->
  forall h, header_in_range h ->
  src_header_valid (h_magic h) (h_opcode h) (h_dtype h) = Some (header_valid h).
Proof.
  intros Hok h R. unfold src_header_valid_ok in Hok.
  gated Hok (unfold src_header_valid, header_valid, magic_Request, cmd_OpCodeMax, dtype_RawBytes;
    destruct h as [mg op kl el dt vb bl oq cs]; unfold header_in_range in R;
    cbn [h_magic h_opcode h_dtype h_keylen h_extlen h_bodylen] in *;
    rs_solve).
Qed.

Lemma request_valid_is_source :
  src_request_valid_ok = true ->
  forall h kr, header_in_range h ->
  src_request_valid (h_extlen h) (h_keylen h) (h_bodylen h) kr = Some (request_valid h kr).
Proof.
  intros Hok h kr R. unfold src_request_valid_ok in Hok.
  gated Hok (unfold src_request_valid, request_valid, MAX_EXTRAS, MAX_KEY;
    destruct h as [mg op kl el dt vb bl oq cs]; unfold header_in_range in R;
    cbn [h_magic h_opcode h_dtype h_keylen h_extlen h_bodylen] in *;
    destruct kr; rs_solve).
Qed.

(* ---- lengths ----------------------------------------------------------------- *)
Lemma value_len_is_source :
  src_value_len_ok = true ->
  forall h kr, header_in_range h -> request_valid h kr = true ->
  src_value_len (h_bodylen h) (h_keylen h) (h_extlen h) = Some (value_len h).
Proof.
  intros Hok h kr R V. unfold src_value_len_ok in Hok.
  gated Hok (unfold src_value_len, value_len; unfold request_valid, MAX_EXTRAS, MAX_KEY in V;
    destruct h as [mg op kl el dt vb bl oq cs]; unfold header_in_range in R;
    cbn [h_magic h_opcode h_dtype h_keylen h_extlen h_bodylen] in *;
    repeat (apply Bool.andb_true_iff in V; destruct V as [V ?]);
    repeat match goal with H : negb _ = true |- _ => apply Bool.negb_true_iff in H end;
    repeat match goal with
           | H : N.ltb _ _ = false |- _ => apply N.ltb_ge in H
           | H : N.ltb _ _ = true |- _ => apply N.ltb_lt in H
           end;
    rs_solve).
Qed.

Lemma incdec_required_is_source :
  src_incdec_required_ok = true ->
  forall h, header_in_range h -> src_incdec_required (h_keylen h) = Some (20 + h_keylen h).
Proof.
  intros Hok h R. unfold src_incdec_required_ok in Hok.
  gated Hok (unfold src_incdec_required;
    destruct h as [mg op kl el dt vb bl oq cs]; unfold header_in_range in R;
    cbn [h_magic h_opcode h_dtype h_keylen h_extlen h_bodylen] in *;
    rs_solve).
Qed.

Lemma set_required_is_source :
  src_set_required_ok = true ->
  forall h, header_in_range h ->
  src_set_required (h_keylen h) (value_len h) = Some (8 + h_keylen h + value_len h).
Proof.
  intros Hok h R. unfold src_set_required_ok in Hok.
  gated Hok (unfold src_set_required, value_len;
    destruct h as [mg op kl el dt vb bl oq cs]; unfold header_in_range in R;
    cbn [h_magic h_opcode h_dtype h_keylen h_extlen h_bodylen] in *;
    rs_solve).
Qed.

(* ---- the comparisons with the item size limit ----------------------------- *)
Lemma size_guards_all :
  src_size_guards_ok = true ->
  Forall (fun g => forall body limit, g body limit = Some (limit <? body)) src_size_guards.
Proof.
  intros Hok. unfold src_size_guards_ok in Hok.
  gated Hok (unfold src_size_guards;
    repeat (apply Forall_cons; [intros body limit; rs_solve|]);
    apply Forall_nil).
Qed.

(* sites: 1 parse_header (before the buffer is reserved), 2 parse_request, 3 decode *)
Lemma reserve_is_guarded :
  src_size_guards_ok = true ->
  In 1 src_size_guard_sites /\
  Forall (fun g => forall body limit, g body limit = Some (limit <? body)) src_size_guards.
Proof.
  intros Hok. split; [|exact (size_guards_all Hok)].
  unfold src_size_guards_ok in Hok.
  gated Hok (unfold src_size_guard_sites; cbn [In]; tauto).
Qed.

Lemma size_guards_are_source :
  src_size_guards_ok = true ->
  (In 2 src_size_guard_sites \/ In 3 src_size_guard_sites) /\
  Forall (fun g => forall body limit, g body limit = Some (limit <? body)) src_size_guards.
Proof.
  intros Hok. split; [|exact (size_guards_all Hok)].
  unfold src_size_guards_ok in Hok.
  gated Hok (unfold src_size_guard_sites; cbn [In]; tauto).
Qed.

(* ---- expiry --------------------------------------------------------------- *)
Lemma expired_read_is_source :
  src_expired_read_ok = true ->
  forall r now, r_ts r + r_ttl r < two64 ->
  src_expired_read (r_ts r) (r_ttl r) now = Some (expired now r).
Proof.
  intros Hok r now Hr. unfold src_expired_read_ok in Hok. gated Hok (unfold src_expired_read, expired; unfold two64 in Hr;
    destruct r as [ts cs fl tl v]; cbn [r_ts r_ttl] in *;
    rs_solve).
Qed.

Lemma expired_stored_is_source :
  src_expired_stored_ok = true ->
  forall r now, r_ts r + r_ttl r < two64 ->
  src_expired_stored (r_ts r) (r_ttl r) now = Some (expired now r).
Proof.
  intros Hok r now Hr. unfold src_expired_stored_ok in Hok. gated Hok (unfold src_expired_stored, expired; unfold two64 in Hr;
    destruct r as [ts cs fl tl v]; cbn [r_ts r_ttl] in *;
    rs_solve).
Qed.

(* ---- flush ----------------------------------------------------------------- *)
Lemma flush_delayed_is_source :
  src_flush_delayed_ok = true -> forall delay, src_flush_delayed delay = Some (0 <? delay).
Proof.
  intros Hok delay. unfold src_flush_delayed_ok in Hok. gated Hok (unfold src_flush_delayed; rs_solve).
Qed.

(* the record the closure of alter_all leaves: re-dated exactly when the model says *)
Lemma flush_redate_is_source :
  src_flush_redate_ok = true ->
  forall r now delay, r_ts r + r_ttl r < two64 -> now + delay < two64 ->
  exists b, src_flush_redate (r_ts r) (r_ttl r) now delay = Some b /\
            flush_record now delay r =
              if b then mkRec now (r_cas r) (r_flags r) delay (r_val r) else r.
Proof.
  intros Hok r now delay Hr Hn. unfold src_flush_redate_ok in Hok. gated Hok (unfold src_flush_redate, flush_record; unfold two64 in Hr, Hn;
    destruct r as [ts cs fl tl v]; cbn [r_ts r_ttl r_cas r_flags r_val] in *;
    rs_unfold; split_cmp; cbn [negb andb orb]; try (exfalso; lia);
    (eexists; split; [reflexivity|]); cbn [negb andb orb]; try reflexivity).
Qed.

(* ---- counters -------------------------------------------------------------- *)
Lemma delta_is_source :
  src_delta_ok = true ->
  forall incr v d, src_delta incr v d = Some (delta_result incr v d).
Proof.
  intros Hok incr v d. unfold src_delta_ok in Hok.
  gated Hok (unfold src_delta, delta_result, wrapping_add64, two64;
    destruct incr; rs_solve).
Qed.

Lemma delta_creates_is_source :
  src_delta_creates_ok = true ->
  forall e, src_delta_creates e = Some (negb (e =? u32_max)).
Proof.
  intros Hok e. unfold src_delta_creates_ok in Hok. gated Hok (unfold src_delta_creates, u32_max; rs_solve).
Qed.

(* ---- header layouts -------------------------------------------------------- *)
Fixpoint read_layout (l : layout) (b : bytes) : option (list (N * N) * bytes) :=
  match l with
  | [] => Some ([], b)
  | (id, w) :: r =>
      match take (N.to_nat w) b with
      | None => None
      | Some (x, rest) =>
          match read_layout r rest with
          | None => None
          | Some (vs, rest') => Some ((id, be_dec x) :: vs, rest')
          end
      end
  end.

Definition field (id : N) (vs : list (N * N)) : N :=
  match find (fun p => fst p =? id) vs with Some p => snd p | None => 0 end.

Definition header_of_fields (vs : list (N * N)) : header :=
  mkHdr (field 1 vs) (field 2 vs) (field 3 vs) (field 4 vs) (field 5 vs)
        (field 6 vs) (field 7 vs) (field 8 vs) (field 9 vs).

Definition write_layout (l : layout) (f : N -> N) : bytes :=
  flat_map (fun p => be_enc (N.to_nat (snd p)) (f (fst p))) l.

Definition rheader_field (h : rheader) (id : N) : N :=
  if id =? 1 then rh_magic h else if id =? 2 then rh_opcode h else if id =? 3 then rh_keylen h
  else if id =? 4 then rh_extlen h else if id =? 5 then rh_dtype h else if id =? 6 then rh_status h
  else if id =? 7 then rh_bodylen h else if id =? 8 then rh_opaque h else rh_cas h.

Lemma be_enc_1 n : be_enc 1 n = [n2b n].
Proof. cbn [be_enc]. change (256 ^ N.of_nat 0) with 1. now rewrite N.div_1_r. Qed.

Ltac decide_eqb :=
  repeat match goal with
         | |- context[N.eqb ?a ?b] =>
             let v := eval vm_compute in (N.eqb a b) in
             match v with true => change (N.eqb a b) with true | false => change (N.eqb a b) with false end
         end.

Lemma request_layout_is_source :
  src_request_layout_ok = true ->
  forall b, header_of_bytes b =
            match read_layout src_request_layout b with
            | Some (vs, rest) => Some (header_of_fields vs, rest)
            | None => None
            end.
Proof.
  intros Hok b. unfold src_request_layout_ok in Hok.
  gated Hok (unfold src_request_layout, header_of_bytes;
             do 24 (destruct b as [|? b]; [reflexivity|]); reflexivity).
Qed.

Lemma response_layout_is_source :
  src_response_layout_ok = true ->
  forall h, encode_rheader h = write_layout src_response_layout (rheader_field h).
Proof.
  intros Hok h. unfold src_response_layout_ok in Hok.
  gated Hok (unfold src_response_layout, encode_rheader, write_layout, be16, be32, be64;
             cbn [flat_map fst snd]; unfold rheader_field;
             change (N.to_nat 1) with 1%nat; change (N.to_nat 2) with 2%nat;
             change (N.to_nat 4) with 4%nat; change (N.to_nat 8) with 8%nat;
             decide_eqb; cbv iota;
             rewrite ?be_enc_1; rewrite ?app_nil_r; cbn [app]; rewrite <- ?app_assoc; reflexivity).
Qed.
