(* PPolConc.v — the random eviction policy under concurrency (Model/PolConc.v):
   for every number of clients, every client strategy, every schedule and every
   oracle,
     - the accounted usage equals the bytes stored plus what the operations in
       progress still owe (never negative: fetch_sub never wraps), hence equals
       the bytes stored whenever no operation is in progress;
     - the bytes stored never exceed the limit (or what was stored initially) by
       more than the records of the stores that were in progress together at one
       earlier instant.
   Architecture: a judgment [safe l p a b] on program remainders (a: what the
   remainder owes the counter; b: the record it has been admitted to write and
   has not written yet) checked once per Cache operation, and one generic
   induction over schedules. *)
From Coq Require Import ZArith Lia.
From MC Require Import Model.Base Model.Generated Model.Store Model.PolConc
  Proofs.StoreLemmas Proofs.PPolicy.
Local Open Scope Z_scope.

Section PPolConc.
Variable now : N.
Variable limit : Z.
Hypothesis limit_nonneg : 0 <= limit.

Notation pact := (pact now).
Notation prog := (gprog paction presult pores).
Notation pset_prog := (pset_prog now limit).
Notation pget_prog := (pget_prog now).
Notation pprog_of := (pprog_of now limit).
Notation evict_prog := (evict_prog limit).
Notation inner_set_prog := (inner_set_prog now).
Notation pthread := (gthread paction presult pores pop).
Notation pstep := (gthread_step pact pprog_of).
Notation prun := (prun_sched now limit).

Definition totz (s : pshared) : Z := Z.of_N (total (p_mem s)).

Definition check_passed (a : paction) (s : pshared) : Prop :=
  (a = PUsageLoad /\ p_usage s <= limit) \/ (a = PLen /\ p_mem s = []).

Definition trans (l : Z) (act : paction) (s : pshared) (a b a' b' : Z) : Prop :=
  let s' := fst (pact act s) in
  let d := totz s' - totz s in
  a' = a + (p_usage s' - p_usage s) - d /\ 0 <= a' /\ 0 <= b' /\
  ((b' <= b /\ d <= b - b') \/ (b = 0 /\ b' = l /\ d = 0 /\ check_passed act s)).

Fixpoint safe (l : Z) (p : prog) (a b : Z) : Prop :=
  match p with
  | GRet _ => a = 0 /\ b = 0
  | GAct act k =>
      forall s, NoDup (keys (p_mem s)) ->
        NoDup (keys (p_mem (fst (pact act s)))) /\
        exists a' b', trans l act s a b a' b' /\ safe l (k (snd (pact act s))) a' b'
  end.

(* ---- the effect of each action on the stored bytes ---------------------- *)
Lemma totz_remove_some k r s :
  NoDup (keys (p_mem s)) -> lookup k (p_mem s) = Some r ->
  Z.of_N (total (remove k (p_mem s))) = totz s - Z.of_N (rec_len r).
Proof. intros Hn Hl. unfold totz. pose proof (total_remove k r (p_mem s) Hn Hl). lia. Qed.

Lemma totz_insert_some k r old s :
  lookup k (p_mem s) = Some old ->
  Z.of_N (total (insert k r (p_mem s))) = totz s + Z.of_N (rec_len r) - Z.of_N (rec_len old).
Proof. intros Hl. unfold totz. pose proof (total_insert_present k r old (p_mem s) Hl). lia. Qed.

Lemma totz_insert_none k r s :
  lookup k (p_mem s) = None ->
  Z.of_N (total (insert k r (p_mem s))) = totz s + Z.of_N (rec_len r).
Proof. intros Hl. unfold totz. pose proof (total_insert_absent k r (p_mem s) Hl). lia. Qed.

Lemma rec_len_mk ts c f t v ts' c' f' t' : rec_len (mkRec ts c f t v) = rec_len (mkRec ts' c' f' t' v).
Proof. reflexivity. Qed.

Lemma rec_len_nonneg r : 0 <= Z.of_N (rec_len r).
Proof. lia. Qed.

Ltac fin := repeat split; try lia; try (left; lia).

Ltac same_state :=
  unfold trans, totz; cbn [PolConc.pact];
  repeat match goal with H : ?x = _ |- context[match ?x with _ => _ end] => rewrite H end;
  cbn [fst snd p_mem p_usage with_pmem with_pusage].

(* ---- the judgment on the building blocks -------------------------------- *)
Fixpoint sumN (ls : list N) : Z := match ls with [] => 0 | n :: r => Z.of_N n + sumN r end.

Lemma sumN_app a b : sumN (a ++ b) = sumN a + sumN b.
Proof. induction a as [|x a IH]; cbn [app sumN]; lia. Qed.

Lemma sumN_rev a : sumN (rev a) = sumN a.
Proof. induction a as [|x a IH]; [reflexivity|]. cbn [rev]. rewrite sumN_app, IH. cbn [sumN]. lia. Qed.

Lemma sumN_nonneg a : 0 <= sumN a.
Proof. induction a as [|x a IH]; cbn [sumN]; lia. Qed.

Lemma safe_subs l ls : forall k a b,
  0 <= a -> 0 <= b -> safe l k a b -> safe l (subs ls k) (a + sumN ls) b.
Proof.
  induction ls as [|n ls IH]; intros k a b Ha Hb Hk; cbn [subs sumN].
  - now rewrite Z.add_0_r.
  - cbn [safe]. intros s Hn. split; [exact Hn|].
    exists (a + sumN ls), b. split.
    + same_state. pose proof (sumN_nonneg ls). fin.
    + cbn [PolConc.pact snd]. now apply IH.
Qed.

Lemma safe_removes l ks : forall acc k a b,
  0 <= a -> 0 <= b ->
  (forall ls, safe l (k ls) (a + sumN ls) b) ->
  safe l (removes ks acc k) (a + sumN acc) b.
Proof.
  induction ks as [|x ks IH]; intros acc k a b Ha Hb Hk; cbn [removes].
  - rewrite <- sumN_rev. apply Hk.
  - cbn [safe]. intros s Hn. cbn [PolConc.pact fst snd p_mem with_pmem].
    split; [now apply nodup_remove|].
    destruct (lookup x (p_mem s)) as [rc|] eqn:L.
    + exists (a + sumN (rec_len rc :: acc)), b. split.
      * same_state. rewrite (totz_remove_some x rc s Hn L). unfold totz.
        pose proof (sumN_nonneg acc). cbn [sumN]. fin.
      * now apply IH.
    + exists (a + sumN acc), b. split.
      * same_state. rewrite (remove_absent x (p_mem s) L).
        pose proof (sumN_nonneg acc). fin.
      * now apply IH.
Qed.

Lemma safe_remove_if l k a b :
  0 <= a -> 0 <= b -> safe l k a b -> safe l (remove_if_prog k) a b.
Proof.
  intros Ha Hb Hk. unfold remove_if_prog. cbn [safe]. intros s Hn.
  assert (E : p_mem (fst (pact PScan s)) = p_mem s /\ p_usage (fst (pact PScan s)) = p_usage s /\
              exists ks, snd (pact PScan s) = QKeys ks).
  { cbn [PolConc.pact]. destruct (p_oracle s) as [|ks rest]; cbn [fst snd p_mem p_usage]; eauto. }
  destruct E as (Em & Eu & ks & Er). rewrite Em. split; [exact Hn|].
  exists a, b. split.
  - unfold trans. cbn zeta. unfold totz. rewrite Em, Eu. fin.
  - rewrite Er. replace a with (a + sumN []) by (cbn [sumN]; lia).
    apply safe_removes; try assumption. intros ls. now apply safe_subs.
Qed.

Lemma safe_evict l fuel : forall k,
  0 <= l -> safe l (k false) 0 0 -> safe l (k true) 0 l -> safe l (evict_prog fuel k) 0 0.
Proof.
  induction fuel as [|f IH]; intros k Hl Hf Ht; cbn [PolConc.evict_prog]; [exact Hf|].
  cbn [safe]. intros s Hn. cbn [PolConc.pact fst snd]. split; [exact Hn|].
  destruct (limit <? p_usage s) eqn:Q.
  - (* over the limit: look at the number of records *)
    exists 0, 0. split.
    + same_state. fin.
    + cbn [safe]. intros s2 Hn2. cbn [PolConc.pact fst snd]. split; [exact Hn2|].
      destruct (N.of_nat (length (p_mem s2)) =? 0)%N eqn:Z0.
      * exists 0, l. split; [|exact Ht].
        same_state. repeat split; try lia. right. repeat split; try lia.
        right. split; [reflexivity|]. apply N.eqb_eq in Z0. destruct (p_mem s2); [reflexivity|cbn in Z0; lia].
      * exists 0, 0. split.
        -- same_state. fin.
        -- apply safe_remove_if; try lia. now apply IH.
  - exists 0, l. split; [|exact Ht].
    same_state. repeat split; try lia. right. repeat split; try lia.
    left. split; [reflexivity|]. apply Z.ltb_ge in Q. exact Q.
Qed.

(* the tail of a store: the counter is corrected and the answer returned *)
Lemma safe_sub_ret l n v : safe l (GAct (PUsageSub n) (fun _ => GRet v)) (Z.of_N n) 0.
Proof.
  cbn [safe]. intros s Hn. split; [exact Hn|]. exists 0, 0. split; [|split; reflexivity].
  same_state. fin.
Qed.

Lemma safe_store_tail l r :
  l = Z.of_N (rec_len r) ->
  forall res rep,
    (match res with ROk _ => True | RErr _ => rep = 0%N end) ->
    safe l (match res with
            | ROk c => GAct (PUsageSub rep) (fun _ => GRet (PSetR (ROk c)))
            | RErr e => GAct (PUsageSub (rec_len r)) (fun _ => GRet (PSetR (RErr e)))
            end)
         (match res with ROk _ => Z.of_N rep | RErr _ => l end) 0.
Proof.
  intros -> res rep _. destruct res as [c|e]; apply safe_sub_ret.
Qed.

Lemma safe_inner_set k r :
  let l := Z.of_N (rec_len r) in
  safe l (inner_set_prog k r (fun res rep =>
            match res with
            | ROk c => GAct (PUsageSub rep) (fun _ => GRet (PSetR (ROk c)))
            | RErr e => GAct (PUsageSub (rec_len r)) (fun _ => GRet (PSetR (RErr e)))
            end)) l l.
Proof.
  intros l. unfold PolConc.inner_set_prog.
  pose proof (rec_len_nonneg r) as Hl. fold l in Hl.
  destruct (0 <? r_cas r)%N.
  - (* compare and store under the entry lock *)
    cbn [safe]. intros s Hn. cbn [PolConc.pact].
    destruct (lookup k (p_mem s)) as [old|] eqn:L.
    + destruct (r_cas old =? r_cas r)%N eqn:EC.
      * cbn [fst snd p_mem]. split; [now apply nodup_insert|].
        exists (Z.of_N (rec_len old)), 0. split; [|apply safe_sub_ret].
        same_state. rewrite (totz_insert_some k _ old s L).
        rewrite (rec_len_mk now (p_cas s) (r_flags r) (r_ttl r) (r_val r) (r_ts r) (r_cas r) (r_flags r) (r_ttl r)).
        replace (mkRec (r_ts r) (r_cas r) (r_flags r) (r_ttl r) (r_val r)) with r by (destruct r; reflexivity).
        unfold totz. fold l. fin.
      * cbn [fst snd]. split; [exact Hn|].
        exists l, 0. split; [|apply safe_sub_ret].
        same_state. fin.
    + cbn [fst snd p_mem with_pmem]. split; [now apply nodup_insert|].
      exists 0, 0. split; [|apply (safe_sub_ret l 0%N)].
      same_state. rewrite (totz_insert_none k _ s L).
      rewrite (rec_len_mk now (next_client_cas (r_cas r)) (r_flags r) (r_ttl r) (r_val r) (r_ts r) (r_cas r) (r_flags r) (r_ttl r)).
      replace (mkRec (r_ts r) (r_cas r) (r_flags r) (r_ttl r) (r_val r)) with r by (destruct r; reflexivity).
      unfold totz. fold l. fin.
  - (* draw a CAS, then insert *)
    cbn [safe]. intros s Hn. cbn [PolConc.pact fst snd p_mem]. split; [exact Hn|].
    exists l, l. split.
    + same_state. fin.
    + cbn [safe]. intros s2 Hn2. cbn [PolConc.pact fst snd p_mem with_pmem]. split; [now apply nodup_insert|].
      destruct (lookup k (p_mem s2)) as [old|] eqn:L.
      * exists (Z.of_N (rec_len old)), 0. split; [|apply safe_sub_ret].
        same_state. rewrite (totz_insert_some k _ old s2 L).
        rewrite (rec_len_mk now (p_cas s) (r_flags r) (r_ttl r) (r_val r) (r_ts r) (r_cas r) (r_flags r) (r_ttl r)).
        replace (mkRec (r_ts r) (r_cas r) (r_flags r) (r_ttl r) (r_val r)) with r by (destruct r; reflexivity).
        unfold totz. fold l. fin.
      * exists 0, 0. split; [|apply (safe_sub_ret l 0%N)].
        same_state. rewrite (totz_insert_none k _ s2 L).
        rewrite (rec_len_mk now (p_cas s) (r_flags r) (r_ttl r) (r_val r) (r_ts r) (r_cas r) (r_flags r) (r_ttl r)).
        replace (mkRec (r_ts r) (r_cas r) (r_flags r) (r_ttl r) (r_val r)) with r by (destruct r; reflexivity).
        unfold totz. fold l. fin.
Qed.

(* ---- the four Cache operations ------------------------------------------ *)
Definition cap (o : pop) : Z :=
  match o with PoSet _ r => Z.of_N (rec_len r) | _ => 0 end.

Lemma safe_pset k r : safe (Z.of_N (rec_len r)) (pset_prog k r) 0 0.
Proof.
  unfold PolConc.pset_prog. pose proof (rec_len_nonneg r) as Hl.
  apply safe_evict; [exact Hl|split; reflexivity|].
  cbn [safe]. intros s Hn. cbn [PolConc.pact fst snd p_mem with_pusage]. split; [exact Hn|].
  exists (Z.of_N (rec_len r)), (Z.of_N (rec_len r)). split.
  - same_state. fin.
  - apply safe_inner_set.
Qed.

Lemma safe_pget k : safe 0 (pget_prog k) 0 0.
Proof.
  unfold PolConc.pget_prog. cbn [safe]. intros s Hn. cbn [PolConc.pact fst snd]. split; [exact Hn|].
  exists 0, 0. split; [same_state; fin|].
  destruct (lookup k (p_mem s)) as [r|]; [|split; reflexivity].
  destruct (expired now r); [|split; reflexivity].
  cbn [safe]. intros s2 Hn2. cbn [PolConc.pact].
  destruct (lookup k (p_mem s2)) as [r2|] eqn:L2.
  - destruct (expired now r2) eqn:EX2.
    + cbn [fst snd p_mem with_pmem]. split; [now apply nodup_remove|].
      exists (Z.of_N (rec_len r2)), 0. split; [|apply (safe_sub_ret 0 (rec_len r2) (PGetR (RErr NotFound)))].
      same_state. rewrite (totz_remove_some k r2 s2 Hn2 L2). unfold totz.
      fin.
    + cbn [fst snd]. split; [exact Hn2|]. exists 0, 0. split; [|apply (safe_sub_ret 0 0%N (PGetR (RErr NotFound)))].
      same_state. fin.
  - cbn [fst snd]. split; [exact Hn2|]. exists 0, 0. split; [|apply (safe_sub_ret 0 0%N (PGetR (RErr NotFound)))].
    same_state. fin.
Qed.

Lemma safe_pdel k c : safe 0 (pdel_prog k c) 0 0.
Proof.
  unfold pdel_prog. cbn [safe]. intros s Hn. cbn [PolConc.pact].
  destruct (lookup k (p_mem s)) as [r|] eqn:L.
  - destruct ((c =? 0)%N || (r_cas r =? c)%N) eqn:EC.
    + cbn [fst snd p_mem with_pmem]. split; [now apply nodup_remove|].
      exists (Z.of_N (rec_len r)), 0. split; [|apply safe_sub_ret].
      same_state. rewrite (totz_remove_some k r s Hn L). unfold totz.
      fin.
    + cbn [fst snd]. split; [exact Hn|]. exists 0, 0. split; [|split; reflexivity].
      same_state. fin.
  - cbn [fst snd]. split; [exact Hn|]. exists 0, 0. split; [|split; reflexivity].
    same_state. fin.
Qed.

Lemma safe_pflush d : safe 0 (pflush_prog d) 0 0.
Proof.
  unfold PolConc.pflush_prog. destruct (0 <? d)%N.
  - cbn [safe]. intros s Hn. cbn [PolConc.pact fst snd p_mem with_pmem].
    split; [now rewrite keys_map_val|].
    exists 0, 0. split; [|split; reflexivity].
    same_state. rewrite total_map_flush. fin.
  - apply safe_remove_if; try lia. split; reflexivity.
Qed.

Lemma safe_start o : safe (cap o) (pprog_of o) 0 0.
Proof.
  destruct o as [k|k r|k c|d]; cbn [cap PolConc.pprog_of].
  - apply safe_pget.
  - apply safe_pset.
  - apply safe_pdel.
  - apply safe_pflush.
Qed.

Lemma cap_nonneg o : 0 <= cap o.
Proof. destruct o; cbn [cap]; lia. Qed.

(* ---- threads and their ghosts ------------------------------------------- *)
Definition thread_ok (t : pthread) (ab : Z * Z) : Prop :=
  0 <= fst ab /\ 0 <= snd ab /\
  match g_cur t with
  | None => fst ab = 0 /\ snd ab = 0
  | Some (o, p) => safe (cap o) p (fst ab) (snd ab) /\ snd ab <= cap o
  end.

Definition sumA (gh : list (Z * Z)) : Z := fold_right (fun ab acc => fst ab + acc) 0 gh.
Definition sumB (gh : list (Z * Z)) : Z := fold_right (fun ab acc => snd ab + acc) 0 gh.

Fixpoint upd (i : nat) (ab : Z * Z) (gh : list (Z * Z)) : list (Z * Z) :=
  match gh, i with
  | [], _ => []
  | _ :: r, O => ab :: r
  | x :: r, S j => x :: upd j ab r
  end.

Lemma forall2_update (ts : list pthread) gh :
  Forall2 thread_ok ts gh -> forall i t, gnth i ts = Some t ->
  exists ab, thread_ok t ab /\
    forall t' ab', thread_ok t' ab' ->
      Forall2 thread_ok (gset i t' ts) (upd i ab' gh) /\
      sumA (upd i ab' gh) = sumA gh - fst ab + fst ab' /\
      sumB (upd i ab' gh) = sumB gh - snd ab + snd ab'.
Proof.
  induction 1 as [|t0 ab0 ts gh H0 HF IH]; intros i t Hi.
  - destruct i; discriminate.
  - destruct i as [|j]; cbn [gnth] in Hi.
    + injection Hi as <-. exists ab0. split; [exact H0|].
      intros t' ab' H'. cbn [gset upd sumA sumB fold_right]. split; [constructor; assumption|]. split; lia.
    + destruct (IH j t Hi) as (ab & Hab & Hupd). exists ab. split; [exact Hab|].
      intros t' ab' H'. destruct (Hupd t' ab' H') as (F & SA & SB).
      cbn [gset upd]. split; [constructor; assumption|].
      unfold sumA, sumB in *. cbn [fold_right]. split; lia.
Qed.

Lemma sumA_nonneg (ts : list pthread) gh : Forall2 thread_ok ts gh -> 0 <= sumA gh.
Proof.
  induction 1 as [|t ab ts gh H0 HF IH]; [cbn; lia|].
  unfold sumA in *. cbn [fold_right]. destruct H0 as (Ha & _). lia.
Qed.

Lemma thread_ok_in_flight t ab : thread_ok t ab -> snd ab <= in_flight t.
Proof.
  intros (Ha & Hb & H). unfold in_flight. destruct (g_cur t) as [[o p]|].
  - destruct H as (_ & Hc). destruct o; cbn [cap] in Hc; lia.
  - destruct H as (_ & ->). lia.
Qed.

Lemma sumB_in_flight (ts : list pthread) gh : Forall2 thread_ok ts gh -> sumB gh <= in_flight_sum ts.
Proof.
  induction 1 as [|t ab ts gh H0 HF IH]; [cbn; lia|].
  unfold sumB, in_flight_sum in *. cbn [fold_right]. pose proof (thread_ok_in_flight t ab H0). lia.
Qed.

Lemma sumB_idle (ts : list pthread) gh :
  Forall2 thread_ok ts gh -> Forall idle ts -> sumA gh = 0 /\ sumB gh = 0.
Proof.
  induction 1 as [|t ab ts gh H0 HF IH]; intros Hi; [split; reflexivity|].
  inversion Hi as [|? ? Hi0 Hi1]; subst. destruct (IH Hi1) as (IA & IB).
  destruct H0 as (_ & _ & H0). unfold idle in Hi0. rewrite Hi0 in H0. destruct H0 as (A0 & B0).
  unfold sumA, sumB in *. cbn [fold_right]. lia.
Qed.

(* ---- the invariant and its preservation by one scheduling step ---------- *)
Section Bound.
Variable B : Z.
Hypothesis B_limit : limit <= B.

Definition inv (ts : list pthread) (s : pshared) (gh : list (Z * Z)) (g : Z) : Prop :=
  Forall2 thread_ok ts gh /\ NoDup (keys (p_mem s)) /\
  p_usage s = totz s + sumA gh /\
  totz s + sumB gh <= B + g.

Lemma step_inv ts s gh g i t :
  inv ts s gh g -> gnth i ts = Some t ->
  exists gh' g', inv (gset i (fst (pstep t s)) ts) (snd (pstep t s)) gh' g' /\
    (g' = g \/ g' <= in_flight_sum (gset i (fst (pstep t s)) ts)).
Proof.
  intros (HF & Hn & HU & HB) Hi.
  destruct (forall2_update ts gh HF i t Hi) as (ab & Hab & Hupd).
  destruct Hab as (Ha & Hb & Hcur).
  unfold gthread_step. destruct (g_cur t) as [[o p]|] eqn:C.
  - destruct Hcur as (Hs & Hc). destruct p as [v|a k].
    + (* the operation returns *)
      cbn [safe] in Hs. destruct Hs as (A0 & B0). cbn [fst snd].
      destruct (Hupd (mkG None (g_client t) (g_done t ++ [v])) (0, 0)) as (F & SA & SB).
      { unfold thread_ok. cbn [g_cur fst snd]. repeat split; lia. }
      exists (upd i (0, 0) gh), g. split; [|now left].
      split; [exact F|]. split; [exact Hn|]. cbn [fst snd] in SA, SB. split; lia.
    + (* one atomic action *)
      cbn [safe] in Hs. destruct (Hs s Hn) as (Hn' & a' & b' & HT & Hs').
      destruct (pact a s) as [s1 x] eqn:A. cbn [fst snd] in *.
      destruct (Hupd (mkG (Some (o, k x)) (g_client t) (g_done t)) (a', b')) as (F & SA & SB).
      { unfold thread_ok. cbn [g_cur fst snd]. unfold trans in HT. rewrite A in HT. cbn [fst] in HT.
        destruct HT as (_ & Ha' & Hb' & Hcase). repeat split; try assumption.
        destruct Hcase as [(Hle & _)|(_ & -> & _)]; lia. }
      cbn [fst snd] in SA, SB.
      unfold trans in HT. rewrite A in HT. cbn [fst] in HT.
      destruct HT as (Ea & Ha' & Hb' & Hcase).
      destruct Hcase as [(Hle & Hd)|(Hb0 & Hbl & Hd & Hchk)].
      * exists (upd i (a', b') gh), g. split; [|now left].
        split; [exact F|]. split; [exact Hn'|]. split; lia.
      * (* admitted to write: the usage was within the limit, or the store empty *)
        exists (upd i (a', b') gh), (sumB (upd i (a', b') gh)). split.
        -- split; [exact F|]. split; [exact Hn'|]. split; [lia|].
           assert (totz s <= limit) as Hlim.
           { destruct Hchk as [(_ & Hu)|(_ & Hm)].
             - pose proof (sumA_nonneg ts gh HF). lia.
             - unfold totz. rewrite Hm. cbn. exact limit_nonneg. }
           lia.
        -- right. apply sumB_in_flight. exact F.
  - (* start the next operation, or stay idle *)
    destruct Hcur as (A0 & B0).
    destruct (g_client t (g_done t)) as [o|] eqn:N.
    + cbn [fst snd].
      destruct (Hupd (mkG (Some (o, pprog_of o)) (g_client t) (g_done t)) (0, 0)) as (F & SA & SB).
      { unfold thread_ok. cbn [g_cur fst snd]. pose proof (cap_nonneg o). repeat split; try lia. apply safe_start. }
      exists (upd i (0, 0) gh), g. split; [|now left].
      split; [exact F|]. split; [exact Hn|]. cbn [fst snd] in SA, SB. split; lia.
    + cbn [fst snd].
      destruct (Hupd t ab) as (F & SA & SB).
      { unfold thread_ok. rewrite C. repeat split; assumption. }
      exists (upd i ab gh), g. split; [|now left].
      split; [exact F|]. split; [exact Hn|]. split; lia.
Qed.

End Bound.

(* ---- every reachable state ---------------------------------------------- *)
Lemma prun_app d1 d2 : forall ts s,
  prun (d1 ++ d2) ts s = prun d2 (fst (prun d1 ts s)) (snd (prun d1 ts s)).
Proof.
  unfold prun_sched. induction d1 as [|i d1 IH]; intros ts s; [reflexivity|].
  cbn [app grun_sched]. destruct (gnth i ts) as [t|]; [|apply IH].
  destruct (gthread_step pact pprog_of t s) as [t' s']. apply IH.
Qed.

Definition prefix (pre sched : list nat) : Prop := exists suf, sched = pre ++ suf.

Lemma forall2_new (cs : list (list pores -> option pop)) :
  Forall2 thread_ok (map (fun c => new_gthread c) cs) (map (fun _ => (0, 0)) cs).
Proof.
  induction cs as [|c cs IH]; cbn [map]; constructor; [|exact IH].
  unfold thread_ok, new_gthread. cbn [g_cur fst snd]. repeat split; lia.
Qed.

Lemma sum_zeros {A} (cs : list A) :
  sumA (map (fun _ => (0, 0)) cs) = 0 /\ sumB (map (fun _ => (0, 0)) cs) = 0.
Proof. induction cs as [|c cs [IA IB]]; [split; reflexivity|]. unfold sumA, sumB in *. cbn [map fold_right fst snd]. lia. Qed.

Lemma in_flight_new (cs : list (list pores -> option pop)) :
  in_flight_sum (map (fun c => new_gthread c) cs) = 0.
Proof.
  induction cs as [|c cs IHc]; [reflexivity|].
  unfold in_flight_sum in *. cbn [map fold_right]. rewrite IHc. reflexivity.
Qed.

Lemma reach cs s0 sched :
  NoDup (keys (p_mem s0)) -> p_usage s0 = totz s0 ->
  let ts0 := map (fun c => new_gthread c) cs in
  let B := Z.max limit (totz s0) in
  exists gh g, inv B (fst (prun sched ts0 s0)) (snd (prun sched ts0 s0)) gh g /\
    exists pre, prefix pre sched /\ g <= in_flight_sum (fst (prun pre ts0 s0)).
Proof.
  intros Hn Hu ts0 B.
  induction sched as [|i sched IH] using rev_ind.
  - exists (map (fun _ => (0, 0)) cs), 0. split.
    + destruct (sum_zeros cs) as (SA & SB).
      split; [apply forall2_new|]. split; [exact Hn|]. cbn [prun_sched grun_sched fst snd].
      rewrite SA, SB. unfold B. split; lia.
    + exists []. split; [exists []; reflexivity|]. cbn [prun_sched grun_sched fst].
      unfold ts0. rewrite in_flight_new. lia.
  - destruct IH as (gh & g & HI & pre & (suf & Hpre) & Hg).
    rewrite prun_app. destruct (prun sched ts0 s0) as [ts s] eqn:R. cbn [fst snd] in *.
    unfold prun_sched at 1 2. cbn [grun_sched].
    destruct (gnth i ts) as [t|] eqn:Gi.
    + assert (limit <= B) as HB by (unfold B; lia).
      destruct (step_inv B HB ts s gh g i t HI Gi) as (gh' & g' & HI' & Hg').
      destruct (gthread_step pact pprog_of t s) as [t' s'] eqn:ST. cbn [fst snd grun_sched] in *.
      exists gh', g'. split; [exact HI'|].
      destruct Hg' as [->|Hg'].
      * exists pre. split; [exists (suf ++ [i]); rewrite Hpre, app_assoc; reflexivity|exact Hg].
      * exists (sched ++ [i]). split; [exists []; now rewrite app_nil_r|].
        rewrite prun_app, R. cbn [fst snd]. unfold prun_sched. cbn [grun_sched]. rewrite Gi, ST. cbn [fst]. exact Hg'.
    + cbn [fst snd]. exists gh, g. split; [exact HI|].
      exists pre. split; [exists (suf ++ [i]); rewrite Hpre, app_assoc; reflexivity|exact Hg].
Qed.

(* ---- the theorems -------------------------------------------------------- *)
(* accounting: never below the stored bytes, exact whenever no operation is in
   progress *)
Theorem accounting_exact_conc cs s0 sched :
  NoDup (keys (p_mem s0)) -> p_usage s0 = totz s0 ->
  let '(ts, s) := prun sched (map (fun c => new_gthread c) cs) s0 in
  totz s <= p_usage s /\ (Forall idle ts -> p_usage s = totz s).
Proof.
  intros Hn Hu. destruct (reach cs s0 sched Hn Hu) as (gh & g & (HF & _ & HU & _) & _).
  destruct (prun sched (map (fun c => new_gthread c) cs) s0) as [ts s]. cbn [fst snd] in *.
  split.
  - pose proof (sumA_nonneg ts gh HF). lia.
  - intros Hi. destruct (sumB_idle ts gh HF Hi) as (SA & _). lia.
Qed.

(* the bound: at every moment the bytes stored are at most the limit (or what
   was stored initially) plus the records of the stores that were in progress
   together at one earlier instant *)
Theorem bound_conc cs s0 sched :
  NoDup (keys (p_mem s0)) -> p_usage s0 = totz s0 ->
  let ts0 := map (fun c => new_gthread c) cs in
  exists pre, prefix pre sched /\
    totz (snd (prun sched ts0 s0)) <= Z.max limit (totz s0) + in_flight_sum (fst (prun pre ts0 s0)).
Proof.
  intros Hn Hu ts0. destruct (reach cs s0 sched Hn Hu) as (gh & g & (HF & _ & _ & HB) & pre & Hp & Hg).
  exists pre. split; [exact Hp|].
  fold ts0 in HF, HB, Hg.
  assert (0 <= sumB gh).
  { clear - HF. induction HF as [|t ab ts gh H0 HF IH]; [cbn; lia|].
    unfold sumB in *. cbn [fold_right]. destruct H0 as (_ & Hb & _). lia. }
  lia.
Qed.

End PPolConc.
