(* PC17d.v — every slot comes back: after any history over any number of listeners in
   which every connection that connected has ended (in whatever way, at whatever
   point: while served, while waiting inside acquire(), while still in a backlog),
   no connection is being served and every permit is free again. *)
From MC Require Import Model.Base Model.Conn Model.Server Model.Listeners Proofs.PC17 Proofs.PC17m Proofs.PC17eq.
From Coq Require Import ZifyN ZifyNat Arith.PeanoNat Sorting.Permutation.

(* ---- what one internal step does to the served connections and to the line --- *)
Lemma next_accept_perm p : forall b x bl, next_accept p b = Some (x, bl) -> Permutation b (x :: bl).
Proof.
  induction b as [|y t IH]; intros x bl H; cbn [next_accept] in H; [discriminate|].
  destruct (busy (fst y) p).
  - destruct (next_accept p t) as [[z r]|] eqn:E; [|discriminate]. injection H as <- <-.
    rewrite (IH _ _ eq_refl). apply perm_swap.
  - injection H as <- <-. reflexivity.
Qed.

Lemma take_first_perm l : forall b x bl, take_first l b = Some (x, bl) -> Permutation b (x :: bl).
Proof.
  induction b as [|y t IH]; intros x bl H; cbn [take_first] in H; [discriminate|].
  destruct (Nat.eqb (fst y) l).
  - injection H as <- <-. reflexivity.
  - destruct (take_first l t) as [[z r]|] eqn:E; [|discriminate]. injection H as <- <-.
    rewrite (IH _ _ eq_refl). apply perm_swap.
Qed.

Definition all_ids (m : mserver) : list nat := ms_active m ++ line m.

Lemma settle1_facts m m' :
  settle1 m = Some m' ->
  ms_gone m' = ms_gone m /\
  (forall x, In x (line m') -> In x (line m)) /\
  (forall x, In x (ms_active m') -> In x (ms_active m) \/ (In x (line m) /\ mem_nat x (ms_gone m) = false)) /\
  (NoDup (all_ids m) -> NoDup (all_ids m')) /\
  (forall x, In x (all_ids m) -> In x (all_ids m') \/ In x (ms_gone m)).
Proof.
  intros E. unfold settle1 in E. unfold all_ids, line.
  destruct (ms_pending m) as [|[l c] rest] eqn:P.
  - destruct (next_accept [] (ms_backlog m)) as [[x bl]|] eqn:A; [|discriminate]. injection E as <-.
    cbn [ms_gone ms_active ms_pending ms_backlog]. apply next_accept_perm in A.
    assert (PL : Permutation (map snd ([x] ++ bl)) (map snd ([] ++ ms_backlog m))).
    { cbn [app]. symmetry. apply Permutation_map. exact A. }
    repeat split; auto.
    + intros y Hy. eapply Permutation_in; [exact PL|exact Hy].
    + intros N. eapply Permutation_NoDup; [|exact N]. apply Permutation_app_head. symmetry. exact PL.
    + intros y Hy. left. apply in_app_or in Hy. apply in_or_app. destruct Hy as [Hy|Hy]; [now left|right].
      eapply Permutation_in; [symmetry; exact PL|exact Hy].
  - destruct (0 <? ms_permits m).
    + destruct (mem_nat c (ms_gone m)) eqn:G.
      * destruct (take_first l (ms_backlog m)) as [[x bl]|] eqn:T; injection E as <-;
          cbn [ms_gone ms_active ms_pending ms_backlog].
        -- apply take_first_perm in T.
           assert (PL : Permutation (c :: map snd ((rest ++ [x]) ++ bl)) (map snd (((l, c) :: rest) ++ ms_backlog m))).
           { cbn [app map snd]. constructor. apply Permutation_map. rewrite <- app_assoc. cbn [app].
             apply Permutation_app_head. symmetry. exact T. }
           repeat split; auto.
           ++ intros y Hy. eapply Permutation_in; [exact PL|]. now right.
           ++ intros N. apply NoDup_remove_1 with (a := c).
              eapply Permutation_NoDup; [|exact N]. apply Permutation_app_head. symmetry. exact PL.
           ++ intros y Hy. apply in_app_or in Hy. destruct Hy as [Hy|Hy]; [left; apply in_or_app; now left|].
              apply (Permutation_in _ (Permutation_sym PL)) in Hy. destruct Hy as [<-|Hy].
              ** right. now apply mem_nat_In.
              ** left. apply in_or_app. now right.
        -- repeat split; auto.
           ++ intros y Hy. cbn [app map snd]. now right.
           ++ intros N. cbn [app map snd] in N. now apply NoDup_remove_1 in N.
           ++ intros y Hy. cbn [app map snd] in Hy. apply in_app_or in Hy.
              destruct Hy as [Hy|[<-|Hy]]; [left; apply in_or_app; now left|right; now apply mem_nat_In|left; apply in_or_app; now right].
      * injection E as <-. cbn [ms_gone ms_active ms_pending ms_backlog].
        repeat split; auto.
        -- intros y Hy. cbn [app map snd]. now right.
        -- intros y Hy. apply in_app_or in Hy. destruct Hy as [Hy|[<-|[]]]; [now left|].
           right. split; [cbn [app map snd]; now left|exact G].
        -- intros N. cbn [app map snd] in N. rewrite <- app_assoc. cbn [app]. exact N.
        -- intros y Hy. left. cbn [app map snd] in Hy. rewrite <- app_assoc. cbn [app]. exact Hy.
    + destruct (next_accept ((l, c) :: rest) (ms_backlog m)) as [[x bl]|] eqn:A; [|discriminate]. injection E as <-.
      cbn [ms_gone ms_active ms_pending ms_backlog]. apply next_accept_perm in A.
      assert (PL : Permutation (map snd ((((l, c) :: rest) ++ [x]) ++ bl)) (map snd (((l, c) :: rest) ++ ms_backlog m))).
      { apply Permutation_map. rewrite <- app_assoc. cbn [app]. constructor. apply Permutation_app_head. symmetry. exact A. }
      repeat split; auto.
      * intros y Hy. eapply Permutation_in; [exact PL|exact Hy].
      * intros N. eapply Permutation_NoDup; [|exact N]. apply Permutation_app_head. symmetry. exact PL.
      * intros y Hy. left. apply in_app_or in Hy. apply in_or_app. destruct Hy as [Hy|Hy]; [now left|right].
        eapply Permutation_in; [symmetry; exact PL|exact Hy].
Qed.

Lemma settle_facts fuel : forall m,
  ms_gone (settle fuel m) = ms_gone m /\
  (forall x, In x (line (settle fuel m)) -> In x (line m)) /\
  (forall x, In x (ms_active (settle fuel m)) -> In x (ms_active m) \/ (In x (line m) /\ mem_nat x (ms_gone m) = false)) /\
  (NoDup (all_ids m) -> NoDup (all_ids (settle fuel m))) /\
  (forall x, In x (all_ids m) -> In x (all_ids (settle fuel m)) \/ In x (ms_gone m)).
Proof.
  induction fuel as [|f IH]; intros m; cbn [settle]; [repeat split; auto|].
  destruct (settle1 m) as [m'|] eqn:E; [|repeat split; auto].
  destruct (settle1_facts m m' E) as (G1 & L1 & A1 & N1 & K1).
  destruct (IH m') as (G2 & L2 & A2 & N2 & K2).
  split; [congruence|]. split; [auto|]. split; [|split; [auto|]].
  - intros x Hx. apply A2 in Hx. destruct Hx as [Hx|[Hl Hg]].
    + apply A1 in Hx. exact Hx.
    + right. split; [auto|]. now rewrite <- G1.
  - intros x Hx. destruct (K1 x Hx) as [Hx'|Hx']; [|now right].
    destruct (K2 x Hx') as [H|H]; [now left|right; now rewrite <- G1].
Qed.

(* ---- a history with its book-keeping: who has connected, who has ended since ---- *)
Record ghost := mkGhost { g_m : mserver; g_seen : list nat; g_ended : list nat }.

Definition ghost_step (g : ghost) (e : mevent) : ghost :=
  match e with
  | MConnect l c => mkGhost (ms_step (g_m g) e) (c :: g_seen g) (g_ended g)
  | MEnd c w => mkGhost (ms_step (g_m g) e) (g_seen g) (if mem_nat c (g_seen g) then c :: g_ended g else g_ended g)
  end.

Definition ghost_run (limit : N) (es : list mevent) : ghost :=
  fold_left ghost_step es (mkGhost (new_mserver limit) [] []).

Lemma ghost_fold_is_run : forall es g, g_m (fold_left ghost_step es g) = fold_left ms_step es (g_m g).
Proof.
  induction es as [|e es IH]; intros g; [reflexivity|]. cbn [fold_left]. rewrite IH.
  destruct e; reflexivity.
Qed.

Lemma ghost_run_is_run limit es : g_m (ghost_run limit es) = ms_run (new_mserver limit) es.
Proof. unfold ghost_run, ms_run. now rewrite ghost_fold_is_run. Qed.

(* connection identifiers are not reused *)
Fixpoint fresh_ids (seen : list nat) (es : list mevent) : Prop :=
  match es with
  | [] => True
  | MConnect _ c :: t => ~ In c seen /\ fresh_ids (c :: seen) t
  | MEnd _ _ :: t => fresh_ids seen t
  end.

Definition J (g : ghost) : Prop :=
  let m := g_m g in
  NoDup (all_ids m) /\
  (forall x, In x (all_ids m) \/ In x (ms_gone m) -> In x (g_seen g)) /\
  (forall x, In x (g_seen g) -> In x (all_ids m) \/ In x (g_ended g)) /\
  (forall x, In x (g_ended g) -> ~ In x (ms_active m) /\ (In x (line m) -> In x (ms_gone m))) /\
  (forall x, In x (ms_gone m) -> In x (g_ended g)) /\
  (forall x, In x (g_ended g) -> In x (g_seen g)).

Lemma remove_nat_facts c l : NoDup l -> NoDup (remove_nat c l) /\ ~ In c (remove_nat c l) /\
  (forall x, In x (remove_nat c l) -> In x l) /\ (forall x, In x l -> x = c \/ In x (remove_nat c l)).
Proof.
  induction l as [|y t IH]; intros N; cbn [remove_nat]; [repeat split; auto; constructor|].
  inversion N as [|? ? Ny Nt]; subst. destruct (Nat.eqb y c) eqn:E.
  - apply Nat.eqb_eq in E. subst y. repeat split; auto.
    + intros x Hx. now right.
    + intros x [<-|Hx]; auto.
  - apply Nat.eqb_neq in E. destruct (IH Nt) as (N2 & Nc & I1 & I2). repeat split.
    + constructor; [|exact N2]. intros H. apply Ny. now apply I1.
    + intros [H|H]; [congruence|contradiction].
    + intros x [<-|Hx]; [now left|right; now apply I1].
    + intros x [<-|Hx]; [right; now left|]. destruct (I2 x Hx) as [->|H]; [now left|right; now right].
Qed.

Lemma NoDup_app_remove c (a l : list nat) : NoDup (a ++ l) -> NoDup (remove_nat c a ++ l).
Proof.
  induction a as [|y t IH]; intros N; cbn [remove_nat app] in *; [exact N|].
  inversion N as [|? ? Ny Nt]; subst. destruct (Nat.eqb y c); [exact Nt|].
  cbn [app]. constructor; [|now apply IH].
  intros H. apply Ny. apply in_app_or in H. apply in_or_app. destruct H as [H|H]; [left|now right].
  clear - H. induction t as [|z r IHr]; cbn [remove_nat] in H; [destruct H|].
  destruct (Nat.eqb z c); [now right|]. destruct H as [<-|H]; [now left|right; now apply IHr].
Qed.

Lemma NoDup_app_left (a l : list nat) : NoDup (a ++ l) -> NoDup a.
Proof.
  induction a as [|y t IH]; intros N; [constructor|]. cbn [app] in N. inversion N as [|? ? Ny Nt]; subst.
  constructor; [|now apply IH]. intros H. apply Ny. apply in_or_app. now left.
Qed.

(* the settling that follows a connect or the end of a served connection keeps J *)
Lemma settle_J m1 seen ended :
  NoDup (all_ids m1) ->
  (forall x, In x (all_ids m1) \/ In x (ms_gone m1) -> In x seen) ->
  (forall x, In x seen -> In x (all_ids m1) \/ In x ended) ->
  (forall x, In x ended -> ~ In x (ms_active m1) /\ (In x (line m1) -> In x (ms_gone m1))) ->
  (forall x, In x (ms_gone m1) -> In x ended) ->
  (forall x, In x ended -> In x seen) ->
  J (mkGhost (settle (settle_fuel m1) m1) seen ended).
Proof.
  intros N S K D G6 E6. destruct (settle_facts (settle_fuel m1) m1) as (G2 & L2 & A2 & N2 & K2).
  unfold J. cbn [g_m g_seen g_ended]. split; [exact (N2 N)|]. split; [|split; [|split; [|split]]].
  - intros x [Hx|Hx].
    + apply S. left. unfold all_ids in *. apply in_app_or in Hx. apply in_or_app. destruct Hx as [Hx|Hx].
      * apply A2 in Hx. destruct Hx as [Hx|[Hx _]]; [now left|now right].
      * right. now apply L2.
    + apply S. right. now rewrite <- G2.
  - intros x Hx. destruct (K x Hx) as [Hx'|Hx']; [|now right].
    destruct (K2 x Hx') as [H|H]; [now left|right; now apply G6].
  - intros x Hx. destruct (D x Hx) as [Da Dl]. split.
    + intros H. apply A2 in H. destruct H as [H|[H Hg]]; [contradiction|].
      apply Dl in H. apply mem_nat_In in H. congruence.
    + intros H. rewrite G2. apply Dl. now apply L2.
  - intros x Hx. apply G6. now rewrite <- G2.
  - exact E6.
Qed.

Lemma step_J g e : J g -> (match e with MConnect _ c => ~ In c (g_seen g) | MEnd _ _ => True end) -> J (ghost_step g e).
Proof.
  intros (N & S & K & D & G6 & E6) F. destruct g as [m seen ended]. cbn [g_m g_seen g_ended] in *.
  destruct e as [l c|c w]; cbn [ghost_step g_m g_seen g_ended ms_step].
  - set (m1 := mkMS _ _ _ _ _).
    assert (L1 : line m1 = line m ++ [c]).
    { unfold line, m1. cbn [ms_pending ms_backlog]. rewrite app_assoc, map_app. reflexivity. }
    assert (A1 : all_ids m1 = all_ids m ++ [c]) by (unfold all_ids; rewrite L1, app_assoc; reflexivity).
    assert (Fc : ~ In c (all_ids m)) by (intros H; apply F, S; now left).
    apply settle_J.
    + rewrite A1. apply NoDup_snoc; assumption.
    + intros x [Hx|Hx].
      * rewrite A1 in Hx. apply in_app_or in Hx. destruct Hx as [Hx|[<-|[]]]; [right; apply S; now left|now left].
      * right. apply S. now right.
    + intros x [<-|Hx]; [left; rewrite A1; apply in_or_app; right; now left|].
      destruct (K x Hx) as [H|H]; [left; rewrite A1; apply in_or_app; now left|now right].
    + intros x Hx. destruct (D x Hx) as [Da Dl]. split; [exact Da|].
      intros H. rewrite L1 in H. apply in_app_or in H. destruct H as [H|[<-|[]]]; [now apply Dl|].
      exfalso. apply F. now apply E6.
    + exact G6.
    + intros x Hx. right. now apply E6.
  - destruct (mem_nat c (ms_active m)) eqn:M.
    + apply mem_nat_In in M.
      assert (Cs : mem_nat c seen = true) by (apply mem_nat_In, S; left; apply in_or_app; now left).
      rewrite Cs. set (m1 := mkMS _ _ _ _ _).
      assert (Na : NoDup (ms_active m)) by (unfold all_ids in N; now apply NoDup_app_left in N).
      destruct (remove_nat_facts c (ms_active m) Na) as (R1 & R2 & R3 & R4).
      assert (Cl : ~ In c (line m)).
      { intros H. unfold all_ids in N. revert N M H. clear. generalize (ms_active m) (line m). intros a l N.
        induction a as [|y t IH]; intros M H; [destruct M|]. inversion N as [|? ? Ny Nt]; subst.
        destruct M as [->|M]; [apply Ny; apply in_or_app; now right|now apply IH]. }
      apply settle_J.
      * unfold all_ids, m1. cbn [ms_active]. change (line (mkMS _ _ _ _ _)) with (line m). now apply NoDup_app_remove.
      * intros x [Hx|Hx]; apply S; [left|now right].
        unfold all_ids, m1 in Hx. cbn [ms_active] in Hx. change (line (mkMS _ _ _ _ _)) with (line m) in Hx.
        apply in_app_or in Hx. apply in_or_app. destruct Hx as [Hx|Hx]; [left; now apply R3|now right].
      * intros x Hx. destruct (K x Hx) as [H|H]; [|right; now right].
        unfold all_ids in H. apply in_app_or in H. destruct H as [H|H].
        -- destruct (R4 x H) as [->|H']; [right; now left|left; apply in_or_app; now left].
        -- left. apply in_or_app. now right.
      * intros x [<-|Hx].
        -- split; [exact R2|]. intros H. contradiction.
        -- destruct (D x Hx) as [Da Dl]. split; [intros H; apply Da; now apply R3|exact Dl].
      * intros x Hx. right. now apply G6.
      * intros x [<-|Hx]; [apply S; left; apply in_or_app; now left|now apply E6].
    + apply mem_nat_false in M.
      destruct (has_conn c (ms_pending m) || has_conn c (ms_backlog m)) eqn:HC.
      * assert (HL : In c (line m)).
        { apply Bool.orb_true_iff in HC. unfold line. rewrite map_app. apply in_or_app.
          destruct HC as [H|H]; [left|right]; now apply has_conn_In. }
        assert (Cs : mem_nat c seen = true) by (apply mem_nat_In, S; left; apply in_or_app; now right).
        rewrite Cs. unfold J. cbn [g_m g_seen g_ended ms_gone].
        change (all_ids (mkMS _ _ _ _ _)) with (all_ids m). change (line (mkMS _ _ _ _ _)) with (line m).
        cbn [ms_active]. split; [exact N|]. split; [|split; [|split; [|split]]].
        -- intros x [Hx|[<-|Hx]]; [apply S; now left|apply S; left; apply in_or_app; now right|apply S; now right].
        -- intros x Hx. destruct (K x Hx); [now left|right; now right].
        -- intros x [<-|Hx]; [split; [exact M|intros _; now left]|].
           destruct (D x Hx) as [Da Dl]. split; [exact Da|intros H; right; now apply Dl].
        -- intros x [<-|Hx]; [now left|right; now apply G6].
        -- intros x [<-|Hx]; [apply S; left; apply in_or_app; now right|now apply E6].
      * assert (HL : ~ In c (line m)).
        { intros H. apply Bool.orb_false_iff in HC. destruct HC as [H1 H2]. unfold line in H. rewrite map_app in H.
          apply in_app_or in H. destruct H as [H|H]; apply has_conn_In in H; congruence. }
        unfold J. cbn [g_m g_seen g_ended]. split; [exact N|]. split; [exact S|]. split; [|split; [|split]].
        -- intros x Hx. destruct (K x Hx); [now left|right]. destruct (mem_nat c seen); [now right|assumption].
        -- intros x Hx. destruct (mem_nat c seen) eqn:Cs; [|now apply D].
           destruct Hx as [<-|Hx]; [split; [exact M|intros H; contradiction]|now apply D].
        -- intros x Hx. destruct (mem_nat c seen); [right|]; now apply G6.
        -- intros x Hx. destruct (mem_nat c seen) eqn:Cs; [|now apply E6].
           destruct Hx as [<-|Hx]; [now apply mem_nat_In|now apply E6].
Qed.

Lemma run_J : forall es g, J g -> fresh_ids (g_seen g) es -> J (fold_left ghost_step es g).
Proof.
  induction es as [|e es IH]; intros g Jg F; [exact Jg|]. cbn [fold_left]. apply IH.
  - apply step_J; [exact Jg|]. destruct e; [apply F|exact I].
  - destruct e as [l c|c w]; cbn [fresh_ids ghost_step g_seen] in *; [apply F|exact F].
Qed.

(* every connection that connected has ended since *)
Definition all_ended (limit : N) (es : list mevent) : Prop :=
  let g := ghost_run limit es in forall c, In c (g_seen g) -> In c (g_ended g).

Theorem all_slots_returned limit es :
  fresh_ids [] es -> all_ended limit es ->
  let m := ms_run (new_mserver limit) es in
  ms_active m = [] /\ ms_permits m = limit.
Proof.
  intros F A. cbv zeta.
  assert (J0 : J (mkGhost (new_mserver limit) [] [])).
  { unfold J, all_ids, line. cbn. repeat split; try (intros x []; fail); try (intros x [[]|[]]; fail); try constructor; auto. }
  pose proof (run_J es _ J0 F) as JJ. fold (ghost_run limit es) in JJ.
  unfold all_ended in A. cbv zeta in A.
  pose proof (ghost_run_is_run limit es) as Em.
  destruct JJ as (N & S & K & D & G6 & E6).
  remember (ghost_run limit es) as g eqn:Eg. remember (ms_run (new_mserver limit) es) as m eqn:Emm.
  rewrite Em in N, S, K, D, G6.
  assert (Act : ms_active m = []).
  { destruct (ms_active m) as [|x t] eqn:Ea; [reflexivity|]. exfalso.
    assert (Hx : In x (g_seen g)).
    { apply S. left. unfold all_ids. apply in_or_app. left.
      pose proof (or_introl eq_refl : In x (x :: t)) as H0. rewrite <- Ea in H0. exact H0. }
    apply A in Hx. apply D in Hx. destruct Hx as [Hx _]. apply Hx. now left. }
  split; [exact Act|].
  pose proof (run_mconserved limit es _ (new_mconserved limit)) as C. unfold mconserved in C. rewrite <- Emm in C.
  rewrite Act in C. cbn in C. lia.
Qed.
