(* PC16p.v — every operation of the store behind the eviction policy (Model/PolConc.v)
   ends after a bounded number of its own steps, whatever the other clients do in
   between and whatever its calls return: retrievals with expiry collection, deletes,
   delayed flushes (one whole-map call), immediate flushes and eviction sweeps (a scan
   of the map, one removal and one counter access per key it accepted). The bound
   depends only on the number of keys a scan can accept (M) — and, for a store, on the
   model's bound on the rounds of its eviction loop (EVICT_FUEL; that the real loop
   ends is observed by the watchdogs, and proved for the sequential store:
   C14_evict_terminates). *)
From Coq Require Import ZArith Lia.
From MC Require Import Model.Base Model.Generated Model.Store Model.PolConc.

Section PC16p.
Variable now : N.
Variable limit : Z.

Notation prog := (gprog paction presult pores).
Notation pact := (pact now).
Notation pprog_of := (pprog_of now limit).
Notation pstep := (gthread_step pact pprog_of).

(* what a call may return: a scan accepts at most M keys *)
Definition res_ok (M : nat) (x : presult) : Prop :=
  match x with QKeys ks => (length ks <= M)%nat | _ => True end.

Fixpoint pdepth (M : nat) (p : prog) (n : nat) : Prop :=
  match p with
  | GRet _ => True
  | GAct a k =>
      match n with
      | O => False
      | S m => forall x, res_ok M x -> pdepth M (k x) m
      end
  end.

Lemma pdepth_mono M : forall p n n', pdepth M p n -> (n <= n')%nat -> pdepth M p n'.
Proof.
  induction p as [v|a k IH]; intros n n' H L; [exact I|]. cbn [pdepth] in *.
  destruct n as [|m]; [contradiction|]. destruct n' as [|m']; [lia|].
  intros x Hx. apply (IH x m m'); [now apply H|lia].
Qed.

Lemma subs_depth M ls : forall k dk, pdepth M k dk -> pdepth M (subs ls k) (length ls + dk).
Proof.
  induction ls as [|n r IH]; intros k dk H; cbn [subs length Nat.add]; [exact H|].
  intros x _. now apply IH.
Qed.

Lemma removes_depth M ks : forall acc (k : list N -> prog) dk,
  (forall ls, (length ls <= length acc + length ks)%nat -> pdepth M (k ls) dk) ->
  pdepth M (removes ks acc k) (length ks + dk).
Proof.
  induction ks as [|x r IH]; intros acc k dk H; cbn [removes length Nat.add].
  - apply H. rewrite rev_length. cbn. lia.
  - intros res _. destruct res as [[rc|]| | | | | |]; apply IH; intros ls L; apply H; cbn [length] in *; lia.
Qed.

Lemma remove_if_depth M k dk : pdepth M k dk -> pdepth M (remove_if_prog k) (S (M + (M + dk))).
Proof.
  intros H. unfold remove_if_prog. cbn [pdepth]. intros x Hx.
  destruct x as [| | | | | |ks]; try (apply (pdepth_mono M k dk); [exact H|lia]).
  cbn [res_ok] in Hx.
  apply (pdepth_mono M _ (length ks + (M + dk))); [|lia].
  apply removes_depth. intros ls L. cbn [length] in L.
  apply (pdepth_mono M _ (length ls + dk)); [|lia]. now apply subs_depth.
Qed.

Lemma evict_depth M fuel : forall (k : bool -> prog) dk,
  (forall b, pdepth M (k b) dk) ->
  pdepth M (evict_prog limit fuel k) (fuel * (3 + (M + M)) + dk).
Proof.
  induction fuel as [|f IH]; intros k dk H; cbn [evict_prog Nat.mul Nat.add]; [apply H|].
  intros x _. destruct x as [| | |u| | |]; try (apply (pdepth_mono M _ dk); [apply H|lia]).
  destruct (limit <? u)%Z; [|apply (pdepth_mono M _ dk); [apply H|lia]].
  cbn [pdepth]. intros x2 _.
  destruct x2 as [| |n| | | |]; try (apply (pdepth_mono M _ dk); [apply H|lia]).
  destruct (n =? 0); [apply (pdepth_mono M _ dk); [apply H|lia]|].
  apply (pdepth_mono M _ (S (M + (M + (f * (3 + (M + M)) + dk))))); [|lia].
  apply remove_if_depth. now apply IH.
Qed.

Lemma inner_set_depth M k r (cont : result N -> N -> prog) dk :
  (forall res rep, pdepth M (cont res rep) dk) -> pdepth M (inner_set_prog now k r cont) (2 + dk).
Proof.
  intros H. unfold inner_set_prog. destruct (0 <? r_cas r).
  - cbn [pdepth Nat.add]. intros x _. destruct x; apply (pdepth_mono M _ dk); try apply H; lia.
  - cbn [pdepth Nat.add]. intros x _. destruct x; try (apply (pdepth_mono M _ dk); [apply H|lia]).
    cbn [pdepth]. intros y _. destruct y as [[o|]| | | | | |]; apply H.
Qed.

Definition pbound (M : nat) (o : pop) : nat :=
  match o with
  | PoGet _ => 3
  | PoDel _ _ => 2
  | PoFlush _ => S (M + (M + 0))
  | PoSet _ _ => EVICT_FUEL * (3 + (M + M)) + 4
  end.

Theorem policy_programs_bounded M o : pdepth M (pprog_of o) (pbound M o).
Proof.
  destruct o as [k|k r|k c|d]; cbn [pprog_of pbound].
  - unfold pget_prog. cbn [pdepth]. intros x _. destruct x as [[r|]| | | | | |]; try exact I.
    destruct (expired now r); [|exact I]. cbn [pdepth]. intros y _. intros z _. exact I.
  - unfold pset_prog. apply evict_depth. intros b. destruct b; [|exact I].
    cbn [pdepth]. intros x _.
    apply (pdepth_mono M _ (2 + 1)); [|lia]. apply inner_set_depth.
    intros res rep. destruct res; cbn [pdepth]; intros y _; exact I.
  - unfold pdel_prog. cbn [pdepth]. intros x _. destruct x as [| | | | |[rc|e]|]; try exact I.
    cbn [pdepth]. intros y _. exact I.
  - unfold pflush_prog. destruct (0 <? d).
    + cbn [pdepth]. intros x _. exact I.
    + apply remove_if_depth. exact I.
Qed.

(* a client's own steps: the shared states it meets are arbitrary (whatever the others
   have done meanwhile), but scans accept at most M keys *)
Definition oracle_ok (M : nat) (s : pshared) : Prop := Forall (fun ks => (length ks <= M)%nat) (p_oracle s).

Lemma pact_res_ok M a s : oracle_ok M s -> res_ok M (snd (pact a s)).
Proof.
  intros O. unfold oracle_ok in O. destruct a; cbn [PolConc.pact].
  all: repeat match goal with |- context[match ?x with _ => _ end] => destruct x eqn:? end.
  all: cbn [snd res_ok]; try exact I.
  - cbn. lia.
  - inversion O; subst. assumption.
Qed.

Fixpoint own_steps (ss : list pshared) (t : gthread paction presult pores pop) : gthread paction presult pores pop :=
  match ss with
  | [] => t
  | s :: r => own_steps r (fst (pstep t s))
  end.

Theorem policy_operation_completes_within M : forall n (t : gthread paction presult pores pop) o p ss,
  g_cur t = Some (o, p) -> pdepth M p n -> length ss = S n -> Forall (oracle_ok M) ss ->
  exists v rest, g_done (own_steps ss t) = g_done t ++ v :: rest.
Proof.
  induction n as [|m IH]; intros t o p ss C D L O.
  - destruct ss as [|s [|s2 r]]; try discriminate. cbn [own_steps].
    destruct p as [v|a k]; [|cbn in D; contradiction].
    unfold gthread_step. rewrite C. cbn [fst g_done]. exists v, []. reflexivity.
  - destruct ss as [|s r]; [discriminate|]. cbn [own_steps]. injection L as L. inversion O as [|? ? Os Or]; subst.
    destruct p as [v|a k].
    + (* already at its answer: the next own step records it; further steps only add *)
      assert (E : fst (pstep t s) = mkG None (g_client t) (g_done t ++ [v])).
      { unfold gthread_step. rewrite C. reflexivity. }
      rewrite E. clear - r.
      assert (G : forall ss (t0 : gthread paction presult pores pop), exists more, g_done (own_steps ss t0) = g_done t0 ++ more).
      { induction ss as [|s0 r0 IHs]; intros t0; [exists []; now rewrite app_nil_r|]. cbn [own_steps].
        destruct (IHs (fst (pstep t0 s0))) as [more Hm]. rewrite Hm.
        unfold gthread_step. destruct (g_cur t0) as [[o0 [v0|a0 k0]]|].
        - cbn [fst g_done]. exists ([v0] ++ more). now rewrite app_assoc.
        - destruct (pact a0 s0). cbn [fst g_done]. now exists more.
        - destruct (g_client t0 (g_done t0)); cbn [fst g_done]; now exists more. }
      destruct (G r (mkG None (g_client t) (g_done t ++ [v]))) as [more Hm]. rewrite Hm. cbn [g_done].
      exists v, more. now rewrite <- app_assoc.
    + cbn [pdepth] in D.
      assert (E : fst (pstep t s) = mkG (Some (o, k (snd (pact a s)))) (g_client t) (g_done t)).
      { unfold gthread_step. rewrite C. destruct (pact a s). reflexivity. }
      rewrite E.
      destruct (IH (mkG (Some (o, k (snd (pact a s)))) (g_client t) (g_done t)) o (k (snd (pact a s))) r eq_refl
                  (D _ (pact_res_ok M a s Os)) L Or) as (v & rest & H).
      exists v, rest. exact H.
Qed.

End PC16p.
