(* PPolicy.v — proofs for C14 / C15: the random eviction policy's accounting is a
   function of the content, eviction terminates, stored bytes stay within
   limit + the record just written *)
From MC Require Import Model.Base Model.Generated Model.Store Model.Memc Model.Codec Model.Handler
  Spec.Exec Proofs.StoreLemmas Proofs.SetLemmas.
From Coq Require Import ZifyN ZifyNat.
From MC Require Proofs.Effects.

Ltac ssimpl :=
  cbn [s_mem s_limit s_usage s_now s_cas s_oracle with_mem with_usage with_oracle with_now init_store fst snd].

(* ---- arithmetic of the atomic counter ---- *)
Lemma two64_pos : two64 <> 0.
Proof. discriminate. Qed.

Lemma sub64w_exact a b : b <= a -> a < two64 -> sub64w a b = a - b.
Proof.
  intros H1 H2. unfold sub64w. rewrite (N.mod_small b) by lia.
  replace (a + two64 - b) with (a - b + 1 * two64) by lia.
  rewrite N.mod_add by discriminate. apply N.mod_small. lia.
Qed.

Lemma add64w_exact a b : a + b < two64 -> add64w a b = a + b.
Proof. intros H. unfold add64w. now apply N.mod_small. Qed.

(* ---- the accounting invariant ---- *)
(* keys are unique; under a policy the counter equals the stored bytes *)
Record acct (s : store) : Prop := {
  ac_nodup : NoDup (keys (s_mem s));
  ac_exact : forall L, s_limit s = Some L -> s_usage s = total (s_mem s);
  ac_small : total (s_mem s) < two64
}.

(* the stored bytes stay below 2^64 along the history (16 EiB) *)
Definition fits (s : store) : Prop := total (s_mem s) < two64.

Lemma acct_init lim : acct (init_store lim).
Proof. split; ssimpl; [constructor|reflexivity|reflexivity]. Qed.

Lemma total_remove_le k m : NoDup (keys m) -> total (remove k m) <= total m.
Proof.
  intros ND. destruct (lookup k m) as [r|] eqn:L.
  - pose proof (total_remove k r m ND L). lia.
  - rewrite remove_absent by assumption. lia.
Qed.

Lemma acct_remove k r s :
  acct s -> lookup k (s_mem s) = Some r ->
  acct (decr_usage (with_mem s (remove k (s_mem s))) (rec_len r)).
Proof.
  intros [ND EX SM] L. pose proof (total_remove k r _ ND L) as T.
  unfold decr_usage. cbn [s_limit with_mem].
  destruct (s_limit s) as [lim|] eqn:EL.
  - split; ssimpl.
    + now apply nodup_remove.
    + intros L' _. rewrite (EX lim eq_refl). rewrite sub64w_exact by lia. lia.
    + lia.
  - split; ssimpl.
    + now apply nodup_remove.
    + rewrite EL. discriminate.
    + lia.
Qed.

(* ---- get ---- *)
Lemma get_acct k s : acct s -> acct (fst (get k s)).
Proof.
  intros A. unfold get. destruct (lookup k (s_mem s)) as [r|] eqn:L; [|exact A].
  destruct (expired (s_now s) r); [|exact A]. cbn. now apply acct_remove.
Qed.

Lemma get_total k s : acct s -> total (s_mem (fst (get k s))) <= total (s_mem s).
Proof.
  intros [ND _ _]. unfold get. destruct (lookup k (s_mem s)) as [r|] eqn:L; [|cbn; lia].
  destruct (expired (s_now s) r); [|cbn; lia]. cbn. rewrite s_mem_decr_usage. cbn. now apply total_remove_le.
Qed.

(* ---- delete ---- *)
Lemma delete_acct k c s : acct s -> acct (fst (delete k c s)).
Proof.
  intros A. unfold delete. destruct (lookup k (s_mem s)) as [r|] eqn:L; [|exact A].
  destruct ((c =? 0) || (r_cas r =? c)); [|exact A]. cbn. now apply acct_remove.
Qed.

Lemma delete_total k c s : acct s -> total (s_mem (fst (delete k c s))) <= total (s_mem s).
Proof.
  intros [ND _ _]. unfold delete. destruct (lookup k (s_mem s)) as [r|] eqn:L; [|cbn; lia].
  destruct ((c =? 0) || (r_cas r =? c)); [|cbn; lia]. cbn. rewrite s_mem_decr_usage. cbn.
  now apply total_remove_le.
Qed.

(* ---- flush ---- *)
Lemma keys_map_val f m : keys (map (fun kr => (fst kr, f (snd kr))) m) = keys m.
Proof. unfold keys. rewrite map_map. apply map_ext. intros [k r]. reflexivity. Qed.

Lemma flush_record_len now d r : rec_len (flush_record now d r) = rec_len r.
Proof. unfold flush_record. destruct ((r_ttl r =? 0) || (now + d <? r_ts r + r_ttl r)); reflexivity. Qed.

Lemma total_map_flush now d m :
  total (map (fun kr => (fst kr, flush_record now d (snd kr))) m) = total m.
Proof.
  induction m as [|[k r] m IH]; [reflexivity|].
  cbn [map fst snd]. rewrite !total_cons, flush_record_len, IH. reflexivity.
Qed.

(* an immediate flush un-accounts record by record: from an exact counter, to 0 *)
Lemma fold_sub_total m : forall u,
  total m <= u -> u < two64 ->
  fold_left (fun u kr => sub64w u (rec_len (snd kr))) m u = u - total m.
Proof.
  induction m as [|[k r] m IH]; intros u Hle Hlt; cbn [fold_left snd].
  - cbn. lia.
  - rewrite total_cons in Hle. rewrite sub64w_exact by lia. rewrite IH by lia. rewrite total_cons. lia.
Qed.

Lemma flush_acct d s : acct s -> acct (flush d s).
Proof.
  intros [ND EX SM]. unfold flush. destruct (0 <? d).
  - split; ssimpl.
    + now rewrite keys_map_val.
    + intros L E. rewrite total_map_flush. now apply EX with L.
    + now rewrite total_map_flush.
  - destruct (s_limit s) as [L|] eqn:EL; split; ssimpl; try constructor; try reflexivity.
    + intros L' _. rewrite (EX L eq_refl). rewrite fold_sub_total by lia. cbn. lia.
    + rewrite EL. discriminate.
Qed.

Lemma flush_total d s : total (s_mem (flush d s)) <= total (s_mem s).
Proof.
  unfold flush. destruct (0 <? d); cbn.
  - rewrite total_map_flush. lia.
  - destruct (s_limit s); cbn; lia.
Qed.

(* ---- the eviction loop ---- *)
Lemma pick_victim_in o m v o' : pick_victim o m = Some (v, o') -> exists r, lookup v m = Some r.
Proof.
  unfold pick_victim. destruct m as [|[k0 r0] m]; [discriminate|].
  destruct o as [|v0 o0].
  - intros [= <- <-]. cbn. rewrite bytes_eqb_refl. eauto.
  - destruct (lookup v0 ((k0, r0) :: m)) as [r|] eqn:L.
    + intros [= <- <-]. eauto.
    + intros [= <- <-]. cbn. rewrite bytes_eqb_refl. eauto.
Qed.

Lemma pick_victim_none o m : pick_victim o m = None -> m = [].
Proof. unfold pick_victim. destruct m as [|[k0 r0] m]; [reflexivity|]. destruct o as [|v o]; [discriminate|]. destruct (lookup v _); discriminate. Qed.

Lemma length_remove k r m : NoDup (keys m) -> lookup k m = Some r -> S (length (remove k m)) = length m.
Proof.
  induction m as [|[k' r'] m IH]; [discriminate|].
  intros ND. inversion ND as [|? ? Hn Hd]; subst. cbn [lookup remove length].
  destruct (bytes_eqb k k') eqn:E.
  - intros _. apply bytes_eqb_eq in E. subst. rewrite remove_absent; [reflexivity|]. now apply lookup_none_notin.
  - intros H. cbn [length]. now rewrite (IH Hd H).
Qed.

(* evict keeps the invariant, only removes, and stops when the counter is within
   the limit or nothing is left — provided it was given enough fuel *)
Lemma evict_spec fuel : forall L s,
  acct s -> s_limit s = Some L -> (length (s_mem s) < fuel)%nat ->
  let s' := evict fuel L s in
  acct s' /\ s_limit s' = Some L /\ s_now s' = s_now s /\ s_cas s' = s_cas s /\
  total (s_mem s') <= total (s_mem s) /\
  (s_usage s' <= L \/ s_mem s' = []) /\
  (forall k, lookup k (s_mem s') = None \/ lookup k (s_mem s') = lookup k (s_mem s)).
Proof.
  induction fuel as [|f IH]; intros L s A EL Hf; [lia|].
  cbn [evict]. destruct (L <? s_usage s) eqn:C.
  2:{ apply N.ltb_ge in C. cbv zeta. split; [exact A|]. split; [exact EL|]. split; [reflexivity|].
      split; [reflexivity|]. split; [lia|]. split; [now left|]. intros k; now right. }
  destruct (pick_victim (s_oracle s) (s_mem s)) as [[v o']|] eqn:P.
  2:{ apply pick_victim_none in P. cbv zeta. split; [exact A|]. split; [exact EL|]. split; [reflexivity|].
      split; [reflexivity|]. split; [lia|]. split; [now right|]. intros k; now right. }
  destruct (pick_victim_in _ _ _ _ P) as [r Lr]. rewrite Lr.
  set (s1 := with_usage (with_oracle (with_mem s (remove v (s_mem s))) o') (sub64w (s_usage s) (rec_len r))).
  assert (A1 : acct s1).
  { destruct A as [ND EX SM]. pose proof (total_remove v r _ ND Lr) as T.
    unfold s1. split; ssimpl.
    - now apply nodup_remove.
    - intros L' _. rewrite sub64w_exact; rewrite (EX L EL); lia.
    - lia. }
  assert (Len : (length (s_mem s1) < f)%nat).
  { unfold s1. ssimpl. pose proof (length_remove v r _ (ac_nodup _ A) Lr). lia. }
  destruct (IH L s1 A1 EL Len) as (A2 & L2 & N2 & C2 & T2 & St & Fr).
  cbv zeta. split; [exact A2|]. split; [exact L2|]. split; [exact N2|]. split; [exact C2|].
  split; [|split; [exact St|]].
  - pose proof (total_remove_le v (s_mem s) (ac_nodup _ A)). unfold s1 in T2 at 2.
    cbn [s_mem with_mem with_usage with_oracle] in T2. lia.
  - intros k. destruct (Fr k) as [H|H]; [now left|].
    unfold s1 in H at 2. cbn [s_mem with_mem with_usage with_oracle] in H. destruct (bytes_eqb k v) eqn:E.
    + apply bytes_eqb_eq in E. subst. rewrite lookup_remove_eq in H. now left.
    + apply bytes_eqb_neq in E. rewrite lookup_remove_ne in H by assumption. now right.
Qed.

(* ---- set through the policy ---- *)
Lemma inner_set_total k r s s' res :
  NoDup (keys (s_mem s)) -> inner_set k r s = (s', res) ->
  NoDup (keys (s_mem s')) /\ s_limit s' = s_limit s /\ s_usage s' = s_usage s /\
  match res with
  | ROk _ =>
      total (s_mem s') + (match lookup k (s_mem s) with Some old => rec_len old | None => 0 end)
      = total (s_mem s) + rec_len r /\
      exists new, lookup k (s_mem s') = Some new /\ rec_len new = rec_len r
  | RErr _ => s' = s
  end.
Proof.
  intros ND H. pose proof (inner_set_cases k r s) as S. rewrite H in S.
  assert (TI : forall new, rec_len new = rec_len r ->
            total (insert k new (s_mem s)) + (match lookup k (s_mem s) with Some old => rec_len old | None => 0 end)
            = total (s_mem s) + rec_len r).
  { intros new Hn. destruct (lookup k (s_mem s)) as [old|] eqn:L.
    - pose proof (total_insert_present k new old _ L). lia.
    - rewrite (total_insert_absent k new _ L). lia. }
  inversion S; subst; ssimpl.
  - split; [now apply nodup_insert|]. split; [reflexivity|]. split; [reflexivity|].
    split; [now apply TI|]. eexists. split; [apply lookup_insert_eq|reflexivity].
  - split; [now apply nodup_insert|]. split; [reflexivity|]. split; [reflexivity|].
    split; [now apply TI|]. eexists. split; [apply lookup_insert_eq|reflexivity].
  - auto.
Qed.

(* C15: the invariant is kept by set; C14: afterwards the stored bytes are at
   most limit + the record just written, and that record is there *)
Lemma set_policy_spec k r s L :
  acct s -> s_limit s = Some L -> total (s_mem s) + rec_len r < two64 ->
  let s' := fst (set k r s) in
  acct s' /\ s_limit s' = Some L /\
  match snd (set k r s) with
  | ROk _ => total (s_mem s') <= L + rec_len r /\
             exists new, lookup k (s_mem s') = Some new /\ rec_len new = rec_len r
  | RErr _ => total (s_mem s') <= total (s_mem s)
  end.
Proof.
  intros A EL SM. unfold set. rewrite EL.
  destruct (evict_spec (S (length (s_mem s))) L s A EL (le_n _))
    as (A1 & L1 & N1 & C1 & T1 & St & Fr).
  set (s1 := evict (S (length (s_mem s))) L s) in *.
  destruct (inner_set k r s1) as [s2 res] eqn:IS.
  destruct (inner_set_total k r s1 s2 res (ac_nodup _ A1) IS) as (ND2 & L2 & U2 & R).
  assert (U1 : s_usage s1 = total (s_mem s1)) by (apply (ac_exact _ A1 L); exact L1).
  destruct res as [c|e]; cbn [fst snd].
  - destruct R as [TT (new & Ln & Hn)].
    assert (TB : total (s_mem s1) <= L) by (destruct St as [St|St]; [lia|rewrite St; cbn; lia]).
    set (repl := match lookup k (s_mem s1) with Some old => rec_len old | None => 0 end) in *.
    assert (RL : repl <= total (s_mem s1)).
    { subst repl. destruct (lookup k (s_mem s1)) as [old|] eqn:Lo; [|lia].
      pose proof (total_remove k old _ (ac_nodup _ A1) Lo). lia. }
    clearbody repl. clearbody s1.
    split; [|split].
    + split; ssimpl.
      * exact ND2.
      * intros L' _. rewrite U2, U1, add64w_exact by lia. rewrite sub64w_exact by lia. lia.
      * lia.
    + ssimpl. congruence.
    + ssimpl. split; [lia|]. exists new. auto.
  - subst s2. split; [exact A1|]. split; [exact L1|]. exact T1.
Qed.

(* ---- every request keeps the accounting exact ---- *)
Definition roomy (s : store) : Prop := total (s_mem s) + two32 * 2 < two64.

Lemma memc_like_acct k s (F : store -> store) :
  acct s -> (forall s1, acct s1 -> acct (F s1)) -> acct (F (fst (get k s))).
Proof. intros A HF. apply HF. now apply get_acct. Qed.

(* ---- set, with or without a policy ---- *)
Lemma set_acct k r s :
  acct s -> total (s_mem s) + rec_len r < two64 ->
  acct (fst (set k r s)) /\ total (s_mem (fst (set k r s))) <= total (s_mem s) + rec_len r /\
  s_limit (fst (set k r s)) = s_limit s.
Proof.
  intros A SM. destruct (s_limit s) as [L|] eqn:EL.
  - destruct (set_policy_spec k r s L A EL SM) as (A' & L' & R). split; [exact A'|]. split; [|exact L'].
    destruct (snd (set k r s)).
    + destruct R as [R _].
      (* the bound L + len is not what is needed here: use the evict/inner_set facts again *)
      clear R. unfold set. rewrite EL.
      destruct (evict_spec (S (length (s_mem s))) L s A EL (le_n _)) as (A1 & L1 & _ & _ & T1 & _ & _).
      set (s1 := evict (S (length (s_mem s))) L s) in *.
      destruct (inner_set k r s1) as [s2 res] eqn:IS.
      destruct (inner_set_total k r s1 s2 res (ac_nodup _ A1) IS) as (_ & _ & _ & R).
      destruct res; cbn [fst]; ssimpl; [destruct R as [TT _]; lia|subst; lia].
    + lia.
  - unfold set. rewrite EL. destruct (inner_set k r s) as [s2 res] eqn:IS.
    destruct (inner_set_total k r s s2 res (ac_nodup _ A) IS) as (ND2 & L2 & U2 & R). cbn [fst].
    destruct res.
    + destruct R as [TT _]. split; [|split; [lia|congruence]].
      split; [exact ND2| |lia]. intros L' E. congruence.
    + subst. split; [exact A|]. split; [lia|congruence].
Qed.

(* ---- the decimal rendering is short ---- *)
Lemma dec_digits_length f : forall n acc, (length (dec_digits f n acc) <= f + length acc)%nat.
Proof.
  induction f as [|f IH]; intros n acc; cbn [dec_digits]; [lia|].
  destruct (n / 10 =? 0); cbn [length]; [lia|].
  specialize (IH (n / 10) (digit (n mod 10) :: acc)). cbn [length] in IH. lia.
Qed.

Lemma to_dec_len n : blen (to_dec n) <= 40.
Proof. unfold to_dec, blen. pose proof (dec_digits_length 40 n []). cbn [length] in H. lia. Qed.

Lemma blen_app_n (a b : bytes) : blen (a ++ b) = blen a + blen b.
Proof. unfold blen. rewrite app_length. lia. Qed.

(* ---- every request keeps the accounting exact (C15) ---- *)
Definition req_value (req : request) : bytes :=
  match req with
  | ReqSet _ _ _ _ _ v | ReqAppend _ _ _ v => v
  | _ => []
  end.

(* room for the record a request may write: the stored bytes stay far below 2^64 *)
Definition headroom (s : store) (req : request) : Prop :=
  2 * total (s_mem s) + blen (req_value req) + 100 < two64.

Lemma lookup_len_le k r m : NoDup (keys m) -> lookup k m = Some r -> rec_len r <= total m.
Proof. intros ND L. pose proof (total_remove k r m ND L). lia. Qed.

Lemma meta_len_small : META_LEN <= 50.
Proof. unfold META_LEN. lia. Qed.

Lemma handle_acct req s :
  acct s -> headroom s req ->
  acct (fst (handle_request req s)) /\ s_limit (fst (handle_request req s)) = s_limit s.
Proof.
  intros A H. rewrite Effects.handle_effect. unfold headroom in H. pose proof meta_len_small as ML.
  assert (GET : forall k, acct (fst (get k s)) /\ total (s_mem (fst (get k s))) <= total (s_mem s) /\
                          s_limit (fst (get k s)) = s_limit s).
  { intros k. split; [now apply get_acct|]. split; [now apply get_total|].
    unfold get. destruct (lookup k (s_mem s)); [|reflexivity]. destruct (expired _ _); [|reflexivity].
    cbn. rewrite s_limit_decr_usage. reflexivity. }
  assert (SET : forall k r s1, acct s1 -> total (s_mem s1) <= total (s_mem s) -> s_limit s1 = s_limit s ->
                 rec_len r <= total (s_mem s) + blen (req_value req) + 100 ->
                 acct (fst (set k r s1)) /\ s_limit (fst (set k r s1)) = s_limit s).
  { intros k r s1 A1 T1 L1 HR. destruct (set_acct k r s1 A1) as (A2 & _ & L2); [lia|]. split; [exact A2|congruence]. }
  destruct req as [v h kk|v h fl ex kk val|v h kk val|q h kk|v h dl ini ex kk|h|h|h|h|q h ex|h|h];
    cbn [Effects.effect req_value] in *; auto.
  - destruct (GET kk) as (A1 & _ & L1). auto.
  - (* set / add / replace *)
    assert (RL : rec_len (mkRec 0 (h_cas h) fl ex val) <= total (s_mem s) + blen val + 100).
    { unfold rec_len. cbn [r_val]. lia. }
    assert (ADD : acct (fst (memc_add kk (mkRec 0 (h_cas h) fl ex val) s)) /\
                  s_limit (fst (memc_add kk (mkRec 0 (h_cas h) fl ex val) s)) = s_limit s).
    { unfold memc_add. destruct (GET kk) as (A1 & T1 & L1). destruct (get kk s) as [s1 g]. cbn [fst] in *.
      destruct g; [cbn; auto|]. apply SET; auto. }
    assert (REP : acct (fst (memc_replace kk (mkRec 0 (h_cas h) fl ex val) s)) /\
                  s_limit (fst (memc_replace kk (mkRec 0 (h_cas h) fl ex val) s)) = s_limit s).
    { unfold memc_replace. destruct (GET kk) as (A1 & T1 & L1). destruct (get kk s) as [s1 g]. cbn [fst] in *.
      destruct g; [|cbn; auto]. apply SET; auto. }
    destruct v; try (apply SET; auto; lia);
      destruct ((h_opcode h =? cmd_Add) || (h_opcode h =? cmd_AddQuiet)); assumption.
  - (* append / prepend *)
    assert (APP : forall pre, 
              let f := fun old => if pre : bool then val ++ r_val old else r_val old ++ val in
              forall s1 g, acct s1 -> total (s_mem s1) <= total (s_mem s) -> s_limit s1 = s_limit s ->
              (forall old, g = ROk old -> rec_len old <= total (s_mem s)) ->
              acct (fst (match g with
                         | ROk old => set kk (mkRec (r_ts old) (h_cas h) (r_flags old) (r_ttl old) (f old)) s1
                         | RErr _ => (s1, RErr NotFound) end)) /\
              s_limit (fst (match g with
                         | ROk old => set kk (mkRec (r_ts old) (h_cas h) (r_flags old) (r_ttl old) (f old)) s1
                         | RErr _ => (s1, RErr NotFound) end)) = s_limit s).
    { intros pre f s1 g A1 T1 L1 HO. destruct g as [old|e]; [|cbn; auto].
      apply SET; auto. specialize (HO old eq_refl). unfold rec_len in *. cbn [r_val]. subst f. cbn beta.
      destruct pre; rewrite blen_app_n; lia. }
    assert (HO : forall old, snd (get kk s) = ROk old -> rec_len old <= total (s_mem s)).
    { intros old G. unfold get in G. destruct (lookup kk (s_mem s)) as [r|] eqn:L; [|discriminate].
      destruct (expired _ _); [discriminate|]. cbn in G. injection G as <-.
      eapply lookup_len_le; [apply (ac_nodup _ A)|exact L]. }
    destruct (GET kk) as (A1 & T1 & L1).
    destruct ((h_opcode h =? cmd_Append) || (h_opcode h =? cmd_AppendQuiet)).
    + unfold memc_append. destruct (get kk s) as [s1 g]. cbn [fst snd] in *.
      apply (APP false s1 g A1 T1 L1). intros old ->. now apply HO.
    + unfold memc_prepend. destruct (get kk s) as [s1 g]. cbn [fst snd] in *.
      apply (APP true s1 g A1 T1 L1). intros old ->. now apply HO.
  - split; [now apply delete_acct|]. unfold delete. destruct (lookup kk (s_mem s)); [|reflexivity].
    destruct (_ || _); [|reflexivity]. cbn. now rewrite s_limit_decr_usage.
  - (* incr / decr *)
    assert (D : forall i, acct (fst (memc_delta i kk (h_cas h) ex dl ini s)) /\
                          s_limit (fst (memc_delta i kk (h_cas h) ex dl ini s)) = s_limit s).
    { intros i. unfold memc_delta. destruct (GET kk) as (A1 & T1 & L1). destruct (get kk s) as [s1 g]. cbn [fst] in *.
      destruct g as [old|e].
      - destruct (parse_u64 (r_val old)); [|cbn; auto].
        match goal with |- context[set kk ?rr s1] =>
          destruct (SET kk rr s1 A1 T1 L1) as [A2 L2];
          [unfold rec_len; cbn [r_val]; pose proof (to_dec_len (if i then wrapping_add64 n dl else if n <? dl then 0 else n - dl)); lia|];
          destruct (set kk rr s1) as [s2 [c|er]]; cbn [fst] in *; auto end.
      - destruct (ex =? u32_max); [cbn; auto|].
        match goal with |- context[set kk ?rr s1] =>
          destruct (SET kk rr s1 A1 T1 L1) as [A2 L2];
          [unfold rec_len; cbn [r_val]; pose proof (to_dec_len ini); lia|];
          destruct (set kk rr s1) as [s2 [c|er]]; cbn [fst] in *; auto end. }
    destruct v; apply D.
  - split; [now apply flush_acct|]. unfold flush. destruct (0 <? ex); [reflexivity|].
    destruct (s_limit s) eqn:E; cbn; congruence.
Qed.

(* the counter is a function of the content along every history, and returns to
   0 whenever the store returns to empty *)
Definition cmd_headroom (s : store) (c : cmd) : Prop :=
  match c with CReq req => headroom s req | CTick _ => True end.

Fixpoint hist_headroom (s : store) (cs : list cmd) : Prop :=
  match cs with
  | [] => True
  | c :: t => cmd_headroom s c /\ hist_headroom (exec s c) t
  end.

Lemma exec_acct s c : acct s -> cmd_headroom s c -> acct (exec s c) /\ s_limit (exec s c) = s_limit s.
Proof.
  intros A H. destruct c as [req|d]; cbn [exec].
  - now apply handle_acct.
  - split; [|reflexivity]. destruct A as [ND EX SM]. split; cbn; auto.
Qed.

Lemma run_acct cs : forall s, acct s -> hist_headroom s cs -> acct (run s cs) /\ s_limit (run s cs) = s_limit s.
Proof.
  induction cs as [|c cs IH]; intros s A H; [auto|].
  destruct H as [H1 H2]. cbn [run fold_left]. fold (run (exec s c) cs).
  destruct (exec_acct s c A H1) as [A1 L1]. destruct (IH _ A1 H2) as [A2 L2]. split; [exact A2|congruence].
Qed.

Lemma accounting_exact lim L cs :
  lim = Some L -> hist_headroom (init_store lim) cs ->
  s_usage (run (init_store lim) cs) = total (s_mem (run (init_store lim) cs)) /\
  (s_mem (run (init_store lim) cs) = [] -> s_usage (run (init_store lim) cs) = 0).
Proof.
  intros -> H. destruct (run_acct cs _ (acct_init (Some L)) H) as [A Li].
  assert (E : s_usage (run (init_store (Some L)) cs) = total (s_mem (run (init_store (Some L)) cs))).
  { apply (ac_exact _ A L). rewrite Li. reflexivity. }
  split; [exact E|]. intros M. rewrite E, M. reflexivity.
Qed.

(* ---- no eviction without memory pressure ---- *)
(* the eviction loop removes nothing unless the counter — that is, the stored
   bytes — exceeds the limit *)
Lemma no_eviction_below_limit k r s L :
  acct s -> s_limit s = Some L -> total (s_mem s) <= L ->
  forall k', k' <> k -> lookup k' (s_mem (fst (set k r s))) = lookup k' (s_mem s).
Proof.
  intros A EL TL k' N. unfold set. rewrite EL.
  rewrite evict_no_pressure by (rewrite (ac_exact _ A L EL); exact TL).
  pose proof (inner_set_cases k r s) as S. destruct (inner_set k r s) as [s2 res].
  inversion S; subst; cbn [fst]; ssimpl; try (now apply lookup_insert_ne); reflexivity.
Qed.

(* ---- C14 over histories ---- *)
(* an upper bound on the size of the record a request writes *)
Definition wsize (req : request) (s : store) : N :=
  match req with
  | ReqSet _ _ _ _ _ v => META_LEN + blen v
  | ReqAppend _ _ k v =>
      match lookup k (s_mem s) with Some old => META_LEN + blen (r_val old) + blen v | None => 0 end
  | ReqIncr _ _ _ _ _ _ => META_LEN + 40
  | _ => 0
  end.

Lemma set_total_max k r s L :
  acct s -> s_limit s = Some L -> total (s_mem s) + rec_len r < two64 ->
  total (s_mem (fst (set k r s))) <= N.max (total (s_mem s)) (L + rec_len r).
Proof.
  intros A EL SM. destruct (set_policy_spec k r s L A EL SM) as (_ & _ & R).
  destruct (snd (set k r s)); [destruct R as [R _]|]; lia.
Qed.

Lemma handle_total req s L :
  acct s -> s_limit s = Some L -> headroom s req ->
  total (s_mem (fst (handle_request req s))) <= N.max (total (s_mem s)) (L + wsize req s).
Proof.
  intros A EL H. rewrite Effects.handle_effect. unfold headroom in H. pose proof meta_len_small as ML.
  assert (GET : forall k, acct (fst (get k s)) /\ total (s_mem (fst (get k s))) <= total (s_mem s) /\
                          s_limit (fst (get k s)) = Some L).
  { intros k. split; [now apply get_acct|]. split; [now apply get_total|].
    unfold get. destruct (lookup k (s_mem s)); [|exact EL]. destruct (expired _ _); [|exact EL].
    cbn. rewrite s_limit_decr_usage. exact EL. }
  assert (SET : forall k r s1 W, acct s1 -> total (s_mem s1) <= total (s_mem s) -> s_limit s1 = Some L ->
                 rec_len r <= W -> W <= total (s_mem s) + blen (req_value req) + 100 ->
                 total (s_mem (fst (set k r s1))) <= N.max (total (s_mem s)) (L + W)).
  { intros k r s1 W A1 T1 L1 HR HW. pose proof (set_total_max k r s1 L A1 L1) as B. lia. }
  destruct req as [v h kk|v h fl ex kk val|v h kk val|q h kk|v h dl ini ex kk|h|h|h|h|q h ex|h|h];
    cbn [Effects.effect req_value wsize] in *; try lia.
  - destruct (GET kk) as (_ & T1 & _). lia.
  - assert (RL : rec_len (mkRec 0 (h_cas h) fl ex val) <= META_LEN + blen val) by (unfold rec_len; cbn [r_val]; lia).
    assert (ADD : total (s_mem (fst (memc_add kk (mkRec 0 (h_cas h) fl ex val) s))) <=
                  N.max (total (s_mem s)) (L + (META_LEN + blen val))).
    { unfold memc_add. destruct (GET kk) as (A1 & T1 & L1). destruct (get kk s) as [s1 g]. cbn [fst] in *.
      destruct g; [cbn [fst]; lia|]. apply SET; auto; lia. }
    assert (REP : total (s_mem (fst (memc_replace kk (mkRec 0 (h_cas h) fl ex val) s))) <=
                  N.max (total (s_mem s)) (L + (META_LEN + blen val))).
    { unfold memc_replace. destruct (GET kk) as (A1 & T1 & L1). destruct (get kk s) as [s1 g]. cbn [fst] in *.
      destruct g; [|cbn [fst]; lia]. apply SET; auto; lia. }
    destruct v; try (apply SET; auto; lia);
      destruct ((h_opcode h =? cmd_Add) || (h_opcode h =? cmd_AddQuiet)); assumption.
  - destruct (GET kk) as (A1 & T1 & L1).
    assert (HO : forall old, snd (get kk s) = ROk old -> lookup kk (s_mem s) = Some old).
    { intros old G. unfold get in G. destruct (lookup kk (s_mem s)) as [r|] eqn:Lk; [|discriminate].
      destruct (expired _ _); [discriminate|]. cbn in G. congruence. }
    destruct ((h_opcode h =? cmd_Append) || (h_opcode h =? cmd_AppendQuiet)).
    + unfold memc_append. destruct (get kk s) as [s1 g]. cbn [fst snd] in *.
      destruct g as [old|e]; [|cbn [fst]; lia]. rewrite (HO old eq_refl).
      pose proof (lookup_len_le kk old _ (ac_nodup _ A) (HO old eq_refl)) as LL. unfold rec_len in LL.
      apply SET; auto; unfold rec_len; cbn [r_val]; rewrite ?blen_app_n; lia.
    + unfold memc_prepend. destruct (get kk s) as [s1 g]. cbn [fst snd] in *.
      destruct g as [old|e]; [|cbn [fst]; lia]. rewrite (HO old eq_refl).
      pose proof (lookup_len_le kk old _ (ac_nodup _ A) (HO old eq_refl)) as LL. unfold rec_len in LL.
      apply SET; auto; unfold rec_len; cbn [r_val]; rewrite ?blen_app_n; lia.
  - pose proof (delete_total kk (h_cas h) s A). lia.
  - assert (D : forall i, total (s_mem (fst (memc_delta i kk (h_cas h) ex dl ini s))) <=
                          N.max (total (s_mem s)) (L + (META_LEN + 40))).
    { intros i. unfold memc_delta. destruct (GET kk) as (A1 & T1 & L1). destruct (get kk s) as [s1 g]. cbn [fst] in *.
      destruct g as [old|e].
      - destruct (parse_u64 (r_val old)); [|cbn [fst]; lia].
        match goal with |- context[set kk ?rr s1] =>
          pose proof (SET kk rr s1 (META_LEN + 40) A1 T1 L1) as B;
          destruct (set kk rr s1) as [s2 [c|er]]; cbn [fst] in *; apply B; try lia;
          unfold rec_len; cbn [r_val];
          pose proof (to_dec_len (if i then wrapping_add64 n dl else if n <? dl then 0 else n - dl)); lia end.
      - destruct (ex =? u32_max); [cbn [fst]; lia|].
        match goal with |- context[set kk ?rr s1] =>
          pose proof (SET kk rr s1 (META_LEN + 40) A1 T1 L1) as B;
          destruct (set kk rr s1) as [s2 [c|er]]; cbn [fst] in *; apply B; try lia;
          unfold rec_len; cbn [r_val]; pose proof (to_dec_len ini); lia end. }
    destruct v; apply D.
  - pose proof (flush_total ex s). lia.
Qed.
