(* PC11.v — proofs for C11: every response is a well-formed, correlated frame *)
From MC Require Import Model.Base Model.Generated Model.Store Model.Memc Model.Codec Model.Handler
  Spec.Quiet Spec.Wire Proofs.Decimal Proofs.CodecLemmas.
From Coq Require Import ZifyN ZifyNat.

(* ---- big-endian round trip ---- *)
Lemma be_acc_spec l : forall acc, be_acc acc l = acc * 256 ^ N.of_nat (length l) + be_dec l.
Proof.
  unfold be_dec. induction l as [|b l IH]; intros acc.
  - cbn. lia.
  - cbn [be_acc length]. rewrite IH, (IH (0 * 256 + b2n b)).
    rewrite Nat2N.inj_succ, N.pow_succ_r'. lia.
Qed.

Lemma be_enc_length k n : length (be_enc k n) = k.
Proof. induction k as [|k IH]; cbn; [reflexivity|now rewrite IH]. Qed.

Lemma be_dec_enc k : forall n, be_dec (be_enc k n) = n mod 256 ^ N.of_nat k.
Proof.
  induction k as [|k IH]; intros n.
  - cbn. now rewrite N.mod_1_r.
  - cbn [be_enc]. unfold be_dec. cbn [be_acc]. rewrite be_acc_spec, be_enc_length, IH.
    assert (B : b2n (n2b (n / 256 ^ N.of_nat k)) = (n / 256 ^ N.of_nat k) mod 256).
    { unfold n2b. pose proof (N.mod_lt (n / 256 ^ N.of_nat k) 256) as L.
      destruct (Byte.of_N ((n / 256 ^ N.of_nat k) mod 256)) as [b|] eqn:E.
      - apply Byte.to_of_N in E. exact E.
      - apply Byte.of_N_None_iff in E. lia. }
    rewrite B. rewrite Nat2N.inj_succ, N.pow_succ_r'.
    rewrite (N.mul_comm 256 (256 ^ N.of_nat k)).
    rewrite (N.mod_mul_r n (256 ^ N.of_nat k) 256) by (try apply N.pow_nonzero; discriminate).
    lia.
Qed.

Lemma be_dec_enc_small k n : n < 256 ^ N.of_nat k -> be_dec (be_enc k n) = n.
Proof. intros H. rewrite be_dec_enc. now apply N.mod_small. Qed.

(* ---- the encoded header reads back ---- *)
Definition rh_in_range (h : rheader) : Prop :=
  rh_magic h < 256 /\ rh_opcode h < 256 /\ rh_keylen h < 65536 /\ rh_extlen h < 256 /\ rh_dtype h < 256 /\
  rh_status h < 65536 /\ rh_bodylen h < 4294967296 /\ rh_opaque h < 4294967296 /\
  rh_cas h < 18446744073709551616.

Definition data_of (r : response) : bytes :=
  match r with
  | RespError _ msg => msg
  | RespGet _ flags key value => be32 flags ++ key ++ value
  | RespPlain _ | RespQuit _ => []
  | RespVersion _ v => v
  | RespCounter _ value => be64 value
  end.

Lemma encode_split r : encode r = encode_rheader (resp_header r) ++ data_of r.
Proof. destruct r; reflexivity. Qed.

Lemma parse_encoded h data tail :
  rh_in_range h -> blen data = rh_bodylen h ->
  parse_response (encode_rheader h ++ data ++ tail) =
  Some (mkFrame (rh_magic h) (rh_opcode h) (rh_keylen h) (rh_extlen h) (rh_dtype h) (rh_status h)
                (rh_bodylen h) (rh_opaque h) (rh_cas h) data, tail).
Proof.
  intros (R1 & R2 & R3 & R4 & R5 & R6 & R7 & R8 & R9) LB.
  unfold parse_response, encode_rheader, be16, be32, be64. cbn [be_enc app take].
  assert (E2 : forall x, x < 65536 -> be_dec [n2b (x / 256 ^ N.of_nat 1); n2b (x / 256 ^ N.of_nat 0)] = x).
  { intros x Hx. apply (be_dec_enc_small 2 x). exact Hx. }
  assert (E4 : forall x, x < 4294967296 ->
            be_dec [n2b (x / 256 ^ N.of_nat 3); n2b (x / 256 ^ N.of_nat 2); n2b (x / 256 ^ N.of_nat 1);
                    n2b (x / 256 ^ N.of_nat 0)] = x).
  { intros x Hx. apply (be_dec_enc_small 4 x). exact Hx. }
  assert (E8 : forall x, x < 18446744073709551616 ->
            be_dec [n2b (x / 256 ^ N.of_nat 7); n2b (x / 256 ^ N.of_nat 6); n2b (x / 256 ^ N.of_nat 5);
                    n2b (x / 256 ^ N.of_nat 4); n2b (x / 256 ^ N.of_nat 3); n2b (x / 256 ^ N.of_nat 2);
                    n2b (x / 256 ^ N.of_nat 1); n2b (x / 256 ^ N.of_nat 0)] = x).
  { intros x Hx. apply (be_dec_enc_small 8 x). exact Hx. }
  rewrite (E4 _ R7), (E2 _ R3), (E2 _ R6), (E4 _ R8), (E8 _ R9), !b2n_n2b by assumption.
  destruct (take_some (N.to_nat (rh_bodylen h)) (data ++ tail)) as (x & r & E & L & A).
  { rewrite app_length. unfold blen in LB. lia. }
  rewrite E.
  assert (x = data /\ r = tail) as [-> ->].
  { assert (length x = length data) by (unfold blen in LB; lia).
    clear - A H. revert data A H. induction x as [|a x IH]; intros [|d data] A H; cbn in *; try discriminate.
    - auto.
    - injection A as <- A. injection H as H. destruct (IH _ A H) as [-> ->]. auto. }
  reflexivity.
Qed.

(* ---- the shape of every response the handler produces ---- *)
Definition status_in_table (st : N) : Prop := In st status_codes.

(* well-formed, and correlated with the request header [h] *)
Definition resp_ok (h : header) (r : response) : Prop :=
  let rh := resp_header r in
  rh_magic rh = 129 /\ rh_opcode rh = h_opcode h /\ rh_opaque rh = h_opaque h /\ rh_dtype rh = 0 /\
  status_in_table (rh_status rh) /\
  rh_bodylen rh = blen (data_of r) /\
  match r with
  | RespGet rh' _ key value =>
      rh_extlen rh' = 4 /\ rh_keylen rh' = blen key /\ rh_status rh' = 0 /\
      rh_bodylen rh' = 4 + blen key + blen value
  | RespCounter rh' _ => rh_extlen rh' = 0 /\ rh_keylen rh' = 0 /\ rh_bodylen rh' = 8 /\ rh_status rh' = 0
  | RespError rh' msg => rh_extlen rh' = 0 /\ rh_keylen rh' = 0 /\ rh_status rh' <> 0
  | RespPlain rh' | RespQuit rh' => rh_extlen rh' = 0 /\ rh_keylen rh' = 0 /\ rh_bodylen rh' = 0 /\ rh_status rh' = 0
  | RespVersion rh' v => rh_extlen rh' = 0 /\ rh_keylen rh' = 0 /\ rh_status rh' = 0
  end.

Ltac rsimpl :=
  cbn [resp_header data_of rh_magic rh_opcode rh_keylen rh_extlen rh_dtype rh_status rh_bodylen rh_opaque
       rh_cas new_rheader with_cas error_response In status_codes magic_Response].

Lemma error_response_ok h e :
  resp_ok h (error_response e (new_rheader (h_opcode h) (h_opaque h))).
Proof.
  unfold resp_ok, status_in_table; rsimpl.
  repeat split; auto; destruct e; cbn; auto 20; discriminate.
Qed.

Lemma set_response_ok h res : resp_ok h (set_response (new_rheader (h_opcode h) (h_opaque h)) res).
Proof.
  destruct res as [c|e]; [|apply error_response_ok].
  unfold resp_ok, status_in_table; rsimpl. repeat split; auto 20.
Qed.

Lemma blen_be32 x : blen (be32 x) = 4.
Proof. reflexivity. Qed.
Lemma blen_be64 x : blen (be64 x) = 8.
Proof. reflexivity. Qed.

Lemma handler_resp_ok req s s' r :
  handle_request req s = (s', Some r) -> resp_ok (req_header req) r.
Proof.
  destruct req as [v h kk|v h fl ex kk val|v h kk val|q h kk|v h dl ini ex kk|h|h|h|h|q h ex|h|h];
    cbn [handle_request req_header].
  - (* get *)
    assert (G : forall rr, snd (h_get h kk (new_rheader (h_opcode h) (h_opaque h)) s) = rr -> resp_ok h rr).
    { intros rr <-. unfold h_get. destruct (get kk s) as [s1 [rec|e]]; cbn [snd]; [|apply error_response_ok].
      unfold resp_ok, status_in_table; rsimpl. rewrite !blen_app, blen_be32.
      repeat split; auto 20; unfold EXTRAS_LENGTH; try lia. }
    destruct v; unfold loud; cbn [fst snd].
    + intros [= <- <-]. now apply G.
    + destruct (into_quiet_get _) as [r0|] eqn:Q; [|discriminate]. intros [= <- <-].
      assert (r0 = snd (h_get h kk (new_rheader (h_opcode h) (h_opaque h)) s)).
      { destruct (snd (h_get h kk (new_rheader (h_opcode h) (h_opaque h)) s)); cbn in Q; try congruence.
        destruct (rh_status h0 =? err_NotFound_code); congruence. }
      subst r0. now apply G.
    + intros [= <- <-]. now apply G.
    + destruct (into_quiet_get _) as [r0|] eqn:Q; [|discriminate]. intros [= <- <-].
      assert (r0 = snd (h_get h kk (new_rheader (h_opcode h) (h_opaque h)) s)).
      { destruct (snd (h_get h kk (new_rheader (h_opcode h) (h_opaque h)) s)); cbn in Q; try congruence.
        destruct (rh_status h0 =? err_NotFound_code); congruence. }
      subst r0. now apply G.
  - (* set family *)
    assert (QM : forall p : store * response, resp_ok h (snd p) ->
                 forall r0, into_quiet_mutation (snd p) = Some r0 -> resp_ok h r0).
    { intros p OKp r0. destruct (snd p); cbn; try discriminate. now intros [= <-]. }
    assert (S1 : resp_ok h (snd (h_set h fl ex kk val (new_rheader (h_opcode h) (h_opaque h)) s))).
    { unfold h_set. destruct (set _ _ _). cbn [snd]. apply set_response_ok. }
    assert (S2 : resp_ok h (snd (h_add_replace h fl ex kk val (new_rheader (h_opcode h) (h_opaque h)) s))).
    { unfold h_add_replace. destruct ((h_opcode h =? cmd_Add) || (h_opcode h =? cmd_AddQuiet));
        [destruct (memc_add _ _ _)|destruct (memc_replace _ _ _)]; cbn [snd]; apply set_response_ok. }
    destruct v; unfold loud, quiet_mut; cbn [fst snd];
      try (intros [= <- <-]; assumption);
      (destruct (into_quiet_mutation _) as [r0|] eqn:Q; [|discriminate]; intros [= <- <-];
       first [exact (QM _ S1 _ Q) | exact (QM _ S2 _ Q)]).
  - (* append family *)
    assert (QM : forall p : store * response, resp_ok h (snd p) ->
                 forall r0, into_quiet_mutation (snd p) = Some r0 -> resp_ok h r0).
    { intros p OKp r0. destruct (snd p); cbn; try discriminate. now intros [= <-]. }
    assert (S2 : resp_ok h (snd (h_append_prepend h kk val (new_rheader (h_opcode h) (h_opaque h)) s))).
    { unfold h_append_prepend. destruct ((h_opcode h =? cmd_Append) || (h_opcode h =? cmd_AppendQuiet));
        [destruct (memc_append _ _ _ _)|destruct (memc_prepend _ _ _ _)]; cbn [snd]; apply set_response_ok. }
    destruct v; unfold loud, quiet_mut; cbn [fst snd];
      try (intros [= <- <-]; assumption);
      (destruct (into_quiet_mutation _) as [r0|] eqn:Q; [|discriminate]; intros [= <- <-];
       eapply QM; eauto).
  - (* delete *)
    assert (S2 : resp_ok h (snd (h_delete h kk (new_rheader (h_opcode h) (h_opaque h)) s))).
    { unfold h_delete. destruct (delete _ _ _) as [s1 [rec|e]]; cbn; [|apply error_response_ok].
      unfold resp_ok, status_in_table; rsimpl. repeat split; auto 20. }
    destruct q; unfold loud, quiet_mut; cbn [fst snd].
    + destruct (into_quiet_mutation _) as [r0|] eqn:Q; [|discriminate]. intros [= <- <-].
      destruct (snd (h_delete h kk (new_rheader (h_opcode h) (h_opaque h)) s)); cbn in Q; try discriminate.
      injection Q as <-. exact S2.
    + intros [= <- <-]. exact S2.
  - (* incr / decr *)
    assert (QM : forall p : store * response, resp_ok h (snd p) ->
                 forall r0, into_quiet_mutation (snd p) = Some r0 -> resp_ok h r0).
    { intros p OKp r0. destruct (snd p); cbn; try discriminate. now intros [= <-]. }
    assert (S2 : forall i, resp_ok h (snd (h_delta i h dl ini ex kk (new_rheader (h_opcode h) (h_opaque h)) s))).
    { intros i. unfold h_delta. destruct (memc_delta _ _ _ _ _ _ _) as [s1 [[c vv]|e]]; cbn; [|apply error_response_ok].
      unfold resp_ok, status_in_table; rsimpl. repeat split; auto 20. }
    destruct v; unfold loud, quiet_mut; cbn [fst snd];
      try (intros [= <- <-]; apply S2);
      (destruct (into_quiet_mutation _) as [r0|] eqn:Q; [|discriminate]; intros [= <- <-];
       eapply QM; eauto).
  - intros [= <- <-]. unfold resp_ok, status_in_table; rsimpl. repeat split; auto 20.
  - intros [= <- <-]. unfold resp_ok, status_in_table; rsimpl. repeat split; auto 20.
  - intros [= <- <-]. unfold resp_ok, status_in_table; rsimpl. repeat split; auto 20.
  - cbn. discriminate.
  - (* flush *)
    destruct q; unfold loud, quiet_mut, h_flush; cbn [fst snd]; [cbn; discriminate|].
    intros [= <- <-]. unfold resp_ok, status_in_table; rsimpl. repeat split; auto 20.
  - intros [= <- <-]. apply error_response_ok.
  - intros [= <- <-]. apply error_response_ok.
Qed.

(* a decoded request's opcode and opaque are a byte and a 32-bit number *)
Definition hdr_in_range (h : header) : Prop := h_opcode h < 256 /\ h_opaque h < 4294967296.

Lemma resp_in_range h r :
  hdr_in_range h -> resp_ok h r ->
  rh_cas (resp_header r) < 18446744073709551616 -> rh_bodylen (resp_header r) < 4294967296 ->
  rh_keylen (resp_header r) < 65536 ->
  rh_in_range (resp_header r).
Proof.
  intros [HO HQ] (M & O & Q & D & ST & BL & SH) HC HB HK. unfold rh_in_range.
  rewrite M, O, Q, D. repeat split; try lia; try assumption.
  - destruct r; cbn [resp_header] in *; destruct SH as (A & _); lia.
  - unfold status_in_table, status_codes in ST. cbn [In] in ST.
    repeat (destruct ST as [ST|ST]; [rewrite <- ST; lia|]). contradiction.
Qed.

(* the client finds the frame, and what follows it, in the bytes written *)
Lemma response_parses req s s' r tail :
  handle_request req s = (s', Some r) -> hdr_in_range (req_header req) ->
  rh_cas (resp_header r) < 18446744073709551616 -> rh_bodylen (resp_header r) < 4294967296 ->
  rh_keylen (resp_header r) < 65536 ->
  exists f, parse_response (encode r ++ tail) = Some (f, tail) /\
    f_magic f = 129 /\ f_opcode f = h_opcode (req_header req) /\ f_opaque f = h_opaque (req_header req) /\
    f_dtype f = 0 /\ status_in_table (f_status f) /\ f_body f = data_of r /\
    f_bodylen f = blen (f_body f) /\ f_cas f = rh_cas (resp_header r).
Proof.
  intros H HR HC HB HK. pose proof (handler_resp_ok _ _ _ _ H) as OK.
  pose proof (resp_in_range _ _ HR OK HC HB HK) as RR.
  destruct OK as (M & O & Q & D & ST & BL & SH).
  rewrite encode_split, <- app_assoc.
  rewrite (parse_encoded _ _ tail RR (eq_sym BL)).
  eexists. split; [reflexivity|]. cbn [f_magic f_opcode f_opaque f_dtype f_status f_body f_bodylen f_cas].
  repeat split; auto.
Qed.
