(* PC19.v — proofs for C19: quiet variants differ only in what is sent back *)
From MC Require Import Model.Base Model.Generated Model.Store Model.Memc Model.Codec Model.Handler
  Spec.Exec Spec.Quiet Proofs.StoreLemmas Proofs.SetLemmas Proofs.MemcLemmas Proofs.Effects.

(* ---- same effect ---- *)
Lemma twin_effect req s : wf_req req -> effect (twin req) s = effect req s.
Proof.
  intros W.
  destruct req as [v h kk|v h fl ex kk val|v h kk val|q h kk|v h dl ini ex kk|h|h|h|h|q h ex|h|h];
    cbn in W.
  - destruct v; reflexivity.
  - destruct v; cbn [twin effect twin_setv opcode_of_setv with_opcode h_cas h_opcode]; rewrite ?W; reflexivity.
  - destruct v; cbn [twin effect twin_appv opcode_of_appv with_opcode h_cas h_opcode]; rewrite ?W; reflexivity.
  - destruct q; reflexivity.
  - destruct v; reflexivity.
  - reflexivity.
  - reflexivity.
  - reflexivity.
  - reflexivity.
  - destruct q; reflexivity.
  - reflexivity.
  - reflexivity.
Qed.

Lemma same_effect req s :
  wf_req req -> fst (handle_request (twin req) s) = fst (handle_request req s).
Proof. intros W. rewrite !handle_effect. now apply twin_effect. Qed.

Lemma twin_wf req : wf_req req -> wf_req (twin req).
Proof.
  destruct req as [v h kk|v h fl ex kk val|v h kk val|q h kk|v h dl ini ex kk|h|h|h|h|q h ex|h|h];
    cbn; auto; try (destruct v; reflexivity); destruct q; reflexivity.
Qed.

Lemma twin_involutive req : wf_req req -> twin (twin req) = req.
Proof.
  destruct req as [v h kk|v h fl ex kk val|v h kk val|q h kk|v h dl ini ex kk|h|h|h|h|q h ex|h|h];
    cbn; auto; intros W; destruct h; cbn in *; subst;
    try (destruct v; reflexivity); destruct q; reflexivity.
Qed.

(* ---- histories ---- *)
Lemma toggle_histories mask : forall reqs s,
  Forall wf_req reqs ->
  run s (map CReq (toggle_some mask reqs)) = run s (map CReq reqs).
Proof.
  induction mask as [|b mask IH]; intros reqs s HW; [destruct reqs; reflexivity|].
  destruct reqs as [|r t]; [destruct b; reflexivity|].
  inversion HW as [|? ? Wr Wt]; subst.
  destruct b; cbn [toggle_some map run fold_left exec].
  - destruct (has_twin r).
    + rewrite (same_effect r s Wr). apply IH. exact Wt.
    + apply IH. exact Wt.
  - apply IH. exact Wt.
Qed.

(* ---- responses ---- *)
(* the handler functions carry the response header through: changing its opcode
   changes nothing else *)
Lemma error_response_retag o e rh : error_response e (retag_h o rh) = retag o (error_response e rh).
Proof. reflexivity. Qed.

Lemma set_response_retag o rh res : set_response (retag_h o rh) res = retag o (set_response rh res).
Proof. destruct res; reflexivity. Qed.

Lemma new_rheader_retag o o' opq : new_rheader o' opq = retag_h o' (new_rheader o opq).
Proof. reflexivity. Qed.

Lemma h_set_retag o h f e k v rh s :
  snd (h_set h f e k v (retag_h o rh) s) = retag o (snd (h_set h f e k v rh s)).
Proof. unfold h_set. destruct (set _ _ _). cbn. apply set_response_retag. Qed.

Lemma h_delete_retag o h k rh s :
  snd (h_delete h k (retag_h o rh) s) = retag o (snd (h_delete h k rh s)).
Proof. unfold h_delete. destruct (delete _ _ _) as [s1 [r|e]]; reflexivity. Qed.

Lemma h_flush_retag o e rh s : snd (h_flush e (retag_h o rh) s) = retag o (snd (h_flush e rh s)).
Proof. reflexivity. Qed.

Lemma h_delta_retag o i h d ini e k rh s :
  snd (h_delta i h d ini e k (retag_h o rh) s) = retag o (snd (h_delta i h d ini e k rh s)).
Proof. unfold h_delta. destruct (memc_delta _ _ _ _ _ _ _) as [s1 [[c v]|er]]; reflexivity. Qed.

(* quiet mutation = loud mutation, answered only on error, under the quiet opcode *)
Lemma quiet_set_response h f e k v s :
  h_opcode h = cmd_Set ->
  snd (handle_request (twin (ReqSet VSet h f e k v)) s) =
  match snd (handle_request (ReqSet VSet h f e k v) s) with
  | Some r => into_quiet_mutation (retag cmd_SetQuiet r)
  | None => None
  end.
Proof.
  intros O. cbn [twin twin_setv opcode_of_setv handle_request req_header with_opcode h_opcode h_opaque].
  unfold loud, quiet_mut. cbn [snd fst].
  rewrite (new_rheader_retag (h_opcode h) cmd_SetQuiet).
  assert (E : forall rh, h_set (with_opcode h cmd_SetQuiet) f e k v rh s = h_set h f e k v rh s) by reflexivity.
  rewrite E, h_set_retag. reflexivity.
Qed.

Lemma quiet_delete_response h k s :
  h_opcode h = cmd_Delete ->
  snd (handle_request (twin (ReqDelete false h k)) s) =
  match snd (handle_request (ReqDelete false h k) s) with
  | Some r => into_quiet_mutation (retag cmd_DeleteQuiet r)
  | None => None
  end.
Proof.
  intros O. cbn [twin negb handle_request req_header with_opcode h_opcode h_opaque].
  unfold loud, quiet_mut. cbn [snd fst].
  rewrite (new_rheader_retag (h_opcode h) cmd_DeleteQuiet).
  assert (E : forall rh, h_delete (with_opcode h cmd_DeleteQuiet) k rh s = h_delete h k rh s) by reflexivity.
  rewrite E, h_delete_retag. reflexivity.
Qed.

Lemma quiet_incr_response h d i e k s :
  h_opcode h = cmd_Increment ->
  snd (handle_request (twin (ReqIncr VIncr h d i e k)) s) =
  match snd (handle_request (ReqIncr VIncr h d i e k) s) with
  | Some r => into_quiet_mutation (retag cmd_IncrementQuiet r)
  | None => None
  end.
Proof.
  intros O. cbn [twin twin_incv opcode_of_incv handle_request req_header with_opcode h_opcode h_opaque].
  unfold loud, quiet_mut. cbn [snd fst].
  rewrite (new_rheader_retag (h_opcode h) cmd_IncrementQuiet).
  assert (E : forall rh, h_delta true (with_opcode h cmd_IncrementQuiet) d i e k rh s = h_delta true h d i e k rh s) by reflexivity.
  rewrite E, h_delta_retag. reflexivity.
Qed.

(* what the quiet filters let through *)
Lemma quiet_mutation_filter r :
  into_quiet_mutation r = match r with RespError _ _ => Some r | _ => None end.
Proof. reflexivity. Qed.

(* quiet get: a hit carries the same payload as the loud hit, a miss is silent *)
Lemma h_get_retag_get h k s :
  h_opcode h = cmd_Get ->
  snd (h_get (with_opcode h cmd_GetQuiet) k (new_rheader cmd_GetQuiet (h_opaque h)) s) =
  retag cmd_GetQuiet (snd (h_get h k (new_rheader cmd_Get (h_opaque h)) s)).
Proof.
  intros O. unfold h_get. cbn [h_opcode with_opcode]. rewrite O.
  destruct (get k s) as [s1 [r|e]]; reflexivity.
Qed.

Lemma quiet_get_response h k s :
  h_opcode h = cmd_Get ->
  snd (handle_request (twin (ReqGet VGet h k)) s) =
  match snd (handle_request (ReqGet VGet h k) s) with
  | Some r => into_quiet_get (retag cmd_GetQuiet r)
  | None => None
  end.
Proof.
  intros O. cbn [twin twin_getv opcode_of_getv handle_request req_header with_opcode h_opcode h_opaque].
  unfold loud. cbn [snd fst]. rewrite (h_get_retag_get h k s O), O. reflexivity.
Qed.

Lemma quiet_get_filter r :
  into_quiet_get r =
  match r with
  | RespError h _ => if rh_status h =? err_NotFound_code then None else Some r
  | _ => Some r
  end.
Proof. reflexivity. Qed.
