(* PRoutes.v — the handler's routing is the source's: for every arm of the match in
   BinaryHandler::handle_request (translated on every run into
   Generated.handler_routes: request variant, handler function, filter), the
   model's handle_request sends the corresponding request to the corresponding
   handler and applies the corresponding filter — for all headers, keys, values,
   numeric fields and stores. BinaryRequest::Stats is never built by the decoder
   (a stat request is parsed as a version request; the translator checks this). *)
From MC Require Import Model.Base Model.Generated Model.Store Model.Memc Model.Codec Model.Handler.

Record rargs := mkArgs {
  a_h : header; a_key : bytes; a_val : bytes; a_flags : N; a_exp : N; a_delta : N; a_init : N
}.

(* the model request that a request variant of the source is *)
Definition mk_req (vid : N) (a : rargs) : option request :=
  let h := a_h a in
  if vid =? 1 then Some (ReqDelete false h (a_key a))
  else if vid =? 2 then Some (ReqDelete true h (a_key a))
  else if vid =? 3 then Some (ReqFlush false h (a_exp a))
  else if vid =? 4 then Some (ReqFlush true h (a_exp a))
  else if vid =? 5 then Some (ReqGet VGet h (a_key a))
  else if vid =? 6 then Some (ReqGet VGetK h (a_key a))
  else if vid =? 7 then Some (ReqGet VGetQ h (a_key a))
  else if vid =? 8 then Some (ReqGet VGetKQ h (a_key a))
  else if vid =? 9 then Some (ReqIncr VIncr h (a_delta a) (a_init a) (a_exp a) (a_key a))
  else if vid =? 10 then Some (ReqIncr VIncrQ h (a_delta a) (a_init a) (a_exp a) (a_key a))
  else if vid =? 11 then Some (ReqIncr VDecr h (a_delta a) (a_init a) (a_exp a) (a_key a))
  else if vid =? 12 then Some (ReqIncr VDecrQ h (a_delta a) (a_init a) (a_exp a) (a_key a))
  else if vid =? 13 then Some (ReqNoop h)
  else if vid =? 15 then Some (ReqQuit h)
  else if vid =? 16 then Some (ReqQuitQ h)
  else if vid =? 17 then Some (ReqSet VSet h (a_flags a) (a_exp a) (a_key a) (a_val a))
  else if vid =? 18 then Some (ReqSet VSetQ h (a_flags a) (a_exp a) (a_key a) (a_val a))
  else if vid =? 19 then Some (ReqSet VAdd h (a_flags a) (a_exp a) (a_key a) (a_val a))
  else if vid =? 20 then Some (ReqSet VReplace h (a_flags a) (a_exp a) (a_key a) (a_val a))
  else if vid =? 21 then Some (ReqSet VAddQ h (a_flags a) (a_exp a) (a_key a) (a_val a))
  else if vid =? 22 then Some (ReqSet VReplaceQ h (a_flags a) (a_exp a) (a_key a) (a_val a))
  else if vid =? 23 then Some (ReqAppend VAppend h (a_key a) (a_val a))
  else if vid =? 24 then Some (ReqAppend VPrepend h (a_key a) (a_val a))
  else if vid =? 25 then Some (ReqAppend VAppendQ h (a_key a) (a_val a))
  else if vid =? 26 then Some (ReqAppend VPrependQ h (a_key a) (a_val a))
  else if vid =? 27 then Some (ReqVersion h)
  else if vid =? 28 then Some (ReqTooLarge h)
  else if vid =? 29 then Some (ReqNotSupported h)
  else None.

(* the handler functions of the source, as the model has them *)
Definition run_handler (hid : N) (a : rargs) (rh : rheader) (s : store) : option (store * response) :=
  let h := a_h a in
  if hid =? 1 then Some (h_delete h (a_key a) rh s)
  else if hid =? 2 then Some (h_flush (a_exp a) rh s)
  else if hid =? 3 then Some (h_get h (a_key a) rh s)
  else if hid =? 4 then Some (h_delta true h (a_delta a) (a_init a) (a_exp a) (a_key a) rh s)
  else if hid =? 5 then Some (h_delta false h (a_delta a) (a_init a) (a_exp a) (a_key a) rh s)
  else if hid =? 6 then Some (s, RespPlain rh)
  else if hid =? 8 then Some (s, RespQuit rh)
  else if hid =? 9 then Some (h_set h (a_flags a) (a_exp a) (a_key a) (a_val a) rh s)
  else if hid =? 10 then Some (h_add_replace h (a_flags a) (a_exp a) (a_key a) (a_val a) rh s)
  else if hid =? 11 then Some (h_append_prepend h (a_key a) (a_val a) rh s)
  else if hid =? 12 then
    Some (s, RespVersion (mkRHdr (rh_magic rh) (rh_opcode rh) (rh_keylen rh) (rh_extlen rh)
                            (rh_dtype rh) (rh_status rh) (blen version_bytes) (rh_opaque rh) (rh_cas rh))
                         version_bytes)
  else if hid =? 13 then Some (s, error_response ValueTooLarge rh)
  else if hid =? 14 then Some (s, error_response UnknownCommand rh)
  else None.

Definition apply_filter (fid : N) (p : store * response) : store * option response :=
  if fid =? 1 then (fst p, Some (snd p))
  else if fid =? 2 then (fst p, into_quiet_mutation (snd p))
  else (fst p, into_quiet_get (snd p)).

Definition route_ok (row : N * N * N) : Prop :=
  let '(vid, hid, fid) := row in
  vid = 14 \/
  forall a s, exists req p,
    mk_req vid a = Some req /\
    run_handler hid a (new_rheader (h_opcode (a_h a)) (h_opaque (a_h a))) s = Some p /\
    handle_request req s = apply_filter fid p.

Lemma routes_are_source : Forall route_ok handler_routes.
Proof.
  unfold handler_routes.
  repeat (apply Forall_cons;
          [first [ left; reflexivity
                 | right; intros a s; eexists; eexists;
                   split; [reflexivity|]; split; [reflexivity|]; reflexivity ]|]).
  apply Forall_nil.
Qed.

(* every request the model knows is one of the source's variants *)
Lemma every_request_routed req :
  exists vid a, mk_req vid a = Some req /\ In vid (map (fun r => fst (fst r)) handler_routes).
Proof.
  destruct req as [v h k|v h f e k val|v h k val|q h k|v h d i e k|h|h|h|h|q h e|h|h].
  - destruct v; [exists 5|exists 7|exists 6|exists 8]; exists (mkArgs h k [] 0 0 0 0); (split; [reflexivity|vm_compute; tauto]).
  - destruct v; [exists 17|exists 18|exists 19|exists 21|exists 20|exists 22]; exists (mkArgs h k val f e 0 0); (split; [reflexivity|vm_compute; tauto]).
  - destruct v; [exists 23|exists 25|exists 24|exists 26]; exists (mkArgs h k val 0 0 0 0); (split; [reflexivity|vm_compute; tauto]).
  - destruct q; [exists 2|exists 1]; exists (mkArgs h k [] 0 0 0 0); (split; [reflexivity|vm_compute; tauto]).
  - destruct v; [exists 9|exists 10|exists 11|exists 12]; exists (mkArgs h k [] 0 e d i); (split; [reflexivity|vm_compute; tauto]).
  - exists 13, (mkArgs h [] [] 0 0 0 0). split; [reflexivity|vm_compute; tauto].
  - exists 27, (mkArgs h [] [] 0 0 0 0). split; [reflexivity|vm_compute; tauto].
  - exists 15, (mkArgs h [] [] 0 0 0 0). split; [reflexivity|vm_compute; tauto].
  - exists 16, (mkArgs h [] [] 0 0 0 0). split; [reflexivity|vm_compute; tauto].
  - destruct q; [exists 4|exists 3]; exists (mkArgs h [] [] 0 e 0 0); (split; [reflexivity|vm_compute; tauto]).
  - exists 28, (mkArgs h [] [] 0 0 0 0). split; [reflexivity|vm_compute; tauto].
  - exists 29, (mkArgs h [] [] 0 0 0 0). split; [reflexivity|vm_compute; tauto].
Qed.

(* ---- the whole chain: opcode -> body parser -> request variant ------------- *)
From MC Require Import Proofs.PDispatch.

(* what the source makes of an opcode, by its own tables: the parser named by the match
   in parse_request, then the variant named by the if-chain / match inside that parser *)
Definition source_variant (op : N) : N :=
  let p := source_parser_id op in
  if p =? 8 then 29
  else match find (fun row => fst (fst row) =? p) parser_variants with
       | Some row =>
           match find (fun cv => fst cv =? op) (snd (fst row)) with
           | Some cv => snd cv
           | None => snd row
           end
       | None => 0
       end.

Lemma is_one_of_in op l : is_one_of op l = true -> In op l.
Proof.
  unfold is_one_of. intros H. apply existsb_exists in H. destruct H as (x & Hin & E).
  apply N.eqb_eq in E. now subst.
Qed.

(* decide the comparisons between opcode constants *)
Ltac consts H :=
  repeat match type of H with
         | context[N.eqb ?a ?b] =>
             let v := eval vm_compute in (N.eqb a b) in
             match v with
             | true => change (N.eqb a b) with true in H
             | false => change (N.eqb a b) with false in H
             end
         end.

Ltac crunch :=
  repeat match goal with
         | H : context[if ?c then _ else _] |- _ => destruct c eqn:?; try discriminate H
         | H : context[match ?x with Some _ => _ | None => _ end] |- _ =>
             destruct x as [[? ?]|] eqn:?; try discriminate H
         end.

Lemma decoded_request_is_source_variant h body req :
  parse_body h body = DFrame req ->
  exists a, a_h a = h /\ mk_req (source_variant (h_opcode h)) a = Some req.
Proof.
  intros H. pose proof H as H0. unfold parse_body in H. cbv zeta in H.
  destruct (from_u8_is_some (h_opcode h)) eqn:F; cbn [negb] in H; [|discriminate].
  repeat match type of H with
         | context[is_one_of ?o ?l] =>
             destruct (is_one_of o l) eqn:?;
             [match goal with E : is_one_of _ _ = true |- _ => apply is_one_of_in in E; cbn [In] in E end|]
         end;
    try discriminate H;
    repeat match goal with E : _ \/ _ |- _ => destruct E as [E|E] end;
    try contradiction;
    idtac.
  all: try (match goal with E : _ = h_opcode _ |- _ => symmetry in E end).
  all: try (match goal with E : h_opcode _ = _ |- _ =>
      unfold parse_get, parse_append_prepend, parse_set, parse_delete, parse_inc_dec, parse_header_only, parse_flush in H;
      rewrite E in H; cbv zeta in H; consts H; cbv iota in H
    end).
  all: crunch.
  all: match goal with E : h_opcode _ = _ |- _ => rewrite E end; injection H as <-;
    first
      [ eexists (mkArgs h _ _ _ _ _ _); split; [reflexivity|vm_compute; reflexivity]
      | eexists (mkArgs h [] [] 0 0 0 0); split; [reflexivity|vm_compute; reflexivity] ].
  Unshelve. all: first [exact 0 | exact []].
Qed.
