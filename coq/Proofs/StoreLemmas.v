(* StoreLemmas.v — facts about the association-list map and the store operations *)
From MC Require Import Model.Base Model.Generated Model.Store.
From Coq Require Import Strings.Byte.

Lemma bytes_eqb_refl a : bytes_eqb a a = true.
Proof.
  induction a as [|x a IH]; cbn; [reflexivity|].
  rewrite IH, Bool.andb_true_r. destruct (Byte.eqb x x) eqn:E; [reflexivity|].
  apply Byte.eqb_false in E. congruence.
Qed.

Lemma bytes_eqb_eq a b : bytes_eqb a b = true <-> a = b.
Proof.
  split; [|intros ->; apply bytes_eqb_refl].
  revert b; induction a as [|x a IH]; intros [|y b]; cbn; try congruence.
  intros H. apply Bool.andb_true_iff in H as [H1 H2].
  apply Byte.byte_dec_bl in H1. apply IH in H2. congruence.
Qed.

Lemma bytes_eqb_neq a b : bytes_eqb a b = false <-> a <> b.
Proof.
  split.
  - intros H E. apply bytes_eqb_eq in E. congruence.
  - intros H. destruct (bytes_eqb a b) eqn:E; [|reflexivity].
    apply bytes_eqb_eq in E. contradiction.
Qed.

Lemma bytes_eqb_sym a b : bytes_eqb a b = bytes_eqb b a.
Proof.
  destruct (bytes_eqb a b) eqn:E.
  - apply bytes_eqb_eq in E. subst. symmetry. apply bytes_eqb_refl.
  - symmetry. apply bytes_eqb_neq. apply bytes_eqb_neq in E. congruence.
Qed.

(* ---- lookup / insert / remove ---- *)

Lemma lookup_insert_eq k r m : lookup k (insert k r m) = Some r.
Proof.
  induction m as [|[k' r'] m IH]; cbn.
  - now rewrite bytes_eqb_refl.
  - destruct (bytes_eqb k k') eqn:E; cbn.
    + now rewrite bytes_eqb_refl.
    + now rewrite E.
Qed.

Lemma lookup_insert_ne k k' r m : k' <> k -> lookup k' (insert k r m) = lookup k' m.
Proof.
  intros N. induction m as [|[k2 r2] m IH]; cbn.
  - apply bytes_eqb_neq in N. now rewrite N.
  - destruct (bytes_eqb k k2) eqn:E; cbn.
    + apply bytes_eqb_eq in E. subst k2.
      apply bytes_eqb_neq in N. now rewrite N.
    + destruct (bytes_eqb k' k2); [reflexivity|apply IH].
Qed.

Lemma lookup_remove_eq k m : lookup k (remove k m) = None.
Proof.
  induction m as [|[k' r'] m IH]; cbn; [reflexivity|].
  destruct (bytes_eqb k k') eqn:E; cbn; [exact IH|now rewrite E].
Qed.

Lemma lookup_remove_ne k k' m : k' <> k -> lookup k' (remove k m) = lookup k' m.
Proof.
  intros N. induction m as [|[k2 r2] m IH]; cbn; [reflexivity|].
  destruct (bytes_eqb k k2) eqn:E; cbn.
  - apply bytes_eqb_eq in E. subst k2. apply bytes_eqb_neq in N. now rewrite N.
  - destruct (bytes_eqb k' k2); [reflexivity|apply IH].
Qed.

Lemma lookup_map_val f k m :
  lookup k (map (fun kr => (fst kr, f (snd kr))) m) = option_map f (lookup k m).
Proof.
  induction m as [|[k' r'] m IH]; cbn; [reflexivity|].
  destruct (bytes_eqb k k'); [reflexivity|exact IH].
Qed.

Lemma remove_absent k m : lookup k m = None -> remove k m = m.
Proof.
  induction m as [|[k' r'] m IH]; cbn; [reflexivity|].
  destruct (bytes_eqb k k') eqn:E; [discriminate|].
  intros H. now rewrite IH.
Qed.

(* keys of the map, uniqueness *)
Definition keys (m : mem) : list bytes := map fst m.

Lemma lookup_none_notin k m : lookup k m = None <-> ~ In k (keys m).
Proof.
  induction m as [|[k' r'] m IH]; cbn.
  - tauto.
  - destruct (bytes_eqb k k') eqn:E.
    + apply bytes_eqb_eq in E. subst. split; [discriminate|intros H; exfalso; apply H; now left].
    + apply bytes_eqb_neq in E. rewrite IH. split.
      * intros H [H1|H1]; [congruence|tauto].
      * intros H H1. apply H. now right.
Qed.

Lemma keys_insert_in k r m x : In x (keys (insert k r m)) <-> x = k \/ In x (keys m).
Proof.
  induction m as [|[k' r'] m IH]; cbn.
  - intuition.
  - destruct (bytes_eqb k k') eqn:E; cbn.
    + apply bytes_eqb_eq in E. subst. intuition.
    + rewrite IH. intuition.
Qed.

Lemma keys_remove_in k m x : In x (keys (remove k m)) <-> x <> k /\ In x (keys m).
Proof.
  induction m as [|[k' r'] m IH]; cbn.
  - intuition.
  - destruct (bytes_eqb k k') eqn:E; cbn.
    + apply bytes_eqb_eq in E. subst. rewrite IH. intuition. subst. tauto.
    + apply bytes_eqb_neq in E. rewrite IH. intuition. subst. tauto.
Qed.

Lemma nodup_insert k r m : NoDup (keys m) -> NoDup (keys (insert k r m)).
Proof.
  induction m as [|[k' r'] m IH]; cbn; intros H.
  - constructor; [intros []|constructor].
  - inversion H as [|? ? Hn Hd]; subst.
    destruct (bytes_eqb k k') eqn:E; cbn.
    + apply bytes_eqb_eq in E. subst. constructor; assumption.
    + apply bytes_eqb_neq in E. constructor; [|apply IH; assumption].
      intros Hin. apply keys_insert_in in Hin as [->|Hin]; [congruence|contradiction].
Qed.

Lemma nodup_remove k m : NoDup (keys m) -> NoDup (keys (remove k m)).
Proof.
  induction m as [|[k' r'] m IH]; cbn; intros H; [constructor|].
  inversion H as [|? ? Hn Hd]; subst.
  destruct (bytes_eqb k k') eqn:E; cbn; [apply IH; assumption|].
  constructor; [|apply IH; assumption].
  intros Hin. apply keys_remove_in in Hin as [_ Hin]. contradiction.
Qed.

(* ---- total size ---- *)

Lemma total_cons k r m : total ((k, r) :: m) = rec_len r + total m.
Proof. reflexivity. Qed.

Lemma total_remove k r m :
  NoDup (keys m) -> lookup k m = Some r -> total (remove k m) + rec_len r = total m.
Proof.
  induction m as [|[k' r'] m IH]; [discriminate|].
  intros Hnd. inversion Hnd as [|? ? Hn Hd]; subst.
  cbn [lookup remove]. rewrite total_cons.
  destruct (bytes_eqb k k') eqn:E.
  - intros [= ->]. apply bytes_eqb_eq in E. subst.
    rewrite remove_absent; [lia|]. now apply lookup_none_notin.
  - intros H. rewrite total_cons. specialize (IH Hd H). lia.
Qed.

Lemma total_insert_absent k r m :
  lookup k m = None -> total (insert k r m) = total m + rec_len r.
Proof.
  induction m as [|[k' r'] m IH]; [intros _; cbn [insert]; rewrite total_cons; cbn; lia|].
  cbn [lookup insert]. destruct (bytes_eqb k k') eqn:E; [discriminate|].
  intros H. rewrite !total_cons, IH by assumption. lia.
Qed.

Lemma total_insert_present k r old m :
  lookup k m = Some old -> total (insert k r m) + rec_len old = total m + rec_len r.
Proof.
  induction m as [|[k' r'] m IH]; [discriminate|].
  cbn [lookup insert]. destruct (bytes_eqb k k') eqn:E.
  - intros [= ->]. rewrite !total_cons. lia.
  - intros H. rewrite !total_cons. specialize (IH H). lia.
Qed.

(* ---- view: what a retrieval would answer, without changing the store ---- *)

Definition view (s : store) (k : bytes) : option record :=
  match lookup k (s_mem s) with
  | Some r => if expired (s_now s) r then None else Some r
  | None => None
  end.

Lemma get_view k s :
  snd (get k s) = match view s k with Some r => ROk r | None => RErr NotFound end.
Proof.
  unfold get, view. destruct (lookup k (s_mem s)) as [r|]; [|reflexivity].
  destruct (expired (s_now s) r); reflexivity.
Qed.

Lemma get_hit k s r : view s k = Some r -> get k s = (s, ROk r).
Proof.
  unfold get, view. destruct (lookup k (s_mem s)) as [r'|]; [|discriminate].
  destruct (expired (s_now s) r'); [discriminate|]. now intros [= ->].
Qed.

Lemma s_mem_decr_usage s n : s_mem (decr_usage s n) = s_mem s.
Proof. unfold decr_usage. destruct (s_limit s); reflexivity. Qed.
Lemma s_now_decr_usage s n : s_now (decr_usage s n) = s_now s.
Proof. unfold decr_usage. destruct (s_limit s); reflexivity. Qed.
Lemma s_cas_decr_usage s n : s_cas (decr_usage s n) = s_cas s.
Proof. unfold decr_usage. destruct (s_limit s); reflexivity. Qed.
Lemma s_limit_decr_usage s n : s_limit (decr_usage s n) = s_limit s.
Proof. unfold decr_usage. destruct (s_limit s) eqn:E; cbn; congruence. Qed.

(* after a get, the key is physically present iff it is visible, and nothing
   else has changed *)
Lemma get_miss k s :
  view s k = None ->
  exists s', get k s = (s', RErr NotFound) /\ lookup k (s_mem s') = None /\
             (forall k', k' <> k -> lookup k' (s_mem s') = lookup k' (s_mem s)) /\
             s_now s' = s_now s /\ s_cas s' = s_cas s /\ s_limit s' = s_limit s.
Proof.
  unfold get, view. destruct (lookup k (s_mem s)) as [r|] eqn:L.
  - destruct (expired (s_now s) r); [|discriminate]. intros _.
    eexists. split; [reflexivity|].
    rewrite s_mem_decr_usage, s_now_decr_usage, s_cas_decr_usage, s_limit_decr_usage. cbn.
    split; [apply lookup_remove_eq|]. split; [|tauto].
    intros k' N. now apply lookup_remove_ne.
  - intros _. exists s. repeat split; auto.
Qed.

Lemma get_other k k' s : k' <> k -> lookup k' (s_mem (fst (get k s))) = lookup k' (s_mem s).
Proof.
  intros N. unfold get. destruct (lookup k (s_mem s)) as [r|]; [|reflexivity].
  destruct (expired (s_now s) r); [|reflexivity].
  cbn. rewrite s_mem_decr_usage. cbn. now apply lookup_remove_ne.
Qed.

Lemma get_now k s : s_now (fst (get k s)) = s_now s.
Proof.
  unfold get. destruct (lookup k (s_mem s)) as [r|]; [|reflexivity].
  destruct (expired (s_now s) r); [|reflexivity]. cbn. now rewrite s_now_decr_usage.
Qed.

Lemma get_view_other k k' s : k' <> k -> view (fst (get k s)) k' = view s k'.
Proof.
  intros N. unfold view. now rewrite get_other, get_now.
Qed.

(* a get never makes a visible item invisible, and leaves invisible ones invisible *)
Lemma get_view_same k s : view (fst (get k s)) k = view s k.
Proof.
  unfold get, view. destruct (lookup k (s_mem s)) as [r|] eqn:L; [|cbn; now rewrite L].
  destruct (expired (s_now s) r) eqn:E; cbn.
  - rewrite s_mem_decr_usage. cbn. now rewrite lookup_remove_eq.
  - now rewrite L, E.
Qed.
