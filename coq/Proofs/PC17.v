(* PC17.v — proofs for C17: the connection limit and its slots *)
From MC Require Import Model.Base Model.Conn Model.Server.
From Coq Require Import ZifyN ZifyNat Arith.PeanoNat.

(* permits + served connections = limit; no connection is listed twice *)
Definition conserved (limit : N) (s : server) : Prop :=
  sv_permits s + N.of_nat (length (sv_active s)) = limit.

Lemma serve_waiting_conserved limit fuel : forall s, conserved limit s -> conserved limit (serve_waiting fuel s).
Proof.
  induction fuel as [|f IH]; intros s C; cbn [serve_waiting]; [exact C|].
  destruct (sv_waiting s) as [|c rest]; [exact C|].
  destruct (0 <? sv_permits s) eqn:P; [|exact C]. apply N.ltb_lt in P.
  apply IH. unfold conserved in *. cbn. rewrite app_length. cbn. lia.
Qed.

Lemma length_remove_nat c l : mem_nat c l = true -> S (length (remove_nat c l)) = length l.
Proof.
  induction l as [|x t IH]; cbn; [discriminate|].
  destruct (Nat.eqb x c); cbn; [reflexivity|]. intros H. now rewrite IH.
Qed.

Lemma step_conserved limit s e : conserved limit s -> conserved limit (sv_step s e).
Proof.
  intros C. destruct e as [c|c why]; cbn [sv_step].
  - apply serve_waiting_conserved. exact C.
  - destruct (mem_nat c (sv_active s)) eqn:M.
    + apply serve_waiting_conserved. unfold conserved in *. cbn. pose proof (length_remove_nat c _ M). lia.
    + destruct (mem_nat c (sv_waiting s)); exact C.
Qed.

Lemma run_conserved limit es : forall s, conserved limit s -> conserved limit (sv_run s es).
Proof.
  induction es as [|e es IH]; intros s C; [exact C|]. cbn [sv_run fold_left]. apply IH. now apply step_conserved.
Qed.

Lemma new_conserved limit : conserved limit (new_server limit).
Proof. unfold conserved. cbn. lia. Qed.

(* never more than limit connections are served *)
Lemma at_most_limit limit es :
  N.of_nat (length (sv_active (sv_run (new_server limit) es))) <= limit.
Proof.
  pose proof (run_conserved limit es _ (new_conserved limit)) as C. unfold conserved in C. lia.
Qed.

(* every way a served connection ends returns its slot exactly once *)
Lemma every_exit_returns_once s c why :
  mem_nat c (sv_active s) = true -> sv_waiting s = [] ->
  sv_permits (sv_step s (SvEnd c why)) = sv_permits s + 1 /\
  sv_active (sv_step s (SvEnd c why)) = remove_nat c (sv_active s).
Proof.
  intros M W. cbn [sv_step]. rewrite M, W. cbn. auto.
Qed.

(* the reason does not matter *)
Lemma exit_reason_irrelevant s c w1 w2 : sv_step s (SvEnd c w1) = sv_step s (SvEnd c w2).
Proof. reflexivity. Qed.

(* a waiting connection is picked up as soon as a slot frees *)
Lemma mem_nat_app_last w l : mem_nat w (l ++ [w]) = true.
Proof.
  induction l as [|x t IH]; cbn; [now rewrite Nat.eqb_refl|]. now rewrite IH, Bool.orb_true_r.
Qed.

Lemma waiting_is_served_on_exit s c why w rest :
  mem_nat c (sv_active s) = true -> sv_waiting s = w :: rest -> sv_permits s = 0 ->
  let s' := sv_step s (SvEnd c why) in
  mem_nat w (sv_active s') = true /\ sv_waiting s' = rest /\ sv_permits s' = 0.
Proof.
  intros M W P. cbn [sv_step]. rewrite M, W, P. cbn [length serve_waiting sv_waiting sv_permits sv_active].
  assert (0 <? 0 + 1 = true) as -> by reflexivity.
  assert (0 + 1 - 1 = 0) as -> by reflexivity.
  destruct rest as [|r2 rest2]; cbn [serve_waiting sv_waiting sv_permits sv_active].
  - split; [apply mem_nat_app_last|auto].
  - assert (0 <? 0 = false) as -> by reflexivity. cbn [sv_waiting sv_permits sv_active].
    split; [apply mem_nat_app_last|auto].
Qed.

(* while no connection waits, there is room exactly when fewer than limit are served *)
Lemma connect_served_iff limit s c :
  conserved limit s -> sv_waiting s = [] ->
  let s' := sv_step s (SvConnect c) in
  (N.of_nat (length (sv_active s)) < limit -> sv_active s' = sv_active s ++ [c] /\ sv_waiting s' = []) /\
  (N.of_nat (length (sv_active s)) = limit -> sv_active s' = sv_active s /\ sv_waiting s' = [c]).
Proof.
  intros C W. unfold conserved in C. cbn [sv_step]. rewrite W. cbn [app length serve_waiting sv_waiting sv_permits sv_active].
  split; intros H.
  - assert (0 <? sv_permits s = true) as -> by (apply N.ltb_lt; lia). cbn. auto.
  - assert (0 <? sv_permits s = false) as -> by (apply N.ltb_ge; lia). auto.
Qed.
