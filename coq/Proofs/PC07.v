(* PC07.v — proofs for C07: counters *)
From MC Require Import Model.Base Model.Generated Model.Store Model.Memc Model.Codec Model.Handler
  Spec.Exec Proofs.Decimal Proofs.StoreLemmas Proofs.SetLemmas Proofs.MemcLemmas Proofs.Effects
  Proofs.PC06 Proofs.PC01 Proofs.PC02.

Definition delta_result (incr : bool) (n d : N) : N :=
  if incr then wrapping_add64 n d else if n <? d then 0 else n - d.

(* (v+d) mod 2^64 respectively max(v-d,0) *)
Lemma delta_result_spec incr n d :
  delta_result incr n d = if incr then (n + d) mod two64 else N.max (n - d) 0.
Proof.
  unfold delta_result, wrapping_add64. destruct incr; [reflexivity|].
  destruct (n <? d) eqn:E.
  - apply N.ltb_lt in E. lia.
  - lia.
Qed.

Lemma delta_result_u64 incr n d : n < two64 -> delta_result incr n d < two64.
Proof.
  intros H. rewrite delta_result_spec. destruct incr.
  - apply N.mod_lt. discriminate.
  - lia.
Qed.

Lemma parse_u64_lt l v : parse_u64 l = Some v -> v < two64.
Proof.
  assert (PD : forall l a, a < two64 -> parse_digits a l = Some v -> v < two64).
  { induction l0 as [|b t IH]; intros a Ha; cbn.
    - now intros [= <-].
    - destruct (digit_val b) as [dd|]; [|discriminate].
      destruct (a * 10 + dd <? two64) eqn:E; [|discriminate]. apply N.ltb_lt in E. now apply IH. }
  unfold parse_u64. destruct l as [|b t]; [discriminate|].
  destruct (Byte.eqb b x2b).
  - destruct t; [discriminate|]. apply PD. reflexivity.
  - apply PD. reflexivity.
Qed.

(* incr / decr on a visible numeric item (CAS 0 or matching) *)
Lemma delta_on_numeric (incr : bool) s k old n h d i e :
  plain s -> view s k = Some old -> parse_u64 (r_val old) = Some n ->
  (h_cas h = 0 \/ h_cas h = r_cas old) ->
  exists s' c,
    handle_request (ReqIncr (if incr then VIncr else VDecr) h d i e k) s =
      (s', Some (counter_response h c (delta_result incr n d))) /\
    stores s s' k (mkRec (s_now s) c (r_flags old) e (to_dec (delta_result incr n d))) /\
    parse_u64 (to_dec (delta_result incr n d)) = Some (delta_result incr n d).
Proof.
  intros P V PN HC.
  destruct (delta_cas_match incr s k old n (h_cas h) e d i P V PN HC) as (s' & c & v & E & Ev & St).
  fold (delta_result incr n d) in Ev. subst v.
  exists s', c. split; [|split; [exact St|]].
  - destruct incr; [rewrite handle_incr|rewrite handle_decr]; now rewrite E.
  - apply to_dec_parse. apply delta_result_u64. now apply (parse_u64_lt (r_val old)).
Qed.

(* absent (or expired) key: created with the initial value and flags 0 ... *)
Lemma delta_creates (incr : bool) s k h d i e :
  plain s -> view s k = None -> e <> u32_max ->
  exists s' c,
    handle_request (ReqIncr (if incr then VIncr else VDecr) h d i e k) s =
      (s', Some (counter_response h c i)) /\
    stores s s' k (mkRec (s_now s) c 0 e (to_dec i)).
Proof.
  intros P V NE.
  assert (M : exists s' c, memc_delta incr k (h_cas h) e d i s = (s', ROk (c, i)) /\
                           stores s s' k (mkRec (s_now s) c 0 e (to_dec i))).
  { unfold memc_delta. rewrite (plain_get_miss k s P V). fold (collected s k).
    apply N.eqb_neq in NE. rewrite NE.
    destruct (set_accepts k (mkRec 0 0 0 e (to_dec i)) (collected s k)) as (s' & c & E).
    - now apply plain_no_pressure.
    - now left.
    - rewrite E. exists s', c. split; [reflexivity|].
      apply (stores_of_set s (collected s k) k (mkRec 0 0 0 e (to_dec i)) s' c); auto.
      intros k' Hn. now apply collected_lookup_other. }
  destruct M as (s' & c & E & St). exists s', c. split; [|exact St].
  destruct incr; [rewrite handle_incr|rewrite handle_decr]; now rewrite E.
Qed.

(* ... unless the expiration field is 0xffffffff: 'not found', nothing created *)
Lemma delta_no_create (incr : bool) s k h d i :
  plain s -> view s k = None ->
  handle_request (ReqIncr (if incr then VIncr else VDecr) h d i u32_max k) s =
    (collected s k, Some (err_resp h NotFound)).
Proof.
  intros P V.
  assert (M : memc_delta incr k (h_cas h) u32_max d i s = (collected s k, RErr NotFound)).
  { unfold memc_delta. now rewrite (plain_get_miss k s P V). }
  destruct incr; [rewrite handle_incr|rewrite handle_decr]; now rewrite M.
Qed.

(* not a decimal u64: 'non-numeric value', the store is identical *)
Lemma delta_non_numeric (incr : bool) s k old h d i e :
  view s k = Some old -> parse_u64 (r_val old) = None ->
  handle_request (ReqIncr (if incr then VIncr else VDecr) h d i e k) s =
    (s, Some (err_resp h ArithOnNonNumeric)).
Proof.
  intros V PN.
  assert (M : memc_delta incr k (h_cas h) e d i s = (s, RErr ArithOnNonNumeric)).
  { unfold memc_delta. now rewrite (get_hit k s old V), PN. }
  destruct incr; [rewrite handle_incr|rewrite handle_decr]; now rewrite M.
Qed.
