(* PWire.v — the request side of the wire: a well-formed set frame decodes to
   exactly the request it encodes (key, value, flags, expiration, CAS, opaque:
   arbitrary binary content) *)
From MC Require Import Model.Base Model.Generated Model.Store Model.Codec Spec.Quiet
  Proofs.Decimal Proofs.CodecLemmas Proofs.PC11.
From Coq Require Import ZifyN ZifyNat.

(* the bytes a client sends for set/add/replace (opcode [op]) *)
Definition set_frame (op : N) (key value : bytes) (flags exp opaque cas : N) : bytes :=
  [n2b magic_Request; n2b op] ++ be16 (blen key) ++ [n2b 8; n2b 0] ++ be16 0 ++
  be32 (8 + blen key + blen value) ++ be32 opaque ++ be64 cas ++
  be32 flags ++ be32 exp ++ key ++ value.

Definition set_header (op : N) (key value : bytes) (opaque cas : N) : header :=
  mkHdr magic_Request op (blen key) 8 0 0 (8 + blen key + blen value) opaque cas.

Lemma take_app_exact (a b : bytes) : take (length a) (a ++ b) = Some (a, b).
Proof. induction a as [|x a IH]; cbn; [reflexivity|now rewrite IH]. Qed.

Lemma header_of_set_frame op key value flags exp opaque cas rest :
  op < 256 -> blen key < 65536 -> 8 + blen key + blen value < 4294967296 ->
  opaque < 4294967296 -> cas < 18446744073709551616 ->
  header_of_bytes (set_frame op key value flags exp opaque cas ++ rest) =
  Some (set_header op key value opaque cas, be32 flags ++ be32 exp ++ key ++ value ++ rest).
Proof.
  intros H1 H2 H3 H4 H5. unfold set_frame, header_of_bytes, be16, be32, be64.
  cbn [be_enc app take].
  assert (E2 : forall x, x < 65536 -> be_dec [n2b (x / 256 ^ N.of_nat 1); n2b (x / 256 ^ N.of_nat 0)] = x)
    by (intros x Hx; apply (be_dec_enc_small 2 x); exact Hx).
  assert (E4 : forall x, x < 4294967296 ->
            be_dec [n2b (x / 256 ^ N.of_nat 3); n2b (x / 256 ^ N.of_nat 2); n2b (x / 256 ^ N.of_nat 1);
                    n2b (x / 256 ^ N.of_nat 0)] = x)
    by (intros x Hx; apply (be_dec_enc_small 4 x); exact Hx).
  assert (E8 : forall x, x < 18446744073709551616 ->
            be_dec [n2b (x / 256 ^ N.of_nat 7); n2b (x / 256 ^ N.of_nat 6); n2b (x / 256 ^ N.of_nat 5);
                    n2b (x / 256 ^ N.of_nat 4); n2b (x / 256 ^ N.of_nat 3); n2b (x / 256 ^ N.of_nat 2);
                    n2b (x / 256 ^ N.of_nat 1); n2b (x / 256 ^ N.of_nat 0)] = x)
    by (intros x Hx; apply (be_dec_enc_small 8 x); exact Hx).
  rewrite (E2 _ H2), (E4 _ H3), (E4 _ H4), (E8 _ H5).
  rewrite (E2 0) by lia.
  rewrite !b2n_n2b by (unfold magic_Request; lia).
  unfold set_header. rewrite <- !app_assoc. reflexivity.
Qed.

Lemma get_n_be32 x rest : x < 4294967296 -> get_n 4 (be32 x ++ rest) = Some (x, rest).
Proof.
  intros H. unfold get_n. change 4%nat with (length (be32 x)). rewrite take_app_exact.
  unfold be32. now rewrite (be_dec_enc_small 4 x H).
Qed.

Lemma split_to_exact (a b : bytes) : split_to (blen a) (a ++ b) = Some (a, b).
Proof. unfold split_to, blen. rewrite Nat2N.id. apply take_app_exact. Qed.

(* a set frame within the limits decodes to the request it spells out, leaving
   exactly what follows it *)
Theorem decode_set_frame limit key value flags exp opaque cas rest :
  blen key <> 0 -> blen key <= MAX_KEY -> 8 + blen key + blen value <= limit ->
  8 + blen key + blen value < 4294967296 ->
  flags < 4294967296 -> exp < 4294967296 -> opaque < 4294967296 -> cas < 18446744073709551616 ->
  decode (new_codec limit) (set_frame cmd_Set key value flags exp opaque cas ++ rest) =
  (new_codec limit, rest,
   DFrame (ReqSet VSet (set_header cmd_Set key value opaque cas) flags exp key value)).
Proof.
  intros K0 K1 BL B32 F E O C. unfold decode. cbn [c_state new_codec].
  assert (L24 : blen (set_frame cmd_Set key value flags exp opaque cas ++ rest) <? HEADER_LEN = false).
  { apply N.ltb_ge. unfold set_frame. rewrite !blen_app. unfold HEADER_LEN.
    change (blen [n2b magic_Request; n2b cmd_Set]) with 2. change (blen (be16 (blen key))) with 2.
    change (blen [n2b 8; n2b 0]) with 2. change (blen (be16 0)) with 2.
    change (blen (be32 (8 + blen key + blen value))) with 4. change (blen (be32 opaque)) with 4.
    change (blen (be64 cas)) with 8. lia. }
  rewrite L24.
  rewrite header_of_set_frame by (unfold cmd_Set, MAX_KEY in *; lia).
  set (h := set_header cmd_Set key value opaque cas).
  assert (HV : header_valid h = true) by reflexivity. rewrite HV. cbn [negb].
  cbv beta zeta iota delta [decode_body c_hdr c_limit c_state new_codec].
  change (h_bodylen h) with (8 + blen key + blen value).
  assert (limit <? 8 + blen key + blen value = false) as -> by (apply N.ltb_ge; lia).
  set (body := be32 flags ++ be32 exp ++ key ++ value).
  replace (be32 flags ++ be32 exp ++ key ++ value ++ rest) with (body ++ rest)
    by (unfold body; now rewrite <- !app_assoc).
  assert (LB : blen body = 8 + blen key + blen value).
  { unfold body. rewrite !blen_app. change (blen (be32 flags)) with 4. change (blen (be32 exp)) with 4. lia. }
  assert (blen (body ++ rest) <? 8 + blen key + blen value = false) as ->
    by (apply N.ltb_ge; rewrite blen_app; lia).
  unfold parse_request. cbn [c_state c_hdr c_limit].
  change (h_bodylen h) with (8 + blen key + blen value).
  assert (limit <? 8 + blen key + blen value = false) as -> by (apply N.ltb_ge; lia).
  assert (blen (body ++ rest) <? 8 + blen key + blen value = false) as ->
    by (apply N.ltb_ge; rewrite blen_app; lia).
  rewrite <- LB, split_to_exact. unfold init_parser. cbn [c_limit].
  f_equal.
  (* the body parser *)
  unfold parse_body. change (h_opcode h) with cmd_Set.
  change (negb (from_u8_is_some cmd_Set)) with false. cbv iota.
  change (is_one_of cmd_Set [cmd_Get; cmd_GetQuiet; cmd_GetKeyQuiet; cmd_GetKey]) with false. cbv iota.
  change (is_one_of cmd_Set [cmd_Append; cmd_AppendQuiet; cmd_Prepend; cmd_PrependQuiet]) with false. cbv iota.
  change (is_one_of cmd_Set [cmd_Set; cmd_SetQuiet; cmd_Add; cmd_Replace; cmd_AddQuiet; cmd_ReplaceQuiet]) with true.
  cbv iota. unfold parse_set.
  assert (RV : request_valid h true = true).
  { unfold request_valid, h. cbn [set_header h_extlen h_keylen h_bodylen].
    assert (MAX_EXTRAS <? 8 = false) as -> by reflexivity.
    assert (MAX_KEY <? blen key = false) as -> by (apply N.ltb_ge; exact K1).
    assert (blen key =? 0 = false) as -> by (apply N.eqb_neq; exact K0).
    assert (8 + blen key + blen value <? blen key + 8 = false) as -> by (apply N.ltb_ge; lia).
    reflexivity. }
  rewrite RV. cbn [negb].
  assert (VL : value_len h = blen value) by (unfold value_len, h; cbn [set_header h_bodylen h_keylen h_extlen]; lia).
  rewrite VL. change (h_keylen h) with (blen key).
  assert (blen body <? 8 + blen key + blen value = false) as -> by (apply N.ltb_ge; lia).
  unfold body. rewrite (get_n_be32 flags _ F), (get_n_be32 exp _ E), split_to_exact.
  assert (SV : split_to (blen value) value = Some (value, [])).
  { pose proof (split_to_exact value []) as X. now rewrite app_nil_r in X. }
  rewrite SV. change (h_opcode h) with cmd_Set. rewrite N.eqb_refl. reflexivity.
Qed.
