(* Framing.v — a decoded frame does not depend on the bytes that follow it, and
   the connection machine does not depend on how its input is cut into reads. *)
From MC Require Import Model.Base Model.Generated Model.Store Model.Codec Model.Handler Model.Conn
  Spec.Quiet Proofs.CodecLemmas.
From Coq Require Import ZifyN ZifyNat.

(* ---------------- decode and trailing bytes ---------------- *)

Lemma blen_lt_app b y n : blen b <? n = false -> blen (b ++ y) <? n = false.
Proof. rewrite !N.ltb_ge, blen_app. lia. Qed.

Lemma split_to_app n b x r y : split_to n b = Some (x, r) -> split_to n (b ++ y) = Some (x, r ++ y).
Proof. unfold split_to. apply take_app. Qed.

Lemma parse_request_append c b y :
  blen b <? h_bodylen (c_hdr c) = false ->
  parse_request c (b ++ y) =
  (fst (fst (parse_request c b)), snd (fst (parse_request c b)) ++ y, snd (parse_request c b)).
Proof.
  intros L. unfold parse_request. destruct (c_state c); [reflexivity|].
  destruct (c_limit c <? h_bodylen (c_hdr c)); [reflexivity|].
  rewrite L, (blen_lt_app _ y _ L).
  apply N.ltb_ge in L. destruct (split_to_ok _ _ L) as (x & r & E & _ & _).
  rewrite E, (split_to_app _ _ _ _ y E). reflexivity.
Qed.

(* a result other than need-more is unaffected by further bytes: they stay behind *)
Lemma decode_body_final c b c1 b1 d y :
  decode_body c b = (c1, b1, d) -> d <> DNeedMore ->
  decode_body c (b ++ y) = (c1, b1 ++ y, d).
Proof.
  unfold decode_body. destruct (c_limit c <? h_bodylen (c_hdr c)).
  - intros [= <- <- <-] _. reflexivity.
  - destruct (blen b <? h_bodylen (c_hdr c)) eqn:L.
    + intros [= <- <- <-] N. congruence.
    + intros E _. rewrite (blen_lt_app _ y _ L), (parse_request_append c b y L), E. reflexivity.
Qed.

(* a body parser answers with a frame or an error, never with need-more *)
Lemma parse_body_not_need h body : parse_body h body <> DNeedMore.
Proof.
  intros E. unfold parse_body in E.
  repeat match type of E with context[if ?c then _ else _] => destruct c end; try discriminate;
  unfold parse_get, parse_append_prepend, parse_set, parse_delete, parse_inc_dec, parse_header_only,
         parse_flush in E;
  repeat match type of E with
  | context[if ?c then _ else _] => destruct c
  | context[match split_to ?n ?l with _ => _ end] => destruct (split_to n l) as [[? ?]|]
  | context[match get_n ?n ?l with _ => _ end] => destruct (get_n n l) as [[? ?]|]
  end; discriminate.
Qed.

Lemma parse_body_not_toolarge h body h' : parse_body h body <> DFrame (ReqTooLarge h').
Proof.
  intros E. unfold parse_body in E.
  repeat match type of E with context[if ?c then _ else _] => destruct c end; try discriminate;
  unfold parse_get, parse_append_prepend, parse_set, parse_delete, parse_inc_dec, parse_header_only,
         parse_flush in E;
  repeat match type of E with
  | context[if ?c then _ else _] => destruct c
  | context[match split_to ?n ?l with _ => _ end] => destruct (split_to n l) as [[? ?]|]
  | context[match get_n ?n ?l with _ => _ end] => destruct (get_n n l) as [[? ?]|]
  end; discriminate.
Qed.

Lemma parse_request_not_need c b : c_state c = PHeaderParsed -> snd (parse_request c b) <> DNeedMore.
Proof.
  intros S. unfold parse_request. rewrite S.
  destruct (c_limit c <? h_bodylen (c_hdr c)); [discriminate|].
  destruct (blen b <? h_bodylen (c_hdr c)); [discriminate|].
  destruct (split_to _ _) as [[x r]|]; [|discriminate]. cbn. apply parse_body_not_need.
Qed.

Lemma decode_body_need c b c1 b1 :
  decode_body c b = (c1, b1, DNeedMore) -> c_state c = PHeaderParsed -> c1 = c /\ b1 = b.
Proof.
  unfold decode_body. destruct (c_limit c <? h_bodylen (c_hdr c)); [discriminate|].
  destruct (blen b <? h_bodylen (c_hdr c)) eqn:L; [now intros [= <- <-]|].
  intros E S. exfalso. apply N.ltb_ge in L.
  unfold parse_request in E. rewrite S in E.
  destruct (c_limit c <? h_bodylen (c_hdr c)); [discriminate|].
  assert (blen b <? h_bodylen (c_hdr c) = false) as L2 by now apply N.ltb_ge.
  rewrite L2 in E. destruct (split_to_ok _ _ L) as (x & r & E2 & Lx & _). rewrite E2 in E.
  injection E as _ _ E. unfold parse_body in E.
  (* parse_body never answers need-more *)
  repeat match type of E with context[if ?c then _ else _] => destruct c end; try discriminate;
  unfold parse_get, parse_append_prepend, parse_set, parse_delete, parse_inc_dec, parse_header_only,
         parse_flush in E;
  repeat match type of E with
  | context[if ?c then _ else _] => destruct c
  | context[match split_to ?n ?l with _ => _ end] => destruct (split_to n l) as [[? ?]|]
  | context[match get_n ?n ?l with _ => _ end] => destruct (get_n n l) as [[? ?]|]
  end; discriminate.
Qed.

Lemma decode_final c b c1 b1 d y :
  decode c b = (c1, b1, d) -> d <> DNeedMore -> decode c (b ++ y) = (c1, b1 ++ y, d).
Proof.
  unfold decode. destruct (c_state c).
  - destruct (blen b <? HEADER_LEN) eqn:L; [intros [= <- <- <-] N; congruence|].
    rewrite (blen_lt_app _ y _ L). apply N.ltb_ge in L.
    destruct (header_of_bytes_ok b L) as (h & rest & hb & E & _).
    rewrite E, (header_of_bytes_app _ y _ _ E).
    destruct (negb (header_valid h)); [intros [= <- <- <-] _; reflexivity|].
    apply decode_body_final.
  - apply decode_body_final.
Qed.

(* need-more is only partial progress *)
Lemma decode_need c b c1 b1 y :
  decode c b = (c1, b1, DNeedMore) -> decode c (b ++ y) = decode c1 (b1 ++ y).
Proof.
  unfold decode at 1 2. destruct (c_state c) eqn:S.
  - destruct (blen b <? HEADER_LEN) eqn:L.
    + intros [= <- <-]. unfold decode. now rewrite S.
    + rewrite (blen_lt_app _ y _ L). apply N.ltb_ge in L.
      destruct (header_of_bytes_ok b L) as (h & rest & hb & E & _).
      rewrite E, (header_of_bytes_app _ y _ _ E).
      destruct (negb (header_valid h)); [discriminate|].
      intros D. destruct (decode_body_need _ _ _ _ D eq_refl) as [-> ->].
      unfold decode. reflexivity.
  - intros D. destruct (decode_body_need _ _ _ _ D S) as [-> ->].
    unfold decode. now rewrite S.
Qed.

(* ---------------- the extent of a frame ---------------- *)
(* a request other than the oversized marker is built from exactly the 24 header
   bytes and the bodylen bytes after them; what follows is left untouched *)
Lemma decode_extent b c1 b1 r limit :
  decode (new_codec limit) b = (c1, b1, DFrame r) ->
  exists hb body h,
    b = hb ++ body ++ b1 /\ length hb = 24%nat /\ header_of_bytes hb = Some (h, []) /\
    req_header r = h /\ c1 = new_codec limit /\
    ((r = ReqTooLarge h /\ body = [] /\ limit < h_bodylen h) \/
     (blen body = h_bodylen h /\ h_bodylen h <= limit /\ parse_body h body = DFrame r)).
Proof.
  unfold decode. cbn [c_state new_codec].
  destruct (blen b <? HEADER_LEN) eqn:L; [discriminate|]. apply N.ltb_ge in L.
  destruct (header_of_bytes_ok b L) as (h & rest & hb & E & A & Lh). rewrite E.
  destruct (negb (header_valid h)); [discriminate|].
  assert (EH : header_of_bytes hb = Some (h, [])).
  { destruct (header_of_bytes_ok hb) as (h' & rest' & hb' & E' & A' & Lh').
    { unfold blen. rewrite Lh. reflexivity. }
    assert (rest' = []).
    { assert (length hb = length hb' + length rest')%nat by (rewrite A' at 1; apply app_length).
      destruct rest'; [reflexivity|cbn in H; lia]. }
    subst rest'. pose proof (header_of_bytes_app _ rest _ _ E') as E2.
    cbn in E2. rewrite <- A, E in E2. assert (h' = h) by congruence. subst h'. exact E'. }
  cbv beta zeta iota delta [decode_body c_hdr c_limit c_state new_codec].
  destruct (limit <? h_bodylen h) eqn:TL.
  - intros H; inversion H; subst; clear H. exists hb, [], h. apply N.ltb_lt in TL. cbn. repeat split; auto.
  - apply N.ltb_ge in TL. destruct (blen rest <? h_bodylen h) eqn:LB; [discriminate|].
    unfold parse_request. cbn [c_state c_hdr c_limit].
    assert (limit <? h_bodylen h = false) as -> by now apply N.ltb_ge.
    rewrite LB. apply N.ltb_ge in LB.
    destruct (split_to_ok _ _ LB) as (x & r' & E2 & Lx & A2). rewrite E2.
    intros H; inversion H as [[H1 H2 D]]; subst; clear H. exists hb, x, h.
    pose proof (parse_body_wf _ _ _ D) as [_ RH].
    repeat split; auto.
Qed.
