(* PC05c.v — C05 under concurrency: whatever the interleaving, no retrieval ever
   answers with a record that is past its deadline. Corollaries of the two
   linearizability theorems (plain store: PC03; behind the eviction policy:
   PC03p): every answer a client received is the answer of a valid event of the
   one-at-a-time trace, and there a retrieval never returns an expired record. *)
From Coq Require Import ZArith Lia Arith.PeanoNat.
From MC Require Import Model.Base Model.Generated Model.Store Model.Memc Model.Conc Model.PolConc
  Spec.Atomic Proofs.StoreLemmas Proofs.PC03 Proofs.PC03p.

Section PC05c.
Variable now : N.

(* ---- plain store ---- *)
Lemma spec_result_live o c s r :
  spec_result now o c s = OGetR (ROk r) -> expired now r = false.
Proof.
  destruct o as [k|k r0|k cc]; cbn [spec_result].
  - destruct (lookup k (sh_mem s)) as [r'|]; [|discriminate].
    destruct (expired now r') eqn:E; [discriminate|]. intros [= <-]. exact E.
  - destruct (0 <? r_cas r0); [|discriminate].
    destruct (snd (act now (AEntry k r0) s)); discriminate.
  - destruct (snd (act now (ARemIf k cc) s)); discriminate.
Qed.

Lemma valid_lins_live evs : forall s t r,
  valid now evs s -> In (OGetR (ROk r)) (lins t evs) -> expired now r = false.
Proof.
  induction evs as [|e evs IH]; intros s t r V H; [destruct H|].
  cbn [valid] in V. destruct V as (V0 & V1). destruct e as [t' o res c|k|].
  - cbn [lins] in H. destruct (Nat.eqb t t').
    + destruct H as [E|H]; [|now apply (IH _ t r V1)]. rewrite V0 in E. now apply spec_result_live in E.
    + now apply (IH _ t r V1).
  - now apply (IH _ t r V1).
  - now apply (IH _ t r V1).
Qed.

Theorem no_expired_answer_conc (opss : list (list op)) (sched : list nat) (s0 : shared) :
  let '(ts, _) := run_sched now (prog_of now) sched (map new_thread opss) s0 in
  forall i t r, nth_thread i ts = Some t -> In (OGetR (ROk r)) (th_done t) -> expired now r = false.
Proof.
  pose proof (linearizable now opss sched s0) as L.
  destruct (run_sched now (prog_of now) sched (map new_thread opss) s0) as [ts s].
  destruct L as (evs & V & _ & TH). intros i t r Hi Hin.
  destruct (TH i t Hi) as (pending & EQ & _).
  apply (valid_lins_live evs s0 i r V). rewrite EQ. apply in_or_app. now left.
Qed.

(* ---- behind the eviction policy ---- *)
Lemma pspec_result_live o c s r :
  pspec_result now o c s = PGetR (ROk r) -> expired now r = false.
Proof.
  unfold pspec_result. destruct (op_of o) as [o'|] eqn:O; [|discriminate].
  destruct (spec_result now o' c s) as [g| |] eqn:R; cbn [pores_of]; try discriminate.
  intros [= ->]. now apply spec_result_live in R.
Qed.

Lemma qvalid_lins_live evs : forall s t r,
  qvalid now evs s -> In (PGetR (ROk r)) (qlins t evs) -> expired now r = false.
Proof.
  induction evs as [|e evs IH]; intros s t r V H; [destruct H|].
  cbn [qvalid] in V. destruct V as (V0 & V1). destruct e as [t' o res c|k|k|].
  - cbn [qlins] in H. destruct (Nat.eqb t t').
    + destruct H as [E|H]; [|now apply (IH _ t r V1)]. rewrite V0 in E. now apply pspec_result_live in E.
    + now apply (IH _ t r V1).
  - now apply (IH _ t r V1).
  - now apply (IH _ t r V1).
  - now apply (IH _ t r V1).
Qed.

Theorem no_expired_answer_policy limit (cs : list (list pores -> option pop)) (sched : list nat) (s0 : pshared) :
  let '(ts, _) := prun_sched now limit sched (map (fun c => new_gthread c) cs) s0 in
  forall i t r, gnth i ts = Some t -> In (PGetR (ROk r)) (g_done t) -> expired now r = false.
Proof.
  pose proof (linearizable_policy now limit cs sched s0) as L.
  destruct (prun_sched now limit sched (map (fun c => new_gthread c) cs) s0) as [ts s].
  destruct L as (evs & V & _ & TH). intros i t r Hi Hin.
  destruct (TH i t Hi) as (pending & EQ & _).
  apply (qvalid_lins_live evs (proj s0) i r V). rewrite EQ. apply in_or_app. left.
  apply filter_In. split; [exact Hin|reflexivity].
Qed.

End PC05c.
