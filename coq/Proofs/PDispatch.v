(* PDispatch.v — the decoder's dispatch on the opcode is the one in the source:
   Model/Codec.v's parse_body hands every opcode to the body parser that the
   table regenerated from binary_codec.rs (Generated.decode_dispatch, translated
   from the match in MemcacheBinaryCodec::parse_request on every run) names. *)
From MC Require Import Model.Base Model.Generated Model.Store Model.Memc Model.Codec.

Definition run_parser (id : N) (h : header) (body : bytes) : dres :=
  if id =? 1 then parse_get h body
  else if id =? 2 then parse_append_prepend h body
  else if id =? 3 then parse_set h body
  else if id =? 4 then parse_delete h body
  else if id =? 5 then parse_inc_dec h body
  else if id =? 6 then parse_header_only h body
  else if id =? 7 then parse_flush h body
  else if id =? 8 then DFrame (ReqNotSupported h)
  else DError EInvalidData.

(* what the source's match does with an opcode *)
Definition source_parser_id (op : N) : N :=
  if negb (from_u8_is_some op) then 0
  else match find (fun row => is_one_of op (fst row)) decode_dispatch with
       | Some row => snd row
       | None => 0
       end.

Lemma parse_body_is_source_dispatch h body :
  parse_body h body = run_parser (source_parser_id (h_opcode h)) h body.
Proof.
  unfold parse_body, source_parser_id, decode_dispatch. cbv zeta.
  destruct (from_u8_is_some (h_opcode h)); cbn [negb]; [|reflexivity].
  cbn [find fst snd].
  repeat match goal with
         | |- context[is_one_of ?o ?l] => destruct (is_one_of o l); [reflexivity|]
         end.
  reflexivity.
Qed.
