(* PConn.v — proofs for C12 (pipelining, quit), C13 (oversized requests),
   C18 (containment of faults) on the connection machine *)
From MC Require Import Model.Base Model.Generated Model.Store Model.Codec Model.Handler Model.Conn Model.Run
  Spec.Quiet Proofs.CodecLemmas Proofs.Framing Proofs.Chunking Proofs.PC10.
From Coq Require Import ZifyN ZifyNat.

(* ---------------- C12: in order ---------------- *)
(* the first frame in the buffer is executed on the current store; the rest of
   the buffer is processed on the store it leaves, and its responses follow *)
Lemma first_then_rest c b s out c1 b1 req :
  decode c b = (c1, b1, DFrame req) -> (forall h, req <> ReqTooLarge h) ->
  pumpF c b s out =
  let '(cn2, s2, out2) := serve req (mkc c1 b1) s out in
  if is_open cn2 then pumpF c1 b1 s2 out2 else (cn2, s2, out2).
Proof.
  intros D NT. rewrite pumpF_unfold. unfold pump_step. rewrite D.
  destruct req; try reflexivity. exfalso. now apply (NT h).
Qed.

(* responses are only ever appended *)
Lemma responses_appended c b s out :
  exists more, snd (pumpF c b s out) = out ++ more.
Proof.
  pose proof (pumpF_out c b s out []) as H. rewrite app_nil_r in H. rewrite H.
  destruct (pumpF c b s []) as [[cn' s'] o]. exists o. reflexivity.
Qed.

(* one response per loud request *)
Definition quiet_req (req : request) : bool :=
  match req with
  | ReqGet VGetQ _ _ | ReqGet VGetKQ _ _ => true
  | ReqSet VSetQ _ _ _ _ _ | ReqSet VAddQ _ _ _ _ _ | ReqSet VReplaceQ _ _ _ _ _ => true
  | ReqAppend VAppendQ _ _ _ | ReqAppend VPrependQ _ _ _ => true
  | ReqDelete true _ _ => true
  | ReqIncr VIncrQ _ _ _ _ _ | ReqIncr VDecrQ _ _ _ _ _ => true
  | ReqFlush true _ _ => true
  | ReqQuitQ _ => true
  | _ => false
  end.

Lemma loud_answers req s : quiet_req req = false -> snd (handle_request req s) <> None.
Proof.
  destruct req as [v h kk|v h fl ex kk val|v h kk val|q h kk|v h dl ini ex kk|h|h|h|h|q h ex|h|h];
    cbn [quiet_req]; try discriminate; intros Q;
    try (destruct v; try discriminate Q); try (destruct q; try discriminate Q);
    cbn [handle_request req_header]; unfold loud; cbn [snd]; discriminate.
Qed.

(* serve writes exactly the handler's response, if any *)
Lemma serve_response req cn s out :
  (forall h, req <> ReqQuitQ h) ->
  snd (serve req cn s out) =
  match snd (handle_request req s) with Some r => out ++ [encode r] | None => out end.
Proof.
  intros NQ. unfold serve. destruct req; try (exfalso; now apply (NQ h));
  destruct (handle_request _ s) as [s1 [r|]]; try reflexivity; destruct r; reflexivity.
Qed.

(* quiet mutations answer only with errors; quiet gets never with 'not found' *)
Lemma quiet_mutation_only_errors r r' : into_quiet_mutation r = Some r' -> exists h m, r' = RespError h m.
Proof. destruct r; cbn; try discriminate. intros [= <-]. eauto. Qed.

Lemma quiet_get_no_miss r r' :
  into_quiet_get r = Some r' -> r' = r /\ (forall h m, r = RespError h m -> rh_status h <> err_NotFound_code).
Proof.
  destruct r; cbn; try (intros [= <-]; split; [reflexivity|discriminate]).
  destruct (rh_status h =? err_NotFound_code) eqn:E; [discriminate|].
  intros [= <-]. split; [reflexivity|]. intros h' m' [= <- _]. now apply N.eqb_neq.
Qed.

(* quit: one response, then closed; quitq: closed without a response *)
Lemma serve_quit h cn s out :
  serve (ReqQuit h) cn s out =
  (close cn WQuit, s, out ++ [encode (RespQuit (new_rheader (h_opcode h) (h_opaque h)))]).
Proof. reflexivity. Qed.

Lemma serve_quitq h cn s out : serve (ReqQuitQ h) cn s out = (close cn WQuitQ, s, out).
Proof. reflexivity. Qed.

(* nothing buffered behind a quit is executed, nothing that arrives later either *)
Lemma nothing_after_quit c b s out c1 b1 h :
  decode c b = (c1, b1, DFrame (ReqQuit h)) ->
  pumpF c b s out =
  (close (mkc c1 b1) WQuit, s, out ++ [encode (RespQuit (new_rheader (h_opcode h) (h_opaque h)))]).
Proof. intros D. rewrite (first_then_rest _ _ _ _ _ _ _ D) by discriminate. reflexivity. Qed.

Lemma nothing_after_quitq c b s out c1 b1 h :
  decode c b = (c1, b1, DFrame (ReqQuitQ h)) ->
  pumpF c b s out = (close (mkc c1 b1) WQuitQ, s, out).
Proof. intros D. rewrite (first_then_rest _ _ _ _ _ _ _ D) by discriminate. reflexivity. Qed.

Lemma closed_ignores y cn s out : is_open cn = false -> feedF y cn s out = (cn, s, out).
Proof. apply feedF_closed. Qed.

(* ---------------- C13: oversized requests ---------------- *)
Lemma too_large_response h s :
  handle_request (ReqTooLarge h) s =
  (s, Some (error_response ValueTooLarge (new_rheader (h_opcode h) (h_opaque h)))).
Proof. reflexivity. Qed.

Lemma too_large_status : cerr_code ValueTooLarge = 3.
Proof. reflexivity. Qed.

(* whatever the opcode, a valid header announcing more than the limit is answered
   'too large' and exactly its body is discarded: the rest of the pipeline is
   processed as if it had come alone, on the unchanged store *)
Lemma oversized_skipped limit hb h body post s out :
  header_of_bytes hb = Some (h, []) -> header_valid h = true ->
  limit < h_bodylen h -> blen body = h_bodylen h ->
  pumpF (new_codec limit) (hb ++ body ++ post) s out =
  pumpF (new_codec limit) post s
        (out ++ [encode (error_response ValueTooLarge (new_rheader (h_opcode h) (h_opaque h)))]).
Proof.
  intros HB HV LT LB. rewrite pumpF_unfold. unfold pump_step.
  assert (D : decode (new_codec limit) (hb ++ body ++ post) =
              (new_codec limit, body ++ post, DFrame (ReqTooLarge h))).
  { unfold decode. cbn [c_state new_codec].
    pose proof (header_of_bytes_app _ (body ++ post) _ _ HB) as E. cbn [app] in E.
    assert (L24 : blen (hb ++ body ++ post) <? HEADER_LEN = false).
    { apply N.ltb_ge. unfold header_of_bytes in HB.
      destruct (take 24 hb) as [[x r]|] eqn:T; [|discriminate].
      apply take_spec in T as [Lx A]. rewrite blen_app. unfold blen at 1. subst hb.
      rewrite app_length. unfold HEADER_LEN. lia. }
    rewrite L24, E, HV. cbn [negb].
    cbv beta zeta iota delta [decode_body c_hdr c_limit c_state new_codec].
    apply N.ltb_lt in LT. rewrite LT. reflexivity. }
  rewrite D.
  assert (M : N.min (h_bodylen h) (blen (body ++ post)) = h_bodylen h) by (rewrite blen_app; lia).
  rewrite M, N.sub_diag, N.eqb_refl.
  rewrite drop_app_le by (unfold blen in LB; lia).
  rewrite (drop_all _ body) by (unfold blen in LB; lia). cbn [app].
  reflexivity.
Qed.

(* a request within the limit is never refused for size *)
Lemma within_limit_not_refused c b c1 b1 h :
  decode c b = (c1, b1, DFrame (ReqTooLarge h)) -> c_limit c < h_bodylen h.
Proof.
  assert (DB : forall c0 b0, decode_body c0 b0 = (c1, b1, DFrame (ReqTooLarge h)) ->
               c_limit c0 < h_bodylen h).
  { intros c0 b0. unfold decode_body. destruct (c_limit c0 <? h_bodylen (c_hdr c0)) eqn:L.
    - intros H; inversion H; subst. now apply N.ltb_lt.
    - destruct (blen b0 <? h_bodylen (c_hdr c0)); [discriminate|].
      unfold parse_request. destruct (c_state c0); [discriminate|]. rewrite L.
      destruct (blen b0 <? h_bodylen (c_hdr c0)); [discriminate|].
      destruct (split_to _ _) as [[x r]|]; [|discriminate].
      intros H; inversion H as [[H1 H2 H3]]. exfalso. now apply parse_body_not_toolarge in H3. }
  unfold decode. destruct (c_state c).
  - destruct (blen b <? HEADER_LEN); [discriminate|].
    destruct (header_of_bytes b) as [[h' rest]|]; [|discriminate].
    destruct (negb (header_valid h')); [discriminate|]. intros D. now apply DB in D.
  - apply DB.
Qed.

(* ---------------- C18: faults ---------------- *)
(* the end of the client's stream executes nothing (an oversized request whose
   body was cut short is still answered 'too large') and closes the connection *)
Definition pending_too_large (cn : conn) : Prop :=
  forall r, cn_pending cn = Some r -> exists h, r = ReqTooLarge h.

Lemma eof_store cn s : pending_too_large cn -> snd (fst (eof cn s)) = s.
Proof.
  intros PT. unfold eof. destruct (negb (is_open cn)); [reflexivity|].
  destruct (0 <? cn_skip cn); [|reflexivity].
  destruct (cn_pending cn) as [r|] eqn:P; [|reflexivity].
  destruct (PT r P) as [h ->]. reflexivity.
Qed.

Lemma eof_closes cn s : is_open cn = true -> is_open (fst (fst (eof cn s))) = false.
Proof.
  intros O. unfold eof. rewrite O. cbn [negb].
  destruct (0 <? cn_skip cn); [|reflexivity].
  destruct (cn_pending cn) as [r|]; [|reflexivity].
  destruct (serve r _ s []) as [[cn2 s2] o2]. destruct (is_open cn2) eqn:O2; [reflexivity|exact O2].
Qed.

(* an invalid header closes the connection at that point; the store is as the
   requests before it left it *)
Lemma invalid_stops c b s out c1 b1 e :
  decode c b = (c1, b1, DError e) ->
  pumpF c b s out = (mkConn c1 b1 0 None (CClosed (WError e)), s, out).
Proof. intros D. rewrite pumpF_unfold. unfold pump_step. now rewrite D. Qed.

(* other connections are not touched by what happens on one *)
Lemma get_set_conn_other limit i j cn l : i <> j -> get_conn limit j (set_conn limit i cn l) = get_conn limit j l.
Proof.
  revert j l. induction i as [|i IH]; intros j l N.
  - destruct j; [congruence|]. destruct l; cbn; [destruct j; reflexivity|reflexivity].
  - destruct j.
    + destruct l; reflexivity.
    + destruct l as [|x l]; cbn.
      * rewrite IH by congruence. destruct j; reflexivity.
      * apply IH. congruence.
Qed.

Definition conn_of_event (e : event) : option nat :=
  match e with
  | EvChunk c _ | EvEof c | EvReset c | EvTimeout c => Some c
  | _ => None
  end.

Lemma other_conns_untouched w e j :
  conn_of_event e <> Some j ->
  get_conn (w_limit (fst (step w e))) j (w_conns (fst (step w e))) = get_conn (w_limit w) j (w_conns w).
Proof.
  intros N. destruct e as [c b|c|c|c|d|vs]; cbn [step conn_of_event] in *.
  - destruct (feed b _ _) as [[cn s] out]. cbn. apply get_set_conn_other. congruence.
  - destruct (eof _ _) as [[cn s] out]. cbn. apply get_set_conn_other. congruence.
  - cbn. apply get_set_conn_other. congruence.
  - cbn. apply get_set_conn_other. congruence.
  - reflexivity.
  - reflexivity.
Qed.

(* a reset or an idle timeout executes nothing *)
Lemma reset_store w c : w_store (fst (step w (EvReset c))) = w_store w.
Proof. reflexivity. Qed.
Lemma timeout_store w c : w_store (fst (step w (EvTimeout c))) = w_store w.
Proof. reflexivity. Qed.
