(* Server.v — memcache_server/memc_tcp.rs (accept loop + Semaphore) and the
   Drop of client_handler::Client: connection slots. The accept loop acquires a
   permit before it spawns the handler of an accepted connection and blocks
   while none is free (further connections wait in the kernel's backlog, in
   order); every way a handler ends drops the Client, which returns the permit. *)
From MC Require Import Model.Base Model.Conn.

Record server := mkServer {
  sv_permits : N;           (* Semaphore::available_permits *)
  sv_active : list nat;     (* connections whose handler runs *)
  sv_waiting : list nat     (* accepted / queued connections not yet served, oldest first *)
}.

Definition new_server (limit : N) : server := mkServer limit [] [].

Inductive sevent :=
| SvConnect (c : nat)
| SvEnd (c : nat) (why : closewhy).   (* the handler of c returns, for whatever reason *)

Fixpoint remove_nat (c : nat) (l : list nat) : list nat :=
  match l with
  | [] => []
  | x :: t => if Nat.eqb x c then t else x :: remove_nat c t
  end.

Fixpoint mem_nat (c : nat) (l : list nat) : bool :=
  match l with [] => false | x :: t => Nat.eqb x c || mem_nat c t end.

(* the accept loop serves waiting connections while permits are available *)
Fixpoint serve_waiting (fuel : nat) (s : server) : server :=
  match fuel with
  | O => s
  | S f =>
      match sv_waiting s with
      | c :: rest =>
          if 0 <? sv_permits s
          then serve_waiting f (mkServer (sv_permits s - 1) (sv_active s ++ [c]) rest)
          else s
      | [] => s
      end
  end.

Definition sv_step (s : server) (e : sevent) : server :=
  match e with
  | SvConnect c =>
      let s1 := mkServer (sv_permits s) (sv_active s) (sv_waiting s ++ [c]) in
      serve_waiting (S (length (sv_waiting s1))) s1
  | SvEnd c _ =>
      if mem_nat c (sv_active s) then
        (* Drop for Client: add_permits(1) *)
        let s1 := mkServer (sv_permits s + 1) (remove_nat c (sv_active s)) (sv_waiting s) in
        serve_waiting (S (length (sv_waiting s1))) s1
      else if mem_nat c (sv_waiting s) then
        (* a connection that goes away before it was served: its handler starts when
           a permit frees, sees the end of the stream and returns the permit at once;
           it never counts as served *)
        mkServer (sv_permits s) (sv_active s) (remove_nat c (sv_waiting s))
      else s
  end.

Definition sv_run (s : server) (es : list sevent) : server := fold_left sv_step es s.
