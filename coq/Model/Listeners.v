(* Listeners.v — several accept loops over one connection limit:
   memcache_server/runtime_builder.rs (create_current_thread_server: one thread, one
   runtime and one clone of the same MemcacheTcpServer per listener; the clones
   share `limit_connections`, an Arc<Semaphore>) and memc_tcp.rs (each accept loop:
   accept, then `limit_connections.acquire().await.forget()`, then spawn the handler).

   A listener that has accepted a connection and waits for a permit accepts nothing
   else meanwhile: further connections to it stay in its backlog. tokio's semaphore
   hands a freed permit to the acquirer that has waited longest. A connection whose
   client went away before it was served is not known to be gone until its handler
   reads: it keeps its place, gets its permit in turn, and the handler (end of
   stream at once) gives the permit straight back — it never counts as served. The
   listener meanwhile has gone on: the handler only runs when the accept loop next
   waits, so the listener's next connection is back in the line before that permit
   returns (found by the mlimit profile: the model first returned the permit at once).

   Model/Server.v is the instance with one listener. *)
From MC Require Import Model.Base Model.Conn Model.Server.

Record mserver := mkMS {
  ms_permits : N;                    (* Semaphore::available_permits *)
  ms_active : list nat;              (* connections whose handler runs *)
  ms_pending : list (nat * nat);     (* (listener, connection): listeners inside acquire(), longest wait first *)
  ms_backlog : list (nat * nat);     (* (listener, connection): not accepted yet, oldest first *)
  ms_gone : list nat                 (* not served yet, and the client has gone away *)
}.

Definition new_mserver (limit : N) : mserver := mkMS limit [] [] [] [].

Inductive mevent :=
| MConnect (l c : nat)
| MEnd (c : nat) (why : closewhy).

Definition busy (l : nat) (p : list (nat * nat)) : bool := existsb (fun x => Nat.eqb (fst x) l) p.
Definition has_conn (c : nat) (p : list (nat * nat)) : bool := existsb (fun x => Nat.eqb (snd x) c) p.

(* the oldest connection in the backlog of a listener that is not inside acquire() *)
Fixpoint next_accept (pending backlog : list (nat * nat)) : option ((nat * nat) * list (nat * nat)) :=
  match backlog with
  | [] => None
  | x :: t =>
      if busy (fst x) pending then
        match next_accept pending t with
        | Some (y, r) => Some (y, x :: r)
        | None => None
        end
      else Some (x, t)
  end.

(* the oldest connection in the backlog of listener l *)
Fixpoint take_first (l : nat) (backlog : list (nat * nat)) : option ((nat * nat) * list (nat * nat)) :=
  match backlog with
  | [] => None
  | x :: t =>
      if Nat.eqb (fst x) l then Some (x, t)
      else match take_first l t with
           | Some (y, r) => Some (y, x :: r)
           | None => None
           end
  end.

(* one internal step; None: nothing can move *)
Definition settle1 (s : mserver) : option mserver :=
  match ms_pending s with
  | (l, c) :: rest =>
      if 0 <? ms_permits s then
        if mem_nat c (ms_gone s)
        then
          (* the listener spawns the handler and goes on accepting before the handler runs
             (one thread, one current-thread runtime per listener): its next connection
             queues up for a permit before this one's comes back *)
          match take_first l (ms_backlog s) with
          | Some (x, bl) => Some (mkMS (ms_permits s) (ms_active s) (rest ++ [x]) bl (ms_gone s))
          | None => Some (mkMS (ms_permits s) (ms_active s) rest (ms_backlog s) (ms_gone s))
          end
        else Some (mkMS (ms_permits s - 1) (ms_active s ++ [c]) rest (ms_backlog s) (ms_gone s))
      else
        match next_accept (ms_pending s) (ms_backlog s) with
        | Some (x, bl) => Some (mkMS (ms_permits s) (ms_active s) (ms_pending s ++ [x]) bl (ms_gone s))
        | None => None
        end
  | [] =>
      match next_accept [] (ms_backlog s) with
      | Some (x, bl) => Some (mkMS (ms_permits s) (ms_active s) [x] bl (ms_gone s))
      | None => None
      end
  end.

Fixpoint settle (fuel : nat) (s : mserver) : mserver :=
  match fuel with
  | O => s
  | S f => match settle1 s with Some s' => settle f s' | None => s end
  end.

(* every connection moves at most twice: backlog -> pending -> served *)
Definition settle_fuel (s : mserver) : nat := S (2 * (length (ms_pending s) + length (ms_backlog s))).

Definition ms_step (s : mserver) (e : mevent) : mserver :=
  match e with
  | MConnect l c =>
      let s1 := mkMS (ms_permits s) (ms_active s) (ms_pending s) (ms_backlog s ++ [(l, c)]) (ms_gone s) in
      settle (settle_fuel s1) s1
  | MEnd c _ =>
      if mem_nat c (ms_active s) then
        let s1 := mkMS (ms_permits s + 1) (remove_nat c (ms_active s)) (ms_pending s) (ms_backlog s) (ms_gone s) in
        settle (settle_fuel s1) s1
      else if has_conn c (ms_pending s) || has_conn c (ms_backlog s) then
        mkMS (ms_permits s) (ms_active s) (ms_pending s) (ms_backlog s) (c :: ms_gone s)
      else s
  end.

Definition ms_run (s : mserver) (es : list mevent) : mserver := fold_left ms_step es s.

(* a history with probes: which of the probed connections are being served *)
Inductive mline := LEv (e : mevent) | LProbe (c : nat).

Fixpoint served_trace (s : mserver) (ls : list mline) : list bool :=
  match ls with
  | [] => []
  | LEv e :: t => served_trace (ms_step s e) t
  | LProbe c :: t => mem_nat c (ms_active s) :: served_trace s t
  end.
