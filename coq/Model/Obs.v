(* Obs.v — the observation lines of a run, as the runners print them; used to
   evaluate cases inside Coq (vm_compute) and compare with the extracted runner. *)
From MC Require Import Model.Base Model.Generated Model.Store Model.Codec Model.Conn Model.Run.

Inductive xevent := XEv (e : event) | XDump.

Inductive oline :=
| OR (b : bytes)
| OS (c : nat) (status buffered skip : N)
| OM (k v : bytes) (flags cas ttl ts : N)
| OU (usage now tot : N).

Definition status_lines (w : world) (e : event) : list oline :=
  match e with
  | EvChunk c _ | EvEof c | EvReset c | EvTimeout c =>
      let cn := get_conn (w_limit w) c (w_conns w) in
      [OS c (status_code cn) (blen (cn_buf cn)) (cn_skip cn)]
  | _ => []
  end.

Definition dump_lines (w : world) : list oline :=
  let s := w_store w in
  map (fun kr => OM (fst kr) (r_val (snd kr)) (r_flags (snd kr)) (r_cas (snd kr))
                    (r_ttl (snd kr)) (r_ts (snd kr))) (s_mem s)
  ++ [OU (s_usage s) (s_now s) (total (s_mem s))].

Fixpoint obs_run (w : world) (xs : list xevent) : list oline :=
  match xs with
  | [] => []
  | XDump :: t => dump_lines w ++ obs_run w t
  | XEv e :: t =>
      let (w1, outs) := step w e in
      map OR outs ++ status_lines w1 e ++ obs_run w1 t
  end.

(* ---- concurrent windows (the RUN / PRUN lines of a trace) ----------------- *)
From Coq Require Import ZArith.
From MC Require Import Model.Memc Model.Conc Model.PolConc.

(* an operation's answer as the runners print it *)
Inductive ores :=
| AHit (v : bytes) (flags cas : N)
| AErr (code : N)
| AOk (cas : N)
| ADone
| AFuel.

Definition show_opres (r : opres) : ores :=
  match r with
  | OGetR (ROk r) => AHit (r_val r) (r_flags r) (r_cas r)
  | OGetR (RErr e) => AErr (cerr_code e)
  | OSetR (ROk c) => AOk c
  | OSetR (RErr e) => AErr (cerr_code e)
  | ODelR (ROk _) => ADone
  | ODelR (RErr e) => AErr (cerr_code e)
  end.

Definition show_pores (r : pores) : ores :=
  match r with
  | PGetR (ROk r) => AHit (r_val r) (r_flags r) (r_cas r)
  | PGetR (RErr e) => AErr (cerr_code e)
  | PSetR (ROk c) => AOk c
  | PSetR (RErr e) => AErr (cerr_code e)
  | PDelR (ROk _) => ADone
  | PDelR (RErr e) => AErr (cerr_code e)
  | PFlushR => ADone
  | PFuel => AFuel
  end.

(* the window on the plain store: answers per client, then the world it leaves *)
Definition conc_window (w : world) (opss : list (list mop)) (sched : list nat) : list (list ores) * world :=
  let st := w_store w in
  let '(ts, sh) := run_sched (s_now st) (mprog_of (s_now st)) sched (map new_thread opss)
                     (mkShared (s_mem st) (s_cas st)) in
  (map (fun t => map show_opres (th_done t)) ts,
   mkWorld (w_limit w) (w_conns w)
     (mkStore (sh_mem sh) (sh_cas sh) (s_now st) (s_limit st) (s_usage st) (s_oracle st))).

(* the window on the store behind the eviction policy; the usage counter shows as
   the u64 it is in the implementation *)
Definition usage_u64 (z : Z) : N :=
  match z with
  | Zneg _ => two64 - Z.to_N (Z.opp z)
  | _ => Z.to_N z
  end.

Definition pol_window (w : world) (opss : list (list pop)) (scans : list (list bytes)) (sched : list nat)
  : list (list ores) * world :=
  let st := w_store w in
  let limit := match s_limit st with Some l => Z.of_N l | None => 0%Z end in
  let '(ts, sh) := prun_sched (s_now st) limit sched
                     (map (fun ops => new_gthread (list_client ops)) opss)
                     (mkP (s_mem st) (s_cas st) (Z.of_N (s_usage st)) scans) in
  (map (fun t => map show_pores (g_done t)) ts,
   mkWorld (w_limit w) (w_conns w)
     (mkStore (p_mem sh) (p_cas sh) (s_now st) (s_limit st) (usage_u64 (p_usage sh)) (s_oracle st))).

Inductive yevent :=
| YEv (e : event)
| YDump
| YRun (opss : list (list mop)) (sched : list nat)
| YPRun (opss : list (list pop)) (scans : list (list bytes)) (sched : list nat).

Inductive yline :=
| YL (l : oline)
| YT (i : nat) (rs : list ores).

Fixpoint number {A} (i : nat) (l : list A) : list (nat * A) :=
  match l with [] => [] | x :: t => (i, x) :: number (S i) t end.

Fixpoint obs_run2 (w : world) (xs : list yevent) : list yline :=
  match xs with
  | [] => []
  | YDump :: t => map YL (dump_lines w) ++ obs_run2 w t
  | YEv e :: t =>
      let (w1, outs) := step w e in
      map (fun o => YL (OR o)) outs ++ map YL (status_lines w1 e) ++ obs_run2 w1 t
  | YRun opss sched :: t =>
      let (rs, w1) := conc_window w opss sched in
      map (fun ir => YT (fst ir) (snd ir)) (number 0 rs) ++ obs_run2 w1 t
  | YPRun opss scans sched :: t =>
      let (rs, w1) := pol_window w opss scans sched in
      map (fun ir => YT (fst ir) (snd ir)) (number 0 rs) ++ obs_run2 w1 t
  end.
