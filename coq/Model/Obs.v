(* Obs.v — the observation lines of a run, as the runners print them; used to
   evaluate cases inside Coq (vm_compute) and compare with the extracted runner. *)
From MC Require Import Model.Base Model.Generated Model.Store Model.Codec Model.Conn Model.Run.

Inductive xevent := XEv (e : event) | XDump.

Inductive oline :=
| OR (b : bytes)
| OS (c : nat) (status buffered skip : N)
| OM (k v : bytes) (flags cas ttl ts : N)
| OU (usage now tot : N).

Definition status_lines (w : world) (e : event) : list oline :=
  match e with
  | EvChunk c _ | EvEof c | EvReset c | EvTimeout c =>
      let cn := get_conn (w_limit w) c (w_conns w) in
      [OS c (status_code cn) (blen (cn_buf cn)) (cn_skip cn)]
  | _ => []
  end.

Definition dump_lines (w : world) : list oline :=
  let s := w_store w in
  map (fun kr => OM (fst kr) (r_val (snd kr)) (r_flags (snd kr)) (r_cas (snd kr))
                    (r_ttl (snd kr)) (r_ts (snd kr))) (s_mem s)
  ++ [OU (s_usage s) (s_now s) (total (s_mem s))].

Fixpoint obs_run (w : world) (xs : list xevent) : list oline :=
  match xs with
  | [] => []
  | XDump :: t => dump_lines w ++ obs_run w t
  | XEv e :: t =>
      let (w1, outs) := step w e in
      map OR outs ++ status_lines w1 e ++ obs_run w1 t
  end.
