(* Handler.v — memcache_server/handler.rs: BinaryHandler::handle_request *)
From MC Require Import Model.Base Model.Generated Model.Store Model.Memc Model.Codec.

Definition with_cas (h : rheader) (c : N) : rheader :=
  mkRHdr (rh_magic h) (rh_opcode h) (rh_keylen h) (rh_extlen h) (rh_dtype h)
         (rh_status h) (rh_bodylen h) (rh_opaque h) c.

(* into_quiet_get: drop a NotFound error *)
Definition into_quiet_get (r : response) : option response :=
  match r with
  | RespError h _ => if rh_status h =? err_NotFound_code then None else Some r
  | _ => Some r
  end.

(* into_quiet_mutation: only errors are sent *)
Definition into_quiet_mutation (r : response) : option response :=
  match r with
  | RespError _ _ => Some r
  | _ => None
  end.

Definition set_response (rh : rheader) (res : result N) : response :=
  match res with
  | ROk c => RespPlain (with_cas rh c)
  | RErr e => error_response e rh
  end.

Definition h_set (h : header) (flags exp : N) (key value : bytes) (rh : rheader) (s : store)
  : store * response :=
  let (s1, res) := set key (mkRec 0 (h_cas h) flags exp value) s in
  (s1, set_response rh res).

Definition h_add_replace (h : header) (flags exp : N) (key value : bytes) (rh : rheader) (s : store)
  : store * response :=
  let r := mkRec 0 (h_cas h) flags exp value in
  let (s1, res) :=
    if (h_opcode h =? cmd_Add) || (h_opcode h =? cmd_AddQuiet)
    then memc_add key r s else memc_replace key r s in
  (s1, set_response rh res).

Definition h_append_prepend (h : header) (key value : bytes) (rh : rheader) (s : store)
  : store * response :=
  let (s1, res) :=
    if (h_opcode h =? cmd_Append) || (h_opcode h =? cmd_AppendQuiet)
    then memc_append key (h_cas h) value s else memc_prepend key (h_cas h) value s in
  (s1, set_response rh res).

Definition h_delete (h : header) (key : bytes) (rh : rheader) (s : store) : store * response :=
  let (s1, res) := delete key (h_cas h) s in
  (s1, match res with
       | ROk _ => RespPlain rh
       | RErr e => error_response e rh
       end).

Definition h_get (h : header) (key : bytes) (rh : rheader) (s : store) : store * response :=
  let (s1, res) := get key s in
  (s1, match res with
       | ROk r =>
           let k := if (h_opcode h =? cmd_GetKey) || (h_opcode h =? cmd_GetKeyQuiet) then key else [] in
           RespGet (mkRHdr (rh_magic rh) (rh_opcode rh) (blen k) EXTRAS_LENGTH (rh_dtype rh)
                      (rh_status rh) (blen (r_val r) + EXTRAS_LENGTH + blen k) (rh_opaque rh) (r_cas r))
                   (r_flags r) k (r_val r)
       | RErr e => error_response e rh
       end).

Definition h_flush (exp : N) (rh : rheader) (s : store) : store * response :=
  (flush exp s, RespPlain rh).

Definition h_delta (incr : bool) (h : header) (delta initial exp : N) (key : bytes)
                   (rh : rheader) (s : store) : store * response :=
  let (s1, res) := memc_delta incr key (h_cas h) exp delta initial s in
  (s1, match res with
       | ROk (c, v) =>
           RespCounter (mkRHdr (rh_magic rh) (rh_opcode rh) (rh_keylen rh) (rh_extlen rh) (rh_dtype rh)
                          (rh_status rh) 8 (rh_opaque rh) c) v
       | RErr e => error_response e rh
       end).

Definition loud (p : store * response) : store * option response := (fst p, Some (snd p)).
Definition quiet_mut (p : store * response) : store * option response :=
  (fst p, into_quiet_mutation (snd p)).

Definition handle_request (req : request) (s : store) : store * option response :=
  let h := req_header req in
  let rh := new_rheader (h_opcode h) (h_opaque h) in
  match req with
  | ReqDelete false h key => loud (h_delete h key rh s)
  | ReqDelete true h key => quiet_mut (h_delete h key rh s)
  | ReqFlush false _ exp => loud (h_flush exp rh s)
  | ReqFlush true _ exp => quiet_mut (h_flush exp rh s)
  | ReqGet VGet h key | ReqGet VGetK h key => loud (h_get h key rh s)
  | ReqGet VGetQ h key | ReqGet VGetKQ h key =>
      let p := h_get h key rh s in (fst p, into_quiet_get (snd p))
  | ReqIncr VIncr h d i e key => loud (h_delta true h d i e key rh s)
  | ReqIncr VIncrQ h d i e key => quiet_mut (h_delta true h d i e key rh s)
  | ReqIncr VDecr h d i e key => loud (h_delta false h d i e key rh s)
  | ReqIncr VDecrQ h d i e key => quiet_mut (h_delta false h d i e key rh s)
  | ReqNoop _ => (s, Some (RespPlain rh))
  | ReqQuit _ => (s, Some (RespQuit rh))
  | ReqQuitQ _ => (s, into_quiet_mutation (RespQuit rh))
  | ReqSet VSet h f e k v => loud (h_set h f e k v rh s)
  | ReqSet VSetQ h f e k v => quiet_mut (h_set h f e k v rh s)
  | ReqSet VAdd h f e k v | ReqSet VReplace h f e k v => loud (h_add_replace h f e k v rh s)
  | ReqSet VAddQ h f e k v | ReqSet VReplaceQ h f e k v => quiet_mut (h_add_replace h f e k v rh s)
  | ReqAppend VAppend h k v | ReqAppend VPrepend h k v => loud (h_append_prepend h k v rh s)
  | ReqAppend VAppendQ h k v | ReqAppend VPrependQ h k v => quiet_mut (h_append_prepend h k v rh s)
  | ReqVersion _ =>
      (s, Some (RespVersion (mkRHdr (rh_magic rh) (rh_opcode rh) (rh_keylen rh) (rh_extlen rh)
                               (rh_dtype rh) (rh_status rh) (blen version_bytes) (rh_opaque rh)
                               (rh_cas rh)) version_bytes))
  | ReqTooLarge _ => (s, Some (error_response ValueTooLarge rh))
  | ReqNotSupported _ => (s, Some (error_response UnknownCommand rh))
  end.
