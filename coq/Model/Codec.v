(* Codec.v — protocol/binary_codec.rs: the resumable request decoder
   (parse_header / parse_request / per-opcode body parsers) and the response
   encoder. Reads past the end of a buffer are Rust panics: DPanic. *)
From MC Require Import Model.Base Model.Generated Model.Store.

Record header := mkHdr {
  h_magic : N; h_opcode : N; h_keylen : N; h_extlen : N; h_dtype : N;
  h_vbucket : N; h_bodylen : N; h_opaque : N; h_cas : N
}.

Definition default_header : header := mkHdr 0 0 0 0 0 0 0 0 0.

Inductive getv := VGet | VGetQ | VGetK | VGetKQ.
Inductive setv := VSet | VSetQ | VAdd | VAddQ | VReplace | VReplaceQ.
Inductive appv := VAppend | VAppendQ | VPrepend | VPrependQ.
Inductive incv := VIncr | VIncrQ | VDecr | VDecrQ.

(* BinaryRequest *)
Inductive request :=
| ReqGet (v : getv) (h : header) (key : bytes)
| ReqSet (v : setv) (h : header) (flags exp : N) (key value : bytes)
| ReqAppend (v : appv) (h : header) (key value : bytes)
| ReqDelete (quiet : bool) (h : header) (key : bytes)
| ReqIncr (v : incv) (h : header) (delta initial exp : N) (key : bytes)
| ReqNoop (h : header)
| ReqVersion (h : header)
| ReqQuit (h : header)
| ReqQuitQ (h : header)
| ReqFlush (quiet : bool) (h : header) (exp : N)
| ReqTooLarge (h : header)
| ReqNotSupported (h : header).

Definition req_header (r : request) : header :=
  match r with
  | ReqGet _ h _ | ReqSet _ h _ _ _ _ | ReqAppend _ h _ _ | ReqDelete _ h _
  | ReqIncr _ h _ _ _ _ | ReqNoop h | ReqVersion h | ReqQuit h | ReqQuitQ h
  | ReqFlush _ h _ | ReqTooLarge h | ReqNotSupported h => h
  end.

Inductive pstate := PNone | PHeaderParsed.

Record codec := mkCodec { c_hdr : header; c_state : pstate; c_limit : N }.

Definition new_codec (limit : N) : codec := mkCodec default_header PNone limit.
Definition init_parser (c : codec) : codec := mkCodec default_header PNone (c_limit c).

Inductive ekind := EInvalidData | EOther.

Inductive dres :=
| DFrame (r : request)
| DNeedMore
| DError (e : ekind)
| DPanic.

(* parse the 24 header bytes *)
Definition header_of_bytes (b : bytes) : option (header * bytes) :=
  match take 24 b with
  | None => None
  | Some (h, rest) =>
      match h with
      | [b0;b1;b2;b3;b4;b5;b6;b7;b8;b9;b10;b11;b12;b13;b14;b15;b16;b17;b18;b19;b20;b21;b22;b23] =>
          Some (mkHdr (b2n b0) (b2n b1) (be_dec [b2;b3]) (b2n b4) (b2n b5) (be_dec [b6;b7])
                  (be_dec [b8;b9;b10;b11]) (be_dec [b12;b13;b14;b15])
                  (be_dec [b16;b17;b18;b19;b20;b21;b22;b23]), rest)
      | _ => None
      end
  end.

Definition header_valid (h : header) : bool :=
  (h_magic h =? magic_Request) && (h_opcode h <? cmd_OpCodeMax) && (h_dtype h =? dtype_RawBytes).

(* request_valid *)
Definition request_valid (h : header) (key_required : bool) : bool :=
  negb (MAX_EXTRAS <? h_extlen h) &&
  negb (MAX_KEY <? h_keylen h) &&
  negb (key_required && (h_keylen h =? 0)) &&
  negb (h_bodylen h <? h_keylen h + h_extlen h).

(* get_value_len (called after request_valid) *)
Definition value_len (h : header) : N := h_bodylen h - (h_keylen h + h_extlen h).

(* Buf::get_uN / split_to on the body slice: None = panic *)
Definition get_n (n : nat) (b : bytes) : option (N * bytes) :=
  match take n b with Some (x, r) => Some (be_dec x, r) | None => None end.
Definition split_to (n : N) (b : bytes) : option (bytes * bytes) := take (N.to_nat n) b.

Definition from_u8_is_some (op : N) : bool := existsb (N.eqb op) command_codes.

Definition parse_get (h : header) (body : bytes) : dres :=
  if negb (request_valid h true) then DError EInvalidData else
  match split_to (h_keylen h) body with
  | None => DPanic
  | Some (key, _) =>
      let op := h_opcode h in
      DFrame (ReqGet (if op =? cmd_Get then VGet else if op =? cmd_GetQuiet then VGetQ
                      else if op =? cmd_GetKey then VGetK else VGetKQ) h key)
  end.

Definition parse_delete (h : header) (body : bytes) : dres :=
  if negb (request_valid h true) then DError EInvalidData else
  match split_to (h_keylen h) body with
  | None => DPanic
  | Some (key, _) => DFrame (ReqDelete (negb (h_opcode h =? cmd_Delete)) h key)
  end.

Definition parse_header_only (h : header) (body : bytes) : dres :=
  if negb (request_valid h false) then DError EInvalidData else
  let op := h_opcode h in
  DFrame (if op =? cmd_Noop then ReqNoop h else if op =? cmd_Quit then ReqQuit h
          else if op =? cmd_QuitQuiet then ReqQuitQ h else ReqVersion h).

Definition parse_flush (h : header) (body : bytes) : dres :=
  if negb (request_valid h false) then DError EInvalidData else
  if h_extlen h =? 4 then
    match get_n 4 body with
    | None => DPanic
    | Some (exp, _) => DFrame (ReqFlush (negb (h_opcode h =? cmd_Flush)) h exp)
    end
  else DFrame (ReqFlush (negb (h_opcode h =? cmd_Flush)) h 0).

Definition parse_append_prepend (h : header) (body : bytes) : dres :=
  if negb (request_valid h true) then DError EInvalidData else
  match split_to (h_keylen h) body with
  | None => DPanic
  | Some (key, rest) =>
      match split_to (value_len h) rest with
      | None => DPanic
      | Some (value, _) =>
          let op := h_opcode h in
          DFrame (ReqAppend (if op =? cmd_Append then VAppend else if op =? cmd_AppendQuiet then VAppendQ
                             else if op =? cmd_Prepend then VPrepend else VPrependQ) h key value)
      end
  end.

Definition parse_inc_dec (h : header) (body : bytes) : dres :=
  if negb (request_valid h true) then DError EInvalidData else
  if blen body <? 20 + h_keylen h then DError EInvalidData else
  match get_n 8 body with
  | None => DPanic
  | Some (delta, b1) =>
  match get_n 8 b1 with
  | None => DPanic
  | Some (initial, b2) =>
  match get_n 4 b2 with
  | None => DPanic
  | Some (exp, b3) =>
  match split_to (h_keylen h) b3 with
  | None => DPanic
  | Some (key, _) =>
      let op := h_opcode h in
      DFrame (ReqIncr (if op =? cmd_Increment then VIncr else if op =? cmd_IncrementQuiet then VIncrQ
                       else if op =? cmd_Decrement then VDecr else VDecrQ) h delta initial exp key)
  end end end end.

Definition parse_set (h : header) (body : bytes) : dres :=
  if negb (request_valid h true) then DError EInvalidData else
  let vlen := value_len h in
  if blen body <? 8 + h_keylen h + vlen then DError EInvalidData else
  match get_n 4 body with
  | None => DPanic
  | Some (flags, b1) =>
  match get_n 4 b1 with
  | None => DPanic
  | Some (exp, b2) =>
  match split_to (h_keylen h) b2 with
  | None => DPanic
  | Some (key, b3) =>
  match split_to vlen b3 with
  | None => DPanic
  | Some (value, _) =>
      let op := h_opcode h in
      if op =? cmd_Set then DFrame (ReqSet VSet h flags exp key value)
      else if op =? cmd_SetQuiet then DFrame (ReqSet VSetQ h flags exp key value)
      else if op =? cmd_Add then DFrame (ReqSet VAdd h flags exp key value)
      else if op =? cmd_AddQuiet then DFrame (ReqSet VAddQ h flags exp key value)
      else if op =? cmd_Replace then DFrame (ReqSet VReplace h flags exp key value)
      else if op =? cmd_ReplaceQuiet then DFrame (ReqSet VReplaceQ h flags exp key value)
      else DError EInvalidData
  end end end end.

Definition is_one_of (op : N) (l : list N) : bool := existsb (N.eqb op) l.

(* the dispatch of parse_request on the opcode *)
Definition parse_body (h : header) (body : bytes) : dres :=
  let op := h_opcode h in
  if negb (from_u8_is_some op) then DError EInvalidData
  else if is_one_of op [cmd_Get; cmd_GetQuiet; cmd_GetKeyQuiet; cmd_GetKey] then parse_get h body
  else if is_one_of op [cmd_Append; cmd_AppendQuiet; cmd_Prepend; cmd_PrependQuiet]
       then parse_append_prepend h body
  else if is_one_of op [cmd_Set; cmd_SetQuiet; cmd_Add; cmd_Replace; cmd_AddQuiet; cmd_ReplaceQuiet]
       then parse_set h body
  else if is_one_of op [cmd_Delete; cmd_DeleteQuiet] then parse_delete h body
  else if is_one_of op [cmd_Increment; cmd_Decrement; cmd_IncrementQuiet; cmd_DecrementQuiet]
       then parse_inc_dec h body
  else if is_one_of op [cmd_Noop; cmd_Quit; cmd_QuitQuiet; cmd_Stat; cmd_Version]
       then parse_header_only h body
  else if is_one_of op [cmd_Flush; cmd_FlushQuiet] then parse_flush h body
  else if is_one_of op [cmd_Touch; cmd_GetAndTouch; cmd_GetAndTouchQuiet; cmd_GetAndTouchKey;
                        cmd_GetAndTouchKeyQuiet; cmd_SaslAuth; cmd_SaslListMechs; cmd_SaslStep]
       then DFrame (ReqNotSupported h)
  else DError EInvalidData (* OpCodeMax *).

(* parse_request *)
Definition parse_request (c : codec) (src : bytes) : codec * bytes * dres :=
  match c_state c with
  | PNone => (c, src, DError EOther)
  | PHeaderParsed =>
      let h := c_hdr c in
      if c_limit c <? h_bodylen h then (init_parser c, src, DFrame (ReqTooLarge h))
      else if blen src <? h_bodylen h then (c, src, DError EOther)
      else
        match split_to (h_bodylen h) src with
        | None => (c, src, DPanic)
        | Some (body, rest) => (init_parser c, rest, parse_body h body)
        end
  end.

(* Decoder::decode, after the header has been parsed *)
Definition decode_body (c : codec) (src : bytes) : codec * bytes * dres :=
  let h := c_hdr c in
  if c_limit c <? h_bodylen h then (init_parser c, src, DFrame (ReqTooLarge h))
  else if blen src <? h_bodylen h then (c, src, DNeedMore)
  else parse_request c src.

(* Decoder::decode *)
Definition decode (c : codec) (src : bytes) : codec * bytes * dres :=
  match c_state c with
  | PNone =>
      if blen src <? HEADER_LEN then (c, src, DNeedMore)
      else
        match header_of_bytes src with
        | None => (c, src, DPanic)
        | Some (h, rest) =>
            let c1 := mkCodec h PHeaderParsed (c_limit c) in
            if negb (header_valid h) then (c1, rest, DError EInvalidData)
            else decode_body c1 rest
        end
  | PHeaderParsed => decode_body c src
  end.

(* ---- responses ---- *)

Record rheader := mkRHdr {
  rh_magic : N; rh_opcode : N; rh_keylen : N; rh_extlen : N; rh_dtype : N;
  rh_status : N; rh_bodylen : N; rh_opaque : N; rh_cas : N
}.

(* ResponseHeader::new *)
Definition new_rheader (opcode opaque : N) : rheader :=
  mkRHdr magic_Response opcode 0 0 0 0 0 opaque 0.

(* BinaryResponse: the variants that differ in what is written after the header *)
Inductive response :=
| RespError (h : rheader) (msg : bytes)
| RespGet (h : rheader) (flags : N) (key value : bytes)
| RespPlain (h : rheader)          (* Set/Add/Replace/Append/Prepend/Noop/Delete/Flush/Stats *)
| RespQuit (h : rheader)
| RespVersion (h : rheader) (v : bytes)
| RespCounter (h : rheader) (value : N).

Definition resp_header (r : response) : rheader :=
  match r with
  | RespError h _ | RespGet h _ _ _ | RespPlain h | RespQuit h | RespVersion h _ | RespCounter h _ => h
  end.

(* write_header_impl: put_uN truncate to the field width *)
Definition encode_rheader (h : rheader) : bytes :=
  [n2b (rh_magic h); n2b (rh_opcode h)] ++ be16 (rh_keylen h) ++
  [n2b (rh_extlen h); n2b (rh_dtype h)] ++ be16 (rh_status h) ++
  be32 (rh_bodylen h) ++ be32 (rh_opaque h) ++ be64 (rh_cas h).

(* encode_message / write_msg *)
Definition encode (r : response) : bytes :=
  encode_rheader (resp_header r) ++
  match r with
  | RespError _ msg => msg
  | RespGet _ flags key value => be32 flags ++ key ++ value
  | RespPlain _ | RespQuit _ => []
  | RespVersion _ v => v
  | RespCounter _ value => be64 value
  end.

(* storage_error_to_response *)
Definition error_response (e : cerr) (h : rheader) : response :=
  RespError (mkRHdr (rh_magic h) (rh_opcode h) (rh_keylen h) (rh_extlen h) (rh_dtype h)
               (cerr_code e) (blen (cerr_msg e)) (rh_opaque h) (rh_cas h))
            (cerr_msg e).
