(* Store.v — memory_store/store.rs (MemoryStore) and memcache/random_policy.rs
   (RandomPolicy), as sequential functions over an association list.

   The store is one record: the map, the global CAS counter, the clock, and —
   when the random eviction policy is configured — its limit, its accounted
   usage and the oracle naming the victims the random generator picks. *)
From MC Require Import Model.Base Model.Generated.

Record record := mkRec {
  r_ts : N;      (* header.timestamp *)
  r_cas : N;     (* header.cas *)
  r_flags : N;   (* header.flags *)
  r_ttl : N;     (* header.time_to_live *)
  r_val : bytes
}.

(* Record::len *)
Definition rec_len (r : record) : N := META_LEN + blen (r_val r).

Definition mem := list (bytes * record).

Fixpoint lookup (k : bytes) (m : mem) : option record :=
  match m with
  | [] => None
  | (k', r) :: t => if bytes_eqb k k' then Some r else lookup k t
  end.

Fixpoint remove (k : bytes) (m : mem) : mem :=
  match m with
  | [] => []
  | (k', r) :: t => if bytes_eqb k k' then remove k t else (k', r) :: remove k t
  end.

(* DashMap::insert: replace or add *)
Fixpoint insert (k : bytes) (r : record) (m : mem) : mem :=
  match m with
  | [] => [(k, r)]
  | (k', r') :: t => if bytes_eqb k k' then (k, r) :: t else (k', r') :: insert k r t
  end.

Definition total (m : mem) : N :=
  fold_right (fun kr acc => rec_len (snd kr) + acc) 0 m.

Inductive cerr := NotFound | KeyExists | ValueTooLarge | ArithOnNonNumeric | UnknownCommand.

Definition cerr_code (e : cerr) : N :=
  match e with
  | NotFound => err_NotFound_code
  | KeyExists => err_KeyExists_code
  | ValueTooLarge => err_ValueTooLarge_code
  | ArithOnNonNumeric => err_ArithOnNonNumeric_code
  | UnknownCommand => err_UnkownCommand_code
  end.

Definition cerr_msg (e : cerr) : bytes :=
  match e with
  | NotFound => err_NotFound_msg
  | KeyExists => err_KeyExists_msg
  | ValueTooLarge => err_ValueTooLarge_msg
  | ArithOnNonNumeric => err_ArithOnNonNumeric_msg
  | UnknownCommand => err_UnkownCommand_msg
  end.

Inductive result (A : Type) := ROk (a : A) | RErr (e : cerr).
Arguments ROk {A} a.
Arguments RErr {A} e.

Record store := mkStore {
  s_mem : mem;
  s_cas : N;                 (* MemoryStore::cas_id *)
  s_now : N;                 (* timer.timestamp() *)
  s_limit : option N;        (* Some L: RandomPolicy with memory_limit L *)
  s_usage : N;               (* RandomPolicy::memory_usage *)
  s_oracle : list bytes      (* victims the random generator will pick *)
}.

Definition init_store (limit : option N) : store :=
  mkStore [] 1 0 limit 0 [].

Definition with_mem (s : store) (m : mem) : store :=
  mkStore m (s_cas s) (s_now s) (s_limit s) (s_usage s) (s_oracle s).
Definition with_usage (s : store) (u : N) : store :=
  mkStore (s_mem s) (s_cas s) (s_now s) (s_limit s) u (s_oracle s).
Definition with_oracle (s : store) (o : list bytes) : store :=
  mkStore (s_mem s) (s_cas s) (s_now s) (s_limit s) (s_usage s) o.
Definition with_now (s : store) (t : N) : store :=
  mkStore (s_mem s) (s_cas s) t (s_limit s) (s_usage s) (s_oracle s).

(* AtomicU64::fetch_sub / fetch_add wrap *)
Definition sub64w (a b : N) : N := (a + two64 - b mod two64) mod two64.
Definition add64w (a b : N) : N := (a + b) mod two64.

(* RandomPolicy::decr_mem_usage (no-op without a policy) *)
Definition decr_usage (s : store) (n : N) : store :=
  match s_limit s with
  | Some _ => with_usage s (sub64w (s_usage s) n)
  | None => s
  end.

(* MemoryStore::get_cas_id *)
Definition next_cas (s : store) : N * store :=
  (s_cas s, mkStore (s_mem s) (add64w (s_cas s) 1) (s_now s) (s_limit s) (s_usage s) (s_oracle s)).

(* record is expired at time [now] (check_if_expired's test) *)
Definition expired (now : N) (r : record) : bool :=
  negb (r_ttl r =? 0) && (r_ts r + r_ttl r <=? now).

(* Cache::get through the policy: get_by_key, then check_if_expired which
   removes the expired record (and, under the policy, un-accounts it) *)
Definition get (k : bytes) (s : store) : store * result record :=
  match lookup k (s_mem s) with
  | None => (s, RErr NotFound)
  | Some r =>
      if expired (s_now s) r
      then (decr_usage (with_mem s (remove k (s_mem s))) (rec_len r), RErr NotFound)
      else (s, ROk r)
  end.

(* MemoryStore::set *)
Definition inner_set (k : bytes) (r : record) (s : store) : store * result N :=
  if 0 <? r_cas r then
    match lookup k (s_mem s) with
    | Some old =>
        if r_cas old =? r_cas r then
          let (c, s1) := next_cas s in
          (with_mem s1 (insert k (mkRec (s_now s) c (r_flags r) (r_ttl r) (r_val r)) (s_mem s1)), ROk c)
        else (s, RErr KeyExists)
    | None =>
        let c := next_client_cas (r_cas r) in
        (with_mem s (insert k (mkRec (s_now s) c (r_flags r) (r_ttl r) (r_val r)) (s_mem s)), ROk c)
    end
  else
    let (c, s1) := next_cas s in
    (with_mem s1 (insert k (mkRec (s_now s) c (r_flags r) (r_ttl r) (r_val r)) (s_mem s1)), ROk c).

(* the victim the eviction loop removes: the oracle's choice when it names a
   stored key, otherwise the first stored key (the oracle is arbitrary) *)
Definition pick_victim (o : list bytes) (m : mem) : option (bytes * list bytes) :=
  match m with
  | [] => None
  | (k0, _) :: _ =>
      match o with
      | v :: o' => match lookup v m with Some _ => Some (v, o') | None => Some (k0, o') end
      | [] => Some (k0, [])
      end
  end.

(* RandomPolicy::evict_while_over_limit; fuel = number of records + 1 *)
Fixpoint evict (fuel : nat) (limit : N) (s : store) : store :=
  match fuel with
  | O => s
  | S f =>
      if limit <? s_usage s then
        match pick_victim (s_oracle s) (s_mem s) with
        | None => s
        | Some (v, o') =>
            match lookup v (s_mem s) with
            | Some r =>
                evict f limit
                  (with_usage (with_oracle (with_mem s (remove v (s_mem s))) o')
                     (sub64w (s_usage s) (rec_len r)))
            | None => s
            end
        end
      else s
  end.

(* Cache::set through the policy: evict; fetch_add(len); store; then fetch_sub of
   what the store reports — the size of the record it replaced (single-threaded:
   the record under the key just before the call) or, when it refuses, len again.
   On a u64 counter adding and subtracting the same len is the identity, so the
   refusal leaves the usage as it was; Model/PolConc.v has the individual steps. *)
Definition set (k : bytes) (r : record) (s : store) : store * result N :=
  match s_limit s with
  | None => inner_set k r s
  | Some limit =>
      let s1 := evict (S (length (s_mem s))) limit s in
      let replaced := match lookup k (s_mem s1) with Some old => rec_len old | None => 0 end in
      let (s2, res) := inner_set k r s1 in
      match res with
      | ROk c => (with_usage s2 (sub64w (add64w (s_usage s2) (rec_len r)) replaced), ROk c)
      | RErr e => (s2, RErr e)
      end
  end.

(* Cache::delete (does not look at expiry) *)
Definition delete (k : bytes) (cas : N) (s : store) : store * result record :=
  match lookup k (s_mem s) with
  | None => (s, RErr NotFound)
  | Some r =>
      if (cas =? 0) || (r_cas r =? cas)
      then (decr_usage (with_mem s (remove k (s_mem s))) (rec_len r), ROk r)
      else (s, RErr KeyExists)
  end.

(* MemoryStore::flush's alter_all closure *)
Definition flush_record (now delay : N) (r : record) : record :=
  if (r_ttl r =? 0) || (now + delay <? r_ts r + r_ttl r)
  then mkRec now (r_cas r) (r_flags r) delay (r_val r)
  else r.

(* Cache::flush through the policy: a delayed flush re-dates; an immediate one
   removes record by record through remove_if, un-accounting each (its scan accepts
   every key: what the oracle holds for it is skipped) *)
Definition flush (delay : N) (s : store) : store :=
  if 0 <? delay then
    with_mem s (map (fun kr => (fst kr, flush_record (s_now s) delay (snd kr))) (s_mem s))
  else
    match s_limit s with
    | Some _ =>
        with_oracle
          (with_usage (with_mem s [])
             (fold_left (fun u kr => sub64w u (rec_len (snd kr))) (s_mem s) (s_usage s)))
          (skipn (length (s_mem s)) (s_oracle s))
    | None => with_mem s []
    end.
